(* L7 / Dag: executable model of omega/symbolic/codegen.dumps_bdd_as_code.

   The BDD manager is seen through exactly the interface the code uses:
   for a reference u:  int(u)  (the key, an integer),  u.var is None
   (terminal),  u.negated  (complemented edge),  bdd.succ(u) = (level, low,
   high)  (successors of the REGULAR node, as references),  and
   bdd._add_int(key)  (the reference back from its key).  A [dag] maps keys
   to that information.  In dd.autoref the key of a complemented reference is
   the negative of the node's number; in dd.cudd it is the pointer with the
   low bit set: the model does not assume either, a reference and its
   complement are simply two keys.

   The emitted text is modelled as a straight-line program AST ([stmt]) with
   an evaluator that fails on a latch that is used before it is assigned or
   assigned twice.  No proofs here. *)
From Coq Require Import List Bool Arith ZArith.
Import ListNotations.
From Omega Require Import L7Codegen.Pred.

Record info := mk_info {
  i_term : bool;     (* u.var is None *)
  i_neg : bool;      (* u.negated *)
  i_level : nat;     (* bdd.succ(u)[0] *)
  i_var : nat;       (* input bit tested by the node (renaming[node.var]) *)
  i_low : Z;         (* int(bdd.succ(u)[1]) *)
  i_high : Z }.      (* int(bdd.succ(u)[2]) *)

Definition dag := list (Z * info).

Fixpoint find_info (d : dag) (u : Z) : option info :=
  match d with
  | [] => None
  | (k, i) :: r => if Z.eqb k u then Some i else find_info r u
  end.

(* --- meaning of a reference (the function the BDD denotes) -------------- *)
(* value of the regular node below a non-terminal reference, given the value
   of references *)
Definition node_val (a : asg) (i : info) (val : Z -> bool) : bool :=
  if get a (i_var i) then val (i_high i) else val (i_low i).

Fixpoint ref_val (fuel : nat) (d : dag) (a : asg) (u : Z) : bool :=
  match fuel with
  | O => false
  | S f =>
      match find_info d u with
      | None => false
      | Some i =>
          xorb (i_neg i)
               (if i_term i then true else node_val a i (ref_val f d a))
      end
  end.

(* --- the program AST ------------------------------------------------------ *)
Inductive latch := LTrue | LName (k : Z).         (* `True` | `latch_<k>` *)
Record lref := mk_ref { r_neg : bool; r_latch : latch }.   (* X | (not X) *)

Inductive stmt :=
| SComment (level : nat)                    (* # level: <level> *)
| SLatch (k : Z) (bit : nat) (hi lo : lref) (* latch_k = ((bit and hi) or ((not bit) and lo)) *)
| SOut (name : nat) (r : lref).             (* out_bits["name"] = r *)

Record state := mk_state { st_latches : list (Z * bool); st_outs : list (nat * bool) }.

Fixpoint find_latch (l : list (Z * bool)) (k : Z) : option bool :=
  match l with
  | [] => None
  | (k', b) :: r => if Z.eqb k' k then Some b else find_latch r k
  end.

Definition eval_ref (s : state) (r : lref) : option bool :=
  match r_latch r with
  | LTrue => Some (xorb (r_neg r) true)
  | LName k =>
      match find_latch (st_latches s) k with
      | Some b => Some (xorb (r_neg r) b)
      | None => None                                   (* NameError *)
      end
  end.

(* Strict evaluation: both operands are evaluated, a latch must not already
   be assigned.  (Python's `and`/`or` are lazy and allow re-assignment, so
   every run that succeeds here succeeds there with the same values.) *)
Definition exec_stmt (a : asg) (s : state) (c : stmt) : option state :=
  match c with
  | SComment _ => Some s
  | SLatch k bit hi lo =>
      match find_latch (st_latches s) k, eval_ref s hi, eval_ref s lo with
      | None, Some h, Some l =>
          let v := (get a bit && h) || (negb (get a bit) && l) in
          Some (mk_state ((k, v) :: st_latches s) (st_outs s))
      | _, _, _ => None
      end
  | SOut name r =>
      match eval_ref s r with
      | Some b => Some (mk_state (st_latches s) (st_outs s ++ [(name, b)]))
      | None => None
      end
  end.

Fixpoint exec (a : asg) (s : state) (p : list stmt) : option state :=
  match p with
  | [] => Some s
  | c :: r => match exec_stmt a s c with Some s' => exec a s' r | None => None end
  end.

Definition run (a : asg) (p : list stmt) : option (list (nat * bool)) :=
  match exec a (mk_state [] []) p with
  | Some s => Some (st_outs s)
  | None => None
  end.

(* --- emission --------------------------------------------------------------- *)
(* layers: defaultdict(list), level -> list of keys in insertion order *)
Definition layers := list (nat * list Z).

Fixpoint layer_at (l : nat) (L : layers) : list Z :=
  match L with
  | [] => []
  | (l', us) :: r => if Nat.eqb l' l then us else layer_at l r
  end.

Fixpoint add_to_layer (l : nat) (u : Z) (L : layers) : layers :=
  match L with
  | [] => [(l, [u])]
  | (l', us) :: r =>
      if Nat.eqb l' l then (l', us ++ [u]) :: r else (l', us) :: add_to_layer l u r
  end.

Definition mem_z (u : Z) (us : list Z) : bool := existsb (Z.eqb u) us.

(* _register_nodes(u, layers, bdd) *)
Fixpoint register (fuel : nat) (d : dag) (u : Z) (L : layers) : layers :=
  match fuel with
  | O => L
  | S f =>
      match find_info d u with
      | None => L
      | Some i =>
          if i_term i then L
          else if mem_z u (layer_at (i_level i) L) then L
          else
            let L := add_to_layer (i_level i) u L in
            let L := register f d (i_low i) L in
            register f d (i_high i) L
      end
  end.

(* _latch_name / _latch_ref *)
Definition latch_name (d : dag) (u : Z) : latch :=
  match find_info d u with
  | Some i => if i_term i then LTrue else LName u
  | None => LName u
  end.
Definition latch_ref (d : dag) (u : Z) : lref :=
  mk_ref (match find_info d u with Some i => i_neg i | None => false end)
         (latch_name d u).

(* _collect_layers(roots, syntax, bdd) *)
Fixpoint collect_layers (fuel : nat) (d : dag) (roots : list (nat * Z))
    (L : layers) : layers * list stmt :=
  match roots with
  | [] => (L, [])
  | (name, u) :: r =>
      let L := register fuel d u L in
      let '(L', lines) := collect_layers fuel d r L in
      (L', SOut name (latch_ref d u) :: lines)
  end.

(* _dumps_node *)
Definition dumps_node (d : dag) (k : Z) : stmt :=
  match find_info d k with
  | Some i => SLatch k (i_var i) (latch_ref d (i_high i)) (latch_ref d (i_low i))
  | None => SComment 0
  end.

(* sorted(layers, reverse=True) *)
Fixpoint insert_desc (x : nat) (l : list nat) : list nat :=
  match l with
  | [] => [x]
  | y :: r => if Nat.leb y x then x :: l else y :: insert_desc x r
  end.
Definition sort_desc (l : list nat) : list nat := fold_right insert_desc [] l.

Definition dumps_layers (d : dag) (L : layers) : list stmt :=
  flat_map (fun l => SComment l :: map (dumps_node d) (layer_at l L))
           (sort_desc (map fst L)).

(* dumps_bdd_as_code(roots, bdd) *)
Definition dumps_bdd_as_code (fuel : nat) (d : dag) (roots : list (nat * Z))
    : list stmt :=
  let '(L, out_lines) := collect_layers fuel d roots [] in
  dumps_layers d L ++ out_lines.

(* latches assigned by a program, in order *)
Definition assigned (p : list stmt) : list Z :=
  flat_map (fun c => match c with SLatch k _ _ _ => [k] | _ => [] end) p.

(* --- well-formed DAGs ------------------------------------------------------- *)
(* every successor of a non-terminal reference is in the table; levels are
   below nlev and strictly increase along edges to non-terminals *)
Definition child_ok (d : dag) (nlev : nat) (i : info) (c : Z) : bool :=
  match find_info d c with
  | None => false
  | Some j => i_term j || (Nat.ltb (i_level i) (i_level j) && Nat.ltb (i_level j) nlev)
  end.
Definition wf_dag (d : dag) (nlev : nat) : bool :=
  forallb (fun e =>
    let i := snd e in
    i_term i || (Nat.ltb (i_level i) nlev
                 && child_ok d nlev i (i_low i) && child_ok d nlev i (i_high i))) d.
