(* C01 — the generalized Streett(1) winning region.  Statements only.
   Gr1Gen.* is generated from /repo/omega/games/gr1.py on every run.

   What is proved for ALL arenas (any numbers of constant / environment /
   component valuations, i.e. every valuation inside the bit ranges, hinted or
   not), all action pairs (also ones reading the other player's next values),
   all non-empty or empty lists of persistence (holds) and recurrence (goals)
   predicates, all four moore x plus_one modes:

     the region returned by the solver is exactly (as a set of valuations)
        nu Z. /\_j mu Y. \/_k nu X. (P_k /\ cpre X) \/ cpre Y \/ (R_j /\ cpre Z)
     where cpre is the set-level controllable predecessor of C11, and the
     three nested loops stop by convergence (fuel >= |valuations| suffices).

   The game-semantic reading of that fixpoint (existence of a winning
   strategy over infinite plays) is the classical GR(1) theorem; its safety
   half is C02 (closure, non-blocking), its liveness half is not mechanised
   here (see DESIGN §6 C01). *)
From Coq Require Import List Bool Arith Lia.
From Omega Require Import L4.Arena L4.Kleene L4.GameSpec L4.Mu L4.GR1Spec.
From OmegaGen Require Import FixpointGen Gr1Gen.
From OmegaGP Require Import FixpointProofs StreettProofs.

Section C01.
Variables nc nx ny : nat.
Variables E S : bdd.
Variables holds goals : list bdd.
Variables moore plus_one : bool.
Local Notation eqv := (eqv nc nx ny).
Local Notation NV := (NV nc nx ny).
Local Notation spec := (streett_spec nc nx ny moore plus_one E S holds goals).

Theorem C01_streett_fixpoint_exact : forall fuel, NV <= fuel ->
  eqv (fst (fst (Gr1Gen.solve_streett_game nc nx ny E S holds goals moore plus_one fuel)))
      spec.
Proof. exact (streett_fixpoint nc nx ny E S holds goals moore plus_one). Qed.

(* the specification means what it says: each level is the greatest / least
   fixed point of its (monotone) operator *)
Theorem C01_spec_outer_is_greatest_fixpoint :
  is_gfp nc nx ny (sZ_op nc nx ny moore plus_one E S holds goals) spec.
Proof. exact (streett_spec_is_gfp nc nx ny moore plus_one E S holds goals). Qed.

Theorem C01_spec_middle_is_least_fixpoint : forall g,
  is_lfp nc nx ny (sY_op nc nx ny moore plus_one E S holds g)
         (sY nc nx ny moore plus_one E S holds g).
Proof. exact (sY_is_lfp nc nx ny moore plus_one E S holds). Qed.

Theorem C01_spec_inner_is_greatest_fixpoint : forall P u,
  is_gfp nc nx ny (sX_op nc nx ny moore plus_one E S P u)
         (sX nc nx ny moore plus_one E S P u).
Proof. exact (sX_is_gfp nc nx ny moore plus_one E S). Qed.

End C01.

Print Assumptions C01_streett_fixpoint_exact.
Print Assumptions C01_spec_outer_is_greatest_fixpoint.
Print Assumptions C01_spec_middle_is_least_fixpoint.
Print Assumptions C01_spec_inner_is_greatest_fixpoint.
