"""C10 — enumeration returns exactly all minimum covers by primes."""
import concurrent.futures
import json
import os

from vlib import core, cover_inst as ci, cover_coq as cq, cover_bbgen
from vlib import cover_ccgen, cover_enumgen
from vlib.core import Broken, Mismatch, Failing
from oracles import cover_brute as brute

ID = 'C10'
LEVEL = 'proof'
THEORIES = ['theories/L5Cover/BoxesProofs.vo',
            'theories/L5Cover/MinCoverProofs.vo',
            'theories/L5Cover/CoverEnumProofs.vo',
            'theories/L5Cover/CoverEnumBounded4.vo',
            'theories/L5Cover/CoverEnumRefuted.vo',
            'theories/L5Cover/CyclicCoreOpt.vo',
            'theories/L5Cover/MinCoverFull.vo',
            'theories/L5Cover/CoverEnumLemmas.vo',
            'theories/L5Cover/CoverEnumStep.vo',
            'theories/L5Cover/CoverEnumExact.vo',
            'theories/L5Cover/MinCoverTotal.vo',
            'theories/L5Cover/CoverEnumOldLeaf.vo',
            'theories/L5Cover/CoverEnumRefutedTotal.vo',
            'theories/L5Cover/CoverEnumTotalLemmas.vo',
            'theories/L5Cover/CoverEnumTotal.vo']

HEADER = cq.HEADER + ('From Omega Require Import L5Cover.MinCover '
                      'L5Cover.CoverEnum L5Cover.CoverEnumOld.\n')
F2_KEY = 'enumerate_mincovers_below_assert'
CORES3 = [126, 189, 219, 231]


def prove(ctx):
    with ctx.coq_lock():
        cover_bbgen.ensure(ctx)
        cover_ccgen.ensure(ctx)
        cover_enumgen.ensure(ctx)
        ctx.prove('Properties/C10.v', timeout=900)
    ctx.trusted.append(cover_bbgen.TRUSTED)
    ctx.trusted.append(cover_ccgen.TRUSTED)
    ctx.trusted.append(cover_enumgen.TRUSTED)
    ctx.trusted.append(
        'tie H: what remains modelled by hand below the translated '
        'functions of omega/symbolic/cover_enum.py (L5Cover/CoverEnum.v, as '
        'repaired by fixes/F2.patch): the lattice formulas of cover.py, '
        'orthotopes, the meaning of the dd operations and of Python sets; '
        'on every run '
        'the set of covers returned by the real cover_enum.minimize is '
        'compared, inside Coq, with the verified reference '
        'all_min_covers_ref by the verified checker is_all_min_covers_b '
        '(theorem C10_checker_correct) and with the result of the model, and '
        'the cover of cover.minimize is checked to be a member')


def is_f2(err):
    """AssertionError raised by _enumerate_mincovers_below itself."""
    return (err['type'] == 'AssertionError'
            and err['frames'][-1][0] == '_enumerate_mincovers_below'
            and err['frames'][-1][2] == 'cover_enum.py')


def gen_instances(ctx):
    rng = ctx.rng
    out = []
    bk = lambda: rng.choice(['autoref', 'cudd'])
    cdir = os.path.join(core.VERIF, 'corpus', ID)
    if os.path.isdir(cdir):
        for fn in sorted(os.listdir(cdir)):
            if fn.endswith('.json'):
                d = json.load(open(os.path.join(cdir, fn)))
                out.append((d.get('kind', 'corpus'), d['instance']))
    ncare = 3 if ctx.thorough else 1
    for m in range(1, 255):
        out.append(('bool3', ci.boolean_instance(3, m, None, bk())))
        for _ in range(ncare):
            cm = rng.randrange(1, 256)
            fm = m & cm if rng.random() < 0.8 else m
            if fm == 0 or (fm == 255 and cm == 255):
                continue
            out.append(('bool3care', ci.boolean_instance(3, fm, cm, bk())))
    for _ in range(6000 if ctx.thorough else 80):
        out.append(('bool4', ci.boolean_instance(
            4, rng.randrange(1, 65535), None, bk())))
    for _ in range(300 if ctx.thorough else 24):
        c = rng.choice(CORES3)
        g = rng.randrange(0, 256)
        cm = None if rng.random() < 0.6 else (rng.randrange(1, 65536) | c)
        out.append(('core4', ci.boolean_instance(4, c | (g << 8), cm, bk())))
    decl = dict(x=(0, 2), y=(0, 2))
    hints = [(a, b) for a in range(3) for b in range(3)]
    masks = (range(1, 512) if ctx.thorough
             else [rng.randrange(1, 512) for _ in range(40)])
    for m in masks:
        f = [p for i, p in enumerate(hints) if m >> i & 1]
        out.append(('grid3x3', ci.instance(decl, f, hints, bk())))
    for _ in range(250 if ctx.thorough else 20):
        out.append(('random', ci.random_instance(rng, 48, backend=bk())))
    return out


def work(job):
    kind, inst = job
    res = dict(kind=kind)
    try:
        pb = ci.Problem(inst)
        res['limits'] = pb.limits
        res['names'] = pb.names
        res['support'] = pb.support_names()
    except ci.LimitsDiffer as e:
        res['infra'] = str(e)
        return res
    try:
        covers, xs, _ = ci.run_enum(inst)
        res['covers'] = covers
        res['xs'] = xs
    except Exception as e:
        res['error'] = ci.describe_exception(e)
    try:
        cover, xs, _ = ci.run_minimize(inst)
        res['cover'] = cover
        res['xs'] = xs
    except Exception as e:
        res['min_error'] = ci.describe_exception(e)
    return res


def run_all(jobs):
    n = min(core.NPROC, max(1, len(jobs)))
    with concurrent.futures.ProcessPoolExecutor(n) as ex:
        return list(ex.map(work, jobs, chunksize=max(1, len(jobs) // (n * 8))))


def coq_group(i, inst, res):
    names = res['names']
    idx = [names.index(x) for x in res['xs']]
    p = f'i{i}_'
    defs = cq.instance_defs(p, inst, res['limits'], idx)
    args = f'{p}rs {p}f {p}care'
    proj = lambda bs: [[b[j] for j in idx] for b in bs]
    fam = cq.families([proj(k) for k in res['covers']])
    defs += f'\nDefinition {p}R : list (list box) := {fam}.'
    terms = [f'is_all_min_covers_b {args} {p}R']
    keys = ['exact']
    if 'cover' in res:
        terms.append(f'anyb (same_setb {cq.boxes(proj(res["cover"]))}) {p}R')
        keys.append('member')
    terms.append(f'match enum_minimize {p}rs pick_first {p}f {p}care with '
                 f'inl M => same_familyb M {p}R | inr _ => false end')
    keys.append('model')
    terms.append(old_model_term(p))
    keys.append('old_f2')
    return (defs, terms), keys


def old_model_term(p):
    """Does the model of the UNREPAIRED code stop at assertion 419/425 ?
    (statistics only: which instances fail depends on the order in which
    dd enumerates a set.)"""
    return (f'is_f2_error (enum_minimize_unrepaired {p}rs pick_first '
            f'{p}f {p}care)')


def coq_group_failed(i, inst, res):
    names = res['names']
    idx = [names.index(x) for x in res['xs']]
    p = f'i{i}_'
    defs = cq.instance_defs(p, inst, res['limits'], idx)
    return (defs, [old_model_term(p)]), ['old_f2']


def correspond(ctx):
    jobs = gen_instances(ctx)
    ctx.log(f'{len(jobs)} instances; running the implementation')
    results = run_all(jobs)
    ctx.log('implementation done; evaluating in Coq')
    mism, groups, allkeys = [], [], []
    kinds, f2 = {}, {}
    multi = 0
    for i, ((kind, inst), res) in enumerate(zip(jobs, results)):
        kinds[kind] = kinds.get(kind, 0) + 1
        if 'infra' in res:
            raise Broken('infra', res['infra'])
        if 'error' in res:
            err = res['error']
            if is_f2(err):
                f2[kind] = f2.get(kind, 0) + 1
                mism.append(Mismatch(
                    'cover_enum.minimize raises AssertionError in '
                    f'_enumerate_mincovers_below (line {err["frames"][-1][1]})',
                    inst, impl=err, key=F2_KEY, property_fails=True))
                if 'xs' in res and sorted(res['xs']) == sorted(res['support']):
                    g, keys = coq_group_failed(i, inst, res)
                    groups.append(g)
                    allkeys += [(i, k) for k in keys]
            else:
                mism.append(Mismatch(
                    'cover_enum.minimize raised ' + err['type'] + ' in '
                    + err['frames'][-1][0], inst, impl=err,
                    property_fails=True))
            continue
        if sorted(res['xs']) != sorted(res['support']):
            mism.append(Mismatch(
                'lattice variables differ from the joint support of f, care',
                inst, impl=res['xs'], model=res['support']))
            continue
        if len(res['covers']) > 1:
            multi += 1
        g, keys = coq_group(i, inst, res)
        groups.append(g)
        allkeys += [(i, k) for k in keys]
    vals = ctx.eval_groups('corr', HEADER, groups,
                           shard=700 if ctx.thorough else 80, timeout=2400)
    oldstat = dict(both_fail=0, impl_only=0, model_only=0, neither=0)
    for (i, k), ok in zip(allkeys, vals):
        if k == 'old_f2':
            impl_f2 = 'error' in results[i]
            oldstat['both_fail' if impl_f2 and ok else 'impl_only' if impl_f2
                    else 'model_only' if ok else 'neither'] += 1
            continue
        if ok:
            continue
        kind, inst = jobs[i]
        res = results[i]
        if k == 'exact':
            mism.append(Mismatch(
                'the returned set of covers is not exactly the set of '
                'minimum covers by maximal boxes (verified checker '
                'is_all_min_covers_b)', inst, impl=res['covers'],
                property_fails=True))
        elif k == 'model':
            mism.append(Mismatch(
                'the returned set of covers differs from the result of the '
                'model enum_minimize', inst, impl=res['covers']))
        else:
            mism.append(Mismatch(
                'the cover of cover.minimize is not among the enumerated '
                'covers', inst, impl=dict(cover=res['cover'],
                                          covers=res['covers']),
                property_fails=True))
    ctx.cov['evaluations'] += len(vals)
    ctx.cov['distinct_nontrivial'] += multi
    ctx.cov['rule'] = (
        'cover_enum.minimize (and cover.minimize for membership) on: all 254 '
        'non-constant functions of 3 two-valued variables with care=TRUE and '
        'sampled care sets; sampled functions of 4 two-valued variables; the '
        '3-variable cyclic cores embedded in 4-variable functions; subsets of '
        'the 3x3 integer grid with care = type hints (thorough: all 511); '
        'random 1-4 variable integer instances in the three hint shapes. The '
        'returned set of sets of boxes is compared inside Coq (vm_compute) '
        'with the verified reference all_min_covers_ref. Instances raising '
        'AssertionError inside _enumerate_mincovers_below are finding F2. '
        'non-trivial = more than one minimum cover')
    ok_i = [i for i, r in enumerate(results) if 'covers' in r]
    ctx.cov['samples'] = [
        dict(kind=jobs[i][0], instance=jobs[i][1], covers=results[i]['covers'])
        for i in ok_i[:: max(1, len(ok_i) // 3)][:3]]
    ctx.cov['exhaustive'] = (
        'all functions of 3 two-valued variables (care=TRUE)'
        + ('; all subsets of the 3x3 grid' if ctx.thorough else ''))
    ctx.extra['correspondence'] = dict(
        instances=len(jobs), by_kind=kinds, comparisons=len(vals),
        mismatches=len([m for m in mism if m.key is None]),
        f2_class_instances=f2, unrepaired_model_vs_impl_f2=oldstat,
        backends=['autoref', 'cudd'])
    # exercise the search oracle
    orc = 0
    for (kind, inst), res in list(zip(jobs, results))[:: max(1, len(jobs) // 10)]:
        if 'covers' not in res:
            continue
        why = oracle_check(inst, res)
        orc += 1
        if why:
            mism.append(Mismatch('brute-force oracle: ' + why, inst,
                                 impl=res['covers'], property_fails=True))
    ctx.extra['oracle_crosschecked_instances'] = orc
    return mism


# ---------------------------------------------------------------- search
def oracle_check(inst, res):
    f = set(map(tuple, inst['f']))
    care = None if inst['care'] is None else set(map(tuple, inst['care']))
    k, sols = brute.min_covers(res['limits'], f, care)
    got = {frozenset(tuple(map(tuple, b)) for b in c) for c in res['covers']}
    if len(got) != len(res['covers']):
        return 'the same cover is returned twice'
    want = set(sols)
    if got != want:
        extra = got - want
        if extra:
            return (f'returned {sorted(next(iter(extra)))} which is not a '
                    f'minimum cover by maximal boxes (minimum size {k})')
        miss = want - got
        return f'minimum cover {sorted(next(iter(miss)))} is missing'
    if 'cover' in res:
        c = frozenset(tuple(map(tuple, b)) for b in res['cover'])
        if c not in got:
            return 'the cover of cover.minimize is not among them'
    return None


def failing_of(inst):
    res = work(('replay', inst))
    rc = './check C10 --replay <this file>'
    if 'error' in res:
        err = res['error']
        return Failing(
            'cover_enum.minimize raised ' + err['type'] + ' in '
            + err['frames'][-1][0] + f' (line {err["frames"][-1][1]})', inst,
            expected='the set of all minimum covers by maximal boxes',
            got=err, key=F2_KEY if is_f2(err) else None, replay_cmd=rc)
    if 'covers' not in res:
        return None
    why = oracle_check(inst, res)
    if why:
        return Failing('cover_enum.minimize: ' + why, inst,
                       expected='the set of all minimum covers by maximal '
                       'boxes', got=res['covers'], replay_cmd=rc)
    return None


def search(ctx, broken, mismatches):
    f2 = None
    for m in mismatches[:40]:
        if m.case is None:
            continue
        if m.key == F2_KEY and f2 is not None:
            continue
        f = failing_of(m.case)
        if f and f.key is None:
            return [f]
        if f and f2 is None:
            f2 = f
    if f2 is not None:
        # only the F2 class (dropped by run_check when it is a listed finding)
        return [f2]
    budget = 1500 if ctx.thorough else 300
    jobs = []
    for i in range(budget):
        r = ctx.rng.random()
        if r < 0.6:
            jobs.append(('s', ci.boolean_instance(
                4, ctx.rng.randrange(1, 65535), None)))
        elif r < 0.8:
            jobs.append(('s', ci.boolean_instance(
                3, ctx.rng.randrange(1, 255), ctx.rng.randrange(1, 256))))
        else:
            jobs.append(('s', ci.random_instance(ctx.rng, 36)))
    lims_ok = []
    for k, inst in jobs:
        lims, grid = ci.grid_of_decl(inst['decl'])
        if ci.valid(inst, grid):
            lims_ok.append((k, inst))
    results = run_all(lims_ok)
    for (k, inst), res in zip(lims_ok, results):
        if 'error' in res:
            if not is_f2(res['error']):
                return [failing_of(inst)]
            continue
        if 'covers' in res and oracle_check(inst, res):
            f = failing_of(inst)
            if f:
                return [f]
    return []


def replay(path):
    d = json.load(open(path))
    inst = d.get('input') or d.get('case')
    if inst is None:
        print('no input in replay file (broken obligation):',
              json.dumps(d.get('broken'))[:500])
        return 1
    f = failing_of(inst)
    if f:
        print('still fails:', f.what)
        return 1
    print('passes')
    return 0
