"""Real Streett/Rabin transducer construction + Coq terms of the hand model."""
from vlib import games, gr1games
from vlib.gr1games import QNAME


def _b(x):
    return 'true' if x else 'false'


def width_values(n):
    """number of bit-range values of an unsigned variable with dom (0, n-1)."""
    w = max((n - 1).bit_length(), 1)
    return 2 ** w


def build_streett(g, moore, plus_one, qinit):
    """Solve and construct with the REAL code.

    Returns None if construction is refused (AssertionError), else a dict
    with the extended arena and tables."""
    import omega.games.gr1 as gr1
    aut = gr1games.load(g)
    aut.moore, aut.plus_one, aut.qinit = moore, plus_one, qinit
    with games.quiet():
        z, yij, xijk = gr1.solve_streett_game(aut)
        try:
            gr1.make_streett_transducer(z, yij, xijk, aut)
        except AssertionError:
            return None
    return _extended(g, aut, 'streett', z_tab=None)


def build_rabin(g, moore, plus_one, qinit):
    import omega.games.gr1 as gr1
    aut = gr1games.load(g)
    aut.moore, aut.plus_one, aut.qinit = moore, plus_one, qinit
    with games.quiet():
        zk, yki, xkijr = gr1.solve_rabin_game(aut)
        try:
            zk_t = gr1games.tables(g['ar'], zk)
            yki_t = gr1games.tables(g['ar'], yki)
            gr1.make_rabin_transducer(zk, yki, xkijr, aut)
        except AssertionError:
            return None
    r = _extended(g, aut, 'rabin', z_tab=None)
    r['zk'], r['yki'] = zk_t, yki_t
    return r


def _extended(g, aut, kind, z_tab):
    """Arena over varlist['impl'] (component variables + memory)."""
    ar = g['ar']
    ear = games.Arena.__new__(games.Arena)
    ear.decl = ar.decl
    ear.backend = ar.backend
    ear.aut = aut
    saved = list(aut.varlist['sys'])
    aut.varlist['sys'] = list(aut.varlist['impl'])
    ear._km = None
    ear.refresh()
    aut.varlist['sys'] = saved
    ear.names['sys'] = list(aut.varlist['impl'])
    return dict(kind=kind, ear=ear, aut=aut,
                action=ear.table2(aut.action['impl']),
                init=ear.table1(aut.init['impl']))


def mem_sizes(g, kind):
    nP, nR = len(g['P']), len(g['R'])
    G = width_values(nR)
    if kind == 'streett':
        return 1, G
    H = width_values(nP + 1)
    return H, G


def coq_model_terms(prefix, g, kind, moore, plus_one, qinit):
    """Term of the GENERATED construction (gen/TransducerGen.v) applied to the
    generated solver's iterates, in the extended arena:
    option (action[impl], init[impl]); and the extended arena's sizes."""
    ar = g['ar']
    H, G = mem_sizes(g, kind)
    M = H * G
    n = f'{ar.nc} {ar.nx} {ar.ny}'
    ne = f'{ar.nc} {ar.nx} ({ar.ny} * {M})'
    fuel = ar.ns * ar.np + 2
    L = f'(lift {n} {M})'
    p = prefix
    mode = f'{_b(moore)} {_b(plus_one)}'
    game = (f'({L} {p}E) ({L} {p}S) ({L} {p}EI) ({L} {p}SI) '
            f'(map {L} {p}P) (map {L} {p}R) {mode} {QNAME[qinit]} {fuel}')
    if kind == 'streett':
        sol = (f'(Gr1Gen.solve_streett_game {n} {p}E {p}S {p}P {p}R {mode} '
               f'{fuel})')
        gen = (f'(fun sol => StreettGen.make_streett_transducer {n} {G} {game} '
               f'({L} (fst (fst sol))) (map (map {L}) (snd (fst sol))) '
               f'(map (map (map {L})) (snd sol))) {sol}')
    else:
        sol = (f'(Gr1Gen.solve_rabin_game {n} {p}E {p}S {p}P {p}R {mode} '
               f'{fuel})')
        gen = (f'(fun sol => RabinGen.make_rabin_transducer {n} {H} {G} {game} '
               f'(map {L} (fst (fst sol))) (map (map {L}) (snd (fst sol))) '
               f'(map (map (map (map {L}))) (snd sol))) {sol}')
    return gen, ne
