"""Maintenance helper (not used by the check): regenerate
coq/theories/L6Syntax/ParserEqs.v, the one-step unfolding equations of the
parser's mutual fixpoint, by copying the bodies out of Parser.v.  Each
equation is proved by `reflexivity`, so a wrong copy cannot compile.

usage: python3 tools/vlib/syntax_eqs.py   (run from /verif after editing
Parser.v, then rebuild theories/L6Syntax/ParserEqs.vo)
"""
import os
import re

HERE = os.path.dirname(os.path.abspath(__file__))
L6 = os.path.join(HERE, '..', '..', 'coq', 'theories', 'L6Syntax')

SIGS = {
    'p_expr': ('(m : N) (ts : list token)', 'm ts'),
    'p_nud': ('(ts : list token)', 'ts'),
    'p_led': ('(m : N) (l : tree) (ts : list token)', 'm l ts'),
    'p_junc': ('(j : tree) (ts : list token)', 'j ts'),
    'p_defs': ('(ts : list token)', 'ts'),
    'p_list': ('(ts : list token)', 'ts'),
    'p_units': ('(ts : list token)', 'ts'),
}
ORDER = ['p_expr', 'p_nud', 'p_led', 'p_junc', 'p_defs', 'p_list', 'p_units']

HEADER = '''(* L6 Syntax — one-step unfolding equations of the parser's mutual fixpoint
   (each by conversion).  The right-hand sides are the bodies of Parser.v,
   copied by tools/vlib/syntax_eqs.py, so that proofs never unfold the
   fixpoint itself. *)
From Coq Require Import List String NArith Bool.
From Omega Require Import L6Syntax.Tokens L6Syntax.Parser.
Import ListNotations.
Local Open Scope string_scope.
Local Open Scope N_scope.

Section Eqs.
Variable T : ptable.
Local Notation p_expr := (p_expr T).
Local Notation p_nud := (p_nud T).
Local Notation p_led := (p_led T).
Local Notation p_junc := (p_junc T).
Local Notation p_defs := (p_defs T).
Local Notation p_list := (p_list T).
Local Notation rule_bind := (rule_bind T).
Local Notation p_units := (p_units T).
'''


def generate():
    with open(os.path.join(L6, 'Parser.v')) as f:
        src = f.read().split('\n')
    starts = {}
    for i, line in enumerate(src):
        m = re.match(r'(?:Fixpoint|with) (p_\w+) \(fuel : nat\)', line)
        if m:
            starts[m.group(1)] = i
    stop = [i for i, l in enumerate(src)
            if l.startswith('Definition parse_fuel')][0]
    out = [HEADER]
    for k, name in enumerate(ORDER):
        end = starts[ORDER[k + 1]] if k + 1 < len(ORDER) else stop
        seg = '\n'.join(src[starts[name]:end])
        body = seg[seg.index('| S f =>') + len('| S f =>'):].rstrip()
        while True:       # comment blocks that introduce the next function
            b2 = re.sub(r'\n\s*\(\*(?:(?!\*\)).)*\*\)\s*$', '', body,
                        flags=re.S).rstrip()
            if b2 == body:
                break
            body = b2
        if body.endswith('.'):
            body = body[:-1].rstrip()
        assert body.endswith('end'), name
        body = body[:-3].rstrip()
        sig, args = SIGS[name]
        out.append(f'Lemma {name}_eq : forall (f : nat) {sig},\n'
                   f'  {name} (S f) {args} =\n{body}.\n'
                   'Proof. reflexivity. Qed.\n')
    out.append('End Eqs.\n')
    return '\n'.join(out)


if __name__ == '__main__':
    with open(os.path.join(L6, 'ParserEqs.v'), 'w') as f:
        f.write(generate())
