HOOK_COMMITS = []
NOTES = ('Technique: machine-checked proof in Coq 8.16.1. See DESIGN.md. '
         'Every check regenerates its model/tables from /repo, re-checks the '
         'theorems with coqc, runs the correspondence on fresh inputs and '
         'writes evidence/<id>.json.')
NOT_APPLICABLE = {}
CHECKS = {
 'C18': dict(
   design_ref='§6 C18',
   technique='Coq proofs over dom_to_width/_bitfield_limits translated from the sources (tie T); prime.py and the identifier helpers of syntax.py translated from the sources on every run and proved equal to the hand model (tie T, GenProofs/PrimeBridge.v); hand model of temporal.py type hints with vm_compute correspondence (tie H)',
   text=('dom_to_width / _bitfield_limits are translated from the sources on '
         'every run; for all lo <= hi (unbounded): every declaration is '
         'accepted, the hint lies within the reported limits, the value map '
         'is a bijection from the declared-width bit fields (with the '
         'constant sign bit for sign-definite hints) onto the limits '
         '(least/greatest), sign-bit shape exact, stored values read back. '
         'omega/symbolic/prime.py (17 functions: is_variable/is_constant, '
         'the six support classifiers, vars_in_support, is_state_predicate, '
         'is_proper_action, is_primed_state_predicate, is_action_of_player, '
         'support_issubset, prime, unprime, rename_variables, joint_support) '
         'and syntax.isprimed/prime/unprime/prime_vars/unprime_vars are '
         'translated to Gallina on every run (tools/py2coq_prime.py, '
         'fail-closed) and proved EQUAL to the hand-written model '
         '(C18_prime_model_is_translated_code: 18 equalities of functions by '
         'conversion, 4 at every argument), so a change of prime.py that '
         'changes a translated term breaks a proof. Unbounded theorems '
         '(about the model = the translated code): '
         'prime semantics, unprime(prime u) = u on state predicates, rigid '
         'constants untouched, renaming = value at the renamed assignment, '
         'support classification exact; support_issubset, '
         'is_primed_state_predicate, is_action_of_player, vars_in_support '
         '(its internal assertion never fires) and joint_support exact '
         '(stated about the generated functions); type-hint / type-action / '
         'implies_type_hints exact on representable assignments (hand '
         'model). The primitives (fol.support, fol.let, fol.vars) and the '
         'temporal.py model are tied to the real code exhaustively over a '
         'window of hints and on random automata (truth tables over all bit '
         'assignments), both back ends.'),
   note=('Trusted: Coq kernel+vm_compute; py2coq / py2coq_prime translators '
         '(fail-closed; declared_hint is hand-written glue; representation '
         'of L3Context/PyPrims.v: sets and dicts as duplicate-free lists, '
         'exceptions as None, u.support read at identifier level, '
         'aut.vars_of_players a parameter); dd by meaning; type-hint '
         'formula text -> BDD via C06 plus correspondence; bit = (variable, '
         'index) relies on injective naming (guard of fix F15). Not '
         'translated: print_support, pairwise_disjoint, pick. No axioms.')),
 'C07': dict(
   design_ref='§6 C07',
   technique='Coq proofs on a hand model of fol.Context / enumeration (tie H) + vm_compute correspondence and explicit-set oracle on both back ends; dd.pick_iter contract evaluated in Coq on the real cubes',
   text=('Unbounded theorems for all tables and predicates on a hand model '
         'of fol.Context / enumeration: bits<->values bijection; let '
         '(values), rename, exist, forall, assign_from, support, apply, '
         'replace_with_bdd equal the operations on the explicit set of '
         'representable assignments; _enumerate_int exact; pick_iter for any '
         'cubes meeting the measured dd contract is sound, complete, exactly '
         'once, pairwise incompatible, total when care contains the support; '
         'count = number of models over the care bits = number yielded '
         '(explicit and default care sets); pick exact; bit naming '
         'injective (old code refuted: F15). Every Context method of the '
         'anchor list is run on random contexts over both back ends and '
         'compared with the model in Coq and with explicit Python sets.'),
   note=('Trusted: Coq kernel+vm_compute; dd operations by meaning; the '
         'dd.pick_iter contract is a Section hypothesis, discharged on a '
         'concrete instance and evaluated in Coq on the real cubes of both '
         'back ends every run; copy compared by meaning only; sampled '
         'correspondence (sizes in evidence). Model describes the '
         'F15-repaired code. No axioms.')),
 'C11': dict(
   design_ref='§6 C11',
   technique='Coq proof over code translated from fixpoint.py (tie T) + vm_compute correspondence on random arenas',
   text=('step/attractor/trap/ee_image/descendants are translated from the '
         'current fixpoint.py into Gallina on every run; theorems proved for '
         'all arenas, all four modes: step = set-level controllable '
         'predecessor; attractor = least fixpoint (with/without inside); trap '
         '= greatest fixpoint started from TRUE; ee_image = exact successors; '
         'descendants inside constraint, closed, least; loops never exhaust '
         'fuel >= |valuations|. The dd operations are modelled by meaning, '
         'so the translated model is additionally run against the real '
         'code on random arenas over both back ends.'),
   note=('Trusted: Coq kernel+vm_compute; py2coq translator (fail-closed); '
         'meaning of dd operations (&,|,~,exist,forall,let/rename,==) as set '
         'operations; sample-based tie for dd semantics; preimage() not '
         'modelled. No axioms (Print Assumptions: closed).')),
 'C01': dict(
   design_ref='§6 C01',
   technique='Coq proof over solver code translated from gr1.py (tie T): returned region = mu-calculus fixpoint = exact winning region in game terms (determinacy with explicit strategies); vm_compute correspondence incl. all iterates',
   text=('solve_streett_game and _attractor_under_assumptions are translated '
         'from the current gr1.py into Gallina on every run; proved for all '
         'arenas, actions, liveness lists and the four modes: the returned '
         'region equals nu Z. /\\_j mu Y. \\/_k nu X. (P_k /\\ cpre X) \\/ cpre Y '
         '\\/ (R_j /\\ cpre Z) over the exact controllable predecessor of '
         'C11 (each level characterised as least/greatest fixpoint), loops '
         'terminate by convergence; AND the game-semantic statement, both '
         'directions (determinacy): for non-empty liveness lists the '
         'returned region holds at a state iff the component has a strategy '
         '(function of the history; Moore: blind to the next environment '
         'value) all of whose infinite plays keep its action as long as the '
         'mode obliges (strict / non-strict stepwise implication) and, if '
         'the environment keeps its action forever, satisfy persistence-or-'
         'recurrence; outside the region the environment has a strategy '
         'that defeats every play (winning strategy from the ranks of the '
         'fixpoint; environment strategy = Rabin(1) strategy of the dual '
         'game). The translated model is run against the real solver '
         '(region and all iterates, both back ends, all bit-range '
         'valuations).'),
   note=('Trusted: Coq kernel+vm_compute; py2coq translator; dd operations '
         'modelled by meaning; liveness predicates read at state valuations. '
         'Axioms: the game-semantic theorems depend on '
         'Classical_Prop.classic (standard library); the fixpoint theorems '
         'are closed.')),
 'C03': dict(
   design_ref='§6 C03',
   technique='Coq proof over is_realizable/_make_init translated from gr1.py (tie T) + vm_compute correspondence over 4 qinit x 2 plus_one',
   text=('is_realizable and _make_init are translated every run; proved: '
         'verdict = the documented quantified formula for each qinit form and '
         'causality mode, None exactly when the side condition fails; '
         'init[impl] = form predicate /\\ internal init, refused iff empty; '
         'admitted states meet SysInit and are winning when EnvInit holds; '
         'verdict true => init synthesis succeeds; and for the translated '
         'Streett(1) construction applied to the translated solver: verdict '
         'true and a non-empty winning region => the construction succeeds '
         '(none of its refusals fires; uses C02 non-blocking), and the same '
         'for the translated Rabin(1) construction (a winning state lies in '
         'a trap of its own level, where the action allows a step). The winning '
         'region is exact by C01/C04 (determinacy). Real code compared on '
         'random games/inits incl. transducer construction success.'),
   note=('Trusted: as C01. The winning region is a parameter of these '
         'theorems (its exactness is C01/C04). No axioms.')),
 'C04': dict(
   design_ref='§6 C04',
   technique='Coq proof: translated Rabin solver = mu-calculus fixpoint = exact winning region in game terms (explicit strategies, determinacy); Streett/Rabin duality both ways via complement-swap bijection; correspondence + real-code duality check',
   text=('solve_rabin_game/_cycle_inside/_attractor_inside translated every '
         'run; proved for all arenas and modes: last iterate = mu Z. \\/_k nu '
         'Y. /\\_j mu X. (cpre X \\/ R_j) /\\ cpre Y /\\ (cpre Z \\/ P_k); and the '
         'full duality: the Streett(1) region (spec and generated solver) is '
         'the complement of the opponent Rabin(1) region for complemented '
         'liveness, swapped roles, Moore<->Mealy, strict<->non-strict, and '
         'its converse (complement of the Rabin(1) region = opponent '
         'Streett(1) region); AND the game-semantic statement, both '
         'directions: the last iterate holds at a state iff the component '
         'has a strategy all of whose plays keep its action as the mode '
         'obliges and satisfy persistence-and-recurrence when the '
         'environment keeps its action; outside, the environment has a '
         'strategy defeating every play.'),
   note=('Trusted: as C01. Axioms: the game-semantic theorems depend on '
         'Classical_Prop.classic; fixpoint and duality theorems are closed.')),
 'C02': dict(
   design_ref='§6 C02',
   technique='Coq proofs about make_streett_transducer translated from gr1.py on every run (tie T; proved equal to a structured model) + exhaustive truth-table correspondence for the memory layout and refusals + closed-loop search',
   text=('make_streett_transducer is translated from the current gr1.py '
         'on every run (like the solver, _controllable_action, _make_init, '
         'is_realizable) and proved EQUAL, by conversion, to a structured '
         'Gallina model (rho_1, rho_2, rho_3 named) composed with the '
         'generated is_realizable/_make_init and the refusal conditions; '
         'proved for '
         'arbitrary iterates, all modes: every allowed step satisfies the '
         'specified component action under the mode causality rule; Moore '
         'implementations do not depend on next environment values; the goal '
         'counter stays in range when the environment keeps its action; '
         'initial states via C03; and, for the model composed with the '
         'generated solver, ABSENCE OF BLOCKING at every winning valuation '
         'with the counter in range (per the Mealy/Moore quantifier order), '
         'via the onion structure of the recorded iterates; and CLOSURE: '
         'every allowed step in which the environment keeps its action '
         'leads to a winning valuation, hence every reachable state is '
         'winning (induction over the behaviour); and LIVENESS: every '
         'infinite closed-loop behaviour in which the environment keeps its '
         'action satisfies "some persistence predicate from some point on, or '
         'every recurrence predicate infinitely often" (step classification + '
         'rank argument; uses Classical_Prop.classic). All clauses of C02 are '
         'thus proved for the model; the real implementation is additionally '
         'analysed in closed loop (reachability, blocking, fair cycles) on '
         'every run. What is compared rather than translated is the arena '
         '(layout of the memory variable in the component valuations): the '
         'complete truth tables of action[impl]/init[impl] and the refusals '
         '(AssertionError <-> None) of the real construction are compared '
         'with the translated one evaluated in Coq.'),
   note=('Trusted: Coq kernel+vm_compute; py2coq/py2coq_tdc translators '
         '(fail-closed; automaton book-keeping calls skipped and listed); '
         'memory layout tied by sampled correspondence (tables exhaustive '
         'per game); dd by meaning. Axioms: C02_liveness depends on '
         'Classical_Prop.classic (standard library); every other theorem is '
         'closed under the global context.')),
 'C05': dict(
   design_ref='§6 C05',
   technique='Coq proofs about make_rabin_transducer translated from gr1.py on every run (tie T; proved equal to a structured model) composed with the translated solve_rabin_game: refinement, Moore independence, memory ranges, closure of the winning region, liveness of every infinite behaviour; two machine-checked refutation witnesses for non-blocking (known findings F3, F12) and the proof that the model blocks ONLY in these two classes; correspondence + closed-loop search',
   text=('make_rabin_transducer is translated from the current gr1.py on '
         'every run and proved equal to a structured Gallina model over the '
         'translated _controllable_action/step/_make_init/solver; proved for '
         'arbitrary iterates: every allowed step satisfies the specified '
         'component action under the mode causality rule; Moore '
         'implementations do not depend on next environment values; both '
         'memory variables stay in range. Proved for the model composed with '
         'the GENERATED solve_rabin_game (loop invariants give the structure '
         'of zk, yki, xkijr; all four modes, fuel >= number of valuations): '
         'whenever the environment keeps its action every allowed step, from '
         'any valuation and memory, lands in the winning region, so every '
         'reachable state is winning (C05_region_closed, '
         'C05_reachable_states_winning); every infinite closed-loop behaviour '
         'in which the environment keeps its action eventually stays inside '
         'one persistence predicate and visits every recurrence predicate '
         'infinitely often, for any initial memory (C05_liveness). Absence of '
         'blocking is REFUTED on the faithful model by two kernel-checked '
         'witnesses (C05_refuted_dead_end = F3, C05_refuted_stale_hold = '
         'F12), reproduced on the real code and listed as known findings; '
         'and PROVED to occur only there (C05_blocks_only_in_known_classes, '
         'all four modes): at every valuation of the winning region, '
         'reachable or not, with _goal < number of goals and _hold <= number '
         'of persistence sets, the synthesized action allows a step (Mealy: '
         'for every next environment value; Moore: one choice for all) '
         'unless _hold = none, plus_one and the state is an environment dead '
         'end (cpre(FALSE), class F3), or _hold = i < number of persistence '
         'sets and the state is outside y_{k,i} of its own level k (class '
         'F12) - the classes the closed-loop search uses '
         '(C05_dead_end_in_extended_arena: the dead ends read in the '
         'extended arena are the same set). Proof: further loop invariants '
         'of the translated solver (z_k = z_{k-1} or some y_{k,i}; y_{k,i} '
         'inside cpre(y_{k,i}); every recorded attractor chain ends in '
         'y_{k,i} and grows only by cpre(previous) or the goal; '
         'GenProofs/RabinNB1-3.v). Every other blocking state, '
         'refinement/range failure or liveness-violating fair cycle found '
         'by the closed-loop search on the real implementation is reported '
         'as a violation.'),
   note=('Trusted: as C02. Known findings keyed rabin_blocks_env_deadend_plus_one '
         'and rabin_blocks_stale_hold in KNOWN_FINDINGS.txt. Axioms: '
         'C05_liveness depends on Classical_Prop.classic (standard library, '
         'through L4/LiveLemma.v); every other theorem is closed under the '
         'global context.')),
 'C12': dict(
   design_ref='§6 C12',
   technique='Coq invariant proof of a worklist model of _action_to_steps for any pick; verified checker evaluated in Coq on the graphs the real enumeration returns',
   text=('Hand-written Gallina model of games/enumeration._action_to_steps '
         'and the four _init_search variants, parametric in dd pick (only '
         '"returns a member" assumed). Proved by invariants for every action '
         'pair, pick and number of steps: nodes are distinct valuations, every '
         'edge is allowed by both actions, each processed node has exactly '
         'one out-edge per allowed next environment value and none for '
         'others; initial nodes follow each qinit pattern. The boolean '
         'checker of that statement is proved to characterise it and is '
         'evaluated inside Coq on graphs produced by the REAL enumeration '
         '(synthesized Streett implementations and hand-made actions, 4 '
         'qinit, Moore/Mealy, both back ends). Every infinite path of a '
         'checked graph is a behaviour of the two actions and so inherits '
         'whatever the implementation guarantees of all its behaviours '
         '(C12_paths_are_behaviours, C12_paths_inherit).'),
   note=('Trusted: Coq kernel+vm_compute; hand model tied by checking real '
         'outputs with the verified checker (sample); domain restriction: '
         'environment action independent of y\' (inputs the library rejects '
         'by its own assertion are counted as rejected). No axioms.')),
 'C16': dict(
   design_ref='§6 C16',
   technique='Coq theorems over a table-driven lexer and Pratt-parser model (tie G: tables regenerated from lexyacc.py, bitvector.py and doc.md every run; tie H: vm_compute correspondence with the real PLY parser, flatten and split_gr1)',
   text=('The precedence tuple, token rules (PLY order, spellings, '
         'normalisation), productions, opmap and the documentation precedence '
         'list and BNF are extracted with ast on every run. Proved by '
         'vm_compute over the generated tables (bounded): documented tokens '
         'have lexer spellings, documented order/associativity match the '
         'tuple, same shift/reduce decisions, normalised spellings give '
         'identical tokens, un-normalised synonyms share an opmap image. '
         'Proved for all inputs: the parser model returns the unique tree the '
         'table determines (operators, parentheses, terminals, ranges, ite, '
         'IF/THEN/ELSE, quantifiers); flatten/parse round trip at token and '
         'string level; blanks, newlines and comments do not matter; '
         'spellings never matter; split_gr1 returns exactly the four lists '
         'for any nesting and None outside the fragment. Every generated '
         'string is lexed and parsed by PLY and by the model and compared.'),
   note=('Trusted: Coq kernel+vm_compute; the fail-closed extractor '
         'syntax_tables.py; PLY LALR tables are NOT modelled (tied by '
         'correspondence only); \\S not modelled; LET, junction lists, <<>> '
         'and @ are in the model but outside prec_determines_tree; its '
         'converse is not proved. No axioms.')),
 'C13': dict(
   design_ref='§6 C13',
   technique='Coq proof over hand models of codegen.py (bit conversions, DAG-to-program emission with a strict evaluator, generated step), ast-extracted languages table, vm_compute correspondence by executing the generated Python on all states',
   text=('Proved for all inputs: int/bits round trip for every hint and every '
         'representable value (negative and Boolean included); the emitted '
         'straight-line program, run under a strict evaluator (no '
         'use-before-assign, no double assignment), leaves each root equal to '
         'the BDD value for every well-formed DAG with complemented edges; '
         'composed with C14: step returns exactly the requested outputs and '
         'they satisfy the relation with the state. Languages table (python/c '
         'define the same keys) by computation over the extracted table. '
         'Correspondence: raw dumps_bdd_as_code on random multi-root BDDs (both '
         'back ends) and full generated step executed on all bit-range '
         'states, compared in Coq with the model and with an explicit oracle.'),
   note=('Trusted: Coq kernel+vm_compute; meaning of the dd DAG accessors '
         '(re-checked per sampled DAG); Python exec of generated text; text '
         'rendering (separators/comments) outside the AST model; C target '
         'structural only. Model describes the F4/F7-repaired code. No axioms.')),
 'C14': dict(
   design_ref='§6 C14',
   technique='Coq proofs about extract_function/make_functions translated from functions.py on every run (tie T; proved Leibniz-equal to a structured model on BDDs-by-meaning) + vm_compute truth-table correspondence in three modes (CUDD restrict, no-CUDD on both back ends)',
   text=('Proved for every relation, output list, set-iteration order and '
         'every restrict meeting its two-clause contract: extracted functions '
         'depend on no chosen output bit; on every input with some satisfying '
         'output the functions values satisfy the relation (ignored outputs '
         'arbitrary); care = p xor n is exactly the solvable inputs before '
         'widening, widening only enlarges it, forced values are returned; '
         'the asserts of make_functions never fire. The model is the code: '
         'on every run extract_function and make_functions are translated '
         'from the current source (fail-closed, tools/py2coq_fn.py) and the '
         'generated terms are proved equal to the model for all arguments, '
         'the flag collecting the translated asserts equal to the model\'s, '
         'and the sets the two loops iterate over equal to the model\'s '
         '(C14_model_is_translated_code); the main theorems are restated '
         'about the generated definitions (C14_translated_*). Correspondence '
         'compares bits chosen, intermediate relations, care and function '
         'tables with the real code; restrict contract re-checked on every '
         'sampled call.'),
   note=('Trusted: Coq kernel+vm_compute; the translator py2coq_fn.py (sets '
         'as lists, dict as association list, KeyError of set.remove not '
         'modelled, assert messages and docstrings skipped: all listed as '
         'notes in gen/FunctionsGen.v); dd by meaning (what bdd.exist/let/'
         'support/apply denote is tied by the sampled correspondence only); '
         'cudd.restrict only through its contract; set iteration orders are '
         'arguments, observed through a logging proxy. No axioms.')),
 'C17': dict(
   design_ref='§6 C17',
   technique='Coq proofs for the omega side (parsers_agree, fetch_sound, frame/redeclare_guard/idempotent/history_independent, back-end independence under an explicit dd contract) + 4-configuration differential run against one model run',
   text=('Proved for all inputs: the recursive (bdd.Parser/BDDNodes, with '
         'memory buffers and registers) and iterative (bdd_iterative) prefix '
         'translators return the same node or both reject on every token '
         'list without @; both accept exactly the relational spec of '
         'well-formed prefix expressions; in every state reachable by any '
         'interleaving of cache/fetch/clear/collect/allocate events with '
         'adversarial identifier re-use, _fetch_expr returns only expressions '
         'denoting the live node (the model without re-validation is '
         'refuted); frame, redeclaration guard, idempotence and history '
         'independence of a context storing truth tables. PARTIAL: that '
         'dd.autoref and dd.cudd agree and that dd reorder/GC preserve '
         'meaning is outside the model; for that part the check is '
         'differential only (2 back ends x 2 translators vs one model run).'),
   note=('Trusted: Coq kernel+vm_compute; dd contract stated as an explicit '
         'hypothesis of C17_full; add_expr modelled on a formula fragment; '
         'to_expr by its declarations and the meaning of its result. No axioms.')),
 'C19': dict(
   design_ref='§6 C19',
   technique='Coq proofs on a hand model of steps.py (strings, dictionaries, arbitrary pick) + per-call correspondence in Coq on real gr1 transducers and assemblies',
   text=('Proved for all inputs and every pick: stepper step/init soundness '
         '(enabled -> returned values cover all implementation variables and '
         'satisfy the action; disabled -> error; missing support -> error); '
         'name-mangling round trip; local view equals its specification; '
         'assembly isolation (a component sees only variables it declares; '
         'collisions are signalled); every recorded assembly step satisfies '
         'every component (induction over the run). The F9 defect is kept as '
         'refuted regression Examples for the old _omit_prefix. Every '
         'init/step call of the real omega.steps on gr1 transducers and '
         'hand-made machines, and whole assembly runs with adversarial '
         'names, are compared with the model in Coq.'),
   note=('Trusted: Coq kernel+vm_compute; hand model tied by sampled '
         'correspondence; dd let/support/pick by meaning; EnumStrategyStepper '
         'and Component not modelled; model describes the F9-repaired code. '
         'No axioms.')),
 'C20': dict(
   design_ref='§6 C20',
   technique='Coq proof over a hand-written model of logicizer.py + syntax.conj/disj (tie H), vm_compute truth-table correspondence on exhaustive small and random labelled multigraphs',
   text=('For all graphs, label meanings, valuations and flags: _recurse_op '
         'denotes n-ary and/or (balanced split 2^((n-1).bit_length()-1), '
         'TRUE/FALSE absorption); the owner action equals edge step (or '
         'stutter) and next node label; init equals initial nodes and node '
         'labels; dead ends block; the other player is TRUE unless sys and '
         'receptive (exact receptive meaning proved); node variable range '
         'and ownership; runs equal labelled paths. Truth tables of the four '
         'BDDs of the real graph_to_logic compared in Coq on all multigraphs '
         'with <= 2 nodes / 4 edges (quick) or <= 3 nodes (thorough) plus '
         'random graphs, both back ends.'),
   note=('Trusted: Coq kernel+vm_compute; hand model tied by '
         'sampled/exhaustive correspondence; string->BDD (add_expr) and the '
         'meaning of the fixed label alphabet; dd. No axioms.')),
 'C15': dict(
   design_ref='§6 C15',
   technique='Coq proof over a hand-written Gallina model of past.py (tie H) + exhaustive-trace correspondence evaluated in Coq + Python tester solver on finite and ultimately periodic sequences',
   text=('Model of Nodes.*.flatten/_flatten_previous/_flatten_since/'
         '_flatten_until/translate (dict-overwrite testers, _aux numbering, '
         'repaired code). Proved for all Boolean past formulas, both until '
         'flags, all sequences and lengths, under "user variables are not '
         'generated names": the testers have exactly one solution and under '
         'it the translated formula equals the anchored past semantics at '
         'every position; generated names never collide. until=True over '
         'infinite sequences with fairness: uniqueness and correctness of '
         'every fair solution proved; existence for arbitrary sequences only '
         'under decidability (partial). Old code refuted (F5, F10) as '
         'regression Examples. Real translate+parser output compared with the '
         'model on all sequences of length 4/5 inside Coq and solved '
         'independently in Python.'),
   note=('Trusted: Coq kernel+vm_compute; strings modelled by the trees the '
         'real parser returns (PLY/astutils outside the model); conj by '
         'meaning; translate(debug=True), map_translate not modelled; '
         'formulas are a sample (sequences exhaustive). No axioms.')),
 'C06': dict(
   design_ref='§6 C06',
   technique='Coq proof over hand-written models of the bit-blaster (circuits for all widths, emitters with memory buffers, translator), generated operator tables (tie G), vm_compute truth-table correspondence exhaustive on the operator sweep, token-level comparison of emitted circuits',
   text=('Proved for all widths and bit values: ripple-carry adder/subtractor '
         '(exact with extension, modular without), comparators, sign '
         'extension, ite, negate_if, abs, shift-add multiplier, restoring '
         'divider (Z.quot/Z.rem when the divisor is non-zero) - all fully '
         'proved; the emitted prefix formulas with ?i memory registers '
         'evaluate to the circuits for all widths and start addresses; the '
         'translator theorem: for every expression of the documented '
         'first-order grammar (connectives, comparators, + - * / %, \\in, '
         'ite at both levels, LET, registered definitions, primes, '
         'quantifiers over exactly the representable values) compile = '
         'integer semantics unless a divisor is zero; acceptance is static '
         '(32-bit guard). Operator tables regenerated from bitvector.py and '
         'doc.md and proved to cover the documented grammar. Truth tables of '
         'the real Context.add_expr on both back ends compared in Coq: '
         'exhaustive sweep of 19 operator cases x all ordered pairs of hint '
         'shapes x widths, plus random formulas and a rejection stream.'),
   note=('Trusted: Coq kernel+vm_compute; symbolic/bdd.py prefix evaluator, '
         'dd, and the buffer threading inside Nodes.*.flatten (covered by the '
         'truth-table correspondence only); \\S, @, <<>>, strings, temporal '
         'operators and variable-shadowing definitions outside the model; '
         'model describes the F1/F6/F11-repaired code; one known finding '
         '(F14, definitions containing quantifiers are unusable). No axioms.')),
 'C08': dict(
   design_ref='§6 C08',
   technique='Coq proof over a model of the DNF printer + verified checker evaluated by vm_compute on the real output parsed by the real parser',
   text=('Proved for all inputs of the model: for any cover of f by '
         'implicants and every combination of show_dom/show_limits/marker '
         'line the printed formula equals f at every care point; clipping '
         'preserves the denotation inside care; no disjunct holds at a care '
         'point outside f and together they contain f; disjuncts non-empty. '
         'The text of the real to_expr/dumps_cover is parsed by the real '
         'parser (marker line read as TRUE), checked in Coq by the verified '
         'printed_ok and compared with the model printer applied to the real '
         'cover; _clip_subrange compared exhaustively on -3..3. printed_reparses '
         'is established per run with the real parser, not proved.'),
   note=('Trusted: Coq kernel+vm_compute; text layout; conversion of the '
         'parser tree to a Gallina literal; dd by meaning; inputs with f not '
         'implying care and show_dom are rejected by the library own assertion '
         'and counted as rejected. No axioms.')),
 'C09': dict(
   design_ref='§6 C09',
   technique='Coq proof: the model of cover.py returns a minimum cover by primes for all inputs and all pick functions (cyclic-core reduction preserves the minimum, branch and bound exact); verified sound-and-complete checker of "minimum cover by maximal boxes" evaluated by vm_compute on the real cover',
   text=('Unbounded: C09_full, for every instance and every pick function a '
         'cover returned by the model of cover.minimize (code as repaired by '
         'F13 and F16) is a duplicate-free minimum-cardinality cover of f by '
         'primes of f or outside care; proved from: the cyclic-core reduction '
         '(maximal ceilings, essential elements, maximal floors, iterated) '
         'loses no optimal cover and a cover of the core plus the essentials '
         'covers X (C09_cyclic_core_preserves_minimum); the invariants of '
         '_traverse/_branch: valid lower bound, returned cover costs at most '
         'the new upper bound, upper bound never increases and is afterwards '
         'at most path cost + any cover of the node, unchanged when nothing is '
         'returned (C09_branch_and_bound_invariants); independent-set lower '
         'bound and greedy upper bound valid. Totality (C09_total, '
         'C09_full_total): for every pick that returns an element of every '
         'non-empty set the model returns a cover on every instance (the '
         'cyclic-core fixpoint ends within 2(|X|+|Y|)+2 iterations, in the '
         'core every x has two covers so both branches stay feasible, '
         'recursion depth <= |Y|, no pick from an empty set). The checker is_min_prime_cover_b '
         'is sound and complete for the property statement on every finite '
         'instance; the reference returns a minimum cover; the literal '
         'quantified _floor/_contains_covered formulas equal joins/meets. The '
         'unrepaired leaf of _traverse is refuted (F16: 6-variable witness, '
         'model returns 4 primes, 3 suffice) as a regression Example. Bounded '
         '(vm_compute, independent evidence and totality): the model returns '
         'a minimum cover on all 2^8 x 2^8 (f, care) over three two-valued '
         'variables, all 2^16 four-variable functions with care=TRUE, all '
         'subsets of the 3x3 grid. Every real cover is validated by the '
         'verified checker in Coq; cyclic_core compared exactly with the '
         'model; cardinalities of model and real minimize compared.'),
   note=('Trusted: Coq kernel+vm_compute; hand model tied by cyclic_core '
         'equality, cardinality comparison and the checker; dd by meaning '
         '(the theorem holds for every pick function); model describes the '
         'F13- and F16-repaired code. No axioms.')),
 'C10': dict(
   design_ref='§6 C10',
   technique='Coq proof: whenever the model of cover_enum.py returns, its result is exactly the set of all minimum covers by primes, for all inputs and all pick functions (exhaustive branch and bound, reduction steps, enumerations); verified reference and checker of "exactly all minimum covers by primes" evaluated by vm_compute on the real result',
   text=('Unbounded: C10_enum_exact, for every instance and every pick '
         'function, whenever the model of the repaired cover_enum.minimize '
         'returns a set of covers it is exactly the set of all minimum covers '
         'of f by primes (members duplicate-free minimum covers by primes; '
         'every minimum cover by primes is a member up to order); proved from '
         'the invariants of _cyclic_core_fixpoint_recursive / '
         '_traverse_exhaustive / _branch_exhaustive (C10_ccfr_invariants: '
         'every minimum cover of a node within the upper bound is found; the '
         'upper bound stays the cost of an actual cover, so the unconditional '
         'leaf assignment only weakens pruning), the reduction step '
         '(maximal ceilings, floors, maximal floors, essentials) and the '
         'completeness of _enumerate_mincovers_below / _unfloor. The '
         'reference all_min_covers_ref returns exactly the set of minimum '
         'covers by primes and the checker characterises it (same size, '
         'non-empty, contains every minimum cover, unique). Bounded '
         '(vm_compute): the model returns (no assertion fails) and equals the '
         'reference on all non-empty f x all care over three variables and on '
         'all 65535 non-empty four-variable functions. Open: C10_total (the '
         'model returns on every instance with non-empty f: no assertion of '
         'the code fails, recursion within fuel) is stated, not proved; '
         'C10_full follows from it (C10_full_from_total); for f = FALSE the '
         'code asserts (C10_refuted_empty_f, outside the library '
         'precondition). The unrepaired code is refuted (F2 witness) as a '
         'regression. The real returned set of covers is compared exactly '
         'with the verified reference in Coq; membership of the '
         'cover.minimize cover checked.'),
   note=('Trusted: as C09; model describes the F2-repaired code; totality '
         'of the model (C10_total) stated, not proved beyond the bounded '
         'domains. No axioms.')),
}
