(* L2 / Accept: which formulas the translator accepts, decided from the
   declaration table alone (types and bit widths; no bit values).
   [cshape t env arith e] = None if bitvector.Nodes.*.flatten raises,
   Some SB if it returns a Boolean formula, Some (SZ n) if it returns a bit
   vector of width n.  AcceptProofs.v shows it agrees with [ceval]. *)
From Coq Require Import ZArith List Bool.
From Omega Require Import L1Circuits.Circuits L2Compile.Expr.
Import ListNotations.

Inductive shape := SB | SZ (n : nat).

Definition shape_of (c : cval) : shape :=
  match c with CB _ => SB | CZ l => SZ (length l) end.

Definition shenv := list (nat * (bool -> option shape)).

(* sign_extension's assertions on widths *)
Definition ext_ok_n (lx n : nat) : bool :=
  (2 <=? lx)%nat && (lx <=? n)%nat && (n <? ALU_BITWIDTH)%nat.

Definition equalize_ok_n (lx ly extend_by : nat) : bool :=
  let n := (Nat.max lx ly + extend_by)%nat in ext_ok_n lx n && ext_ok_n ly n.

Definition arith_shape (o : aop) (lx ly : nat) : option nat :=
  match o with
  | AAdd | ASub => if equalize_ok_n lx ly 1 then Some (S (Nat.max lx ly)) else None
  | AMul => if equalize_ok_n lx ly (Nat.min lx ly) then Some (lx + ly)%nat else None
  | ADiv | AMod =>
      let n := S (Nat.max lx ly) in
      if (2 <=? lx)%nat && (2 <=? ly)%nat && (2 * n <? ALU_BITWIDTH)%nat
      then Some (S n) else None
  end.

Definition cmp_ok_n (o : cmp) (lx ly : nat) : bool :=
  match o with
  | CEq | CNe => equalize_ok_n lx ly 0
  | _ => equalize_ok_n lx ly 1
  end.

Definition var_width (lo hi : Z) : nat :=
  let '(signed, w) := dom_to_width lo hi in if signed then w else S w.

Definition num_width (z : Z) : nat := S (Nat.max (bit_length z) 1).

Fixpoint cshape (t : table) (env : shenv) (arith : bool) (e : expr)
  {struct e} : option shape :=
  match e with
  | ETrue | EFalse => Some SB
  | ENum z => Some (SZ (num_width z))
  | EVar v =>
      match nth_error t v with
      | Some TBool => Some SB
      | Some (TInt lo hi) =>
          if (2 <=? var_width lo hi)%nat then Some (SZ (var_width lo hi)) else None
      | None => None
      end
  | EOp n => match lookup n env with Some f => f arith | None => None end
  | ENot a => match cshape t env arith a with Some SB => Some SB | _ => None end
  | EBin _ a b =>
      match cshape t env arith a, cshape t env arith b with
      | Some SB, Some SB => Some SB
      | _, _ => None
      end
  | ECmp o a b =>
      if arith then None
      else match cshape t env true a, cshape t env true b with
           | Some (SZ n), Some (SZ m) => if cmp_ok_n o n m then Some SB else None
           | Some SB, Some SB => match o with CEq | CNe => Some SB | _ => None end
           | _, _ => None
           end
  | EArith o a b =>
      if arith then
        match cshape t env true a, cshape t env true b with
        | Some (SZ n), Some (SZ m) =>
            match arith_shape o n m with Some k => Some (SZ k) | None => None end
        | _, _ => None
        end
      else None
  | EIn a lo hi =>
      match cshape t env false a with
      | Some (SZ n) =>
          if cmp_ok_n CLe (num_width lo) n && cmp_ok_n CLe n (num_width hi)
          then Some SB else None
      | _ => None
      end
  | EIte c a b =>
      match cshape t env false c, cshape t env arith a, cshape t env arith b with
      | Some SB, Some SB, Some SB => if arith then None else Some SB
      | Some SB, Some (SZ n), Some (SZ m) =>
          if arith then
            if equalize_ok_n n m 0 then Some (SZ (Nat.max n m)) else None
          else None
      | _, _, _ => None
      end
  | ELet n d body =>
      match lookup n env with
      | Some _ => None
      | None => cshape t ((n, fun a => cshape t env a d) :: env) arith body
      end
  | EPrime a => cshape t env arith a
  | EQuant _ v _ body =>
      if arith then None
      else match nth_error t v with
           | None => None
           | Some _ => match cshape t env false body with
                       | Some SB => Some SB
                       | _ => None
                       end
           end
  end.

(* a bit assignment that gives every declared variable its declared number
   of bits (both copies) *)
Fixpoint wf_benv (t : table) (be : benv) : Prop :=
  match t, be with
  | [], [] => True
  | ty :: t', (a, b) :: be' =>
      length a = nbits ty /\ length b = nbits ty /\ wf_benv t' be'
  | _, _ => False
  end.

Definition accepts (t : table) (e : expr) : bool :=
  match cshape t [] false e with Some SB => true | _ => false end.
