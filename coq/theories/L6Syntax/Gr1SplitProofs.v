(* L6 Syntax — proofs about the model of omega.gr1.split_gr1:
   split_gr1_spec (what is returned on the GR(1) fragment, any nesting) and
   its converse (whatever is accepted lies in the fragment). *)
From Coq Require Import List String Bool Lia.
From Omega Require Import L6Syntax.Tokens L6Syntax.TreeInd L6Syntax.Gr1Split
  L6Syntax.Gr1Spec.
Import ListNotations.
Local Open Scope string_scope.
Local Open Scope list_scope.

(* ---- has_op ---- *)
Lemma mem_str_existsb : forall o ops,
  mem_str o ops = existsb (fun op => mem_str o [op]) ops.
Proof.
  induction ops as [|a r IH]; simpl; [reflexivity|].
  rewrite IH, orb_false_r. reflexivity.
Qed.

Lemma existsb_orb : forall {A} (f g : A -> bool) l,
  existsb (fun x => f x || g x) l = existsb f l || existsb g l.
Proof.
  induction l as [|a r IH]; simpl; [reflexivity|]. rewrite IH.
  destruct (f a), (g a), (existsb f r), (existsb g r); reflexivity.
Qed.

Lemma existsb_swap : forall {A B} (f : A -> B -> bool) (la : list A) (lb : list B),
  existsb (fun a => existsb (fun b => f a b) lb) la
  = existsb (fun b => existsb (fun a => f a b) la) lb.
Proof.
  induction la as [|a r IH]; intros; simpl.
  - induction lb; simpl; auto.
  - rewrite IH. rewrite existsb_orb. reflexivity.
Qed.

Lemma existsb_const_false : forall {A} (l : list A), existsb (fun _ => false) l = false.
Proof. induction l; simpl; auto. Qed.

(* an operator list is searched operator by operator *)
Lemma has_op_existsb : forall ops t,
  has_op ops t = existsb (fun op => has_op [op] t) ops.
Proof.
  intros ops. induction t using tree_ind'; simpl.
  - rewrite existsb_const_false. reflexivity.
  - rewrite IHt, mem_str_existsb, <- existsb_orb. reflexivity.
  - rewrite IHt1, IHt2, mem_str_existsb, <- !existsb_orb. reflexivity.
  - rewrite mem_str_existsb.
    replace (existsb (has_op ops) args)
      with (existsb (fun op => existsb (has_op [op]) args) ops).
    + rewrite <- existsb_orb. reflexivity.
    + rewrite <- existsb_swap. induction H as [|x l Hx Hl IH]; simpl; [reflexivity|].
      rewrite Hx, IH. reflexivity.
  - rewrite existsb_const_false. reflexivity.
Qed.

Lemma state_no_box : forall t, is_state t -> has_op ["[]"] t = false.
Proof.
  unfold is_state. intros t H. rewrite has_op_existsb in H. simpl in H.
  destruct (has_op ["[]"] t); [discriminate | reflexivity].
Qed.
Lemma state_no_dia : forall t, is_state t -> has_op ["<>"] t = false.
Proof.
  unfold is_state. intros t H. rewrite has_op_existsb in H. simpl in H.
  destruct (has_op ["<>"] t); [rewrite orb_true_r in H; discriminate | reflexivity].
Qed.
Lemma state_no_next : forall t, is_state t -> has_op ["X"] t = false.
Proof.
  unfold is_state. intros t H. rewrite has_op_existsb in H. simpl in H.
  destruct (has_op ["X"] t); [rewrite !orb_true_r in H; discriminate | reflexivity].
Qed.
Lemma state_intro : forall t,
  has_op ["[]"] t = false -> has_op ["<>"] t = false -> has_op ["X"] t = false ->
  is_state t.
Proof.
  unfold is_state. intros t A B C. rewrite has_op_existsb. simpl. rewrite A, B, C. reflexivity.
Qed.
Lemma action_no_box : forall t, is_action t -> has_op ["[]"] t = false.
Proof.
  unfold is_action. intros t H. rewrite has_op_existsb in H. simpl in H.
  destruct (has_op ["[]"] t); [discriminate | reflexivity].
Qed.
Lemma action_no_dia : forall t, is_action t -> has_op ["<>"] t = false.
Proof.
  unfold is_action. intros t H. rewrite has_op_existsb in H. simpl in H.
  destruct (has_op ["<>"] t); [rewrite orb_true_r in H; discriminate | reflexivity].
Qed.

(* ---- flatten_op undoes any nesting ---- *)
Lemma flatten_op_leaf : forall op t, is_op t op = false -> flatten_op op t = [t].
Proof.
  intros op t H. destruct t; simpl; try reflexivity; unfold is_op in H; simpl in H;
    rewrite H; reflexivity.
Qed.

Lemma flatten_op_build : forall op n,
  Forall (fun t => is_op t op = false) (leaves n) ->
  flatten_op op (build op n) = leaves n.
Proof.
  induction n as [t|l IHl r IHr]; simpl; intros H.
  - inversion H; subst. apply flatten_op_leaf. assumption.
  - apply Forall_app in H. destruct H as [Hl Hr].
    rewrite String.eqb_refl, IHl, IHr by assumption. reflexivity.
Qed.

Lemma leaves_nmap : forall {A B} (f : A -> B) n, leaves (nmap f n) = map f (leaves n).
Proof.
  induction n; simpl; [reflexivity|]. rewrite IHn1, IHn2, map_app. reflexivity.
Qed.

(* ---- the three classes of conjuncts ---- *)
Lemma recurrence_items_ok : forall rs,
  Forall is_state rs -> split_recurrence_items (map rec_tree rs) = Some rs.
Proof.
  induction rs as [|r rs IH]; intros H; simpl; [reflexivity|].
  inversion H as [|? ? Hr Hrs]; subst. unfold is_state in Hr.
  unfold is_op, the_operand. simpl. rewrite Hr, (IH Hrs). reflexivity.
Qed.

Lemma rec_group_ok : forall rs,
  Forall is_state (leaves rs) ->
  split_recurrence (build "/\" (nmap rec_tree rs)) = Some (leaves rs).
Proof.
  intros rs H. unfold split_recurrence.
  rewrite flatten_op_build.
  - rewrite leaves_nmap. apply recurrence_items_ok. assumption.
  - rewrite leaves_nmap. apply Forall_forall. intros t Ht.
    apply in_map_iff in Ht. destruct Ht as [r [E _]]. subst. reflexivity.
Qed.

Lemma rec_group_operator : forall rs,
  operator_of (build "/\" (nmap rec_tree rs)) = Some "[]"
  \/ operator_of (build "/\" (nmap rec_tree rs)) = Some "/\".
Proof. destruct rs; simpl; auto. Qed.

Lemma liveness_items_ok : forall ds,
  Forall disjunct_ok ds ->
  split_liveness_items (map disjunct_tree ds)
  = Some (flat_map disj_recs ds, flat_map disj_perss ds).
Proof.
  induction ds as [|d ds IH]; intros H; simpl; [reflexivity|].
  inversion H as [|? ? Hd Hds]; subst. destruct d as [p|rs]; simpl in Hd |- *.
  - unfold is_state in Hd. unfold is_op, the_operand. simpl.
    rewrite Hd, (IH Hds). reflexivity.
  - rewrite (rec_group_ok rs Hd), (IH Hds).
    destruct (rec_group_operator rs) as [E|E]; rewrite E; reflexivity.
Qed.

Lemma has_box_rec_group : forall ops rs,
  mem_str "[]" ops = true -> has_op ops (build "/\" (nmap rec_tree rs)) = true.
Proof.
  intros ops. induction rs as [r|l IHl r IHr]; intros H; simpl.
  - rewrite H. reflexivity.
  - rewrite (IHl H), orb_true_r. reflexivity.
Qed.
Lemma has_dia_rec_group : forall ops rs,
  mem_str "<>" ops = true -> has_op ops (build "/\" (nmap rec_tree rs)) = true.
Proof.
  intros ops. induction rs as [r|l IHl r IHr]; intros H; simpl.
  - rewrite H. apply orb_true_r.
  - rewrite (IHl H), orb_true_r. reflexivity.
Qed.

Lemma has_box_live : forall ds, has_op ["[]"] (build "\/" (nmap disjunct_tree ds)) = true.
Proof.
  induction ds as [d|l IHl r IHr]; simpl.
  - destruct d as [p|rs]; simpl; [reflexivity|]. apply has_box_rec_group. reflexivity.
  - rewrite IHl. reflexivity.
Qed.
Lemma has_dia_live : forall ds, has_op ["<>"] (build "\/" (nmap disjunct_tree ds)) = true.
Proof.
  induction ds as [d|l IHl r IHr]; simpl.
  - destruct d as [p|rs]; simpl; [reflexivity|]. apply has_dia_rec_group. reflexivity.
  - rewrite IHl. reflexivity.
Qed.

Lemma disjunct_not_or : forall d, is_op (disjunct_tree d) "\/" = false.
Proof. destruct d as [p|rs]; [reflexivity|]. destruct rs; reflexivity. Qed.

Lemma live_flatten : forall ds,
  flatten_op "\/" (build "\/" (nmap disjunct_tree ds)) = map disjunct_tree (leaves ds).
Proof.
  intros ds. rewrite flatten_op_build; rewrite leaves_nmap; [reflexivity|].
  apply Forall_forall. intros t Ht. apply in_map_iff in Ht.
  destruct Ht as [d [E _]]. subst. apply disjunct_not_or.
Qed.

(* the loop of _temporal_to_canonical on conjuncts of the fragment *)
Lemma canon_items_ok : forall cs acc,
  Forall conjunct_ok cs ->
  canon_items (map conjunct_tree cs) acc = expected cs acc.
Proof.
  induction cs as [|c cs IH]; intros acc H; simpl; [reflexivity|].
  inversion H as [|? ? Hc Hcs]; subst. destruct c as [v|a|ds]; simpl in Hc |- *.
  - rewrite (state_no_box v Hc), (state_no_dia v Hc), (state_no_next v Hc). simpl.
    apply IH. assumption.
  - rewrite (action_no_dia a Hc). simpl.
    unfold split_always, is_op, the_operand. simpl. unfold is_action in Hc. rewrite Hc.
    apply IH. assumption.
  - rewrite has_box_live, has_dia_live. simpl.
    destruct (g_persistence acc); [|reflexivity].
    rewrite live_flatten, (liveness_items_ok _ Hc). apply IH. assumption.
Qed.

(* split_gr1_spec: on a conjunction, in ANY nesting of /\, of initial
   predicates, [] safety formulas and generalized Streett pairs (each a
   disjunction, in any nesting of \/, of <>[] p and of conjunctions, in any
   nesting, of []<> r), the splitter returns exactly what `expected` reads
   off the conjuncts from left to right. *)
Theorem split_gr1_spec : forall n : nest conjunct,
  Forall conjunct_ok (leaves n) ->
  Forall (fun c => is_op (conjunct_tree c) "/\" = false) (leaves n) ->
  temporal_to_canonical (build "/\" (nmap conjunct_tree n))
  = expected (leaves n) empty_parts.
Proof.
  intros n Hok Hleaf. unfold temporal_to_canonical.
  rewrite flatten_op_build; rewrite leaves_nmap.
  - apply canon_items_ok. assumption.
  - apply Forall_forall. intros t Ht. apply in_map_iff in Ht.
    destruct Ht as [c [E Hc]]. subst. rewrite Forall_forall in Hleaf. auto.
Qed.

(* ---- the four lists ---- *)
Lemma expected_nolive : forall cs acc,
  Forall (fun c => match c with CLive _ => False | _ => True end) cs ->
  expected cs acc
  = Some (mkParts (g_init acc ++ inits cs) (g_action acc ++ actions cs)
                  (g_recurrence acc) (g_persistence acc)).
Proof.
  induction cs as [|c cs IH]; intros acc H; simpl.
  - rewrite !app_nil_r. destruct acc; reflexivity.
  - inversion H as [|? ? Hc Hcs]; subst. destruct c as [v|a|ds]; simpl; [| |contradiction].
    + rewrite IH by assumption. simpl. rewrite <- app_assoc. reflexivity.
    + rewrite IH by assumption. simpl. rewrite <- app_assoc. reflexivity.
Qed.

Lemma nolive_lists : forall cs,
  Forall (fun c => match c with CLive _ => False | _ => True end) cs ->
  recurrences cs = [] /\ persistences cs = [].
Proof.
  induction cs as [|c cs IH]; intros H; simpl; [auto|].
  inversion H as [|? ? Hc Hcs]; subst. destruct (IH Hcs) as [A B].
  destruct c; simpl; try contradiction; auto.
Qed.

Lemma expected_lists : forall cs acc,
  order_ok cs -> g_persistence acc = [] ->
  expected cs acc
  = Some (mkParts (g_init acc ++ inits cs) (g_action acc ++ actions cs)
                  (g_recurrence acc ++ recurrences cs) (persistences cs)).
Proof.
  induction cs as [|c cs IH]; intros acc Ho Hp; simpl.
  - rewrite !app_nil_r. destruct acc; simpl in *; subst; reflexivity.
  - destruct c as [v|a|ds]; simpl in Ho |- *.
    + rewrite IH by assumption. simpl. rewrite <- app_assoc. reflexivity.
    + rewrite IH by assumption. simpl. rewrite <- app_assoc. reflexivity.
    + rewrite Hp. destruct (live_pers ds) as [|p ps] eqn:E.
      * rewrite IH by (assumption || reflexivity). simpl. rewrite <- app_assoc. reflexivity.
      * rewrite expected_nolive by assumption. destruct (nolive_lists _ Ho) as [A B].
        simpl. rewrite A, B, !app_nil_r. reflexivity.
Qed.

(* on a GR(1)-shaped conjunction with at most one generalized Streett pair
   carrying persistence formulas (and no pair after it), the splitter returns
   exactly the initial, safety, recurrence and persistence conjuncts *)
Theorem split_gr1_lists : forall n : nest conjunct,
  Forall conjunct_ok (leaves n) ->
  Forall (fun c => is_op (conjunct_tree c) "/\" = false) (leaves n) ->
  order_ok (leaves n) ->
  temporal_to_canonical (build "/\" (nmap conjunct_tree n))
  = Some (mkParts (inits (leaves n)) (actions (leaves n))
                  (recurrences (leaves n)) (persistences (leaves n))).
Proof.
  intros n H1 H2 H3. rewrite (split_gr1_spec n H1 H2).
  rewrite (expected_lists _ _ H3) by reflexivity. reflexivity.
Qed.

(* ---- converse: what the splitter accepts lies in the fragment ---- *)
Lemma is_op_true : forall t op, is_op t op = true -> operator_of t = Some op.
Proof.
  unfold is_op. intros t op H. destruct (operator_of t) as [o|]; [|discriminate].
  apply String.eqb_eq in H. subst. reflexivity.
Qed.
Lemma the_operand_some : forall t x, the_operand t = Some x -> operands t = [x].
Proof.
  unfold the_operand. intros t x H. destruct (operands t) as [|a [|b r]]; try discriminate.
  inversion H; subst. reflexivity.
Qed.

Lemma recurrence_complete : forall vs rs,
  split_recurrence_items vs = Some rs -> Forall rec_item vs.
Proof.
  induction vs as [|v vs IH]; intros rs H; simpl in H; [constructor|].
  destruct (is_op v "[]") eqn:E1; [|discriminate].
  destruct (the_operand v) as [w|] eqn:E2; [|discriminate].
  destruct (is_op w "<>") eqn:E3; [|discriminate].
  destruct (the_operand w) as [st|] eqn:E4; [|discriminate].
  destruct (has_op ["[]"; "<>"; "X"] st) eqn:E5; [discriminate|].
  destruct (split_recurrence_items vs) as [l|] eqn:E6; [|discriminate].
  constructor; [|eapply IH; reflexivity].
  exists w, st. unfold unary_app.
  auto using is_op_true, the_operand_some.
Qed.

Lemma liveness_complete : forall vs r,
  split_liveness_items vs = Some r -> Forall live_disjunct vs.
Proof.
  induction vs as [|v vs IH]; intros r H; simpl in H; [constructor|].
  destruct (operator_of v) as [op|] eqn:E0; [|discriminate].
  destruct (String.eqb op "<>") eqn:E1.
  - apply String.eqb_eq in E1. subst op.
    destruct (the_operand v) as [w|] eqn:E2; [|discriminate].
    destruct (is_op w "[]") eqn:E3; [|discriminate].
    destruct (the_operand w) as [st|] eqn:E4; [|discriminate].
    destruct (has_op ["[]"; "<>"; "X"] st) eqn:E5; [discriminate|].
    destruct (split_liveness_items vs) as [[rc ps]|] eqn:E6; [|discriminate].
    constructor; [|eapply IH; reflexivity].
    left. exists w, st. unfold unary_app.
    auto using is_op_true, the_operand_some.
  - destruct (String.eqb op "/\" || String.eqb op "[]") eqn:E2; [|discriminate].
    destruct (split_recurrence v) as [rc1|] eqn:E3; [|discriminate].
    destruct (split_liveness_items vs) as [[rc ps]|] eqn:E6; [|discriminate].
    constructor; [|eapply IH; reflexivity].
    right. split.
    + unfold is_op. rewrite E0. apply orb_prop in E2. tauto.
    + eapply recurrence_complete. exact E3.
Qed.

Lemma canon_complete : forall vs acc r,
  canon_items vs acc = Some r -> Forall in_fragment vs.
Proof.
  induction vs as [|v vs IH]; intros acc r H; simpl in H; [constructor|].
  destruct (has_op ["[]"] v) eqn:Eb; destruct (has_op ["<>"] v) eqn:Ed; simpl in H.
  - destruct (g_persistence acc); [|discriminate H].
    destruct (split_liveness_items (flatten_op "\/" v)) as [[rc ps]|] eqn:El; [|discriminate].
    constructor; [|eapply IH; exact H].
    right. right. eapply liveness_complete. exact El.
  - unfold split_always in H.
    destruct (is_op v "[]") eqn:E1; [|discriminate].
    destruct (the_operand v) as [a|] eqn:E2; [|discriminate].
    destruct (has_op ["[]"; "<>"] a) eqn:E3; [discriminate|].
    constructor; [|eapply IH; exact H].
    right. left. exists a. unfold unary_app, is_action.
    auto using is_op_true, the_operand_some.
  - discriminate.
  - destruct (has_op ["X"] v) eqn:Ex; [discriminate|].
    constructor; [|eapply IH; exact H].
    left. apply state_intro; assumption.
Qed.

(* whatever conjunction the splitter accepts consists of conjuncts of the
   fragment: outside the fragment the result is None (the code raises) *)
Theorem split_gr1_rejects_outside : forall t r,
  temporal_to_canonical t = Some r -> Forall in_fragment (flatten_op "/\" t).
Proof. intros t r H. eapply canon_complete. exact H. Qed.
