#!/bin/bash
# Re-confirm and re-run every stored seeded change (or those of the given
# property ids) from /verif/seeded/<id>-<k>/ ; with SEEDED_VIA_WORKTREE unset
# the change is applied to /repo itself and reverted straight afterwards.
cd /verif
ids=${@:-$(ls seeded | sed 's/-[0-9]*$//' | sort -u)}
for P in $ids; do
  out=/tmp/reseed-$P-out; wt=/tmp/reseed-$P
  rm -rf $out; mkdir -p $out
  for d in seeded/$P-*; do k=${d##*-}; cp $d/patch.diff $out/patch_$k.diff; cp $d/demo.py $out/demo_$k.py; [ -f $d/notes.txt ] && cp $d/notes.txt $out/notes_$k.txt; done
  git -C /repo worktree add --detach $wt HEAD -q
  extra=""
  [ "$P" = "C15" ] && extra="C15 C16"
  [ "$P" = "C13" ] && extra="C13 C14"
  [ "$P" = "C17" ] && extra="C17 C07"
  python3 tools/seeded.py $P $out $wt $extra
  git -C /repo worktree remove --force $wt; rm -rf $out
done
