(* C10 — enumeration returns exactly all minimum covers by primes.
   Statements only; proofs in theories/L5Cover/BoxesProofs.v and
   MinCoverProofs.v.

   cover_enum.py is NOT modelled.  What is proved, for every finite instance:
   the reference [all_min_covers_ref] is exactly the set of minimum covers by
   maximal boxes, and the checker [is_all_min_covers_b] decides "R is exactly
   that set".  The check evaluates the checker inside Coq on the set of
   covers returned by the real cover_enum.minimize, so that every verdict
   "agrees" is an instance of theorem C10_checker_correct.  The unbounded
   statement about the implementation is [C10_spec] applied to the
   implementation; it is known to be FALSE for the unchanged code (finding
   F2: AssertionError inside _enumerate_mincovers_below on about 7% of the
   4-variable truth tables; regression cases in corpus/C10). *)
From Coq Require Import List ZArith Bool.
Import ListNotations.
From Omega Require Import L5Cover.Boxes L5Cover.BoxesProofs L5Cover.MinCover
  L5Cover.MinCoverProofs.
Open Scope Z_scope.

(* what C10 demands of an enumeration procedure: it returns (no error) a set
   R that is exactly the set of minimum covers by primes *)
Definition C10_spec
  (enum : ranges -> (point -> bool) -> (point -> bool) -> option (list (list box)))
  : Prop :=
  forall rs f care, exists R,
    enum rs f care = Some R /\ all_min_prime_covers rs f care R.

Theorem C10_reference_correct : forall rs f care,
  all_min_prime_covers rs f care (all_min_covers_ref rs f care).
Proof. exact all_min_covers_ref_correct. Qed.

(* the specification is satisfiable (by the verified reference) *)
Example C10_spec_satisfiable :
  C10_spec (fun rs f care => Some (all_min_covers_ref rs f care)).
Proof.
  intros rs f care. eexists. split; [reflexivity | apply all_min_covers_ref_correct].
Qed.

Theorem C10_checker_correct : forall rs f care R,
  is_all_min_covers_b rs f care R = true <-> all_min_prime_covers rs f care R.
Proof. exact is_all_min_covers_b_correct. Qed.

(* consequences named in the property: all returned covers have the same
   size; the set is not empty; every minimum cover by primes (in particular
   the single cover of C09) is one of them; the set is unique *)
Theorem C10_same_size : forall rs f care R,
  all_min_prime_covers rs f care R ->
  forall K K', In K R -> In K' R -> length K = length K'.
Proof. exact all_min_same_size. Qed.

Theorem C10_nonempty : forall rs f care R,
  all_min_prime_covers rs f care R -> R <> [].
Proof. exact all_min_nonempty. Qed.

Theorem C10_contains_every_minimum_cover : forall rs f care R K,
  all_min_prime_covers rs f care R -> min_prime_cover rs f care K ->
  anyb (same_setb K) R = true.
Proof. exact all_min_contains. Qed.

Theorem C10_unique : forall rs f care R R',
  all_min_prime_covers rs f care R -> all_min_prime_covers rs f care R' ->
  (forall K, In K R -> exists K', In K' R' /\ same_set K K') /\
  (forall K', In K' R' -> exists K, In K R /\ same_set K' K).
Proof. exact all_min_unique. Qed.

(* the function of finding F2 (minterms 0000 0001 0010 1000 1011 1100 1101
   1111) has exactly three minimum covers, of size five *)
Example C10_F2_witness_answer :
  let f := mem_pt [[0;0;0;0];[0;0;0;1];[0;0;1;0];[1;0;0;0];[1;0;1;1];
                   [1;1;0;0];[1;1;0;1];[1;1;1;1]] in
  let R := all_min_covers_ref [(0,1);(0,1);(0,1);(0,1)] f (fun _ => true) in
  length R = 3%nat /\ forallb (fun K => Nat.eqb (length K) 5) R = true.
Proof. vm_compute. split; reflexivity. Qed.

Print Assumptions C10_reference_correct.
Print Assumptions C10_checker_correct.
Print Assumptions C10_same_size.
Print Assumptions C10_nonempty.
Print Assumptions C10_contains_every_minimum_cover.
Print Assumptions C10_unique.
