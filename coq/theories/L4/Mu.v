(* L4 / Mu: least and greatest fixpoints of monotone operators on
   BDDs-by-meaning: characterisation, a canonical construction, uniqueness,
   congruence, and the two "accumulating loop" identities used by the GR(1)
   solvers (lfp (y |-> y \/ G y) = lfp G, gfp (z |-> z /\ K z) = gfp K). *)
From Coq Require Import List Bool Arith Lia.
Import ListNotations.
From Omega Require Import L4.Arena L4.ArenaFacts L4.Kleene L4.AlgOrder.

Section Mu.
Variables nc nx ny : nat.
Local Notation le := (le nc nx ny).
Local Notation eqv := (eqv nc nx ny).
Local Notation mono := (mono nc nx ny).
Local Notation NV := (NV nc nx ny).
Local Notation loop := (loop nc nx ny).
Local Notation band := (band nc nx ny).
Local Notation bor := (bor nc nx ny).

Definition is_lfp (f : bdd -> bdd) (r : bdd) : Prop :=
  eqv (f r) r /\ forall p, le (f p) p -> le r p.
Definition is_gfp (f : bdd -> bdd) (r : bdd) : Prop :=
  eqv (f r) r /\ forall p, le p (f p) -> le p r.

(* canonical construction: iterate from bottom / top until stable *)
Definition lfp_of (f : bdd -> bdd) : bdd := loop NV f bfalse.
Definition gfp_of (f : bdd -> bdd) : bdd := loop NV f btrue.

Lemma lfp_of_is_lfp f : mono f -> is_lfp f (lfp_of f).
Proof.
  intros M. unfold lfp_of.
  destruct (loop_inc nc nx ny f bfalse NV M) as [H1 [_ H3]].
  - apply bfalse_le.
  - lia.
  - split; [exact H1|]. intros p Hp. apply H3; [apply bfalse_le|exact Hp].
Qed.

Lemma gfp_of_is_gfp f : mono f -> is_gfp f (gfp_of f).
Proof.
  intros M. unfold gfp_of.
  destruct (loop_dec nc nx ny f btrue NV M) as [H1 [_ H3]].
  - apply le_btrue.
  - apply count_bound.
  - split; [exact H1|]. intros p Hp. apply H3; [apply le_btrue|exact Hp].
Qed.

Lemma is_lfp_unique f r r' : is_lfp f r -> is_lfp f r' -> eqv r r'.
Proof.
  intros [E1 L1] [E2 L2]. apply le_antisym.
  - apply L1. apply eqv_le, E2.
  - apply L2. apply eqv_le, E1.
Qed.
Lemma is_gfp_unique f r r' : is_gfp f r -> is_gfp f r' -> eqv r r'.
Proof.
  intros [E1 L1] [E2 L2]. apply le_antisym.
  - apply L2. apply eqv_le', E1.
  - apply L1. apply eqv_le', E2.
Qed.

(* operators that agree up to eqv have the same fixpoints *)
Definition op_eqv (f g : bdd -> bdd) : Prop := forall q, eqv (f q) (g q).

Lemma is_lfp_ext f g r : op_eqv f g -> is_lfp f r -> is_lfp g r.
Proof.
  intros H [E L]. split.
  - apply eqv_trans with (f r); [apply eqv_sym, H|exact E].
  - intros p Hp. apply L. apply le_trans with (g p); [apply eqv_le, H|exact Hp].
Qed.
Lemma is_gfp_ext f g r : op_eqv f g -> is_gfp f r -> is_gfp g r.
Proof.
  intros H [E L]. split.
  - apply eqv_trans with (f r); [apply eqv_sym, H|exact E].
  - intros p Hp. apply L. apply le_trans with (g p); [exact Hp|apply eqv_le', H].
Qed.
Lemma is_lfp_eqv f r r' : eqv r r' -> mono f -> is_lfp f r -> is_lfp f r'.
Proof.
  intros H M [E L]. split.
  - apply eqv_trans with (f r); [apply mono_eqv; [exact M|apply eqv_sym, H]|].
    apply eqv_trans with r; assumption.
  - intros p Hp. apply le_trans with r; [apply eqv_le', H|apply L, Hp].
Qed.
Lemma is_gfp_eqv f r r' : eqv r r' -> mono f -> is_gfp f r -> is_gfp f r'.
Proof.
  intros H M [E L]. split.
  - apply eqv_trans with (f r); [apply mono_eqv; [exact M|apply eqv_sym, H]|].
    apply eqv_trans with r; assumption.
  - intros p Hp. apply le_trans with r; [apply L, Hp|apply eqv_le, H].
Qed.

(* monotonicity of the fixpoint in the operator *)
Lemma is_lfp_mono f g r s :
  (forall q, le (f q) (g q)) -> is_lfp f r -> is_lfp g s -> le r s.
Proof.
  intros H [_ L] [E _]. apply L. apply le_trans with (g s); [apply H|apply eqv_le, E].
Qed.
Lemma is_gfp_mono f g r s :
  (forall q, le (f q) (g q)) -> is_gfp f r -> is_gfp g s -> le r s.
Proof.
  intros H [E _] [_ L]. apply L. apply le_trans with (f r); [apply eqv_le', E|apply H].
Qed.

(* the accumulating forms used by the solvers *)
Lemma lfp_accumulate G r :
  mono G -> is_lfp (fun y => bor y (G y)) r -> is_lfp G r.
Proof.
  intros M [E L]. assert (HG : le (G r) r).
  { apply le_trans with (bor r (G r)); [apply bor_le_r|apply eqv_le, E]. }
  split.
  - apply le_antisym; [exact HG|].
    apply L. apply bor_lub; [apply le_refl|]. apply M, HG.
  - intros p Hp. apply L. apply bor_lub; [apply le_refl|exact Hp].
Qed.

Lemma gfp_accumulate K r :
  mono K -> is_gfp (fun z => band z (K z)) r -> is_gfp K r.
Proof.
  intros M [E L]. assert (HK : le r (K r)).
  { apply le_trans with (band r (K r)); [apply eqv_le', E|apply band_le_r]. }
  split.
  - apply le_antisym; [|exact HK].
    apply L. apply band_glb; [apply le_refl|]. apply M, HK.
  - intros p Hp. apply L. apply band_glb; [apply le_refl|exact Hp].
Qed.

(* loops started at bottom/top with enough fuel compute the fixpoints *)
Lemma loop_is_lfp f fuel : mono f -> NV <= fuel -> is_lfp f (loop fuel f bfalse).
Proof.
  intros M Hf.
  destruct (loop_inc nc nx ny f bfalse fuel M) as [H1 [_ H3]].
  - apply bfalse_le.
  - lia.
  - split; [exact H1|]. intros p Hp. apply H3; [apply bfalse_le|exact Hp].
Qed.
Lemma loop_is_gfp f fuel : mono f -> NV <= fuel -> is_gfp f (loop fuel f btrue).
Proof.
  intros M Hf.
  destruct (loop_dec nc nx ny f btrue fuel M) as [H1 [_ H3]].
  - apply le_btrue.
  - pose proof (count_bound nc nx ny btrue). lia.
  - split; [exact H1|]. intros p Hp. apply H3; [apply le_btrue|exact Hp].
Qed.

(* finite unions / intersections of a family *)
Definition big_or (fs : list bdd) : bdd := fun v => existsb (fun f => f v) fs.
Definition big_and (fs : list bdd) : bdd := fun v => forallb (fun f => f v) fs.

Lemma fold_bor_spec (T : bdd -> bdd) l y v :
  fold_left (fun y s => bor y (T s)) l y v = y v || big_or (map T l) v.
Proof.
  revert y. induction l as [|s l IH]; intros y; cbn [fold_left map].
  - unfold big_or. cbn. rewrite orb_false_r. reflexivity.
  - rewrite IH, bor_spec. unfold big_or. cbn [existsb]. rewrite orb_assoc. reflexivity.
Qed.
Lemma fold_band_spec (T : bdd -> bdd) l z v :
  fold_left (fun z s => band z (T s)) l z v = z v && big_and (map T l) v.
Proof.
  revert z. induction l as [|s l IH]; intros z; cbn [fold_left map].
  - unfold big_and. cbn. rewrite andb_true_r. reflexivity.
  - rewrite IH, band_spec. unfold big_and. cbn [forallb]. rewrite andb_assoc. reflexivity.
Qed.

Lemma big_or_le (T T' : bdd -> bdd) l :
  (forall s, In s l -> le (T s) (T' s)) -> le (big_or (map T l)) (big_or (map T' l)).
Proof.
  intros H v Hv. unfold big_or. rewrite !existsb_exists.
  intros [f [Hf Hfv]]. apply in_map_iff in Hf. destruct Hf as [s [<- Hs]].
  exists (T' s). split; [apply in_map, Hs|]. apply H; assumption.
Qed.
Lemma big_and_le (T T' : bdd -> bdd) l :
  (forall s, In s l -> le (T s) (T' s)) -> le (big_and (map T l)) (big_and (map T' l)).
Proof.
  intros H v Hv. unfold big_and. rewrite !forallb_forall.
  intros Hall f Hf. apply in_map_iff in Hf. destruct Hf as [s [<- Hs]].
  apply H; [exact Hs|exact Hv|]. apply Hall. apply in_map, Hs.
Qed.

End Mu.
