(* L5Cover / ListExpr: model of the printing of a cover as a formula:
   orthotopes.list_expr (interval / equality forms, clipping to the type
   hints with _type_hints._clip_subrange, omission of whole-domain
   conjuncts), _type_hints._list_limits / _list_type_hints, and the assembly
   in cover.dumps_cover, at the level of the syntax tree that the formula
   parser returns for the printed text.

   Model file: definitions only; proofs in ListExprProofs.v.

   Variables are numbered by their position in the (naturally sorted) list of
   variable names; a point assigns an integer to every variable. *)
From Coq Require Import List ZArith Bool Lia.
Import ListNotations.
From Omega Require Import L5Cover.Boxes.
Open Scope Z_scope.

(* the fragment of the formula syntax that can occur in the output (and a
   little more, so that harmless changes of the printed form still parse) *)
Inductive term :=
  | TVar (i : nat)
  | TNum (z : Z).

Inductive cmp := CEq | CNe | CLt | CLe | CGt | CGe.

Inductive expr :=
  | ETrue
  | EFalse
  | ENot (e : expr)
  | EAnd (a b : expr)
  | EOr (a b : expr)
  | EImp (a b : expr)
  | EIff (a b : expr)
  | ECmp (op : cmp) (s t : term)
  | EIn (s lo hi : term).          (* s \in lo .. hi *)

Definition tval (p : point) (t : term) : Z :=
  match t with TVar i => nth i p 0 | TNum z => z end.

Definition cmp_eval (op : cmp) (x y : Z) : bool :=
  match op with
  | CEq => x =? y | CNe => negb (x =? y)
  | CLt => x <? y | CLe => x <=? y
  | CGt => y <? x | CGe => y <=? x
  end.

Fixpoint eval (p : point) (e : expr) : bool :=
  match e with
  | ETrue => true
  | EFalse => false
  | ENot a => negb (eval p a)
  | EAnd a b => if eval p a then eval p b else false
  | EOr a b => if eval p a then true else eval p b
  | EImp a b => if eval p a then eval p b else true
  | EIff a b => Bool.eqb (eval p a) (eval p b)
  | ECmp op s t => cmp_eval op (tval p s) (tval p t)
  | EIn s lo hi =>
      if tval p lo <=? tval p s then tval p s <=? tval p hi else false
  end.

Fixpoint conj (l : list expr) : expr :=
  match l with
  | [] => ETrue
  | [e] => e
  | e :: l' => EAnd e (conj l')
  end.
Fixpoint disj (l : list expr) : expr :=
  match l with
  | [] => EFalse
  | [e] => e
  | e :: l' => EOr e (disj l')
  end.

(* _type_hints._clip_subrange: outer None = an assertion fails;
   Some None = the pair (None, None): the interval contains the whole hint *)
Definition clip_subrange (ab dom : ival) : option (option ival) :=
  let (a, b) := ab in
  let (u, v) := dom in
  if a <=? b then if u <=? v then
    if (if a <=? v then u <=? b else false) then
      let a' := Z.max a u in
      let b' := Z.min b v in
      if a' <=? b' then
        if (if a' =? u then v =? b' else false) then Some None
        else Some (Some (a', b'))
      else None
    else None
  else None else None.

(* the conjunct printed for variable number i with interval (a, b) *)
Definition atom (i : nat) (ab : ival) : expr :=
  if fst ab =? snd ab then ECmp CEq (TVar i) (TNum (fst ab))
  else EIn (TVar i) (TNum (fst ab)) (TNum (snd ab)).

(* conjuncts of one box; None = _check_type_hint / _clip_subrange raise *)
Fixpoint box_atoms (use_dom : bool) (i : nat) (doms : list ival) (b : box)
  {struct b} : option (list expr) :=
  match b, doms with
  | [], _ => Some []
  | ab :: b', dom :: doms' =>
      if snd ab <? fst ab then None   (* _check_type_hint: empty interval *)
      else
        match box_atoms use_dom (S i) doms' b' with
        | None => None
        | Some rest =>
            if use_dom then
              match clip_subrange ab dom with
              | None => None
              | Some None => Some rest
              | Some (Some ab') => Some (atom i ab' :: rest)
              end
            else Some (atom i ab :: rest)
        end
  | _ :: _, [] => None
  end.

(* orthotopes.list_expr: one conjunction per box of the cover *)
Fixpoint list_expr (use_dom : bool) (doms : list ival) (K : list box)
  : option (list expr) :=
  match K with
  | [] => Some []
  | b :: K' =>
      match box_atoms use_dom O doms b, list_expr use_dom doms K' with
      | Some c, Some r => Some (conj c :: r)
      | _, _ => None
      end
  end.

(* _list_limits / _list_type_hints: x \in lo .. hi for every variable *)
Fixpoint range_atoms (i : nat) (rs : list ival) : list expr :=
  match rs with
  | [] => []
  | r :: rs' =>
      EIn (TVar i) (TNum (fst r)) (TNum (snd r)) :: range_atoms (S i) rs'
  end.

(* care => type hints, decided over the grid of all bit-field values *)
Definition in_rangesb (rs : list ival) (p : point) : bool := containsb rs p.
Definition care_implies_hints (limits doms : list ival) (care : point -> bool)
  : bool :=
  allb (fun p => if care p then in_rangesb doms p else true) (grid limits).

(* cover.dumps_cover without the comment lines; the marker line
   `care expression` is read as TRUE (DESIGN C08) *)
Definition dumps_cover (limits doms : list ival) (care : point -> bool)
  (care_is_true show_dom show_limits : bool) (K : list box) : option expr :=
  let use_dom := if show_dom then care_implies_hints limits doms care
                 else false in
  match list_expr use_dom doms K with
  | None => None
  | Some ds =>
      Some (conj ((if show_limits then range_atoms O limits else []) ++
                  (if use_dom then range_atoms O doms else []) ++
                  [disj ds] ++
                  (if care_is_true then [] else [ETrue])))
  end.

(* ---- reading a disjunct of the printed formula back as a box *)
Definition is_num (t : term) : option Z :=
  match t with TNum z => Some z | _ => None end.

(* conjuncts of a conjunction *)
Fixpoint conjuncts (e : expr) : list expr :=
  match e with
  | EAnd a b => conjuncts a ++ conjuncts b
  | _ => [e]
  end.
Fixpoint disjuncts (e : expr) : list expr :=
  match e with
  | EOr a b => disjuncts a ++ disjuncts b
  | _ => [e]
  end.

Fixpoint set_nth (i : nat) (v : ival) (b : box) : box :=
  match i, b with
  | O, _ :: b' => v :: b'
  | S i', x :: b' => x :: set_nth i' v b'
  | _, [] => []
  end.

(* intersect the interval of variable i in box b with (lo, hi) *)
Definition restrict (i : nat) (lo hi : Z) (b : box) : box :=
  let cur := nth i b (0, 0) in
  set_nth i (Z.max (fst cur) lo, Z.min (snd cur) hi) b.

(* the box (within the bit-field limits) denoted by a conjunction of atoms
   TRUE | x = a | x \in a .. b ; None if the conjunct has another form *)
Fixpoint box_of_atoms (l : list expr) (acc : box) : option box :=
  match l with
  | [] => Some acc
  | ETrue :: l' => box_of_atoms l' acc
  | ECmp CEq (TVar i) (TNum a) :: l' => box_of_atoms l' (restrict i a a acc)
  | EIn (TVar i) (TNum a) (TNum b) :: l' =>
      box_of_atoms l' (restrict i a b acc)
  | _ => None
  end.
Definition box_of_conj (limits : list ival) (e : expr) : option box :=
  box_of_atoms (conjuncts e) limits.

Definition properb (b : box) : bool := allb (fun i => fst i <=? snd i) b.

(* C08, second sentence, for one disjunct given as a formula: it denotes a
   non-empty box that contains no care point outside f *)
Definition disjunct_ok (limits : list ival) (f care : point -> bool)
  (e : expr) : bool :=
  match box_of_conj limits e with
  | None => false
  | Some b =>
      if properb b then
        if allb (fun p => Bool.eqb (eval p e) (containsb b p)) (grid limits)
        then allb (fun p => if care p then f p else true) (box_points b)
        else false
      else false
  end.

(* C08 for a whole printed formula e with disjuncts ds:
   agreement with f on care; every disjunct ok; f inside the union.
   [clipped] says that the boxes were clipped to the type hints (show_dom in
   effect, which requires care => type hints): then only the points of f
   inside care can be demanded of the disjuncts (a point of f outside the
   type hints cannot satisfy a formula that is restricted to them); without
   clipping every point of f is demanded. *)
Definition printed_ok (limits : list ival) (f care : point -> bool)
  (clipped : bool) (e : expr) (ds : list expr) : bool :=
  if allb (fun p => if care p then Bool.eqb (eval p e) (f p) else true)
          (grid limits)
  then
    if allb (disjunct_ok limits f care) ds
    then allb (fun p => if f p then
                          if (if clipped then care p else true)
                          then anyb (fun d => eval p d) ds else true
                        else true)
              (grid limits)
    else false
  else false.

(* same denotation over the grid *)
Definition equiv_on_grid (limits : list ival) (e1 e2 : expr) : bool :=
  allb (fun p => Bool.eqb (eval p e1) (eval p e2)) (grid limits).

(* two lists of formulas denote the same set of predicates over the grid *)
Definition same_disjuncts (limits : list ival) (ms ds : list expr) : bool :=
  if allb (fun d => anyb (equiv_on_grid limits d) ms) ds
  then allb (fun m => anyb (equiv_on_grid limits m) ds) ms else false.

(* equality of results of clip_subrange (for the exhaustive small-range tie) *)
Definition clip_eqb (x y : option (option ival)) : bool :=
  match x, y with
  | None, None => true
  | Some None, Some None => true
  | Some (Some (a, b)), Some (Some (c, d)) => if a =? c then b =? d else false
  | _, _ => false
  end.
