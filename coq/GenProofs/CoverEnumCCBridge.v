(* The functions of omega/symbolic/cover_enum.py around the branch-and-bound
   skeleton, TRANSLATED on every run by tools/vlib/cover_enumgen.py
   (gen/CoverEnumCCGen.v, tie T):

     minimize, _cyclic_core_fixpoint_recursive, _mincovers_from_floor,
     _mincovers_from_unfloor, _enumerate_mincovers_below,
     _enumerate_mincovers_unfloor, _below_and_suff, _y_unfloor, _lm_tail

   are the hand-written model L5Cover/CoverEnum.v that the C10 theorems talk
   about.

   (A) The functions above the two enumerations are generated abstracted
       over them; with the model's enumerations as callees they are EQUAL
       (Leibniz, every fuel, all lists, every pick) to enum_minimize, ccfr
       (with the translated _traverse_exhaustive of CoverBBBridge),
       from_floor, from_unfloor.  The code checks per element where the
       model checks all elements first ([ccfr_loop_is_model]); all those
       checks raise the same error, so the results are equal.
   (B) _below_and_suff = below_and_suff, _y_unfloor = those_over (with its
       assertion), _lm_tail k lm = lm[k-1 ..] for a duplicate-free lm.
   (C) The two enumerations are worklist loops in the code (a stack popped
       at the end / a set of partial covers) and level-by-level folds in
       the model.  The translated loops are EQUAL to the worklists
       [below_work] / [unfloor_work] written here over the model's one-level
       functions (below_expand; the body of unfloor_levels), for every fuel
       and a duplicate-free cover to refine.
   (D) Stack and level order: whenever the model's enumerate_below returns,
       the translated _enumerate_mincovers_below returns too (with enough
       fuel) and the same covers up to equality of sets
       ([enumerate_below_code_refines_model]): both walk the tree of
       partial covers, the model lists its leaves from left to right, the
       stack meets them from right to left.  The same for
       _enumerate_mincovers_unfloor ([enumerate_unfloor_code_refines_model]),
       whose partial covers live in a Python set: one that equals (as a
       set) a waiting one is dropped, and partial covers equal as sets have
       the same complete covers below them.  So what is proved of the
       model's enumerations (C10_enum_exact, C10_total) holds of the
       translated loops.

   A change of cover_enum.py that alters a translated term (a skipped or
   guarded call of _mincovers_from_floor, another order of the reduction
   steps, a dropped assertion that the model checks, ...) breaks these
   lemmas on every run, independently of the sampled inputs. *)
From Coq Require Import List ZArith Bool Arith Lia.
Import ListNotations.
From Omega Require Import L5Cover.Boxes L5Cover.BoxesProofs L5Cover.MinCover
  L5Cover.MinCoverProofs L5Cover.CoverEnum L5Cover.CoverEnumProofs
  L5Cover.CoverEnumLemmas L5Cover.CoverEnumExact L5Cover.CoverEnumTotal.
From OmegaGen Require Import CoverBBGen CoverEnumCCGen.
From OmegaGP Require Import CoverBBBridge.

(* ------------------------------------------------------------ monad facts *)
Lemma bind_check {A B} (b : bool) (k : res A) (f : A -> res B) :
  bind (check b k) f = check b (bind k f).
Proof. destruct b; reflexivity. Qed.

Lemma bind_bind {A B C} (m : res A) (f : A -> res B) (g : B -> res C) :
  bind (bind m f) g = bind m (fun a => bind (f a) g).
Proof. destruct m; reflexivity. Qed.

Lemma bind_ext {A B} (m : res A) (f g : A -> res B) :
  (forall a, f a = g a) -> bind m f = bind m g.
Proof. intros H. destruct m; cbn; [apply H | reflexivity]. Qed.

Lemma fold_left_fail {A B} (F : res B -> A -> res B) e l :
  (forall a, F (inr e) a = inr e) -> fold_left F l (inr e) = inr e.
Proof. intros H. induction l as [|a l IH]; cbn; [reflexivity|]. rewrite H. exact IH. Qed.

Definition nonempty (c : list box) : bool := negb (is_nil c).

Lemma same_set_nonempty c d : same_set c d -> nonempty c = nonempty d.
Proof.
  intros [H1 H2]. destruct c as [|a c], d as [|b d]; try reflexivity.
  - destruct (H2 b (or_introl eq_refl)).
  - destruct (H1 a (or_introl eq_refl)).
Qed.

Lemma allb_nonempty_union_fam l :
  allb nonempty (union_fam [] l) = allb nonempty l.
Proof.
  apply eq_true_iff_eq. rewrite !allb_forallb, !forallb_forall. split; intros H c Hc.
  - destruct (union_fam_has_r l [] c Hc) as [c' [Hin Hs]].
    rewrite (same_set_nonempty _ _ Hs). apply H, Hin.
  - destruct (union_fam_In _ _ _ Hc) as [[]|Hin]. apply H, Hin.
Qed.

(* ============================================================ (B) leaves *)
Lemma diff_filter_self (P : box -> bool) X :
  diff X (filter P X) = filter (fun p => negb (P p)) X.
Proof.
  unfold diff. apply filter_ext_in. intros b Hb. f_equal.
  apply eq_true_iff_eq. rewrite mem_box_true, filter_In. tauto.
Qed.

(* cover_enum._below_and_suff *)
Theorem below_and_suff_gen_is_model : forall ymax cover X Y,
  below_and_suff_gen ymax cover X Y = below_and_suff ymax cover X Y.
Proof.
  intros. unfold below_and_suff_gen, below_and_suff. cbv zeta.
  rewrite diff_filter_self. reflexivity.
Qed.

(* cover_enum._y_unfloor: ThoseOver(y, yfloor), asserted non-empty *)
Theorem y_unfloor_gen_is_model : forall yfloor Y,
  y_unfloor_gen yfloor Y =
  check (negb (is_nil (those_over Y yfloor))) (ok (those_over Y yfloor)).
Proof. reflexivity. Qed.

(* cover_enum._lm_tail *)
Lemma nth_error_skipn {A} (l : list A) : forall i a,
  nth_error l i = Some a -> skipn i l = a :: skipn (S i) l.
Proof.
  induction l as [|b l IH]; intros [|i] a H; cbn in *; try discriminate.
  - inversion H. reflexivity.
  - apply IH, H.
Qed.

Lemma nth_error_lt {A} (l : list A) i :
  (i < length l)%nat -> exists a, nth_error l i = Some a.
Proof.
  intros H. destruct (nth_error l i) eqn:E; [eauto|].
  apply nth_error_None in E. lia.
Qed.

Lemma lm_tail_loop_is_fold lm : forall m a r,
  (a + m <= length lm)%nat ->
  lm_tail_loop (seq a m) lm r =
  ok (fold_left (fun r b => union r [b]) (firstn m (skipn a lm)) r).
Proof.
  induction m as [|m IH]; intros a r H; [reflexivity|].
  cbn [seq lm_tail_loop].
  destruct (nth_error_lt lm a) as [b Hb]; [lia|]. rewrite Hb.
  rewrite (nth_error_skipn _ _ _ Hb). cbn [firstn fold_left]. cbv zeta.
  apply IH. lia.
Qed.

Lemma NoDup_app_r {A} (l1 l2 : list A) : NoDup (l1 ++ l2) -> NoDup l2.
Proof.
  induction l1 as [|a l1 IH]; cbn; intros H; [exact H|].
  inversion H. apply IH. assumption.
Qed.

Lemma fold_union_nodup : forall (l r : list box),
  NoDup (r ++ l) -> fold_left (fun r b => union r [b]) l r = r ++ l.
Proof.
  induction l as [|b l IH]; intros r H; cbn [fold_left]; [rewrite app_nil_r; reflexivity|].
  assert (Hb : mem_box r b = false).
  { destruct (mem_box r b) eqn:M; [|reflexivity]. apply mem_box_true in M.
    apply NoDup_remove_2 in H. exfalso. apply H. apply in_or_app. left. exact M. }
  assert (U : union r [b] = r ++ [b]).
  { unfold union, diff. cbn [filter]. rewrite Hb. reflexivity. }
  rewrite U, IH; [rewrite <- app_assoc; reflexivity|].
  rewrite <- app_assoc. exact H.
Qed.

Theorem lm_tail_gen_is_skipn : forall k lm,
  NoDup lm -> (1 <= k)%nat -> (k <= length lm)%nat ->
  lm_tail_gen k lm = ok (skipn (k - 1) lm).
Proof.
  intros k lm Hnd H1 H2. unfold lm_tail_gen. cbv zeta.
  apply Nat.leb_le in H1 as L1. apply Nat.leb_le in H2 as L2.
  rewrite L1, L2. cbn [check Nat.leb].
  destruct (nth_error_lt lm (k - 1)) as [b Hb]; [lia|]. rewrite Hb.
  rewrite lm_tail_loop_is_fold by lia. cbn [bind ok]. unfold ok. f_equal.
  rewrite firstn_all2 by (rewrite skipn_length; lia).
  pose proof (nth_error_skipn _ _ _ Hb) as Hs. rewrite Hs. cbn [fold_left].
  assert (U : union [b] [b] = [b]).
  { unfold union, diff, mem_box. cbn. rewrite box_eqb_refl. reflexivity. }
  rewrite U. apply (fold_union_nodup (skipn (S (k - 1)) lm) [b]).
  cbn [app]. rewrite <- Hs.
  rewrite <- (firstn_skipn (k - 1) lm) in Hnd. apply NoDup_app_r in Hnd. exact Hnd.
Qed.

(* =========================================== (A) above the enumerations *)
Lemma enumerate_below_nonempty c X Y b :
  enumerate_below c X Y = ok b -> is_nil b = false.
Proof.
  unfold enumerate_below. intros H.
  apply check_inl in H. destruct H as [_ H]. cbv zeta in H.
  apply check_inl in H. destruct H as [_ H].
  apply bind_inl in H. destruct H as [r [_ H]]. cbv zeta in H.
  apply check_inl in H. destruct H as [Hn H]. inversion H. subst b.
  apply negb_true_iff, Hn.
Qed.

Lemma enumerate_unfloor_nonempty c Y b :
  enumerate_unfloor c Y = ok b -> is_nil b = false.
Proof.
  unfold enumerate_unfloor. intros H.
  apply check_inl in H. destruct H as [_ H].
  apply bind_inl in H. destruct H as [r [_ H]]. cbv zeta in H.
  apply check_inl in H. destruct H as [Hn H]. inversion H. subst b.
  apply negb_true_iff, Hn.
Qed.

(* cover_enum._mincovers_from_floor *)
Lemma from_floor_loop_is_fold X Yfl : forall items acc,
  mincovers_from_floor_loop enumerate_below items X Yfl acc =
  fold_left (fun acc c => bind acc (fun done =>
               bind (enumerate_below c X Yfl) (fun b => ok (union_fam done b))))
            items (ok acc).
Proof.
  induction items as [|c items IH]; intros acc; [reflexivity|].
  cbn [mincovers_from_floor_loop fold_left]. cbn [bind ok].
  destruct (enumerate_below c X Yfl) as [b|e] eqn:E; cbn [bind].
  - rewrite (enumerate_below_nonempty _ _ _ _ E). cbn [negb check]. cbv zeta. apply IH.
  - symmetry. apply fold_left_fail. reflexivity.
Qed.

Theorem mincovers_from_floor_gen_is_model : forall core X Yfl,
  mincovers_from_floor_gen enumerate_below core X Yfl = from_floor core X Yfl.
Proof.
  intros. unfold mincovers_from_floor_gen, from_floor. cbv zeta.
  rewrite from_floor_loop_is_fold. reflexivity.
Qed.

(* cover_enum._mincovers_from_unfloor *)
Lemma from_unfloor_loop_is_fold Y : forall items acc,
  mincovers_from_unfloor_loop enumerate_unfloor items Y acc =
  fold_left (fun acc c => bind acc (fun done =>
               bind (enumerate_unfloor c Y) (fun b => ok (union_fam done b))))
            items (ok acc).
Proof.
  induction items as [|c items IH]; intros acc; [reflexivity|].
  cbn [mincovers_from_unfloor_loop fold_left]. cbn [bind ok].
  destruct (enumerate_unfloor c Y) as [b|e] eqn:E; cbn [bind].
  - rewrite (enumerate_unfloor_nonempty _ _ _ E). cbn [negb check]. cbv zeta. apply IH.
  - symmetry. apply fold_left_fail. reflexivity.
Qed.

Theorem mincovers_from_unfloor_gen_is_model : forall fl Y,
  mincovers_from_unfloor_gen enumerate_unfloor fl Y = from_unfloor fl Y.
Proof.
  intros. unfold mincovers_from_unfloor_gen, from_unfloor. cbv zeta.
  rewrite from_unfloor_loop_is_fold. reflexivity.
Qed.

(* the loop `for cover in r: assert ...; cover |= e; assert ...; add` of
   _cyclic_core_fixpoint_recursive: the code checks element by element, the
   model all elements first; every failure is the same EAssert *)
Lemma ccfr_loop_is_model yfl e : forall r acc,
  cyclic_core_fixpoint_recursive_loop r yfl e acc =
  check (covers_from r yfl)
    (check (allb nonempty (map (fun c => union c e) r))
       (ok (union_fam acc (map (fun c => union c e) r)))).
Proof.
  induction r as [|c r IH]; intros acc; [reflexivity|].
  cbn [cyclic_core_fixpoint_recursive_loop covers_from allb map]. cbv zeta.
  fold (covers_from r yfl). fold (nonempty (union c e)).
  destruct (inclb c yfl); cbn [check]; [|reflexivity].
  destruct (nonempty (union c e)); cbn [check].
  - rewrite IH. reflexivity.
  - destruct (covers_from r yfl); reflexivity.
Qed.

Section Bridge.
Variable rs : ranges.
Variable pick : list box -> option box.

Lemma trav_ext (rec rec' : list box -> list box -> nat -> nat -> res (family * nat)) :
  (forall a b c d, rec a b c d = rec' a b c d) ->
  forall x y npc ub, trav pick rec x y npc ub = trav pick rec' x y npc ub.
Proof.
  intros H x y npc ub. unfold trav. cbv zeta.
  destruct x as [|x0 x']; [reflexivity|].
  destruct (ub <? _)%nat; [reflexivity|].
  destruct (pick y) as [d|]; [|reflexivity].
  destruct (negb (Nat.eqb _ _)); cbn [check]; [|reflexivity].
  rewrite H. apply bind_ext. intros l. rewrite H. reflexivity.
Qed.

(* what the code does with the covers of the reduced problem *)
Lemma ccfr_wrap_is_model X Y xt yt yfl e y (cr : family * nat) :
  (let '(mincovers_core, ub1) := cr in
   if is_nil mincovers_core then ok ([], ub1)
   else
     check (if negb (is_nil e) then true else negb (is_nil y))
       (bind (cyclic_core_fixpoint_recursive_loop mincovers_core yfl e [])
          (fun core =>
           check (inclb yt yfl) (check (inclb e yfl) (check (are_covers xt core)
           (check (covers_from core yt) (check (uniform core)
           (bind (from_floor core xt yfl) (fun fl =>
            check (negb (is_nil fl)) (check (are_covers xt fl)
            (check (covers_from fl yfl) (check (uniform fl)
            (bind (from_unfloor fl Y) (fun mc =>
             check (negb (is_nil mc)) (check (are_covers X mc)
             (check (covers_from mc Y) (check (uniform mc)
             (ok (mc, ub1)))))))))))))))))))
  = wrap X Y xt yt yfl e y cr.
Proof.
  destruct cr as [F u]. unfold wrap. cbn [fst snd].
  destruct F as [|c0 F']; [reflexivity|]. cbn [is_nil].
  assert (E1 : (if negb (is_nil e) then true else negb (is_nil y)) =
               (if is_nil e then negb (is_nil y) else true))
    by (destruct (is_nil e); reflexivity).
  rewrite E1. f_equal.
  rewrite ccfr_loop_is_model, bind_check. f_equal. cbv zeta.
  rewrite bind_check. unfold nonempty.
  change (fun c : list box => negb (is_nil c)) with nonempty.
  rewrite allb_nonempty_union_fam. reflexivity.
Qed.

(* cover_enum._cyclic_core_fixpoint_recursive *)
Theorem cyclic_core_fixpoint_recursive_gen_is_model : forall fuel X Y pc ub,
  cyclic_core_fixpoint_recursive_gen rs pick enumerate_below enumerate_unfloor
    fuel X Y pc ub = ccfr rs pick fuel X Y pc ub.
Proof.
  induction fuel as [|n IH]; intros X Y pc ub; [reflexivity|].
  rewrite ccfr_unfold. cbn [cyclic_core_fixpoint_recursive_gen]. cbv zeta.
  f_equal.
  set (xt := max_ceilings rs X Y). set (yt := max_floors rs xt Y).
  set (yfl := dedup (map (floor rs xt) Y)). set (e := inter xt yt).
  set (x := diff xt e). set (y := diff yt e).
  rewrite traverse_exh_gen_is_model.
  rewrite (trav_ext _ _ IH). rewrite IH.
  apply bind_ext. intros cr.
  rewrite <- ccfr_wrap_is_model. destruct cr as [F u].
  destruct (is_nil F); [reflexivity|]. f_equal.
  apply bind_ext. intros core. do 5 f_equal.
  rewrite mincovers_from_floor_gen_is_model.
  apply bind_ext. intros fl. do 4 f_equal.
  rewrite mincovers_from_unfloor_gen_is_model. reflexivity.
Qed.

(* cover_enum.minimize *)
Theorem enum_minimize_gen_is_model : forall f care,
  enum_minimize_gen rs pick enumerate_below enumerate_unfloor
    (2 * (length (embed rs f) + length (primes rs f care)) + 4) f care =
  enum_minimize rs pick f care.
Proof.
  intros f care. unfold enum_minimize_gen, enum_minimize, enum_xy. cbv zeta.
  destruct (some_cover pick _ (embed rs f) (primes rs f care)) as [c0|]; [|reflexivity].
  rewrite cyclic_core_fixpoint_recursive_gen_is_model.
  apply bind_ext. intros [F u]. reflexivity.
Qed.
End Bridge.

(* =================================================== (C) the worklist loops *)
(* ---- cover_enum._enumerate_mincovers_below: a stack of partial covers.
   The position k of a partial cover is its cardinality + 1; expanding it is
   the model's one-level function below_expand on lm[k-1 ..]; the children
   are pushed in the order of pick_iter, so the last one is popped first. *)
Fixpoint below_work (fuel n : nat) (lm X Y : list box) (acc stack : family)
  : res (family * family) :=
  match fuel with
  | O => fail EFuel
  | S f =>
      match stack with
      | [] => ok (acc, [])
      | p :: st =>
          check (length p <=? n)%nat
            (if Nat.eqb (length p) n
             then below_work f n lm X Y (add_cover p acc) st
             else bind (below_expand n (S (length p)) (skipn (length p) lm) X Y p)
                    (fun news => below_work f n lm X Y acc (rev news ++ st)))
      end
  end.

Definition expand_ok (p : list box) (k : nat) (succ : list box) : bool :=
  forallb (fun z => Nat.eqb (length (union p [z])) k) succ.

Lemma expand_fold_is_map (e : err) p k : forall succ,
  fold_right (fun z acc => bind acc (fun news =>
      let new := union p [z] in
      if Nat.eqb (length new) k then ok (new :: news) else fail e))
    (ok []) succ =
  if expand_ok p k succ then ok (map (fun z => union p [z]) succ) else fail e.
Proof.
  set (F := fun (z : box) (acc : res family) => bind acc (fun news =>
      let new := union p [z] in
      if Nat.eqb (length new) k then ok (new :: news) else fail e)).
  intros succ. change (fold_right F (ok []) succ =
    if expand_ok p k succ then ok (map (fun z => union p [z]) succ) else fail e).
  induction succ as [|z succ IH]; [reflexivity|].
  change (fold_right F (ok []) (z :: succ)) with (F z (fold_right F (ok []) succ)).
  rewrite IH. unfold F, expand_ok. cbn [forallb map]. cbv zeta.
  destruct (Nat.eqb (length (union p [z])) k), (forallb _ succ); reflexivity.
Qed.

Lemma below_loop2_is_map p k : forall succ st,
  enumerate_mincovers_below_loop2 succ p k st =
  if expand_ok p k succ
  then ok (rev (map (fun z => union p [z]) succ) ++ st) else fail E425.
Proof.
  induction succ as [|z succ IH]; intros st; [reflexivity|].
  cbn [enumerate_mincovers_below_loop2 is_nil negb check]. cbv zeta.
  unfold expand_ok. cbn [forallb map rev].
  destruct (Nat.eqb (length (union p [z])) k); cbn [andb]; [|reflexivity].
  rewrite IH. unfold expand_ok. destruct (forallb _ succ); [|reflexivity].
  rewrite <- app_assoc. reflexivity.
Qed.

Lemma inclb_single Y b : inclb [b] Y = mem_box Y b.
Proof. unfold inclb. cbn. destruct (mem_box Y b); reflexivity. Qed.

Theorem enumerate_mincovers_below_loop_is_work lm X Y : NoDup lm ->
  forall fuel acc stack,
  enumerate_mincovers_below_loop fuel X Y lm (length lm) acc stack =
  below_work fuel (length lm) lm X Y acc stack.
Proof.
  intros Hnd. set (n := length lm).
  induction fuel as [|f IH]; intros acc stack; [reflexivity|].
  destruct stack as [|p st]; [reflexivity|].
  cbn [enumerate_mincovers_below_loop below_work is_nil negb]. cbv zeta.
  destruct (length p <=? n)%nat eqn:L; cbn [check]; [|reflexivity].
  destruct (Nat.eqb (length p) n) eqn:Q; [apply IH|].
  apply Nat.leb_le in L. apply Nat.eqb_neq in Q.
  assert (Hlt : (length p < n)%nat) by lia.
  apply Nat.ltb_lt in Hlt as Hltb. rewrite Hltb. cbn [check Nat.leb].
  rewrite Nat.add_sub, Nat.add_1_r.
  destruct (nth_error_lt lm (length p) Hlt) as [b Hb]. rewrite Hb.
  rewrite inclb_single.
  rewrite lm_tail_gen_is_skipn by (fold n; lia || exact Hnd).
  replace (S (length p) - 1)%nat with (length p) by lia.
  rewrite (nth_error_skipn _ _ _ Hb). cbn [below_expand bind ok].
  destruct (mem_box Y b); cbn [check]; [|reflexivity]. cbv zeta.
  destruct (Nat.eqb (length (union p (b :: skipn (S (length p)) lm))) n);
    cbn [negb]; [|reflexivity].
  rewrite below_and_suff_gen_is_model, bind_bind.
  apply bind_ext. intros succ.
  rewrite below_loop2_is_map, expand_fold_is_map.
  destruct (expand_ok p (S (length p)) succ); cbn [bind ok]; [apply IH | reflexivity].
Qed.

Theorem enumerate_mincovers_below_gen_is_work : forall fuel c X Y, NoDup c ->
  enumerate_mincovers_below_gen fuel c X Y =
  check (inclb c Y) (check (1 <=? length c)%nat
    (bind (below_work fuel (length c) c X Y [] [[]]) (fun r =>
       check (negb (is_nil (fst r))) (ok (fst r))))).
Proof.
  intros fuel c X Y Hnd. unfold enumerate_mincovers_below_gen. cbv zeta.
  rewrite (enumerate_mincovers_below_loop_is_work c X Y Hnd).
  do 2 f_equal. apply bind_ext. intros [a b]. reflexivity.
Qed.

(* below_expand is the model's level step on one partial cover *)
Lemma below_levels_single n k ymax tl X Y p :
  below_levels n k (ymax :: tl) X Y [p] =
  bind (below_expand n k (ymax :: tl) X Y p)
    (fun news => below_levels n (S k) tl X Y (news ++ [])).
Proof.
  cbn [below_levels fold_right]. cbn [bind ok]. rewrite bind_bind. reflexivity.
Qed.


(* ================== (D) the stack worklist and the level order (below) *)
(* When the model's level-by-level enumeration returns, the worklist of the
   code (with enough fuel) returns too, and the same covers up to equality
   of sets: both visit the tree of partial covers whose nodes at depth k-1
   are expanded by below_expand on lm[k-1 ..]; the model lists its leaves
   from left to right, the stack meets them from right to left. *)
Lemma rev_concat {A} (Ls : list (list A)) :
  rev (concat Ls) = concat (map (@rev A) (rev Ls)).
Proof.
  induction Ls as [|L Ls IH]; [reflexivity|]. cbn [concat rev map].
  rewrite rev_app_distr, IH, map_app, concat_app. cbn. rewrite app_nil_r. reflexivity.
Qed.

Lemma concat_concat' {A} (l : list (list (list A))) :
  concat (concat l) = concat (map (@concat A) l).
Proof.
  induction l as [|x l IH]; [reflexivity|]. cbn. rewrite concat_app, IH. reflexivity.
Qed.

Lemma concat_singletons {A} (l : list A) : concat (map (fun a => [a]) l) = l.
Proof. induction l as [|a l IH]; cbn; [reflexivity|]. rewrite IH. reflexivity. Qed.

Lemma Forall2_rev' {A B} (R : A -> B -> Prop) l l' :
  Forall2 R l l' -> Forall2 R (rev l) (rev l').
Proof.
  induction 1 as [|a b l l' H HF IH]; [constructor|]. cbn [rev].
  apply Forall2_app; [exact IH | constructor; [exact H | constructor]].
Qed.

Lemma Forall2_concat_inv {A B} (R : A -> B -> Prop) (xss : list (list A)) :
  forall ys, Forall2 R (concat xss) ys ->
  exists yss, ys = concat yss /\ Forall2 (Forall2 R) xss yss.
Proof.
  induction xss as [|xs xss IH]; intros ys H; cbn [concat] in H.
  - inversion H. exists []. split; [reflexivity | constructor].
  - apply Forall2_app_inv_l in H. destruct H as [y1 [y2 [H1 [H2 ->]]]].
    destruct (IH _ H2) as [yss [-> HF]]. exists (y1 :: yss).
    split; [reflexivity | constructor; assumption].
Qed.

Lemma union_fam_app F G1 G2 : union_fam F (G1 ++ G2) = union_fam (union_fam F G1) G2.
Proof. unfold union_fam. apply fold_left_app. Qed.

Lemma has_union_fam_nil l C : has (union_fam [] l) C <-> has l C.
Proof.
  split.
  - intros [c [Hc Hs]]. destruct (union_fam_In _ _ _ Hc) as [[]|Hin]. exists c. split; assumption.
  - apply union_fam_has_r'.
Qed.

Lemma has_rev l C : has (rev l) C <-> has l C.
Proof. split; intros [c [Hc Hs]]; exists c; (split; [|exact Hs]); [apply in_rev | apply in_rev in Hc]; assumption. Qed.

Section Tree.
Variables (n : nat) (lm X Y : list box).

Definition expand (p : list box) : res family :=
  below_expand n (S (length p)) (skipn (length p) lm) X Y p.

(* [tree d p L]: every expansion below the partial cover p, d levels above
   the complete covers, succeeds, and L lists the complete covers below p
   from left to right *)
Fixpoint tree (d : nat) (p : list box) (L : family) : Prop :=
  match d with
  | O => length p = n /\ L = [p]
  | S d' =>
      (length p < n)%nat /\
      exists news Ls, expand p = ok news /\ Forall2 (tree d') news Ls /\ L = concat Ls
  end.

Lemma dfs_list (d : nat)
  (IH : forall p L, tree d p L -> exists c, forall fuel acc st,
     below_work (c + fuel) n lm X Y acc (p :: st) =
     below_work fuel n lm X Y (union_fam acc (rev L)) st) :
  forall ps Ls, Forall2 (tree d) ps Ls -> exists c, forall fuel acc st,
     below_work (c + fuel) n lm X Y acc (ps ++ st) =
     below_work fuel n lm X Y (union_fam acc (concat (map (@rev _) Ls))) st.
Proof.
  induction 1 as [|p L ps Ls H HF IHl].
  - exists 0%nat. intros. reflexivity.
  - destruct (IH p L H) as [c1 H1]. destruct IHl as [c2 H2].
    exists (c1 + c2)%nat. intros fuel acc st.
    rewrite <- Nat.add_assoc. cbn [app]. rewrite H1, H2. cbn [map concat].
    rewrite union_fam_app. reflexivity.
Qed.

Lemma dfs_tree : forall d p L, tree d p L -> exists c, forall fuel acc st,
  below_work (c + fuel) n lm X Y acc (p :: st) =
  below_work fuel n lm X Y (union_fam acc (rev L)) st.
Proof.
  induction d as [|d IH]; intros p L H.
  - destruct H as [Hl ->]. exists 1%nat. intros fuel acc st.
    cbn [Nat.add below_work]. rewrite Hl, Nat.leb_refl, Nat.eqb_refl. reflexivity.
  - destruct H as [Hlt [news [Ls [He [HF ->]]]]].
    destruct (dfs_list d IH (rev news) (rev Ls) (Forall2_rev' _ _ _ HF)) as [c Hc].
    exists (S c). intros fuel acc st. cbn [Nat.add below_work].
    assert (L1 : (length p <=? n)%nat = true) by (apply Nat.leb_le; lia).
    assert (L2 : Nat.eqb (length p) n = false) by (apply Nat.eqb_neq; lia).
    rewrite L1, L2. cbn [check]. unfold expand in He. rewrite He. cbn [bind ok].
    rewrite Hc, rev_concat. reflexivity.
Qed.

Lemma expand_lengths p news :
  expand p = ok news -> Forall (fun c => length c = S (length p)) news.
Proof.
  unfold expand, below_expand. destruct (skipn (length p) lm) as [|ymax tl]; [discriminate|].
  intros H. apply check_inl in H. destruct H as [_ H]. cbv zeta in H.
  destruct (negb (Nat.eqb _ n)); [discriminate|].
  apply bind_inl in H. destruct H as [succ [_ H]].
  rewrite expand_fold_is_map in H.
  destruct (expand_ok p (S (length p)) succ) eqn:E; [|discriminate].
  inversion H. subst news. apply Forall_forall. intros c Hc.
  apply in_map_iff in Hc. destruct Hc as [z [<- Hz]].
  unfold expand_ok in E. rewrite forallb_forall in E. apply Nat.eqb_eq, E, Hz.
Qed.

Lemma levels_fold k tail : forall partials next,
  fold_right (fun p acc => bind acc (fun done =>
      bind (below_expand n k tail X Y p) (fun news => ok (news ++ done))))
    (ok []) partials = ok next ->
  exists newss,
    Forall2 (fun p news => below_expand n k tail X Y p = ok news) partials newss /\
    next = concat newss.
Proof.
  induction partials as [|p partials IH]; intros next H; cbn [fold_right] in H.
  - inversion H. exists []. split; [constructor | reflexivity].
  - apply bind_inl in H. destruct H as [done [Hd H]].
    apply bind_inl in H. destruct H as [news [Hn H]]. inversion H. subst next.
    destruct (IH _ Hd) as [newss [HF ->]]. exists (news :: newss).
    split; [constructor; assumption | reflexivity].
Qed.

Lemma skipn_cons_S {A} (l : list A) : forall j a t,
  skipn j l = a :: t -> skipn (S j) l = t.
Proof.
  induction l as [|b l IH]; intros [|j] a t H; cbn in *; try discriminate.
  - inversion H. reflexivity.
  - apply (IH j a t H).
Qed.

Lemma bfs_tree : forall tail j partials r,
  tail = skipn j lm -> (j + length tail = n)%nat ->
  Forall (fun p => length p = j) partials ->
  below_levels n (S j) tail X Y partials = ok r ->
  exists Ls, Forall2 (tree (length tail)) partials Ls /\ r = concat Ls.
Proof.
  induction tail as [|ymax tl IH]; intros j partials r Ht Hn Hp H.
  - cbn in H. inversion H. subst r. exists (map (fun p => [p]) partials).
    split; [|symmetry; apply concat_singletons].
    cbn [length] in *. clear H. induction Hp as [|p ps Hl _ IHp]; cbn [map]; [constructor|].
    constructor; [|exact IHp]. split; [lia | reflexivity].
  - cbn [below_levels] in H. apply bind_inl in H. destruct H as [next [Hf H]].
    destruct (levels_fold _ _ _ _ Hf) as [newss [HF ->]].
    assert (Hexp : Forall2 (fun p news => expand p = ok news) partials newss).
    { clear - HF Hp Ht. induction HF as [|p news ps nss H1 _ IH2]; constructor.
      - inversion Hp. subst. unfold expand. rewrite <- Ht. exact H1.
      - apply IH2. inversion Hp. assumption. }
    assert (Hlen : Forall (fun c => length c = S j) (concat newss)).
    { clear - Hexp Hp. induction Hexp as [|p news ps nss H1 _ IH2]; cbn [concat]; [constructor|].
      apply Forall_app. inversion Hp. subst. split; [|apply IH2; assumption].
      apply expand_lengths in H1. exact H1. }
    cbn [length] in Hn.
    destruct (IH (S j) (concat newss) r (eq_sym (skipn_cons_S _ _ _ _ (eq_sym Ht)))
                ltac:(lia) Hlen H) as [Ls' [HT ->]].
    destruct (Forall2_concat_inv _ _ _ HT) as [yss [-> HY]].
    exists (map (@concat _) yss). split; [|apply concat_concat'].
    clear - Hexp HY Hp Hn. revert yss HY.
    induction Hexp as [|p news ps nss H1 _ IH2]; intros yss HY; inversion HY; subst; cbn [map];
      constructor.
    + cbn [tree length]. inversion Hp. subst. split; [lia|].
      exists news, y. split; [exact H1|]. split; [assumption | reflexivity].
    + apply IH2; [inversion Hp; assumption | assumption].
Qed.
End Tree.

(* the code's enumeration refines the model's: same covers as sets *)
Theorem enumerate_below_code_refines_model : forall c X Y r, NoDup c ->
  enumerate_below c X Y = ok r ->
  exists f0 r',
    (forall f, enumerate_mincovers_below_gen (f0 + f) c X Y = ok r') /\
    (forall C, has r C <-> has r' C).
Proof.
  intros c X Y r Hnd H. unfold enumerate_below in H.
  apply check_inl in H. destruct H as [Hi H]. cbv zeta in H.
  apply check_inl in H. destruct H as [H1 H].
  apply bind_inl in H. destruct H as [leaves [Hl H]]. cbv zeta in H.
  apply check_inl in H. destruct H as [Hne H]. inversion H. subst r. clear H.
  destruct (bfs_tree (length c) c X Y c 0%nat [[]] leaves eq_refl eq_refl
              ltac:(constructor; [reflexivity | constructor]) Hl) as [Ls [HT ->]].
  inversion HT as [|p L ps Ls0 HT1 HT2]. subst. inversion HT2. subst. clear HT HT2.
  cbn [concat] in *. rewrite app_nil_r in *.
  destruct (dfs_tree _ _ _ _ _ _ _ HT1) as [c0 Hc].
  exists (c0 + 1)%nat, (union_fam [] (rev L)). split.
  - intros f. rewrite (enumerate_mincovers_below_gen_is_work _ _ _ _ Hnd).
    rewrite Hi, H1. cbn [check].
    replace (c0 + 1 + f)%nat with (c0 + S f)%nat by lia. rewrite Hc.
    cbn [below_work bind ok fst].
    assert (E : is_nil (union_fam [] (rev L)) = false).
    { apply negb_true_iff in Hne. destruct (union_fam [] L) as [|c1 F] eqn:EU; [discriminate|].
      assert (Hh : has (union_fam [] (rev L)) c1).
      { apply has_union_fam_nil, has_rev, has_union_fam_nil. rewrite EU.
        exists c1. split; [left; reflexivity|]. split; intros b Hb; exact Hb. }
      destruct Hh as [c' [Hc' _]]. destruct (union_fam [] (rev L)); [destruct Hc' | reflexivity]. }
    rewrite E. reflexivity.
  - intros C. rewrite !has_union_fam_nil, has_rev. reflexivity.
Qed.

(* ---- cover_enum._enumerate_mincovers_unfloor: a SET of partial covers
   (pop takes the first, add appends unless present) *)
Definition unfloor_expand (k : nat) (yfloor : box) (Y p : list box) : res family :=
  let succ := those_over Y yfloor in
  check (negb (is_nil succ))
    (fold_right (fun z acc2 => bind acc2 (fun news =>
        let new := union p [z] in
        if Nat.eqb (length new) k then ok (new :: news) else fail EAssert))
       (ok []) succ).

(* ... which is the model's level step on one partial cover *)
Lemma unfloor_levels_single k yfloor lm' Y p :
  unfloor_levels k (yfloor :: lm') Y [p] =
  bind (unfloor_expand k yfloor Y p)
    (fun news => unfloor_levels (S k) lm' Y (news ++ [])).
Proof.
  cbn [unfloor_levels fold_right]. cbv zeta. unfold unfloor_expand. cbv zeta.
  rewrite bind_check. f_equal. cbn [bind ok]. rewrite bind_bind. reflexivity.
Qed.

Fixpoint unfloor_work (fuel n : nat) (lm Y : list box) (acc partials : family)
  : res (family * family) :=
  match fuel with
  | O => fail EFuel
  | S f =>
      match partials with
      | [] => ok (acc, [])
      | p :: ps =>
          check (length p <=? n)%nat
            (if Nat.eqb (length p) n
             then unfloor_work f n lm Y (add_cover p acc) ps
             else
               match nth_error lm (length p) with
               | None => fail EAssert
               | Some yfloor =>
                   bind (unfloor_expand (S (length p)) yfloor Y p)
                     (fun news => unfloor_work f n lm Y acc (union_fam ps news))
               end)
      end
  end.

Lemma unfloor_loop2_is_map p k : forall succ ps,
  enumerate_mincovers_unfloor_loop2 succ p k ps =
  if expand_ok p k succ
  then ok (union_fam ps (map (fun z => union p [z]) succ)) else fail EAssert.
Proof.
  induction succ as [|z succ IH]; intros ps; [reflexivity|].
  cbn [enumerate_mincovers_unfloor_loop2 is_nil negb check]. cbv zeta.
  unfold expand_ok. cbn [forallb map]. rewrite (Nat.eqb_sym k).
  destruct (Nat.eqb (length (union p [z])) k); cbn [andb check]; [|reflexivity].
  rewrite IH. unfold expand_ok. destruct (forallb _ succ); reflexivity.
Qed.

Theorem enumerate_mincovers_unfloor_loop_is_work lm Y :
  forall fuel acc partials,
  enumerate_mincovers_unfloor_loop fuel Y lm (length lm) acc partials =
  unfloor_work fuel (length lm) lm Y acc partials.
Proof.
  set (n := length lm).
  induction fuel as [|f IH]; intros acc partials; [reflexivity|].
  destruct partials as [|p ps]; [reflexivity|].
  cbn [enumerate_mincovers_unfloor_loop unfloor_work is_nil negb]. cbv zeta.
  destruct (length p <=? n)%nat eqn:L; cbn [check]; [|reflexivity].
  destruct (Nat.eqb (length p) n) eqn:Q; [apply IH|].
  apply Nat.leb_le in L. apply Nat.eqb_neq in Q.
  assert (Hlt : (length p < n)%nat) by lia.
  apply Nat.ltb_lt in Hlt as Hltb. rewrite Hltb. cbn [check].
  rewrite Nat.add_sub, Nat.add_1_r.
  destruct (nth_error lm (length p)) as [yf|]; [|reflexivity].
  rewrite y_unfloor_gen_is_model. unfold unfloor_expand. cbv zeta.
  rewrite !bind_check. f_equal. cbn [bind ok].
  rewrite unfloor_loop2_is_map, expand_fold_is_map.
  destruct (expand_ok p (S (length p)) (those_over Y yf)); cbn [bind ok];
    [apply IH | reflexivity].
Qed.

Theorem enumerate_mincovers_unfloor_gen_is_work : forall fuel c Y,
  enumerate_mincovers_unfloor_gen fuel c Y =
  check (1 <=? length c)%nat
    (bind (unfloor_work fuel (length c) c Y [] [[]]) (fun r =>
       check (negb (is_nil (fst r))) (ok (fst r)))).
Proof.
  intros fuel c Y. unfold enumerate_mincovers_unfloor_gen. cbv zeta.
  rewrite (enumerate_mincovers_unfloor_loop_is_work c Y).
  f_equal. apply bind_ext. intros [a b]. reflexivity.
Qed.

(* ============ (D') the set worklist and the level order (unfloor) *)
(* _enumerate_mincovers_unfloor keeps its partial covers in a Python set:
   a partial cover equal (as a set) to one already waiting is dropped.  The
   model expands level by level without merging.  Partial covers that are
   equal as sets have the same complete covers below them (as sets), so the
   worklist collects the same covers as the model lists. *)
Lemma has_app (A B : family) C : has (A ++ B) C <-> has A C \/ has B C.
Proof.
  split.
  - intros [c [Hc Hs]]. apply in_app_or in Hc.
    destruct Hc; [left | right]; exists c; split; assumption.
  - intros [[c [Hc Hs]]|[c [Hc Hs]]]; exists c; (split; [|exact Hs]); apply in_or_app; auto.
Qed.

Lemma has_single p C : has [p] C <-> same_set C p.
Proof.
  split.
  - intros [c [[<-|[]] Hs]]. exact Hs.
  - intros H. exists p. split; [left; reflexivity | exact H].
Qed.

Lemma has_add_cover p F C : has (add_cover p F) C <-> has F C \/ same_set C p.
Proof.
  unfold add_cover. destruct (anyb (same_setb p) F) eqn:E.
  - split; [auto|]. intros [H|H]; [exact H|].
    rewrite anyb_existsb in E. apply existsb_exists in E. destruct E as [d [Hd Hs]].
    apply same_setb_true in Hs. exists d. split; [exact Hd|].
    apply (same_set_trans _ _ _ H Hs).
  - rewrite has_app, has_single. reflexivity.
Qed.

Lemma has_concat_Forall2 {A} (R : A -> family -> Prop) xs Ls C :
  Forall2 R xs Ls -> has (concat Ls) C ->
  exists x L, In x xs /\ R x L /\ has L C.
Proof.
  induction 1 as [|x L xs Ls H HF IH]; cbn [concat]; intros Hh.
  - destruct Hh as [c [[] _]].
  - apply has_app in Hh. destruct Hh as [Hh|Hh].
    + exists x, L. split; [left; reflexivity|]. split; assumption.
    + destruct (IH Hh) as [x' [L' [A1 [A2 A3]]]]. exists x', L'.
      split; [right; exact A1|]. split; assumption.
Qed.

Lemma has_concat_In (Ls : list family) L C : In L Ls -> has L C -> has (concat Ls) C.
Proof.
  intros HL [c [Hc Hs]]. exists c. split; [|exact Hs].
  apply in_concat. exists L. split; assumption.
Qed.

Lemma NoDup_same_set_length (a b : list box) :
  NoDup a -> NoDup b -> same_set a b -> length a = length b.
Proof.
  intros Ha Hb [H1 H2]. apply Nat.le_antisymm; apply NoDup_incl_length; assumption.
Qed.

Lemma NoDup_snoc {A} (l : list A) z : NoDup l -> ~ In z l -> NoDup (l ++ [z]).
Proof.
  induction l as [|a l IH]; cbn; intros Hn Hz; [constructor; [intros []|constructor]|].
  inversion Hn. subst. constructor.
  - intros Hin. apply in_app_or in Hin. destruct Hin as [Hin|[<-|[]]]; [auto|]. apply Hz. left. reflexivity.
  - apply IH; [assumption|]. intros Hin. apply Hz. right. exact Hin.
Qed.

Lemma union_single_length_NoDup p z :
  NoDup p -> length (union p [z]) = S (length p) -> NoDup (union p [z]).
Proof.
  intros Hp Hl. unfold union, diff in *. cbn [filter] in *.
  destruct (mem_box p z) eqn:M; cbn [negb] in *.
  - rewrite app_nil_r in Hl. lia.
  - apply NoDup_snoc; [exact Hp|].
    intros Hin. apply mem_box_true in Hin. congruence.
Qed.

Lemma same_set_union_single c q z : same_set c q -> same_set (union c [z]) (union q [z]).
Proof.
  intros [H1 H2]. split; intros b Hb; apply union_In in Hb; apply union_In;
    (destruct Hb as [Hb|Hb]; [left | right; exact Hb]); [apply H1 | apply H2]; exact Hb.
Qed.

Lemma skipn_cons_nth {A} (l : list A) : forall j a t,
  skipn j l = a :: t -> nth_error l j = Some a.
Proof.
  induction l as [|b l IH]; intros [|j] a t H; cbn in *; try discriminate.
  - inversion H. reflexivity.
  - apply (IH j a t H).
Qed.

Lemma list_sum_app l1 l2 : list_sum (l1 ++ l2) = (list_sum l1 + list_sum l2)%nat.
Proof.
  induction l1 as [|a l1 IH]; [reflexivity|].
  change (list_sum ((a :: l1) ++ l2)) with (a + list_sum (l1 ++ l2))%nat.
  change (list_sum (a :: l1)) with (a + list_sum l1)%nat. rewrite IH. lia.
Qed.

Section UTree.
Variables (n : nat) (lm Y : list box).

Definition uexpand (p : list box) : res family :=
  match nth_error lm (length p) with
  | None => fail EAssert
  | Some yf => unfloor_expand (S (length p)) yf Y p
  end.

Fixpoint utree (d : nat) (p : list box) (L : family) : Prop :=
  match d with
  | O => length p = n /\ L = [p]
  | S d' =>
      (length p < n)%nat /\
      exists news Ls, uexpand p = ok news /\ Forall2 (utree d') news Ls /\ L = concat Ls
  end.

Lemma uexpand_inv p news : uexpand p = ok news ->
  exists yf, nth_error lm (length p) = Some yf /\
    news = map (fun z => union p [z]) (those_over Y yf) /\
    expand_ok p (S (length p)) (those_over Y yf) = true.
Proof.
  unfold uexpand. destruct (nth_error lm (length p)) as [yf|]; [|discriminate].
  unfold unfloor_expand. cbv zeta. intros H. apply check_inl in H. destruct H as [_ H].
  rewrite expand_fold_is_map in H.
  destruct (expand_ok p (S (length p)) (those_over Y yf)) eqn:E; [|discriminate].
  inversion H. exists yf. auto.
Qed.

Lemma expand_ok_In p k succ z :
  expand_ok p k succ = true -> In z succ -> length (union p [z]) = k.
Proof.
  unfold expand_ok. rewrite forallb_forall. intros H Hz. apply Nat.eqb_eq, H, Hz.
Qed.

(* partial covers equal as sets have the same covers below them *)
Lemma utree_same_set : forall d c q L L', NoDup c -> NoDup q -> same_set c q ->
  utree d c L -> utree d q L' -> forall C, has L C <-> has L' C.
Proof.
  induction d as [|d IH]; intros c q L L' Hc Hq Hs HL HL' C.
  - destruct HL as [_ ->], HL' as [_ ->]. rewrite !has_single. split; intros H.
    + apply (same_set_trans _ _ _ H Hs).
    + apply (same_set_trans _ _ _ H (same_set_sym _ _ Hs)).
  - destruct HL as [_ [news [Ls [He [HF ->]]]]].
    destruct HL' as [_ [news' [Ls' [He' [HF' ->]]]]].
    destruct (uexpand_inv _ _ He) as [yf [Hn [-> Hok]]].
    destruct (uexpand_inv _ _ He') as [yf' [Hn' [-> Hok']]].
    rewrite <- (NoDup_same_set_length _ _ Hc Hq Hs) in Hn', Hok'.
    rewrite Hn in Hn'. inversion Hn'. subst yf'. clear Hn'.
    set (succ := those_over Y yf) in *.
    assert (G : forall l Ls Ls', incl l succ ->
      Forall2 (utree d) (map (fun z => union c [z]) l) Ls ->
      Forall2 (utree d) (map (fun z => union q [z]) l) Ls' ->
      (has (concat Ls) C <-> has (concat Ls') C)).
    { induction l as [|z l IHl]; intros Ks Ks' Hi H1 H2; cbn [map] in *;
        inversion H1; inversion H2; subst; cbn [concat]; [reflexivity|].
      rewrite !has_app. rewrite (IHl l' l'0); [|intros b Hb; apply Hi; right; exact Hb|assumption|assumption].
      assert (Hz : In z succ) by (apply Hi; left; reflexivity).
      rewrite (IH (union c [z]) (union q [z]) y y0); [reflexivity| | | |assumption|assumption].
      - apply union_single_length_NoDup; [exact Hc | apply (expand_ok_In _ _ _ _ Hok Hz)].
      - apply union_single_length_NoDup; [exact Hq|].
        rewrite <- (NoDup_same_set_length _ _ Hc Hq Hs). apply (expand_ok_In _ _ _ _ Hok' Hz).
      - apply same_set_union_single, Hs. }
    apply (G succ Ls Ls' (incl_refl _) HF HF').
Qed.

(* ---- the model: level order *)
Lemma ulevels_fold k succ : forall partials next,
  fold_right (fun p acc => bind acc (fun done =>
      bind (fold_right (fun z acc2 => bind acc2 (fun news =>
               let new := union p [z] in
               if Nat.eqb (length new) k then ok (new :: news) else fail EAssert))
             (ok []) succ)
           (fun news => ok (news ++ done))))
    (ok []) partials = ok next ->
  exists newss,
    Forall2 (fun p news => expand_ok p k succ = true /\
                           news = map (fun z => union p [z]) succ) partials newss /\
    next = concat newss.
Proof.
  induction partials as [|p partials IH]; intros next H; cbn [fold_right] in H.
  - inversion H. exists []. split; [constructor | reflexivity].
  - apply bind_inl in H. destruct H as [done [Hd H]].
    apply bind_inl in H. destruct H as [news [Hn H]]. inversion H. subst next.
    rewrite expand_fold_is_map in Hn.
    destruct (expand_ok p k succ) eqn:E; [|discriminate]. inversion Hn. subst news.
    destruct (IH _ Hd) as [newss [HF ->]]. eexists (_ :: newss).
    split; [constructor; [split; [exact E | reflexivity] | exact HF] | reflexivity].
Qed.

Lemma ubfs_tree : forall tail j partials r,
  tail = skipn j lm -> (j + length tail = n)%nat ->
  Forall (fun p => length p = j) partials ->
  unfloor_levels (S j) tail Y partials = ok r ->
  exists Ls, Forall2 (utree (length tail)) partials Ls /\ r = concat Ls.
Proof.
  induction tail as [|yf tl IH]; intros j partials r Ht Hn Hp H.
  - cbn in H. inversion H. subst r. exists (map (fun p => [p]) partials).
    split; [|symmetry; apply concat_singletons].
    cbn [length] in *. clear H. induction Hp as [|p ps Hl _ IHp]; cbn [map]; [constructor|].
    constructor; [|exact IHp]. split; [lia | reflexivity].
  - cbn [unfloor_levels] in H. cbv zeta in H.
    apply check_inl in H. destruct H as [Hne H].
    apply bind_inl in H. destruct H as [next [Hf H]].
    destruct (ulevels_fold _ _ _ _ Hf) as [newss [HF ->]].
    pose proof (skipn_cons_nth _ _ _ _ (eq_sym Ht)) as Hnth.
    assert (Hexp : Forall2 (fun p news => uexpand p = ok news) partials newss).
    { clear - HF Hp Hnth Hne. induction HF as [|p news ps nss [H1 H1'] _ IH2]; constructor.
      - inversion Hp. subst. unfold uexpand. rewrite Hnth. unfold unfloor_expand. cbv zeta.
        rewrite Hne. cbn [check]. rewrite expand_fold_is_map, H1. reflexivity.
      - apply IH2. inversion Hp. assumption. }
    assert (Hlen : Forall (fun c => length c = S j) (concat newss)).
    { clear - HF Hp. induction HF as [|p news ps nss [H1 H1'] _ IH2]; cbn [concat]; [constructor|].
      apply Forall_app. inversion Hp. subst. split; [|apply IH2; assumption].
      apply Forall_forall. intros c Hc. apply in_map_iff in Hc. destruct Hc as [z [<- Hz]].
      apply (expand_ok_In _ _ _ _ H1 Hz). }
    cbn [length] in Hn.
    destruct (IH (S j) (concat newss) r (eq_sym (skipn_cons_S _ _ _ _ (eq_sym Ht)))
                ltac:(lia) Hlen H) as [Ls' [HT ->]].
    destruct (Forall2_concat_inv _ _ _ HT) as [yss [-> HY]].
    exists (map (@concat _) yss). split; [|apply concat_concat'].
    clear - Hexp HY Hp Hn. revert yss HY.
    induction Hexp as [|p news ps nss H1 _ IH2]; intros yss HY; inversion HY; subst; cbn [map];
      constructor.
    + cbn [utree length]. inversion Hp. subst. split; [lia|].
      exists news, y. split; [exact H1|]. split; [assumption | reflexivity].
    + apply IH2; [inversion Hp; assumption | assumption].
Qed.

(* ---- the code: a set of partial covers *)
Fixpoint usize (d : nat) (p : list box) : nat :=
  match d with
  | O => 1
  | S d' => S (match uexpand p with
               | inl news => list_sum (map (usize d') news)
               | inr _ => 0
               end)
  end.

Definition qsize (Q : family) : nat :=
  list_sum (map (fun p => usize (n - length p) p) Q).

Definition good (p : list box) : Prop :=
  NoDup p /\ (length p <= n)%nat /\ exists L, utree (n - length p) p L.

Lemma qsize_cons c Q : qsize (c :: Q) = (usize (n - length c) c + qsize Q)%nat.
Proof. reflexivity. Qed.

Lemma qsize_add_cover c F : (qsize (add_cover c F) <= qsize F + usize (n - length c) c)%nat.
Proof.
  unfold add_cover. destruct (anyb (same_setb c) F); [lia|].
  unfold qsize. rewrite map_app, list_sum_app. cbn. lia.
Qed.

Lemma qsize_union_fam news : forall ps,
  (qsize (union_fam ps news) <= qsize ps + qsize news)%nat.
Proof.
  unfold union_fam. induction news as [|c news IH]; intros ps; cbn [fold_left].
  - unfold qsize at 3. cbn. lia.
  - specialize (IH (add_cover c ps)). pose proof (qsize_add_cover c ps).
    rewrite qsize_cons. lia.
Qed.

Lemma uwork_inv : forall fuel acc Q, (qsize Q < fuel)%nat -> Forall good Q ->
  exists acc', unfloor_work fuel n lm Y acc Q = ok (acc', []) /\
    forall C, has acc' C <->
      (has acc C \/ exists p L, In p Q /\ utree (n - length p) p L /\ has L C).
Proof.
  induction fuel as [|f IH]; intros acc Q Hq HQ; [lia|].
  destruct Q as [|p ps].
  - exists acc. split; [reflexivity|]. intros C. split; [auto|].
    intros [H|[p [L [[] _]]]]. exact H.
  - inversion HQ as [|? ? Hp Hps]. subst. destruct Hp as [Hnd [Hle [L HL]]].
    cbn [unfloor_work].
    assert (L1 : (length p <=? n)%nat = true) by (apply Nat.leb_le; exact Hle).
    rewrite L1. cbn [check].
    rewrite qsize_cons in Hq.
    destruct (n - length p)%nat as [|d] eqn:Ed.
    + (* a complete cover: collected *)
      assert (En : length p = n) by lia.
      apply Nat.eqb_eq in En as Eb. rewrite Eb.
      destruct (IH (add_cover p acc) ps ltac:(cbn [usize] in Hq; lia) Hps) as [acc' [Hw Hh]].
      exists acc'. split; [exact Hw|]. intros C. rewrite Hh, has_add_cover. split.
      * intros [[H|H]|[q [Lq [Hin Hr]]]]; [left; exact H| |right; exists q, Lq; split; [right; exact Hin | exact Hr]].
        right. exists p, [p]. split; [left; reflexivity|]. rewrite Ed. split; [split; [exact En|reflexivity]|].
        apply has_single, H.
      * intros [H|[q [Lq [[<-|Hin] [Ht Hc]]]]]; [left; left; exact H| |right; exists q, Lq; auto].
        rewrite Ed in Ht. destruct Ht as [_ ->]. left. right. apply has_single, Hc.
    + (* expanded *)
      assert (Hlt : (length p < n)%nat) by lia.
      assert (Eb : Nat.eqb (length p) n = false) by (apply Nat.eqb_neq; lia). rewrite Eb.
      destruct HL as [_ [news [Ls [He [HF ->]]]]].
      assert (Ew : match nth_error lm (length p) with
                   | Some yfloor =>
                       bind (unfloor_expand (S (length p)) yfloor Y p)
                         (fun news => unfloor_work f n lm Y acc (union_fam ps news))
                   | None => fail EAssert
                   end = unfloor_work f n lm Y acc (union_fam ps news)).
      { unfold uexpand in He. destruct (nth_error lm (length p)); [|discriminate].
        rewrite He. reflexivity. }
      rewrite Ew. clear Ew.
      destruct (uexpand_inv _ _ He) as [yf [Hnth [Hnews Hok]]].
      assert (Hgn : Forall good news).
      { apply Forall_forall. intros c Hc. subst news. apply in_map_iff in Hc.
        destruct Hc as [z [<- Hz]]. pose proof (expand_ok_In _ _ _ _ Hok Hz) as Hl.
        split; [apply union_single_length_NoDup; assumption|]. split; [lia|].
        rewrite Hl. replace (n - S (length p))%nat with d by lia.
        clear - HF Hz. revert Ls HF. induction (those_over Y yf) as [|a l IHl]; [destruct Hz|].
        intros Ls HF. cbn [map] in HF. inversion HF. subst. destruct Hz as [<-|Hz]; [eauto|].
        apply (IHl Hz l'). assumption. }
      assert (Hsz : (qsize news = list_sum (map (usize d) news))%nat).
      { unfold qsize. f_equal. apply map_ext_in. intros c Hc. subst news.
        apply in_map_iff in Hc. destruct Hc as [z [<- Hz]].
        rewrite (expand_ok_In _ _ _ _ Hok Hz). f_equal. lia. }
      assert (Hgq : Forall good (union_fam ps news)).
      { apply Forall_forall. intros q Hq'. destruct (union_fam_In _ _ _ Hq') as [H|H].
        - rewrite Forall_forall in Hps. apply Hps, H.
        - rewrite Forall_forall in Hgn. apply Hgn, H. }
      destruct (IH acc (union_fam ps news)) as [acc' [Hw Hh]]; [|exact Hgq|].
      { pose proof (qsize_union_fam news ps). cbn [usize] in Hq. rewrite He in Hq. unfold ok in Hq. lia. }
      exists acc'. split; [exact Hw|]. intros C. rewrite Hh. split.
      * intros [H|[q [Lq [Hin [Ht Hc]]]]]; [left; exact H|]. right.
        destruct (union_fam_In _ _ _ Hin) as [H|H]; [exists q, Lq; split; [right; exact H|split; assumption]|].
        exists p, (concat Ls). split; [left; reflexivity|]. rewrite Ed.
        split; [split; [exact Hlt|]; exists news, Ls; auto|].
        (* q is a child of p *)
        assert (Hq2 : exists Lq', In Lq' Ls /\ utree d q Lq').
        { clear - HF H. revert Ls HF. induction news as [|a l IHl]; [destruct H|].
          intros Ls HF. inversion HF. subst. destruct H as [<-|H].
          - exists y. split; [left; reflexivity | assumption].
          - destruct (IHl H l') as [Lq' [A B]]; [assumption|]. exists Lq'. split; [right; exact A | exact B]. }
        destruct Hq2 as [Lq' [HinL Htq]].
        rewrite Forall_forall in Hgn. destruct (Hgn q H) as [Hndq [Hleq _]].
        assert (Edq : (n - length q = d)%nat).
        { subst news. apply in_map_iff in H. destruct H as [z [<- Hz]].
          rewrite (expand_ok_In _ _ _ _ Hok Hz). lia. }
        rewrite Edq in Ht.
        apply (has_concat_In Ls Lq' C HinL).
        apply (utree_same_set d q q Lq Lq' Hndq Hndq (same_set_refl _) Ht Htq), Hc.
      * intros [H|[q [Lq [[<-|Hin] [Ht Hc]]]]]; [left; exact H| |].
        -- (* below p: through the representative of a child *)
           right. rewrite Ed in Ht.
           assert (Hc' : has (concat Ls) C).
           { apply (utree_same_set (S d) p p Lq (concat Ls) Hnd Hnd (same_set_refl _) Ht);
               [|exact Hc]. split; [exact Hlt|]. exists news, Ls. auto. }
           destruct (has_concat_Forall2 _ _ _ _ HF Hc') as [c [Lc [Hcin [Htc Hhc]]]].
           destruct (union_fam_has_r news ps c Hcin) as [q [Hqin Hsq]].
           rewrite Forall_forall in Hgn, Hgq.
           destruct (Hgn c Hcin) as [Hndc [_ _]].
           destruct (Hgq q Hqin) as [Hndq [Hleq [Lq' Htq]]].
           assert (Edc : (n - length c = d)%nat).
           { subst news. apply in_map_iff in Hcin. destruct Hcin as [z [<- Hz]].
             rewrite (expand_ok_In _ _ _ _ Hok Hz). lia. }
           rewrite <- (NoDup_same_set_length _ _ Hndc Hndq Hsq) in Htq. rewrite Edc in Htq.
           exists q, Lq'. split; [exact Hqin|].
           rewrite <- (NoDup_same_set_length _ _ Hndc Hndq Hsq), Edc.
           split; [exact Htq|].
           apply (utree_same_set d c q Lc Lq' Hndc Hndq Hsq Htc Htq), Hhc.
        -- right. exists q, Lq. split; [apply union_fam_incl, Hin | split; assumption].
Qed.
End UTree.

Theorem enumerate_unfloor_code_refines_model : forall c Y r,
  enumerate_unfloor c Y = ok r ->
  exists f0, forall f, exists r',
    enumerate_mincovers_unfloor_gen (f0 + f) c Y = ok r' /\
    (forall C, has r C <-> has r' C).
Proof.
  intros c Y r H. unfold enumerate_unfloor in H.
  apply check_inl in H. destruct H as [H1 H].
  apply bind_inl in H. destruct H as [leaves [Hl H]]. cbv zeta in H.
  apply check_inl in H. destruct H as [Hne H]. inversion H. subst r. clear H.
  destruct (ubfs_tree (length c) c Y c 0%nat [[]] leaves eq_refl eq_refl
              ltac:(constructor; [reflexivity | constructor]) Hl) as [Ls [HT ->]].
  inversion HT as [|p L ps Ls0 HT1 HT2]. subst. inversion HT2. subst. clear HT HT2.
  cbn [concat] in *. rewrite app_nil_r in *.
  exists (S (qsize (length c) c Y [[]])). intros f.
  destruct (uwork_inv (length c) c Y (S (qsize (length c) c Y [[]]) + f) [] [[]])
    as [acc' [Hw Hh]]; [lia| |].
  { constructor; [|constructor]. split; [constructor|]. split; [cbn; lia|].
    exists L. cbn [length]. rewrite Nat.sub_0_r. exact HT1. }
  assert (Heq : forall C, has (union_fam [] L) C <-> has acc' C).
  { intros C. rewrite Hh, has_union_fam_nil. split.
    - intros HC. right. exists [], L. split; [left; reflexivity|].
      cbn [length]. rewrite Nat.sub_0_r. split; assumption.
    - intros [[q [[] _]]|[q [Lq [[<-|[]] [Ht HC]]]]].
      cbn [length] in Ht. rewrite Nat.sub_0_r in Ht.
      apply (utree_same_set (length c) c Y (length c) [] [] Lq L (NoDup_nil _) (NoDup_nil _)
               (same_set_refl _) Ht HT1), HC. }
  exists acc'. split; [|exact Heq].
  rewrite enumerate_mincovers_unfloor_gen_is_work. rewrite H1. cbn [check].
  rewrite Hw. cbn [bind ok fst].
  assert (E : is_nil acc' = false).
  { apply negb_true_iff in Hne. destruct (union_fam [] L) as [|c1 F] eqn:EU; [discriminate|].
    assert (Hh1 : has acc' c1).
    { apply Heq. exists c1. split; [left; reflexivity | apply same_set_refl]. }
    destruct Hh1 as [c' [Hc' _]]. destruct acc'; [destruct Hc' | reflexivity]. }
  rewrite E. reflexivity.
Qed.

Print Assumptions below_and_suff_gen_is_model.
Print Assumptions y_unfloor_gen_is_model.
Print Assumptions lm_tail_gen_is_skipn.
Print Assumptions mincovers_from_floor_gen_is_model.
Print Assumptions mincovers_from_unfloor_gen_is_model.
Print Assumptions cyclic_core_fixpoint_recursive_gen_is_model.
Print Assumptions enum_minimize_gen_is_model.
Print Assumptions enumerate_mincovers_below_gen_is_work.
Print Assumptions below_levels_single.
Print Assumptions enumerate_mincovers_unfloor_gen_is_work.
Print Assumptions unfloor_levels_single.
Print Assumptions enumerate_below_code_refines_model.
Print Assumptions enumerate_unfloor_code_refines_model.
