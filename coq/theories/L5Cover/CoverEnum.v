(* L5Cover / CoverEnum: executable model of omega/symbolic/cover_enum.py
   (minimize, _cyclic_core_fixpoint_recursive, _traverse_exhaustive,
   _branch_exhaustive, _mincovers_from_floor, _enumerate_mincovers_below,
   _below_and_suff, _lm_tail, _mincovers_from_unfloor,
   _enumerate_mincovers_unfloor, _y_unfloor) over explicit finite sets of
   lattice elements, with Python's [assert]s modelled as errors.  The code
   modelled is the one repaired by fixes/F2.patch (care_vars) and
   fixes/F17.patch (leaf of _traverse_exhaustive; the unrepaired leaf is kept
   in CoverEnumOldLeaf.v for the regression example).

   Model file: definitions only; proofs in CoverEnumProofs.v.

   A cover is a duplicate-free list of lattice elements; a Python set of
   covers is a list of covers without repetitions up to [same_setb].
   [pick_iter] enumerates a set in the order of its list.  The while-loops
   with a stack / a set of partial covers are modelled level by level (the
   result set does not depend on the order in which partial covers are
   expanded; which of two failing assertions is met first may). *)
From Coq Require Import List ZArith Bool Lia Arith.
Import ListNotations.
From Omega Require Import L5Cover.Boxes L5Cover.MinCover.
Open Scope Z_scope.

Inductive err :=
  | E419      (* assert fol.count(cover) == n      in _enumerate_mincovers_below *)
  | E425      (* assert fol.count(new_cover) == k  in _enumerate_mincovers_below *)
  | EAssert   (* any other assertion of cover_enum.py *)
  | EFuel.    (* the model ran out of fuel (not a behaviour of the code) *)

Definition res (A : Type) := (A + err)%type.
Definition ok {A} (a : A) : res A := inl a.
Definition fail {A} (e : err) : res A := inr e.
Definition bind {A B} (r : res A) (k : A -> res B) : res B :=
  match r with inl a => k a | inr e => inr e end.
Definition check {A} (b : bool) (k : res A) : res A :=
  if b then k else inr EAssert.

Notation "'chk' b ';;' k" := (check b k) (at level 200, b at level 100, right associativity).
Notation "'do' x '<-' r ';;' k" := (bind r (fun x => k))
  (at level 200, x name, r at level 100, right associativity).

Definition family := list (list box).

Definition is_nil {A} (l : list A) : bool :=
  match l with [] => true | _ => false end.

(* set of covers: add without repetition *)
Definition add_cover (c : list box) (F : family) : family :=
  if anyb (same_setb c) F then F else F ++ [c].
Definition union_fam (F G : family) : family := fold_left (fun acc c => add_cover c acc) G F.

(* cover._cover_refines: every x is below some y *)
Definition cover_refines (X Y : list box) : bool :=
  allb (fun x => anyb (box_leb x) Y) X.

Definition uniform (F : family) : bool :=
  match F with
  | [] => true
  | c :: _ => allb (fun d => Nat.eqb (length d) (length c)) F
  end.

(* _assert_are_covers, _assert_covers_from, _assert_uniform_cardinality *)
Definition are_covers (X : list box) (F : family) : bool :=
  allb (fun c => cover_refines X c) F.
Definition covers_from (F : family) (Y : list box) : bool :=
  allb (fun c => inclb c Y) F.

(* _below_and_suff: the elements of y below ymax that cover every x covered,
   among the elements of [cover], by ymax only *)
Definition below_and_suff (ymax : box) (cover X Y : list box) : res (list box) :=
  let other := diff cover [ymax] in
  let xsig := filter (fun p => negb (anyb (box_leb p) other)) X in
  check (negb (is_nil xsig))
    (let yonly := filter (fun q => allb (fun p => box_leb p q) xsig) Y in
     check (negb (is_nil yonly))
       (let yk := filter (fun p => box_leb p ymax) yonly in
        check (negb (is_nil yk)) (ok yk))).

Section Enum.
Variable rs : ranges.
Variable pick : list box -> option box.

(* one level of _enumerate_mincovers_below: [tail] = lm[k-1 ..], its head is
   ymax; every partial cover has k-1 elements *)
Definition below_expand (n k : nat) (tail X Y : list box) (partial : list box)
  : res family :=
  match tail with
  | [] => fail EAssert
  | ymax :: _ =>
      check (mem_box Y ymax)
        (let cover := union partial tail in
         if negb (Nat.eqb (length cover) n) then fail E419
         else
           bind (below_and_suff ymax cover X Y) (fun succ =>
             fold_right (fun z acc =>
               bind acc (fun news =>
                 let new := union partial [z] in
                 if Nat.eqb (length new) k then ok (new :: news)
                 else fail E425)) (ok []) succ))
  end.

Fixpoint below_levels (n k : nat) (tail X Y : list box) (partials : family)
  : res family :=
  match tail with
  | [] => ok partials
  | _ :: tail' =>
      bind (fold_right (fun p acc =>
              bind acc (fun done =>
                bind (below_expand n k tail X Y p) (fun news => ok (news ++ done))))
              (ok []) partials)
           (fun next => below_levels n (S k) tail' X Y next)
  end.

(* _enumerate_mincovers_below *)
Definition enumerate_below (cover_from_max X Y : list box) : res family :=
  check (inclb cover_from_max Y)
    (let n := length cover_from_max in
     check (Nat.leb 1 n)
       (bind (below_levels n 1 cover_from_max X Y [[]]) (fun r =>
          let r' := union_fam [] r in
          check (negb (is_nil r')) (ok r')))).

(* _mincovers_from_floor *)
Definition from_floor (core : family) (X Yfl : list box) : res family :=
  bind (fold_left (fun acc c =>
          bind acc (fun done =>
            bind (enumerate_below c X Yfl) (fun b => ok (union_fam done b))))
          core (ok []))
       (fun r => check (Nat.leb (length core) (length r)) (ok r)).

(* one level of _enumerate_mincovers_unfloor *)
Fixpoint unfloor_levels (k : nat) (lm Y : list box) (partials : family)
  : res family :=
  match lm with
  | [] => ok partials
  | yfloor :: lm' =>
      let succ := those_over Y yfloor in       (* _y_unfloor *)
      check (negb (is_nil succ))
        (bind (fold_right (fun p acc =>
                 bind acc (fun done =>
                   bind (fold_right (fun z acc2 =>
                           bind acc2 (fun news =>
                             let new := union p [z] in
                             if Nat.eqb (length new) k then ok (new :: news)
                             else fail EAssert)) (ok []) succ)
                        (fun news => ok (news ++ done))))
                 (ok []) partials)
              (fun next => unfloor_levels (S k) lm' Y next))
  end.

Definition enumerate_unfloor (cover_from_floor Y : list box) : res family :=
  check (Nat.leb 1 (length cover_from_floor))
    (bind (unfloor_levels 1 cover_from_floor Y [[]]) (fun r =>
       let r' := union_fam [] r in
       check (negb (is_nil r')) (ok r'))).

(* _mincovers_from_unfloor *)
Definition from_unfloor (fl : family) (Y : list box) : res family :=
  bind (fold_left (fun acc c =>
          bind acc (fun done =>
            bind (enumerate_unfloor c Y) (fun b => ok (union_fam done b))))
          fl (ok []))
       (fun r => check (Nat.leb (length fl) (length r)) (ok r)).

(* _cyclic_core_fixpoint_recursive with _traverse_exhaustive and
   _branch_exhaustive inlined; bab.upper_bound is threaded through *)
Fixpoint ccfr (fuel : nat) (X Y : list box) (pc ub : nat)
  : res (family * nat) :=
  match fuel with
  | O => fail EFuel
  | S n =>
      check (cover_refines X Y)
      (let xt := max_ceilings rs X Y in
       let yt := max_floors rs xt Y in
       let yfl := dedup (map (floor rs xt) Y) in
       let e := inter xt yt in
       let x := diff xt e in
       let y := diff yt e in
       let npc := (pc + length e)%nat in
       let core_res : res (family * nat) :=
         if (if (if same_setb x X then same_setb y Y else false) then true
             else is_nil x)
         then
           (* _traverse_exhaustive *)
           let core_lb := indep_size pick (S (length x)) x y in
           let blb := (npc + core_lb)%nat in
           match x with
           | [] =>
               (* leaf, AS REPAIRED by fixes/F17.patch: accepted only if it
                  is not more expensive than the upper bound *)
               check (is_nil y) (check (Nat.eqb core_lb 0)
                 (if (ub <? blb)%nat then ok ([], ub) else ok ([[]], blb)))
           | _ =>
               if (ub <? blb)%nat then ok ([], ub)
               else
                 (* _branch_exhaustive *)
                 match pick y with
                 | None => fail EAssert
                 | Some d =>
                     let ynew := diff y [d] in
                     let xm := filter (fun p => negb (box_leb p d)) x in
                     check (negb (Nat.eqb (length xm) (length x)))
                       (bind (ccfr n xm ynew (S npc) ub) (fun l =>
                          let L := map (fun c => union c [d]) (fst l) in
                          bind (ccfr n x ynew npc (snd l)) (fun r =>
                            let R := fst r in
                            match L, R with
                            | [], _ => ok (R, snd r)
                            | _, [] => ok (L, snd r)
                            | l0 :: _, r0 :: _ =>
                                if (length l0 <? length r0)%nat then ok (L, snd r)
                                else if (length r0 <? length l0)%nat then ok (R, snd r)
                                else ok (union_fam L R, snd r)
                            end)))
                 end
           end
         else ccfr n x y npc ub in
       do cr <- core_res ;;
         match fst cr with
         | [] => ok ([], snd cr)
         | _ =>
             chk (if is_nil e then negb (is_nil y) else true) ;;
             chk covers_from (fst cr) yfl ;;
             let core := union_fam [] (map (fun c => union c e) (fst cr)) in
             chk allb (fun c => negb (is_nil c)) core ;;
             chk inclb yt yfl ;;
             chk inclb e yfl ;;
             chk are_covers xt core ;;
             chk covers_from core yt ;;
             chk uniform core ;;
             do fl <- from_floor core xt yfl ;;
             chk negb (is_nil fl) ;;
             chk are_covers xt fl ;;
             chk covers_from fl yfl ;;
             chk uniform fl ;;
             do mc <- from_unfloor fl Y ;;
             chk negb (is_nil mc) ;;
             chk are_covers X mc ;;
             chk covers_from mc Y ;;
             chk uniform mc ;;
             ok (mc, snd cr)
         end)
  end.

(* cover_enum.minimize on the covering problem (X, Y) *)
Definition enum_xy (X Y : list box) : res family :=
  match some_cover pick (S (length X)) X Y with
  | None => fail EAssert
  | Some c0 =>
      bind (ccfr (2 * (length X + length Y) + 4) X Y 0 (length c0)) (fun r =>
        check (negb (is_nil (fst r))) (ok (fst r)))
  end.
End Enum.

(* cover_enum.minimize(f, care, fol) *)
Definition enum_minimize (rs : ranges) (pick : list box -> option box)
  (f care : point -> bool) : res family :=
  enum_xy rs pick (embed rs f) (primes rs f care).

(* ---- the mechanism of finding F2 (unrepaired code).
   A BDD over the parameters does not depend on a parameter variable when the
   set it denotes is a cylinder along it.  Context.pick_iter(u) without
   care_vars then returns ONE partial assignment for all the elements of the
   set that differ only in that parameter, and Context.count(u) counts them
   once; _enumerate_mincovers_below treated each result of pick_iter as one
   element, and its assertions count(...) == k fail. *)
Fixpoint set_nth_box (i : nat) (v : ival) (b : box) : box :=
  match i, b with
  | O, _ :: b' => v :: b'
  | S i', x :: b' => x :: set_nth_box i' v b'
  | _, [] => []
  end.
Definition set_param (second : bool) (i : nat) (v : Z) (b : box) : box :=
  let cur := nth i b (0, 0) in
  set_nth_box i (if second then (fst cur, v) else (v, snd cur)) b.
(* S is a cylinder along the parameter a_i (second = false) or b_i (true),
   whose values range over r *)
Definition independent_of (r : ival) (S : list box) (i : nat) (second : bool)
  : bool :=
  allb (fun b => allb (fun v => mem_box S (set_param second i v b))
                      (zrange (fst r) (snd r))) S.
