(* The functions of omega/symbolic/prime.py and the identifier helpers of
   omega/logic/syntax.py TRANSLATED on every run (gen/PrimeGen.v, written by
   tools/py2coq_prime.py, tie T) are the hand-written model of
   theories/L3Context/Prime.v that the C18 theorems are about.

   Eighteen equalities are Leibniz equalities of FUNCTIONS, closed by
   conversion (the translator's let chains and renamed locals are absorbed
   by zeta / alpha conversion; any change of what is computed is not).
   Four are equalities at every argument, by lemmas:
     is_primed_state_predicate  any(...) stops at the first True, the model
                                maps and then tests: equal because
                                is_variable is defined on unprimed names;
     vars_in_support            the asserted union is built through
                                set(...) in the code: same members;
     rename_variables           dict(pairs) then update = update pair by
                                pair; `not s.intersection(d)` = no member
                                of s is a key of d;
     is_action_of_player        aut.vars_of_players is a parameter.
   Then: specifications of the functions that had no theorem
   (support_issubset, is_primed_state_predicate, is_action_of_player,
   vars_in_support, joint_support), stated about the generated functions.
   Re-checked on every run of ./check C18: a change of prime.py / syntax.py
   that alters a translated term breaks an obligation here. *)
From Coq Require Import List Bool String Ascii.
From Omega Require Import L0Bits.Bits L3Context.Ctx L3Context.CtxFacts
  L3Context.Prime L3Context.PrimeFacts L3Context.PyPrims.
From OmegaGen Require PrimeGen.
Import ListNotations.

Lemma bridge_stx_PRIME : PrimeGen.stx_PRIME = PRIME.
Proof. reflexivity. Qed.
Lemma bridge_stx_isprimed : PrimeGen.stx_isprimed = isprimed.
Proof. reflexivity. Qed.
Lemma bridge_stx_prime : PrimeGen.stx_prime = sprime.
Proof. reflexivity. Qed.
Lemma bridge_stx_unprime : PrimeGen.stx_unprime = sunprime.
Proof. reflexivity. Qed.
Lemma bridge_stx_prime_vars : PrimeGen.stx_prime_vars = map_opt sprime.
Proof. reflexivity. Qed.
Lemma bridge_stx_unprime_vars : PrimeGen.stx_unprime_vars = map_opt sunprime.
Proof. reflexivity. Qed.
Lemma bridge_is_variable : PrimeGen.is_variable = is_variable.
Proof. reflexivity. Qed.
Lemma bridge_is_constant : PrimeGen.is_constant = is_constant.
Proof. reflexivity. Qed.
Lemma bridge_unprimed_support : PrimeGen.unprimed_support = unprimed_support.
Proof. reflexivity. Qed.
Lemma bridge_primed_support : PrimeGen.primed_support = primed_support.
Proof. reflexivity. Qed.
Lemma bridge_split_support : PrimeGen.split_support = split_support.
Proof. reflexivity. Qed.
Lemma bridge_rigid_support : PrimeGen.rigid_support = rigid_support.
Proof. reflexivity. Qed.
Lemma bridge_flexible_support : PrimeGen.flexible_support = flexible_support.
Proof. reflexivity. Qed.
Lemma bridge_is_state_predicate : PrimeGen.is_state_predicate = is_state_predicate.
Proof. reflexivity. Qed.
Lemma bridge_is_proper_action : PrimeGen.is_proper_action = is_proper_action.
Proof. reflexivity. Qed.
Lemma bridge_support_issubset : PrimeGen.support_issubset = support_issubset.
Proof. reflexivity. Qed.
Lemma bridge_prime : PrimeGen.prime = prime_pred.
Proof. reflexivity. Qed.
Lemma bridge_unprime : PrimeGen.unprime = unprime_pred.
Proof. reflexivity. Qed.
Lemma bridge_is_action_of_player t vop action player :
  PrimeGen.is_action_of_player t vop action player =
  is_action_of_player t action (vop [player]).
Proof. reflexivity. Qed.

(* ---- container facts used by the three bridges that are not conversions ---- *)
Section DictFacts.
Context {K V : Type} (keq : K -> K -> bool).
Hypothesis keq_spec : forall a b, reflect (a = b) (keq a b).

Lemma dict_set_set k (v v' : V) d :
  dict_set keq k v (dict_set keq k v' d) = dict_set keq k v d.
Proof.
  induction d as [|[a b] r IH]; cbn [dict_set].
  - destruct (keq_spec k k); [reflexivity|congruence].
  - destruct (keq_spec k a); cbn [dict_set].
    + destruct (keq_spec k k); [reflexivity|congruence].
    + destruct (keq_spec k a); [congruence|]. rewrite IH. reflexivity.
Qed.

(* replacing the value of a key that is present commutes with setting
   another key *)
Lemma dict_set_comm k k1 (v v1 : V) d : k <> k1 -> In k (map fst d) ->
  dict_set keq k v (dict_set keq k1 v1 d) = dict_set keq k1 v1 (dict_set keq k v d).
Proof.
  intros Hne. induction d as [|[a b] r IH]; intro Hin; [destruct Hin|].
  cbn [dict_set]. destruct (keq_spec k1 a), (keq_spec k a); subst; try congruence;
    cbn [dict_set].
  - destruct (keq_spec k a); [congruence|]. destruct (keq_spec a a); [|congruence].
    reflexivity.
  - destruct (keq_spec a a); [|congruence]. destruct (keq_spec k1 a); [congruence|].
    reflexivity.
  - destruct (keq_spec k a); [congruence|]. destruct (keq_spec k1 a); [congruence|].
    rewrite IH; auto. cbn [map fst In] in Hin. destruct Hin; [congruence|auto].
Qed.

Lemma dict_set_update k (v : V) d e : In k (map fst d) -> ~ In k (map fst e) ->
  dict_set keq k v (dict_update keq d e) = dict_update keq (dict_set keq k v d) e.
Proof.
  unfold dict_update. revert d. induction e as [|[k1 v1] e IH]; intros d Hin Hn;
    cbn [fold_left fst snd]; auto.
  cbn [map fst In] in Hn. rewrite IH.
  - f_equal. apply dict_set_comm; auto.
  - apply (dict_set_keys keq keq_spec). auto.
  - auto.
Qed.

Lemma dict_update_set k (v : V) e : NoDup (map fst e) -> forall d,
  dict_update keq d (dict_set keq k v e) = dict_set keq k v (dict_update keq d e).
Proof.
  induction e as [|[a b] e IH]; intros ND d.
  - reflexivity.
  - cbn [map fst] in ND. inversion ND as [|? ? Hna ND']; subst.
    cbn [dict_set]. destruct (keq_spec k a).
    + subst. unfold dict_update. cbn [fold_left fst snd].
      fold (dict_update keq (dict_set keq a v d) e).
      fold (dict_update keq (dict_set keq a b d) e).
      rewrite dict_set_update; auto.
      * rewrite dict_set_set. reflexivity.
      * apply (dict_set_keys keq keq_spec). auto.
    + unfold dict_update. cbn [fold_left fst snd].
      fold (dict_update keq (dict_set keq a b d) (dict_set keq k v e)).
      fold (dict_update keq (dict_set keq a b d) e).
      apply IH; auto.
Qed.

(* updating with dict(pairs) is updating with the pairs one after the other *)
Lemma dict_update_of_list (d e : list (K * V)) :
  dict_update keq d (dict_update keq [] e) = dict_update keq d e.
Proof.
  induction e as [|[k v] e IH] using rev_ind; [reflexivity|].
  unfold dict_update at 2 3. rewrite !fold_left_app. cbn [fold_left fst snd].
  fold (dict_update keq [] e). fold (dict_update keq d e).
  rewrite dict_update_set, IH; auto.
  apply (dict_update_nodup keq keq_spec). constructor.
Qed.
End DictFacts.

Lemma nonempty_filter {A} (f : A -> bool) l : nonempty (filter f l) = existsb f l.
Proof. induction l as [|a l IH]; cbn; auto. destruct (f a); cbn; auto. Qed.

Lemma set_eqb_members (a b b' : list ident) : (forall x, In x b <-> In x b') ->
  set_eqb String.eqb a b = set_eqb String.eqb a b'.
Proof.
  intro H. unfold set_eqb.
  assert (E1 : subset String.eqb a b = subset String.eqb a b').
  { apply eq_true_iff_eq. rewrite !(subset_spec String.eqb string_eqb_spec').
    split; intros G x Hx; apply H; auto. }
  assert (E2 : subset String.eqb b a = subset String.eqb b' a).
  { apply eq_true_iff_eq. rewrite !(subset_spec String.eqb string_eqb_spec').
    split; intros G x Hx; apply G, H; auto. }
  rewrite E1, E2. reflexivity.
Qed.

Lemma set_of_list_in l x : In x (set_of_list l) <-> In x l.
Proof.
  unfold set_of_list. rewrite (set_union_in String.eqb string_eqb_spec'). cbn. tauto.
Qed.

Lemma existsb_id_map {A} (g : A -> bool) l :
  existsb (fun b => b) (map g l) = existsb g l.
Proof. induction l as [|a l IH]; cbn; auto. rewrite IH. reflexivity. Qed.

(* any(...) stops at the first True; the model maps first and tests then: the
   two agree where the mapped function is defined *)
Lemma any_opt_defined {A} (f : A -> option bool) (g : A -> bool) l :
  (forall x, In x l -> f x = Some (g x)) ->
  any_opt f l = Some (existsb g l) /\ map_opt f l = Some (map g l).
Proof.
  induction l as [|a l IH]; intro H; cbn [any_opt map_opt existsb map]; auto.
  rewrite H by (left; auto). destruct IH as [E1 E2]; [intros; apply H; right; auto|].
  rewrite E1, E2. destruct (g a); auto.
Qed.

(* ---- the remaining bridges --------------------------------------------------- *)
Theorem bridge_is_primed_state_predicate t u :
  PrimeGen.is_primed_state_predicate t u = is_primed_state_predicate t u.
Proof.
  unfold PrimeGen.is_primed_state_predicate, is_primed_state_predicate.
  change PrimeGen.unprimed_support with unprimed_support.
  unfold unprimed_support. destruct (ctx_support t u) as [s|]; [|reflexivity].
  destruct (any_opt_defined (fun k => PrimeGen.is_variable t k) (flexible t)
              (filter (fun k => negb (isprimed k)) s)) as [E1 E2].
  { intros x Hx. apply filter_In in Hx. destruct Hx as [_ Hx].
    apply negb_true_iff in Hx. apply (is_variable_unprimed t x Hx). }
  rewrite E1. change (fun k => PrimeGen.is_variable t k) with (is_variable t) in E2.
  rewrite E2, existsb_id_map. reflexivity.
Qed.

Theorem bridge_rename_variables t lt u :
  PrimeGen.rename_variables t lt u = rename_variables t lt u.
Proof.
  unfold PrimeGen.rename_variables, rename_variables.
  change PrimeGen.stx_prime with sprime.
  destruct (map_opt _ lt) as [lp|]; [|reflexivity].
  cbv zeta. unfold dict_of_list.
  rewrite (dict_update_of_list String.eqb string_eqb_spec').
  destruct (ctx_let_vars t _ u) as [r|]; [|reflexivity].
  destruct (ctx_support t r) as [s|]; [|reflexivity].
  unfold set_inter. rewrite nonempty_filter. reflexivity.
Qed.

Theorem bridge_vars_in_support t u :
  PrimeGen.vars_in_support t u = vars_in_support t u.
Proof.
  unfold PrimeGen.vars_in_support, vars_in_support.
  change PrimeGen.stx_unprime with sunprime.
  change PrimeGen.stx_isprimed with isprimed.
  change PrimeGen.is_variable with is_variable.
  change PrimeGen.flexible_support with flexible_support.
  change PrimeGen.primed_support with primed_support.
  cbv zeta.
  destruct (ctx_support t u) as [s|]; [|reflexivity].
  match goal with |- match ?F with _ => _ end = match ?G with _ => _ end =>
    change G with F; destruct F as [vrs|]; [|reflexivity] end.
  destruct (flexible_support t u) as [fl|]; [|reflexivity].
  destruct (primed_support t u) as [pr|]; [|reflexivity].
  change (fun s0 => sunprime s0) with sunprime.
  destruct (map_opt sunprime pr) as [upr|]; [|reflexivity].
  rewrite (set_eqb_members vrs (set_union String.eqb fl (set_of_list upr))
             (set_union String.eqb fl upr)); [reflexivity|].
  intro x. rewrite !(set_union_in String.eqb string_eqb_spec'), set_of_list_in. tauto.
Qed.

(* ---- specifications, stated about the GENERATED functions ---------------------
   (the four functions that used to be tied by correspondence only, and
   joint_support, which has no hand-written model) *)
Theorem support_issubset_spec t u vrs s : ctx_support t u = Some s ->
  exists b, PrimeGen.support_issubset t u vrs = Some b /\
    (b = true <-> forall x, In x s -> In x vrs).
Proof.
  intro Hs. rewrite bridge_support_issubset. unfold support_issubset. rewrite Hs.
  eexists. split; [reflexivity|]. apply (subset_spec String.eqb string_eqb_spec').
Qed.

Theorem is_primed_state_predicate_spec t u s : ctx_support t u = Some s ->
  exists b, PrimeGen.is_primed_state_predicate t u = Some b /\
    (b = true <-> forall x, In x s -> isprimed x = false -> flexible t x = false).
Proof.
  intro Hs. unfold PrimeGen.is_primed_state_predicate.
  change PrimeGen.unprimed_support with unprimed_support.
  unfold unprimed_support. rewrite Hs.
  destruct (any_opt_defined (fun k => PrimeGen.is_variable t k) (flexible t)
              (filter (fun k => negb (isprimed k)) s)) as [E1 _].
  { intros x Hx. apply filter_In in Hx. destruct Hx as [_ Hx].
    apply negb_true_iff in Hx. apply (is_variable_unprimed t x Hx). }
  rewrite E1. eexists. split; [reflexivity|].
  rewrite negb_true_iff, <- not_true_iff_false, existsb_exists. split.
  - intros H x Hx Hp. destruct (flexible t x) eqn:F; auto. exfalso. apply H.
    exists x. split; auto. apply filter_In. rewrite Hp. auto.
  - intros H (x & Hx & F). apply filter_In in Hx. destruct Hx as [Hx Hp].
    apply negb_true_iff in Hp. rewrite (H x Hx Hp) in F. discriminate.
Qed.

Lemma map_opt_none {A B} (f : A -> option B) l x :
  In x l -> f x = None -> map_opt f l = None.
Proof.
  induction l as [|a l IH]; intros Hin E; [destruct Hin|]. cbn [map_opt].
  destruct Hin as [->|Hin]; [rewrite E; reflexivity|].
  rewrite IH; auto. destruct (f a); reflexivity.
Qed.

Lemma map_opt_total {A B} (f : A -> option B) l :
  (forall x, In x l -> exists y, f x = Some y) ->
  exists ys, map_opt f l = Some ys /\
    forall y, In y ys <-> exists x, In x l /\ f x = Some y.
Proof.
  induction l as [|a l IH]; intro H; cbn [map_opt].
  - exists []. split; auto. intro y. split; [intros []|intros (x & [] & _)].
  - destruct (H a) as (b & Eb); [left; auto|]. rewrite Eb.
    destruct IH as (ys & E & Hys); [intros; apply H; right; auto|]. rewrite E.
    exists (b :: ys). split; auto. intro y. cbn [In]. rewrite Hys. split.
    + intros [<-|(x & Hx & Ex)]; [exists a; auto|exists x; auto].
    + intros (x & [<-|Hx] & Ex); [left; congruence|right; eauto].
Qed.

Theorem is_action_of_player_spec t vop action player s :
  ctx_support t action = Some s ->
  ((forall v, In v (vop [player]) -> isprimed v = false) ->
   exists b, PrimeGen.is_action_of_player t vop action player = Some b /\
     (b = true <-> forall x, In x s -> isprimed x = true ->
                     exists v, In v (vop [player]) /\ x = (v ++ tick)%string)) /\
  ((exists v, In v (vop [player]) /\ isprimed v = true) ->
   PrimeGen.is_action_of_player t vop action player = None).
Proof.
  intro Hs. rewrite bridge_is_action_of_player. unfold is_action_of_player.
  rewrite (primed_support_eq t action s Hs). split.
  - intro Hv.
    rewrite (map_opt_some sprime (fun v => (v ++ tick)%string))
      by (intros x Hx; apply sprime_some; auto).
    eexists. split; [reflexivity|].
    rewrite (subset_spec String.eqb string_eqb_spec'). split.
    + intros H x Hx Hp. specialize (H x). rewrite filter_In, in_map_iff in H.
      destruct H as (v & E & Hin); auto. eauto.
    + intros H x Hx. apply filter_In in Hx. destruct Hx as [Hx Hp].
      destruct (H x Hx Hp) as (v & Hin & E). apply in_map_iff. eauto.
  - intros (v & Hin & Hp). rewrite (map_opt_none sprime _ v Hin); auto.
    unfold sprime. rewrite Hp. reflexivity.
Qed.

Section VarsInSupport.
Variable t : tbl.

Definition vstep (acc : option (list ident)) (k : ident) : option (list ident) :=
  match acc with
  | None => None
  | Some vrs =>
    if isprimed k then
      match sunprime k with
      | Some k' => Some (set_add String.eqb k' vrs)
      | None => None
      end
    else
      match is_variable t k with
      | Some true => Some (set_add String.eqb k vrs)
      | Some false => Some vrs
      | None => None
      end
  end.

(* what one identifier of the support contributes to vars_in_support *)
Definition contributes (k y : ident) : Prop :=
  (isprimed k = false /\ flexible t k = true /\ y = k) \/
  (isprimed k = true /\ sunprime k = Some y).

Lemma vfold s :
  (forall x, In x s -> isprimed x = true -> exists y, sunprime x = Some y) ->
  forall acc, NoDup acc ->
  exists l, fold_left vstep s (Some acc) = Some l /\ NoDup l /\
    forall y, In y l <-> In y acc \/ exists k, In k s /\ contributes k y.
Proof.
  induction s as [|k s IH]; intros Hun acc ND.
  - exists acc. split; auto. split; auto. intro y. split; auto.
    intros [H|(k & [] & _)]; auto.
  - cbn [fold_left]. assert (Hun' : forall x, In x s -> isprimed x = true ->
                               exists y, sunprime x = Some y)
      by (intros; apply Hun; auto; right; auto).
    unfold vstep at 2. destruct (isprimed k) eqn:Hp.
    + destruct (Hun k (or_introl eq_refl) Hp) as (y0 & Ey). rewrite Ey.
      destruct (IH Hun' (set_add String.eqb y0 acc)) as (l & E & NDl & Hl).
      { apply set_add_nodup; auto. apply string_eqb_spec'. }
      exists l. split; auto. split; auto. intro y. rewrite Hl.
      rewrite (set_add_in String.eqb string_eqb_spec'). split.
      * intros [[->|H]|(k' & Hk' & C)]; auto.
        -- right. exists k. split; [left; auto|]. right. auto.
        -- right. exists k'. split; [right; auto|auto].
      * intros [H|(k' & [<-|Hk'] & C)]; auto.
        -- destruct C as [(Hp' & _)|(_ & Ey')]; [congruence|].
           left. left. congruence.
        -- right. eauto.
    + destruct (is_variable_unprimed t k Hp) as [Ev _]. rewrite Ev.
      destruct (flexible t k) eqn:Hf.
      * destruct (IH Hun' (set_add String.eqb k acc)) as (l & E & NDl & Hl).
        { apply set_add_nodup; auto. apply string_eqb_spec'. }
        exists l. split; auto. split; auto. intro y. rewrite Hl.
        rewrite (set_add_in String.eqb string_eqb_spec'). split.
        -- intros [[->|H]|(k' & Hk' & C)]; auto.
           ++ right. exists k. split; [left; auto|]. left. auto.
           ++ right. exists k'. split; [right; auto|auto].
        -- intros [H|(k' & [<-|Hk'] & C)]; auto.
           ++ destruct C as [(_ & _ & ->)|(Hp' & _)]; [auto|congruence].
           ++ right. eauto.
      * destruct (IH Hun' acc ND) as (l & E & NDl & Hl).
        exists l. split; auto. split; auto. intro y. rewrite Hl. split.
        -- intros [H|(k' & Hk' & C)]; auto. right. exists k'. split; [right; auto|auto].
        -- intros [H|(k' & [<-|Hk'] & C)]; auto.
           ++ destruct C as [(_ & F & _)|(Hp' & _)]; congruence.
           ++ right. eauto.
Qed.
End VarsInSupport.

(* vars_in_support: the unprimed names of all flexible variables that occur,
   primed or not; its internal assertion never fires *)
Theorem vars_in_support_spec t u s : ctx_support t u = Some s ->
  (forall x, In x s -> isprimed x = true -> exists y, sunprime x = Some y) ->
  exists l, PrimeGen.vars_in_support t u = Some l /\ NoDup l /\
    forall y, In y l <->
      (In y s /\ isprimed y = false /\ flexible t y = true) \/
      (exists x, In x s /\ isprimed x = true /\ sunprime x = Some y).
Proof.
  intros Hs Hun. rewrite bridge_vars_in_support. unfold vars_in_support.
  rewrite Hs. cbv zeta.
  destruct (vfold t s Hun [] (NoDup_nil _)) as (l & E & ND & Hl).
  match goal with |- context [fold_left ?f s (Some [])] =>
    change f with (vstep t) end.
  rewrite E.
  destruct (support_classification t u s Hs)
    as (_ & _ & _ & _ & (fl & Efl & Hfl) & _).
  rewrite Efl, (primed_support_eq t u s Hs).
  destruct (map_opt_total sunprime (filter isprimed s)) as (upr & Eu & Hu).
  { intros x Hx. apply filter_In in Hx. destruct Hx; auto. }
  rewrite Eu.
  assert (Hmem : forall y, In y l <->
            (In y s /\ isprimed y = false /\ flexible t y = true) \/
            (exists x, In x s /\ isprimed x = true /\ sunprime x = Some y)).
  { intro y. rewrite Hl. unfold contributes. split.
    - intros [[]|(k & Hk & [(A & B & ->)|(A & B)])]; [left; auto|right; eauto].
    - intros [(A & B & C)|(x & A & B & C)]; right; [exists y|exists x]; auto. }
  assert (Eq : set_eqb String.eqb l (set_union String.eqb fl upr) = true).
  { unfold set_eqb. apply andb_true_iff.
    rewrite !(subset_spec String.eqb string_eqb_spec'). split; intros y Hy.
    - rewrite (set_union_in String.eqb string_eqb_spec'), Hfl, Hu.
      apply Hmem in Hy. destruct Hy as [H|(x & A & B & C)]; [left; auto|right].
      exists x. split; auto. apply filter_In. auto.
    - apply Hmem. rewrite (set_union_in String.eqb string_eqb_spec'), Hfl, Hu in Hy.
      destruct Hy as [H|(x & Hx & C)]; [left; auto|right].
      apply filter_In in Hx. destruct Hx. eauto. }
  rewrite Eq. exists l. auto.
Qed.

(* on an automaton's table the hypothesis on primed identifiers holds *)
Corollary vars_in_support_automaton t u : wf_aut t -> uses_only (all_bits t) u ->
  exists s l, ctx_support t u = Some s /\ PrimeGen.vars_in_support t u = Some l /\
    NoDup l /\
    forall y, In y l <->
      (In y s /\ isprimed y = false /\ flexible t y = true) \/
      (exists x, In x s /\ isprimed x = true /\ sunprime x = Some y).
Proof.
  intros Haut Hu. destruct (support_spec t u (proj1 Haut) Hu) as (s & Hs & _ & Hin).
  destruct (vars_in_support_spec t u s Hs) as (l & E & ND & Hl).
  - intros x Hx Hp. apply Hin in Hx. destruct Hx as (d & _ & _ & Hd & _).
    destruct (primed_declared_twin t x d Haut Hd Hp) as (x0 & _ & Eu & _). eauto.
  - exists s, l. auto.
Qed.

Lemma union_all_in sets : forall acc x,
  In x (fold_left (set_union String.eqb) sets acc) <->
  In x acc \/ exists s, In s sets /\ In x s.
Proof.
  induction sets as [|s sets IH]; intros acc x; cbn [fold_left].
  - split; auto. intros [H|(s & [] & _)]; auto.
  - rewrite IH, (set_union_in String.eqb string_eqb_spec'). split.
    + intros [[H|H]|(s' & Hs' & H)]; auto; right; [exists s|exists s']; cbn; auto.
    + intros [H|(s' & [<-|Hs'] & H)]; auto. right. eauto.
Qed.

Lemma union_all_nodup sets : forall acc, NoDup acc ->
  NoDup (fold_left (set_union String.eqb) sets acc).
Proof.
  induction sets as [|s sets IH]; intros acc ND; cbn [fold_left]; auto.
  apply IH. apply set_union_nodup; auto. apply string_eqb_spec'.
Qed.

(* joint_support (no hand-written model): the union of the supports *)
Theorem joint_support_spec t nodes :
  ((forall u, In u nodes -> exists s, ctx_support t u = Some s) ->
   exists l, PrimeGen.joint_support t nodes = Some l /\ NoDup l /\
     forall x, In x l <->
       exists u s, In u nodes /\ ctx_support t u = Some s /\ In x s) /\
  ((exists u, In u nodes /\ ctx_support t u = None) ->
   PrimeGen.joint_support t nodes = None).
Proof.
  unfold PrimeGen.joint_support.
  match goal with |- context [map_opt ?f nodes] => change f with (ctx_support t) end.
  split.
  - intro H. destruct (map_opt_total (ctx_support t) nodes H)
      as (ss & E & Hss). rewrite E. eexists. split; [reflexivity|]. split.
    + apply union_all_nodup. constructor.
    + intro x. unfold union_all. rewrite union_all_in. split.
      * intros [[]|(s & Hs & Hx)]. apply Hss in Hs. destruct Hs as (u & Hu & Es). eauto.
      * intros (u & s & Hu & Es & Hx). right. exists s. split; auto. apply Hss. eauto.
  - intros (u & Hu & E). rewrite (map_opt_none _ _ u Hu E). reflexivity.
Qed.

(* every translated function is the hand-written model, in one statement *)
Theorem prime_model_is_translated_code :
  PrimeGen.stx_PRIME = PRIME /\
  PrimeGen.stx_isprimed = isprimed /\
  PrimeGen.stx_prime = sprime /\
  PrimeGen.stx_unprime = sunprime /\
  PrimeGen.stx_prime_vars = map_opt sprime /\
  PrimeGen.stx_unprime_vars = map_opt sunprime /\
  PrimeGen.is_variable = is_variable /\
  PrimeGen.is_constant = is_constant /\
  PrimeGen.unprimed_support = unprimed_support /\
  PrimeGen.primed_support = primed_support /\
  PrimeGen.split_support = split_support /\
  PrimeGen.rigid_support = rigid_support /\
  PrimeGen.flexible_support = flexible_support /\
  PrimeGen.is_state_predicate = is_state_predicate /\
  PrimeGen.is_proper_action = is_proper_action /\
  PrimeGen.support_issubset = support_issubset /\
  PrimeGen.prime = prime_pred /\
  PrimeGen.unprime = unprime_pred /\
  (forall t vop action player,
     PrimeGen.is_action_of_player t vop action player =
     is_action_of_player t action (vop [player])) /\
  (forall t u, PrimeGen.is_primed_state_predicate t u = is_primed_state_predicate t u) /\
  (forall t u, PrimeGen.vars_in_support t u = vars_in_support t u) /\
  (forall t lt u, PrimeGen.rename_variables t lt u = rename_variables t lt u).
Proof.
  repeat split;
    first [ exact bridge_is_action_of_player | exact bridge_is_primed_state_predicate
          | exact bridge_vars_in_support | exact bridge_rename_variables
          | reflexivity ].
Qed.
