(* L5Cover / MinCoverProofs: soundness of the model of cover.minimize for all
   instances and every pick function: whenever the model returns a cover, it
   is a duplicate-free list of prime boxes that covers f. *)
From Coq Require Import List ZArith Bool Lia Arith.
Import ListNotations.
From Omega Require Import L5Cover.Boxes L5Cover.BoxesProofs L5Cover.MinCover.
Open Scope Z_scope.

(* ------------------------------------------------------------ the order *)
Lemma box_le_refl b : box_le b b.
Proof. unfold box_le. induction b; constructor; [unfold ival_le; lia | assumption]. Qed.

Lemma box_le_trans a b c : box_le a b -> box_le b c -> box_le a c.
Proof.
  unfold box_le. intros H. revert c. induction H as [|i j a b Hij Hab IH]; intros c Hc;
    inversion Hc; subst; constructor.
  - unfold ival_le in *. lia.
  - apply IH. assumption.
Qed.

Lemma box_le_antisym a b : box_le a b -> box_le b a -> a = b.
Proof.
  unfold box_le. intros H. induction H as [|[a1 a2] [b1 b2] a b Hij Hab IH]; intros Hc;
    inversion Hc; subst; [reflexivity|].
  f_equal.
  - unfold ival_le in *. cbn in *. f_equal; lia.
  - apply IH. assumption.
Qed.

Lemma box_le_length a b : box_le a b -> length a = length b.
Proof. unfold box_le. intros H. induction H; cbn; congruence. Qed.

Lemma filter_length_le {A} (p q : A -> bool) l :
  (forall x, In x l -> p x = true -> q x = true) ->
  (length (filter p l) <= length (filter q l))%nat.
Proof.
  induction l as [|x l IH]; intros H; cbn [filter]; [lia|].
  assert (IH' : (length (filter p l) <= length (filter q l))%nat).
  { apply IH. intros y Hy. apply H. right. exact Hy. }
  destruct (p x) eqn:Ep.
  - rewrite (H x (or_introl eq_refl) Ep). cbn [length]. lia.
  - destruct (q x); cbn [length]; lia.
Qed.

Lemma filter_length_lt {A} (p q : A -> bool) l :
  (forall x, In x l -> p x = true -> q x = true) ->
  (exists x, In x l /\ p x = false /\ q x = true) ->
  (length (filter p l) < length (filter q l))%nat.
Proof.
  induction l as [|x l IH]; intros H [y [Hy [Hp Hq]]]; [destruct Hy|].
  cbn [filter].
  assert (Hle : (length (filter p l) <= length (filter q l))%nat).
  { apply filter_length_le. intros z Hz. apply H. right. exact Hz. }
  destruct Hy as [->|Hy].
  - rewrite Hp, Hq. cbn [length]. lia.
  - assert (IH' : (length (filter p l) < length (filter q l))%nat).
    { apply IH. intros z Hz. apply H. right. exact Hz. exists y. auto. }
    destruct (p x) eqn:Ep.
    + rewrite (H x (or_introl eq_refl) Ep). cbn [length]. lia.
    + destruct (q x); cbn [length]; lia.
Qed.

(* every element of a finite set lies below a maximal element *)
Lemma maxima_In l b : In b (maxima l) <->
  In b l /\ forall c, In c l -> box_le b c -> c = b.
Proof.
  unfold maxima, maximal_in. rewrite filter_In, allb_forallb, forallb_forall. split.
  - intros [Hb H]. split; [exact Hb|]. intros c Hc Hle.
    specialize (H c Hc). rewrite if_imp in H. apply orb_true_iff in H. destruct H as [H|H].
    + apply negb_true_iff in H. apply box_leb_true in Hle. congruence.
    + apply box_eqb_true, H.
  - intros [Hb H]. split; [exact Hb|]. intros c Hc.
    destruct (box_leb b c) eqn:E; [|reflexivity]. cbn.
    apply box_eqb_true, H; [exact Hc | apply box_leb_true, E].
Qed.

Lemma maxima_above l b :
  In b l -> exists m, In m (maxima l) /\ box_le b m.
Proof.
  remember (length (filter (box_leb b) l)) as n eqn:Hn.
  revert b Hn. induction n as [n IH] using lt_wf_ind. intros b Hn Hb.
  destruct (maximal_in l b) eqn:E.
  - exists b. split; [|apply box_le_refl].
    unfold maxima. apply filter_In. split; assumption.
  - assert (exists c, In c l /\ box_le b c /\ c <> b) as [c [Hc [Hle Hne]]].
    { unfold maximal_in in E. rewrite allb_forallb in E.
      clear -E. induction l as [|c l IHl]; cbn in E; [discriminate|].
      apply andb_false_iff in E. destruct E as [E|E].
      - destruct (box_leb b c) eqn:E1; [|discriminate]. rename E into E2.
        exists c. split; [left; reflexivity|].
        split; [apply box_leb_true, E1|]. intros ->.
        rewrite box_eqb_refl in E2. discriminate.
      - destruct (IHl E) as [c' [A B]]. exists c'. split; [right; exact A | exact B]. }
    destruct (IH (length (filter (box_leb c) l))) with (b := c) as [m [Hm Hcm]];
      [|reflexivity|exact Hc|].
    + subst n. apply filter_length_lt.
      * intros z Hz Hcz. apply box_leb_true. apply box_le_trans with c; [exact Hle|].
        apply box_leb_true, Hcz.
      * exists b. split; [exact Hb|]. split.
        -- destruct (box_leb c b) eqn:Ecb; [|reflexivity].
           apply box_leb_true in Ecb. exfalso. apply Hne.
           apply box_le_antisym; assumption.
        -- apply box_leb_true, box_le_refl.
    + exists m. split; [exact Hm|]. apply box_le_trans with c; assumption.
Qed.

(* ------------------------------------------------------------ meets *)
Lemma box_meet_glb x b c : box_le x b -> box_le x c -> box_le x (box_meet b c).
Proof.
  unfold box_le. intros H. revert c. induction H as [|i j x b Hij Hxb IH]; intros c Hc;
    inversion Hc; subst; cbn [box_meet]; constructor.
  - unfold ival_le, ival_meet in *. cbn. lia.
  - apply IH. assumption.
Qed.

Lemma box_meet_le_r b c : length b = length c -> box_le (box_meet b c) c.
Proof.
  unfold box_le. revert c. induction b as [|i b IH]; intros [|j c] H; try discriminate;
    cbn [box_meet]; constructor.
  - unfold ival_le, ival_meet. cbn. lia.
  - apply IH. cbn in H. lia.
Qed.

Section AlgProofs.
Variable rs : ranges.
Variable pick : list box -> option box.
Hypothesis pick_ok : forall s b, pick s = Some b -> In b s.

Definition below_top (X : list box) : Prop := forall x, In x X -> box_le x (top rs).
(* every element of X lies below some element of C *)
Definition cov (C X : list box) : Prop :=
  forall x, In x X -> exists c, In c C /\ box_le x c.

Lemma cov_incl C C' X : incl C C' -> cov C X -> cov C' X.
Proof. intros H Hc x Hx. destruct (Hc x Hx) as [c [A B]]. exists c. split; [apply H, A | exact B]. Qed.

Lemma meet_all_glb x l :
  box_le x (top rs) -> (forall y, In y l -> box_le x y) -> box_le x (meet_all rs l).
Proof.
  intros Ht. induction l as [|y l IH]; intros H; cbn [meet_all fold_right]; [exact Ht|].
  apply box_meet_glb; [apply H; left; reflexivity|].
  apply IH. intros z Hz. apply H. right. exact Hz.
Qed.

Lemma meet_all_below_top l :
  (forall y, In y l -> length y = length rs) -> box_le (meet_all rs l) (top rs).
Proof.
  induction l as [|y l IH]; intros H; cbn [meet_all fold_right]; [apply box_le_refl|].
  assert (IH' : box_le (meet_all rs l) (top rs)).
  { apply IH. intros z Hz. apply H. right. exact Hz. }
  apply box_le_trans with (meet_all rs l); [|exact IH'].
  apply box_meet_le_r. rewrite (H y (or_introl eq_refl)).
  apply box_le_length in IH'. unfold top in IH'. symmetry. exact IH'.
Qed.

Lemma those_over_In Y x y : In y (those_over Y x) <-> In y Y /\ box_le x y.
Proof. unfold those_over. rewrite filter_In, box_leb_true. reflexivity. Qed.

Lemma ceil_above Y x : box_le x (top rs) -> box_le x (ceil rs Y x).
Proof.
  intros H. apply meet_all_glb; [exact H|]. intros y Hy.
  apply those_over_In in Hy. apply Hy.
Qed.

Lemma ceil_below_top Y x : box_le x (top rs) -> box_le (ceil rs Y x) (top rs).
Proof.
  intros H. apply meet_all_below_top. intros y Hy. apply those_over_In in Hy.
  destruct Hy as [_ Hy]. apply box_le_length in Hy. apply box_le_length in H.
  unfold top in H. congruence.
Qed.

Lemma dedup_In l b : In b (dedup l) <-> In b l.
Proof.
  induction l as [|c l IH]; cbn [dedup]; [reflexivity|].
  destruct (mem_box (dedup l) c) eqn:E.
  - rewrite IH. split; [intros H; right; exact H|].
    intros [<-|H]; [|exact H]. apply IH. apply mem_box_true, E.
  - cbn [In]. rewrite IH. reflexivity.
Qed.

Lemma dedup_NoDup l : NoDup (dedup l).
Proof.
  induction l as [|c l IH]; cbn [dedup]; [constructor|].
  destruct (mem_box (dedup l) c) eqn:E; [exact IH|].
  constructor; [|exact IH]. intros H. apply mem_box_true in H. congruence.
Qed.

Lemma inter_In A B b : In b (inter A B) <-> In b A /\ In b B.
Proof. unfold inter. rewrite filter_In, mem_box_true. reflexivity. Qed.

Lemma diff_In A B b : In b (diff A B) <-> In b A /\ ~ In b B.
Proof.
  unfold diff. rewrite filter_In, negb_true_iff. split.
  - intros [H1 H2]. split; [exact H1|]. intros H. apply mem_box_true in H. congruence.
  - intros [H1 H2]. split; [exact H1|]. destruct (mem_box B b) eqn:E; [|reflexivity].
    apply mem_box_true in E. contradiction.
Qed.

Lemma union_In A B b : In b (union A B) <-> In b A \/ In b B.
Proof.
  unfold union. rewrite in_app_iff, diff_In. split.
  - intros [H|[H _]]; auto.
  - intros [H|H]; [left; exact H|].
    destruct (in_dec box_eq_dec b A); [left; assumption | right; split; assumption].
Qed.

Lemma NoDup_app_disjoint (A B : list box) :
  NoDup A -> NoDup B -> (forall b, In b A -> ~ In b B) -> NoDup (A ++ B).
Proof.
  intros HA HB. induction HA as [|a A Ha HA IH]; intros Hd; cbn; [exact HB|].
  constructor.
  - rewrite in_app_iff. intros [H|H]; [contradiction|].
    apply (Hd a); [left; reflexivity | exact H].
  - apply IH. intros b Hb. apply Hd. right. exact Hb.
Qed.

Lemma union_NoDup A B : NoDup A -> NoDup B -> NoDup (union A B).
Proof.
  intros HA HB. unfold union. apply NoDup_app_disjoint; [exact HA | |].
  - unfold diff. apply NoDup_filter, HB.
  - intros b Hb Hd. apply diff_In in Hd. destruct Hd as [_ Hn]. contradiction.
Qed.

(* ------------------------------------------------------------ cyclic core *)
Lemma max_ceilings_cov X Y C :
  below_top X -> cov C (max_ceilings rs X Y) -> cov C X.
Proof.
  intros HX HC x Hx.
  assert (Hin : In (ceil rs Y x) (dedup (map (ceil rs Y) X))).
  { apply dedup_In, in_map, Hx. }
  destruct (maxima_above _ _ Hin) as [m [Hm Hle]].
  destruct (HC m Hm) as [c [Hc1 Hc2]]. exists c. split; [exact Hc1|].
  apply box_le_trans with (ceil rs Y x); [apply ceil_above, HX, Hx|].
  apply box_le_trans with m; assumption.
Qed.

Lemma max_ceilings_below_top X Y : below_top X -> below_top (max_ceilings rs X Y).
Proof.
  intros HX m Hm. unfold max_ceilings in Hm. apply maxima_In in Hm.
  destruct Hm as [Hm _]. rewrite dedup_In in Hm. apply in_map_iff in Hm.
  destruct Hm as [x [<- Hx]]. apply ceil_below_top, HX, Hx.
Qed.

Lemma cc_loop_sound fuel X Y E Xc Yc Ec X0 :
  cc_loop rs fuel X Y E = Some (Xc, Yc, Ec) ->
  below_top X ->
  (forall C, incl E C -> cov C X -> cov C X0) ->
  below_top Xc /\ incl E Ec /\ (forall C, incl Ec C -> cov C Xc -> cov C X0).
Proof.
  revert X Y E. induction fuel as [|n IH]; intros X Y E H HX Inv; [discriminate|].
  cbn [cc_loop] in H.
  set (X1 := max_ceilings rs X Y) in *.
  set (e := inter X1 Y) in *.
  set (X2 := diff X1 e) in *.
  set (E' := union E e) in *.
  assert (HX2 : below_top X2).
  { intros x Hx. apply diff_In in Hx. apply (max_ceilings_below_top X Y HX), Hx. }
  assert (HE : incl E E') by (intros b Hb; apply union_In; left; exact Hb).
  assert (Inv' : forall C, incl E' C -> cov C X2 -> cov C X0).
  { intros C HC Hcov. apply Inv; [intros b Hb; apply HC, HE, Hb|].
    apply (max_ceilings_cov X Y C HX). intros m Hm.
    destruct (in_dec box_eq_dec m e) as [He|He].
    - exists m. split; [|apply box_le_refl]. apply HC, union_In. right. exact He.
    - apply Hcov. apply diff_In. split; assumption. }
  destruct (if same_setb X2 X
            then same_setb (max_floors rs X2 (diff Y e)) Y else false).
  - inversion H; subst. split; [exact HX2|]. split; [exact HE | exact Inv'].
  - destruct (IH _ _ _ H HX2 Inv') as [A [B C]]. split; [exact A|]. split; [|exact C].
    eapply incl_tran; eassumption.
Qed.

Lemma cyclic_core_sound X Y Xc Yc Ec :
  cyclic_core rs X Y = Some (Xc, Yc, Ec) -> below_top X ->
  below_top Xc /\ (forall C, incl Ec C -> cov C Xc -> cov C X).
Proof.
  intros H HX. unfold cyclic_core in H.
  destruct (cc_loop_sound _ _ _ _ _ _ _ X H HX) as [A [_ B]]; [intros C _ HC; exact HC|].
  split; assumption.
Qed.

(* ------------------------------------------------------------ branch and bound *)
Lemma traverse_sound fuel : forall X Y pc ub C s u,
  traverse rs pick fuel X Y pc ub = Some (Some C, s, u) ->
  below_top X -> cov C X.
Proof.
  induction fuel as [|n IH]; intros X Y pc ub C s u H HX; [discriminate|].
  cbn [traverse] in H.
  destruct (cyclic_core rs X Y) as [[[Xc Yc] E]|] eqn:Ecc; [|discriminate].
  destruct (cyclic_core_sound _ _ _ _ _ Ecc HX) as [HXc Inv].
  destruct Xc as [|x0 Xc'].
  - destruct (ub <=? _)%nat; [discriminate|].
    inversion H; subst. apply Inv; [apply incl_refl | intros x []].
  - remember (x0 :: Xc') as Xc eqn:EXc. clear EXc.
    destruct (ub <=? _)%nat; [discriminate|].
    destruct (pick Yc) as [d|]; [|discriminate].
    set (Xm := filter (fun p => negb (box_leb p d)) Xc) in *.
    destruct (traverse rs pick n Xm (diff Yc [d]) _ ub) as [[[e0 left_lb] ub1]|] eqn:EL;
      [|discriminate].
    destruct (ub1 <=? _)%nat; [discriminate|].
    destruct (traverse rs pick n Xc (diff Yc [d]) _ ub1) as [[[e1 lb1] ub2]|] eqn:ER;
      [|discriminate].
    assert (HXm : below_top Xm).
    { intros x Hx. apply filter_In in Hx. apply HXc, Hx. }
    destruct (lt_cost e0 e1).
    + destruct e0 as [c0|]; cbn [option_map] in H; [|discriminate].
      inversion H; subst. apply Inv.
      * intros b Hb. apply union_In. right. exact Hb.
      * pose proof (IH _ _ _ _ _ _ _ EL HXm) as Hc0.
        intros x Hx. destruct (box_leb x d) eqn:Exd.
        -- exists d. split; [apply union_In; left; left; reflexivity|].
           apply box_leb_true, Exd.
        -- destruct (Hc0 x) as [c [A B]].
           { apply filter_In. split; [exact Hx | rewrite Exd; reflexivity]. }
           exists c. split; [apply union_In; left; right; exact A | exact B].
    + destruct e1 as [c1|]; cbn [option_map] in H; [|discriminate].
      inversion H; subst. apply Inv.
      * intros b Hb. apply union_In. right. exact Hb.
      * pose proof (IH _ _ _ _ _ _ _ ER HXc) as Hc1.
        apply cov_incl with c1; [|exact Hc1].
        intros b Hb. apply union_In. left. exact Hb.
Qed.

Lemma unfloors_sound C Y K :
  unfloors pick C Y = Some K -> incl K Y /\ cov K C /\ NoDup K.
Proof.
  revert K. induction C as [|z C IH]; intros K H; cbn [unfloors] in H.
  - inversion H; subst. split; [apply incl_nil_l|]. split; [intros x []|constructor].
  - destruct (pick (those_over Y z)) as [y|] eqn:Ep; [|discriminate].
    destruct (unfloors pick C Y) as [K0|]; [|discriminate].
    inversion H; subst. destruct (IH K0 eq_refl) as [A [B D]].
    apply pick_ok in Ep. apply those_over_In in Ep. destruct Ep as [Hy Hzy].
    split; [|split].
    + intros b Hb. apply union_In in Hb. destruct Hb as [[<-|[]]|Hb]; [exact Hy | apply A, Hb].
    + intros x [<-|Hx].
      * exists y. split; [apply union_In; left; left; reflexivity | exact Hzy].
      * destruct (B x Hx) as [c [Hc1 Hc2]]. exists c.
        split; [apply union_In; right; exact Hc1 | exact Hc2].
    + apply union_NoDup; [|exact D]. constructor; [intros []|constructor].
Qed.

Lemma some_cover_sound fuel : forall rem Y z,
  some_cover pick fuel rem Y = Some z -> incl z Y /\ cov z rem.
Proof.
  induction fuel as [|n IH]; intros rem Y z H.
  - destruct rem; cbn in H; [|discriminate]. inversion H; subst.
    split; [apply incl_nil_l | intros x []].
  - destruct rem as [|r0 rem'].
    + cbn in H. inversion H; subst. split; [apply incl_nil_l | intros x []].
    + remember (r0 :: rem') as rem eqn:Er.
      assert (H' : match pick rem with
        | None => None
        | Some x0 =>
          match pick (those_over Y x0) with
          | None => None
          | Some y0 =>
            match some_cover pick n (filter (fun p => negb (box_leb p y0)) rem) Y with
            | Some z => Some (y0 :: z)
            | None => None
            end
          end
        end = Some z).
      { rewrite Er in *. exact H. }
      clear H. destruct (pick rem) as [x0|]; [|discriminate].
      destruct (pick (those_over Y x0)) as [y0|] eqn:Ey; [|discriminate].
      destruct (some_cover pick n _ Y) as [z'|] eqn:Ez; [|discriminate].
      inversion H'; subst z. apply IH in Ez. destruct Ez as [A B].
      apply pick_ok in Ey. apply those_over_In in Ey. split.
      * intros b [<-|Hb]; [apply Ey | apply A, Hb].
      * intros x Hx. destruct (box_leb x y0) eqn:E.
        -- exists y0. split; [left; reflexivity | apply box_leb_true, E].
        -- destruct (B x) as [c [Hc1 Hc2]].
           { apply filter_In. split; [exact Hx | rewrite E; reflexivity]. }
           exists c. split; [right; exact Hc1 | exact Hc2].
Qed.

Theorem minimize_xy_sound X Y K :
  minimize_xy rs pick X Y = Some K -> below_top X ->
  NoDup K /\ incl K Y /\ cov K X.
Proof.
  unfold minimize_xy. intros H HX.
  destruct (some_cover pick _ X Y) as [c0|] eqn:Ec; [|discriminate].
  assert (G : forall C, cov C X -> unfloors pick C Y = Some K ->
              NoDup K /\ incl K Y /\ cov K X).
  { intros C HC HU. apply unfloors_sound in HU. destruct HU as [A [B D]].
    split; [exact D|]. split; [exact A|].
    intros x Hx. destruct (HC x Hx) as [c [Hc1 Hc2]].
    destruct (B c Hc1) as [k [Hk1 Hk2]]. exists k. split; [exact Hk1|].
    apply box_le_trans with c; assumption. }
  destruct (traverse rs pick _ X Y 0 (length c0)) as [[[[C|] s] u]|] eqn:ET;
    try discriminate.
  - apply traverse_sound in ET; [|exact HX]. apply (G C ET H).
  - apply some_cover_sound in Ec. apply (G c0 (proj2 Ec) H).
Qed.
End AlgProofs.

(* ------------------------------------------------------------ minimize *)
Lemma embed_In rs f b :
  In b (embed rs f) <-> exists p, in_ranges rs p /\ f p = true /\ b = map (fun x => (x, x)) p.
Proof.
  unfold embed. rewrite in_map_iff. split.
  - intros [p [<- Hp]]. apply fpoints_In in Hp. exists p. tauto.
  - intros [p [A [B ->]]]. exists p. split; [reflexivity|]. apply fpoints_In. tauto.
Qed.

Lemma singleton_below_top rs p :
  in_ranges rs p -> box_le (map (fun x => (x, x)) p) (top rs).
Proof.
  unfold in_ranges, box_le, top. intros H. induction H as [|r x rs p Hx Hp IH]; cbn; constructor.
  - unfold ival_le, in_ival in *. cbn. lia.
  - exact IH.
Qed.

Lemma singleton_le_contains p b :
  box_le (map (fun x => (x, x)) p) b -> contains b p.
Proof.
  unfold box_le, contains. revert b. induction p as [|x p IH]; intros b H; inversion H; subst.
  - constructor.
  - constructor; [|apply IH; assumption].
    unfold ival_le, in_ival in *. cbn in *. lia.
Qed.

(* for every instance and every pick: a returned cover consists of distinct
   primes of f \/ ~care and covers every point of f *)
Theorem minimize_sound rs pick f care K :
  (forall s b, pick s = Some b -> In b s) ->
  minimize rs pick f care = Some K ->
  NoDup K /\ prime_cover rs f care K.
Proof.
  intros Hpick H. unfold minimize in H.
  apply (minimize_xy_sound rs pick Hpick) in H.
  - destruct H as [A [B C]]. split; [exact A|]. split.
    + intros b Hb. apply primes_In, B, Hb.
    + intros p Hr Hf.
      destruct (C (map (fun x => (x, x)) p)) as [k [Hk1 Hk2]].
      { apply embed_In. exists p. tauto. }
      exists k. split; [exact Hk1 | apply singleton_le_contains, Hk2].
  - intros x Hx. apply embed_In in Hx. destruct Hx as [p [Hp [_ ->]]].
    apply singleton_below_top, Hp.
Qed.

Lemma pick_first_ok s b : pick_first s = Some b -> In b s.
Proof. destruct s; cbn; [discriminate|]. intros H. inversion H. left. reflexivity. Qed.

Lemma pick_last_ok s b : pick_last s = Some b -> In b s.
Proof.
  unfold pick_last. intros H. apply in_rev.
  destruct (rev s); cbn in H; [discriminate|]. inversion H. left. reflexivity.
Qed.

(* ------------------------------------------------------------ totality of the reference *)
Lemma contains_singleton p q : contains (map (fun x => (x, x)) p) q -> q = p.
Proof.
  unfold contains. revert q. induction p as [|x p IH]; intros q H; inversion H; subst.
  - reflexivity.
  - f_equal; [unfold in_ival in *; cbn in *; lia | apply IH; assumption].
Qed.

Lemma singleton_box_in rs p : in_ranges rs p -> box_in rs (map (fun x => (x, x)) p).
Proof.
  unfold in_ranges, box_in. intros H. induction H; cbn; constructor; [|assumption].
  unfold ival_in, in_ival in *. cbn. lia.
Qed.

Lemma singleton_contains p : contains (map (fun x => (x, x)) p) p.
Proof. unfold contains. induction p; cbn; constructor; [unfold in_ival; cbn; lia | assumption]. Qed.

(* the set of all primes covers f: every point of f lies in a maximal box *)
Theorem primes_cover rs f care : prime_cover rs f care (primes rs f care).
Proof.
  split; [intros b Hb; apply primes_In, Hb|].
  intros p Hr Hf.
  set (b := map (fun x => (x, x)) p).
  assert (Hb : In b (implicants rs f care)).
  { apply implicants_In. split; [apply singleton_box_in, Hr|].
    intros q Hq. apply contains_singleton in Hq. subst q. left. exact Hf. }
  destruct (maxima_above _ _ Hb) as [m [Hm Hle]].
  exists m. split; [exact Hm|].
  apply (box_le_incl _ _ Hle), singleton_contains.
Qed.

Theorem min_cover_ref_total rs f care :
  exists K, min_cover_ref rs f care = Some K /\ min_prime_cover rs f care K.
Proof.
  pose proof (min_cover_ref_correct rs f care) as H.
  destruct (min_cover_ref rs f care) as [K|].
  - exists K. split; [reflexivity | exact H].
  - exfalso. apply (H (primes rs f care)), primes_cover.
Qed.

(* ------------------------------------------------------------ consequences for C10 *)
Lemma all_min_same_size rs f care R :
  all_min_prime_covers rs f care R ->
  forall K K', In K R -> In K' R -> length K = length K'.
Proof.
  intros [HA _] K K' HK HK'.
  destruct (HA K HK) as [_ [P M]]. destruct (HA K' HK') as [_ [P' M']].
  specialize (M K' P'). specialize (M' K P). lia.
Qed.

Lemma all_min_nonempty rs f care R :
  all_min_prime_covers rs f care R -> R <> [].
Proof.
  intros [_ HB] E. destruct (min_cover_ref_total rs f care) as [K [_ HK]].
  destruct (HB K HK) as [K' [Hin _]]. subst R. destruct Hin.
Qed.

Lemma all_min_contains rs f care R K :
  all_min_prime_covers rs f care R -> min_prime_cover rs f care K ->
  anyb (same_setb K) R = true.
Proof.
  intros [_ HB] HK. destruct (HB K HK) as [K' [Hin Hs]].
  rewrite anyb_existsb. apply existsb_exists. exists K'.
  split; [exact Hin | apply same_setb_true, Hs].
Qed.

(* the set of all minimum covers is unique up to order *)
Lemma all_min_unique rs f care R R' :
  all_min_prime_covers rs f care R -> all_min_prime_covers rs f care R' ->
  (forall K, In K R -> exists K', In K' R' /\ same_set K K') /\
  (forall K', In K' R' -> exists K, In K R /\ same_set K' K).
Proof.
  intros [A B] [A' B']. split.
  - intros K HK. apply B', A, HK.
  - intros K' HK'. apply B, A', HK'.
Qed.
