(* L7 / BitsProofs: int_bits_roundtrip — for every type hint and every value
   representable in the bits of the variable (negative and Boolean included),
   decoding the bits that the generated code reads from
   assign_bitvectors(state) gives the value back. *)
From Coq Require Import List Bool ZArith Lia.
Import ListNotations.
From Omega Require Import L7Codegen.Bits.
Local Open Scope Z_scope.

(* --- bit_length ---------------------------------------------------------- *)
Lemma size_bounds p : 2 ^ (Zpos (Pos.size p) - 1) <= Zpos p < 2 ^ Zpos (Pos.size p).
Proof.
  split.
  - assert (H := Pos.size_le p).
    assert (E : Zpos (2 ^ Pos.size p) <= Zpos p~0) by exact H.
    rewrite Pos2Z.inj_pow in E.
    assert (X : Zpos p~0 = 2 * Zpos p) by reflexivity.
    replace (Zpos (Pos.size p)) with (Z.succ (Zpos (Pos.size p) - 1)) in E by lia.
    rewrite Z.pow_succ_r in E by lia. lia.
  - assert (H := Pos.size_gt p).
    assert (E : Zpos p < Zpos (2 ^ Pos.size p)) by exact H.
    rewrite Pos2Z.inj_pow in E. exact E.
Qed.

Lemma bit_length_nonneg x : 0 <= bit_length x.
Proof. destruct x; cbn; lia. Qed.

Lemma bit_length_upper y : 0 <= y -> y < 2 ^ bit_length y.
Proof.
  destruct y as [|p|p]; intro H; cbn [bit_length]; [cbn; lia| |lia].
  apply size_bounds.
Qed.

(* 0 <= y < 2^w  ->  bit_length y <= w *)
Lemma bit_length_le y w : 0 <= w -> 0 <= y < 2 ^ w -> bit_length y <= w.
Proof.
  intros Hw [H0 H1]. destruct y as [|p|p]; cbn [bit_length]; [lia| |lia].
  destruct (size_bounds p) as [L _].
  assert (B : 2 ^ (Zpos (Pos.size p) - 1) < 2 ^ w) by lia.
  apply Z.pow_lt_mono_r_iff in B; lia.
Qed.

(* -2^w <= x < 0  ->  bit_length x <= w + 1 *)
Lemma bit_length_neg_le x w : 0 <= w -> - 2 ^ w <= x < 0 -> bit_length x <= w + 1.
Proof.
  intros Hw [H0 H1]. destruct x as [|p|p]; cbn [bit_length]; try lia.
  destruct (size_bounds p) as [L _].
  assert (A : Zpos p <= 2 ^ w) by lia.
  assert (B : 2 ^ (Zpos (Pos.size p) - 1) <= 2 ^ w) by lia.
  apply Z.pow_le_mono_r_iff in B; lia.
Qed.

(* --- bits_of / uval -------------------------------------------------------- *)
Lemma bits_of_length m : forall y, length (bits_of m y) = m.
Proof. induction m; intro y; cbn; auto. Qed.

Lemma firstn_bits_of w : forall m y, (w <= m)%nat -> firstn w (bits_of m y) = bits_of w y.
Proof.
  induction w as [|w IH]; intros m y H; [reflexivity|].
  destruct m as [|m]; [lia|]. cbn. f_equal. apply IH. lia.
Qed.

Lemma uval_bits_of m : forall y, uval (bits_of m y) = y mod 2 ^ Z.of_nat m.
Proof.
  induction m as [|m IH]; intro y.
  - cbn. rewrite Z.mod_1_r. reflexivity.
  - cbn [bits_of uval]. rewrite IH. rewrite Nat2Z.inj_succ, Z.pow_succ_r by lia.
    assert (P : 0 < 2 ^ Z.of_nat m) by (apply Z.pow_pos_nonneg; lia).
    rewrite (Z.div2_odd y) at 3. rewrite Z.div2_div.
    set (q := y / 2). set (r := b2z (Z.odd y)).
    assert (Hr : 0 <= r < 2) by (unfold r, b2z; destruct (Z.odd y); lia).
    assert (Hm := Z.mod_pos_bound q (2 ^ Z.of_nat m) P).
    apply Z.mod_unique_pos with (q := q / 2 ^ Z.of_nat m); [lia|].
    rewrite (Z.div_mod q (2 ^ Z.of_nat m)) at 1 by lia.
    unfold r, b2z, Z.b2z. destruct (Z.odd y); lia.
Qed.

Lemma twos_snoc bits s :
  twos_complement_to_int (bits ++ [s]) = uval bits - b2z s * 2 ^ Z.of_nat (length bits).
Proof.
  unfold twos_complement_to_int.
  rewrite last_last, removelast_last, app_length. cbn [length].
  replace (Z.of_nat (length bits + 1) - 1) with (Z.of_nat (length bits)) by lia. lia.
Qed.

Lemma bits_of_snoc m : forall y,
  bits_of (S m) y = bits_of m y ++ [Z.odd (y / 2 ^ Z.of_nat m)].
Proof.
  induction m as [|m IH]; intro y.
  - cbn. rewrite Z.div_1_r. reflexivity.
  - change (bits_of (S (S m)) y) with (Z.odd y :: bits_of (S m) (Z.div2 y)).
    rewrite IH.
    replace (y / 2 ^ Z.of_nat (S m)) with (Z.div2 y / 2 ^ Z.of_nat m); [reflexivity|].
    rewrite Z.div2_div, Nat2Z.inj_succ, Z.pow_succ_r by lia.
    rewrite Z.div_div by (try apply Z.pow_pos_nonneg; lia). reflexivity.
Qed.

(* --- width_of ---------------------------------------------------------------- *)
Lemma width_of_pos lo hi : 1 <= width_of lo hi.
Proof.
  unfold width_of.
  assert (H := bit_length_nonneg (Z.max (Z.abs lo) (Z.abs hi))).
  destruct (bit_length _ =? 0) eqn:E; destruct (signed_of lo hi); try lia;
    apply Z.eqb_neq in E; lia.
Qed.

Lemma width_of_signed lo hi : signed_of lo hi = true -> 2 <= width_of lo hi.
Proof.
  unfold width_of. intros ->.
  assert (H := bit_length_nonneg (Z.max (Z.abs lo) (Z.abs hi))).
  destruct (bit_length _ =? 0) eqn:E; lia.
Qed.

(* --- the three encodings ------------------------------------------------------ *)
Lemma int_to_bits_unsigned z w :
  1 <= w -> 0 <= z < 2 ^ w ->
  firstn (Z.to_nat w) (int_to_bits z w) = bits_of (Z.to_nat w) z.
Proof.
  intros Hw Hz. unfold int_to_bits.
  assert (Hn := bit_length_le z w ltac:(lia) Hz).
  assert (Hn0 := bit_length_nonneg z).
  replace (Z.max (Z.max w (bit_length z)) 1) with w by lia.
  replace (0 <=? z) with true by (symmetry; apply Z.leb_le; lia).
  replace (Z.max w (bit_length z)) with w by lia.
  apply firstn_bits_of. lia.
Qed.

Lemma int_to_bits_negative z w m :
  1 <= w -> z < 0 -> m = Z.max (Z.max w (bit_length z)) 1 -> - 2 ^ m <= z ->
  firstn (Z.to_nat w) (int_to_bits z w) = bits_of (Z.to_nat w) (2 ^ m + z).
Proof.
  intros Hw Hz Hm Hlo. unfold int_to_bits. rewrite <- Hm.
  replace (0 <=? z) with false by (symmetry; apply Z.leb_gt; lia).
  assert (Hm1 : 0 <= m) by lia.
  assert (Hy : 0 <= 2 ^ m + z < 2 ^ m) by lia.
  assert (Hb := bit_length_le _ m Hm1 Hy).
  replace (Z.max m (bit_length (2 ^ m + z))) with m by lia.
  apply firstn_bits_of. lia.
Qed.

Lemma pow_split m w : 0 <= w <= m -> 2 ^ m = 2 ^ w * 2 ^ (m - w).
Proof. intro H. rewrite <- Z.pow_add_r by lia. f_equal. lia. Qed.

(* C13: int_bits_roundtrip *)
Theorem int_bits_roundtrip t v :
  representable t v ->
  decode t (firstn (nbits t) (encode t v)) = v.
Proof.
  destruct t as [|lo hi], v as [b|z]; cbn [representable]; try tauto.
  - cbn [nbits encode decode]. intro R. f_equal.
    assert (W := width_of_pos lo hi). set (w := width_of lo hi) in *.
    assert (P : 0 < 2 ^ w) by (apply Z.pow_pos_nonneg; lia).
    unfold append_sign_bit. destruct (signed_of lo hi) eqn:Sg.
    + (* signed: the last of the w bits is the sign *)
      assert (W2 := width_of_signed lo hi Sg). fold w in W2.
      assert (E : 2 ^ w = 2 * 2 ^ (w - 1)).
      { replace w with (Z.succ (w - 1)) at 1 by lia. apply Z.pow_succ_r. lia. }
      assert (P1 : 0 < 2 ^ (w - 1)) by (apply Z.pow_pos_nonneg; lia).
      assert (Wn : Z.to_nat w = S (Z.to_nat (w - 1))) by lia.
      assert (K : Z.of_nat (Z.to_nat (w - 1)) = w - 1) by lia.
      destruct (Z.neg_nonneg_cases z) as [Hneg|Hpos].
      * assert (Hb := bit_length_neg_le z (w - 1) ltac:(lia) ltac:(lia)).
        assert (Hb0 := bit_length_nonneg z).
        rewrite (int_to_bits_negative z w w) by lia.
        rewrite Wn, bits_of_snoc, twos_snoc, uval_bits_of, bits_of_length, K.
        assert (D : (2 ^ w + z) / 2 ^ (w - 1) = 1).
        { symmetry. apply Z.div_unique_pos with (r := 2 ^ (w - 1) + z); lia. }
        assert (M : (2 ^ w + z) mod 2 ^ (w - 1) = 2 ^ (w - 1) + z).
        { symmetry. apply Z.mod_unique_pos with (q := 1); lia. }
        rewrite D, M. change (Z.odd 1) with true. unfold b2z. lia.
      * rewrite int_to_bits_unsigned by lia.
        rewrite Wn, bits_of_snoc, twos_snoc, uval_bits_of, bits_of_length, K.
        rewrite Z.div_small, Z.mod_small by lia. change (Z.odd 0) with false. unfold b2z. lia.
    + destruct (0 <=? lo) eqn:L.
      * (* unsigned: a constant sign bit 0 is appended *)
        rewrite int_to_bits_unsigned by lia.
        rewrite twos_snoc, uval_bits_of, bits_of_length.
        replace (Z.of_nat (Z.to_nat w)) with w by lia.
        rewrite Z.mod_small by lia. unfold b2z, negb. lia.
      * (* all-negative: a constant sign bit 1 is appended *)
        set (m := Z.max (Z.max w (bit_length z)) 1).
        assert (Hb := bit_length_neg_le z w ltac:(lia) ltac:(lia)).
        assert (Hm : w <= m <= w + 1) by lia.
        assert (Pm : 2 ^ w <= 2 ^ m) by (apply Z.pow_le_mono_r; lia).
        rewrite (int_to_bits_negative z w m) by lia.
        rewrite twos_snoc, uval_bits_of, bits_of_length.
        replace (Z.of_nat (Z.to_nat w)) with w by lia.
        assert (M : (2 ^ m + z) mod 2 ^ w = 2 ^ w + z).
        { symmetry. apply Z.mod_unique_pos with (q := 2 ^ (m - w) - 1); [lia|].
          rewrite (pow_split m w) by lia. lia. }
        rewrite M. unfold b2z, negb. lia.
Qed.

(* non-vacuity: a negative value of a signed hint, the minimum of an
   all-negative hint, and a Boolean are representable *)
Example representable_instances :
  representable (TInt (-3) 3) (VZ (-3)) /\ representable (TInt (-4) (-1)) (VZ (-8)) /\
  representable TBool (VB true).
Proof. cbn. lia. Qed.

(* regression (finding F4): before the repair, x = -3 with hint -3..3 was
   encoded as +1 *)
Example int_to_bits_old_refuted :
  representable (TInt (-3) 3) (VZ (-3)) /\
  twos_complement_to_int (append_sign_bit (-3) 3
     (firstn 3 (int_to_bits_old (-3) (width_of (-3) 3)))) = 1.
Proof. split; [cbn; lia|vm_compute; reflexivity]. Qed.
