(* C11 — controllable predecessor, attractor, trap and image operators are
   exact.  Statements only; proofs in GenProofs/FixpointProofs.v.  All
   definitions named FixpointGen.* are generated from
   /repo/omega/symbolic/fixpoint.py on every run. *)
From Coq Require Import List Bool Arith Lia.
From Omega Require Import L4.Arena L4.Kleene L4.GameSpec.
From OmegaGen Require Import FixpointGen.
From OmegaGP Require Import FixpointProofs.

Section C11.
Variables nc nx ny : nat.
Variables moore plus_one : bool.
Local Notation le := (le nc nx ny).
Local Notation eqv := (eqv nc nx ny).
Local Notation NV := (NV nc nx ny).
Local Notation cpre := (cpre_spec nx ny moore plus_one).
Local Notation band := (Arena.band nc nx ny).

(* one-step controllable predecessor: for every valuation v (inside or outside
   the type hints), v is in step E S T iff the component can choose y' (before
   seeing x' if Moore, after if Mealy) such that the stepwise implication of
   the mode holds into T. *)
Theorem C11_step_exact : forall fuel E S T v,
  FixpointGen.step nc nx ny moore plus_one fuel E S T v = cpre E S T v.
Proof. exact (step_spec nc nx ny moore plus_one). Qed.

(* attractor = least set containing the target and closed under cpre;
   the loop terminates with fuel >= number of valuations *)
Theorem C11_attractor_least_fixpoint : forall fuel E S T,
  NV <= fuel ->
  let r := FixpointGen.attractor nc nx ny moore plus_one fuel E S T None in
  le T r /\ le (cpre E S r) r /\
  (forall p, le T p -> le (cpre E S p) p -> le r p).
Proof. exact (attractor_lfp nc nx ny moore plus_one). Qed.

Theorem C11_attractor_inside_least_fixpoint : forall fuel E S T I,
  NV <= fuel -> le T I ->
  let r := FixpointGen.attractor nc nx ny moore plus_one fuel E S T (Some I) in
  le T r /\ le r I /\ le (band (cpre E S r) I) r /\
  (forall p, le T p -> le (band (cpre E S p) I) p -> le r p).
Proof. exact (attractor_inside_lfp nc nx ny moore plus_one). Qed.

(* trap = greatest fixpoint of Q |-> (safe /\ cpre Q) \/ unless *)
Theorem C11_trap_greatest_fixpoint : forall fuel E S safe unless,
  NV <= fuel ->
  let r := FixpointGen.trap nc nx ny moore plus_one fuel E S safe unless in
  eqv (trap_spec_op nx ny moore plus_one E S safe unless r) r /\
  (forall p, le p (trap_spec_op nx ny moore plus_one E S safe unless p) -> le p r).
Proof. exact (trap_gfp nc nx ny moore plus_one). Qed.

End C11.

Section C11b.
Variables nc nx ny : nat.
Variable sys_action : bdd.
Local Notation le := (le nc nx ny).
Local Notation NV := (NV nc nx ny).
Local Notation band := (Arena.band nc nx ny).
Local Notation image := (image_spec nx ny sys_action).

(* existential image = exactly the successors under the component's action *)
Theorem C11_image_exact : forall fuel src v,
  FixpointGen.ee_image nc nx ny sys_action fuel src v = image src v.
Proof. exact (ee_image_spec nc nx ny sys_action). Qed.

(* descendants stay within the constraint, are closed under constrained
   successors, and are the least such set containing the constrained start *)
Theorem C11_descendants : forall fuel src constrain (future : bool),
  NV < fuel ->
  let q0 := if future then FixpointGen.ee_image nc nx ny sys_action fuel src else src in
  let r := FixpointGen.descendants nc nx ny sys_action fuel src constrain future in
  le r constrain /\
  le (band (image r) constrain) r /\
  le (band q0 constrain) r /\
  (forall p, le (band q0 constrain) p ->
             le (band (image p) constrain) p ->
             le (band (image q0) constrain) p -> le r p).
Proof. exact (descendants_spec nc nx ny sys_action). Qed.
End C11b.

Print Assumptions C11_step_exact.
Print Assumptions C11_attractor_least_fixpoint.
Print Assumptions C11_attractor_inside_least_fixpoint.
Print Assumptions C11_trap_greatest_fixpoint.
Print Assumptions C11_image_exact.
Print Assumptions C11_descendants.
