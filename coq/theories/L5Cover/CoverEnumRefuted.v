(* L5Cover / CoverEnumRefuted: "cover_enum.minimize terminates without error"
   is false for the model of the UNREPAIRED code (finding F2), by computation
   on the witness of DESIGN section 7. *)
From Coq Require Import List ZArith NArith Bool Lia.
Import ListNotations.
From Omega Require Import L5Cover.Boxes L5Cover.MinCover L5Cover.CoverEnum
  L5Cover.CoverEnumOld L5Cover.MinCoverBounded L5Cover.MinCoverBounded4.
Open Scope Z_scope.

(* minterms 0000 0001 0010 1000 1011 1100 1101 1111 = bits 0 1 2 8 11 12 13 15 *)
Definition f2_mask : N := 47367%N.

Lemma f2_mask_points :
  filter (fun_of_mask f2_mask) (grid rs4) =
  [[0;0;0;0];[0;0;0;1];[0;0;1;0];[1;0;0;0];[1;0;1;1];[1;1;0;0];[1;1;0;1];[1;1;1;1]].
Proof. vm_compute. reflexivity. Qed.

Theorem enum_unrepaired_fails :
  (1 <= f2_mask < 65536)%N /\
  is_f2_error (enum_minimize_unrepaired rs4 pick_first (fun_of_mask f2_mask) care_true) = true /\
  is_f2_error (enum_minimize_unrepaired rs4 pick_last (fun_of_mask f2_mask) care_true) = true.
Proof. split; [unfold f2_mask; lia|]. split; vm_compute; reflexivity. Qed.

(* and on a 3-variable function with a care set (f = 000 010 100,
   care = 000 001 010 100 110 111), observed on the real code as well *)
Theorem enum_unrepaired_fails_3 :
  is_f2_error (enum_minimize_unrepaired rs3 pick_first
                 (mem_pt [[0;0;0];[0;1;0];[1;0;0]])
                 (mem_pt [[0;0;0];[0;0;1];[0;1;0];[1;0;0];[1;1;0];[1;1;1]])) = true.
Proof. vm_compute. reflexivity. Qed.
