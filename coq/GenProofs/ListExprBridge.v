(* Tie T for C08: the code generated on every run from
   _type_hints._clip_subrange / _check_type_hint / _format_range /
   _list_type_hints / _list_limits, syntax.vertical_op, orthotopes.list_expr
   and cover.dumps_cover (gen/ListExprGen.v, by tools/py2coq_listexpr.py)
   computes the hand-written model L5Cover/ListExpr.v.

   Kind of equality.  _clip_subrange, _list_limits, _list_type_hints,
   vertical_op: Leibniz.  list_expr and dumps_cover: the generated tree and
   the model's tree have the same normal form under [ListExprNorm.norm]
   (re-association of /\ and \/ only: the code groups the conjuncts of a
   box three to a line, the model writes one flat conjunction), for the
   model applied to the boxes in the order in which natsort lists the
   printed disjuncts (a permutation K' of the cover K).

   The proofs only evaluate the generated code (loop bodies are captured by
   unification, never restated), so renamed locals and split expressions
   pass. *)
From Coq Require Import List ZArith Bool Lia Arith Permutation.
Import ListNotations.
From Omega Require Import L0Bits.Bits L5Cover.Boxes L5Cover.BoxesProofs
  L5Cover.ListExpr L5Cover.ListExprProofs L5Cover.ListExprNorm.
From OmegaGen Require Import BitsGen ListExprGen.
Open Scope Z_scope.

(* ------------------------------------------------ the fixed prelude *)
Lemma mapM_app {A B} (f : A -> option B) l1 l2 :
  mapM f (l1 ++ l2) =
  match mapM f l1, mapM f l2 with
  | Some a, Some b => Some (a ++ b)
  | _, _ => None
  end.
Proof.
  induction l1 as [|x l1 IH]; cbn [mapM app].
  - destruct (mapM f l2); reflexivity.
  - destruct (f x); [|reflexivity]. rewrite IH.
    destruct (mapM f l1), (mapM f l2); reflexivity.
Qed.

Lemma mapM_ext_in {A B} (f g : A -> option B) l :
  (forall x, In x l -> f x = g x) -> mapM f l = mapM g l.
Proof.
  induction l as [|x l IH]; intros H; [reflexivity|]. cbn [mapM].
  rewrite (H x (or_introl eq_refl)), IH; [reflexivity|].
  intros y Hy. apply H. right. exact Hy.
Qed.

Lemma mapM_total {A B} (f : A -> option B) (g : A -> B) l :
  (forall x, In x l -> f x = Some (g x)) -> mapM f l = Some (map g l).
Proof.
  induction l as [|x l IH]; intros H; [reflexivity|]. cbn [mapM map].
  rewrite (H x (or_introl eq_refl)), IH; [reflexivity|].
  intros y Hy. apply H. right. exact Hy.
Qed.

(* a loop whose body appends to its accumulator *)
Lemma for_append {A B} (l : list A) (body : list B -> A -> option (list B))
  (g : A -> option (list B)) :
  (forall w x, In x l ->
     body w x = match g x with Some c => Some (w ++ c) | None => None end) ->
  forall w, for_ l body w =
            match mapM g l with
            | Some cs => Some (w ++ concat cs)
            | None => None
            end.
Proof.
  induction l as [|x l IH]; intros H w; cbn [for_ mapM].
  - cbn. rewrite app_nil_r. reflexivity.
  - rewrite (H w x (or_introl eq_refl)). destruct (g x) as [c|]; [|reflexivity].
    rewrite IH by (intros w' y Hy; apply H; right; exact Hy).
    destruct (mapM g l) as [cs|]; [|reflexivity].
    cbn [concat]. rewrite app_assoc. reflexivity.
Qed.

Lemma sub_nat_le a b : (b <= a)%nat -> sub_nat a b = Some (a - b)%nat.
Proof. intros H. unfold sub_nat. apply Nat.leb_le in H. rewrite H. reflexivity. Qed.

Lemma sub_nat_mod k n : sub_nat k (k mod n) = Some (k - k mod n)%nat.
Proof.
  apply sub_nat_le. destruct n; [cbn; lia|]. apply Nat.mod_le. discriminate.
Qed.

Lemma chunks_fuel_spec {A} (n : nat) : (0 < n)%nat ->
  forall fuel (l : list A) q, length l = (q * n)%nat -> (q <= fuel)%nat ->
  concat (chunks_fuel fuel n l) = l /\
  Forall (fun t => t <> []) (chunks_fuel fuel n l).
Proof.
  intros Hn. induction fuel as [|fuel IH]; intros l q Hl Hq.
  - assert (q = 0)%nat by lia. subst q. destruct l; [|discriminate].
    split; [reflexivity|constructor].
  - cbn [chunks_fuel]. destruct q as [|q].
    + destruct l; [|discriminate]. cbn [length].
      destruct (Nat.ltb_spec 0 n); [|lia]. split; [reflexivity|constructor].
    + destruct (Nat.ltb_spec (length l) n) as [Hlt|Hge]; [cbn in Hl; lia|].
      destruct (IH (skipn n l) q) as [Hc Hf].
      * rewrite skipn_length, Hl. cbn. lia.
      * lia.
      * split.
        -- cbn [concat]. rewrite Hc. apply firstn_skipn.
        -- constructor; [|exact Hf]. intros E.
           apply (f_equal (@length A)) in E. rewrite firstn_length in E.
           cbn in E. lia.
Qed.

Lemma chunks_spec {A} (n : nat) (l : list A) : (0 < n)%nat ->
  (length l mod n = 0)%nat ->
  concat (chunks n l) = l /\ Forall (fun t => t <> []) (chunks n l).
Proof.
  intros Hn Hm. unfold chunks. destruct n as [|n]; [lia|].
  apply Nat.mod_divides in Hm; [|discriminate]. destruct Hm as [q Hq].
  apply (chunks_fuel_spec (S n) Hn (length l) l q); [lia|].
  rewrite Hq. nia.
Qed.

(* the three facts the assertions of list_expr check, for any width n > 0 *)
Section Tail.
Context {A : Type} (w : list A) (n : nat) (Hn : (0 < n)%nat).
Let k := length w.
Let up := (k - k mod n)%nat.
Lemma up_le : (up <= k)%nat. Proof. subst up. lia. Qed.
Lemma head_length : length (firstn up w) = up.
Proof. rewrite firstn_length. pose proof up_le. subst k. lia. Qed.
Lemma tail_length : length (slice w up k) = (k mod n)%nat.
Proof.
  unfold slice. rewrite firstn_length, skipn_length.
  pose proof up_le. assert (k mod n <= k)%nat.
  { apply Nat.mod_le. lia. } subst up k. lia.
Qed.
Lemma tail_lt : Nat.ltb (length (slice w up k)) n = true.
Proof. rewrite tail_length. apply Nat.ltb_lt, Nat.mod_upper_bound. lia. Qed.
Lemma head_mod : Nat.eqb (length (firstn up w) mod n) 0 = true.
Proof.
  rewrite head_length. apply Nat.eqb_eq. subst up.
  rewrite (Nat.div_mod k n) at 1 by lia.
  replace (n * (k / n) + k mod n - k mod n)%nat with ((k / n) * n)%nat by lia.
  apply Nat.mod_mul. lia.
Qed.
Lemma head_tail_sum :
  Nat.eqb (length (firstn up w) + length (slice w up k)) k = true.
Proof.
  rewrite head_length, tail_length. apply Nat.eqb_eq.
  assert (k mod n <= k)%nat by (apply Nat.mod_le; lia). subst up. lia.
Qed.
Lemma head_tail_app : firstn up w ++ slice w up k = w.
Proof.
  unfold slice. rewrite (firstn_all2 (skipn up w)).
  - apply firstn_skipn.
  - rewrite skipn_length. subst k. lia.
Qed.
End Tail.

(* ------------------------------------------------ _clip_subrange *)
(* the model's result as the pair the code returns *)
Definition clip_img (r : option (option ival))
  : option (option Z * option Z) :=
  match r with
  | None => None
  | Some None => Some (None, None)
  | Some (Some (a, b)) => Some (Some a, Some b)
  end.

Ltac split_ifs :=
  repeat match goal with
         | |- context [if ?c then _ else _] =>
             lazymatch c with
             | context [if _ then _ else _] => fail
             | _ => destruct c eqn:?
             end
         end.

Theorem clip_subrange_is_translated_code ab dom x :
  tyh_clip_subrange ab dom x = clip_img (clip_subrange ab dom).
Proof.
  destruct ab as [a b], dom as [u v].
  unfold tyh_clip_subrange, clip_subrange, clip_img.
  cbv beta iota zeta.
  destruct (a <=? b), (u <=? v), (a <=? v), (u <=? b); cbn [andb];
    try reflexivity;
    destruct (Z.max a u <=? Z.min b v); try reflexivity;
    destruct (Z.max a u =? u), (v =? Z.min b v); reflexivity.
Qed.

(* ------------------------------------------------ _check_type_hint *)
Lemma check_type_hint_spec a b h x :
  bitfield_limits h <> None ->
  tyh_check_type_hint a b h x = if b <? a then None else Some tt.
Proof.
  intros H. unfold tyh_check_type_hint.
  destruct (b <? a); [reflexivity|].
  destruct (bitfield_limits h); [reflexivity|congruence].
Qed.

(* ------------------------------------------------ _format_range *)
Lemma format_range_is_translated_code x a b :
  tyh_format_range x a b = Some (EIn (TVar x) (TNum a) (TNum b)).
Proof. reflexivity. Qed.

(* ------------------------------------------------ _list_limits, _list_type_hints *)
Lemma mapM_range_atoms (g : nat -> ival) : forall rs i,
  (forall j, (j < length rs)%nat -> g (i + j)%nat = nth j rs (0, 0)) ->
  mapM (fun x => Some [EIn (TVar x) (TNum (fst (g x))) (TNum (snd (g x)))])
       (seq i (length rs)) =
  Some (map (fun e => [e]) (range_atoms i rs)).
Proof.
  induction rs as [|r rs IH]; intros i H; [reflexivity|].
  cbn [length seq mapM range_atoms map].
  rewrite IH.
  - pose proof (H O (Nat.lt_0_succ _)) as H0. rewrite Nat.add_0_r in H0.
    cbn [nth] in H0. rewrite H0. reflexivity.
  - intros j Hj. specialize (H (S j)). cbn [length nth] in H.
    rewrite <- H by lia. f_equal. lia.
Qed.

Lemma concat_singletons {A} (l : list A) : concat (map (fun e => [e]) l) = l.
Proof. induction l; cbn; congruence. Qed.

Section Ranges.
Variable natsorted_names : list var -> list var.
Variables (xvars : list var) (vars : table) (n : nat).
Hypothesis Hsorted : natsorted_names xvars = seq 0 n.
Hypothesis Hne : xvars <> [].

Theorem list_limits_is_translated_code limits :
  length limits = n ->
  (forall i, (i < n)%nat ->
     bitfield_limits (vars i) = Some (nth i limits (0, 0))) ->
  tyh_list_limits natsorted_names xvars vars = Some (range_atoms 0 limits).
Proof.
  intros Hl Hlim. unfold tyh_list_limits.
  destruct xvars as [|x0 xs]; [congruence|]. cbn [is_nil negb].
  cbv zeta. rewrite Hsorted, <- Hl.
  erewrite (for_append _ _
    (fun x => Some [EIn (TVar x) (TNum (fst (nth x limits (0, 0))))
                        (TNum (snd (nth x limits (0, 0))))])).
  - rewrite (mapM_range_atoms (fun x => nth x limits (0, 0)))
      by (intros; reflexivity).
    rewrite concat_singletons. reflexivity.
  - intros w x Hx. apply in_seq in Hx. rewrite Hlim by lia. reflexivity.
Qed.

Theorem list_type_hints_is_translated_code doms :
  length doms = n ->
  (forall i, (i < n)%nat -> h_dom (vars i) = nth i doms (0, 0)) ->
  tyh_list_type_hints natsorted_names xvars vars = Some (range_atoms 0 doms).
Proof.
  intros Hl Hdom. unfold tyh_list_type_hints.
  destruct xvars as [|x0 xs]; [congruence|]. cbn [is_nil negb].
  cbv zeta. rewrite Hsorted, <- Hl.
  erewrite (for_append _ _
    (fun x => Some [EIn (TVar x) (TNum (fst (nth x doms (0, 0))))
                        (TNum (snd (nth x doms (0, 0))))])).
  - rewrite (mapM_range_atoms (fun x => nth x doms (0, 0)))
      by (intros; reflexivity).
    rewrite concat_singletons. reflexivity.
  - intros w x Hx. apply in_seq in Hx. rewrite Hdom by lia. reflexivity.
Qed.
End Ranges.

(* ------------------------------------------------ vertical_op *)
(* the junction list of the formulas c under `op` *)
Definition jx (op : jop) (c : list expr) : expr :=
  match op with JAnd => conj c | JOr => disj c end.

Lemma junction_pairs b (c : list expr) : c <> [] ->
  junction (map (fun s => (b, s)) c) =
  Some (match b with BulAnd => conj c | BulOr => disj c end).
Proof.
  destruct c as [|s c]; [congruence|]. intros _.
  cbn [map junction].
  assert (forallb (fun i : bullet * expr => bullet_eqb (fst i) b)
            ((b, s) :: map (fun s => (b, s)) c) = true) as ->.
  { apply forallb_forall. intros i Hi.
    assert (fst i = b) as ->.
    { destruct Hi as [<-|Hi]; [reflexivity|].
      apply in_map_iff in Hi. destruct Hi as [? [<- _]]. reflexivity. }
    destruct b; reflexivity. }
  cbn [snd]. rewrite map_map. cbn [snd]. rewrite map_id. reflexivity.
Qed.

Ltac junction_loop b :=
  erewrite (for_append _ _ (fun s => Some [((b, s) : item)]))
    by (intros; reflexivity);
  rewrite (mapM_total _ (fun s => [((b, s) : item)]))
    by (intros; reflexivity);
  rewrite <- (map_map (fun s => ((b, s) : item)) (fun e => [e]));
  cbn [app]; rewrite concat_singletons, junction_pairs by discriminate;
  reflexivity.

Theorem vertical_op_is_translated_code c op spacing :
  stx_vertical_op c op spacing = Some (jx op c).
Proof.
  unfold stx_vertical_op.
  destruct op, c as [|a [|b c]];
    cbn [jop_in existsb jop_eqb orb is_nil negb length Nat.eqb nth_error];
    try reflexivity.
  - junction_loop BulAnd.
  - junction_loop BulOr.
Qed.

(* ------------------------------------------------ list_expr *)
(* a box of the model as a product of fol.pick_iter *)
Definition prod_of (b : box) : product := fun x => nth x b (0, 0).

Lemma mapM_box_atoms use_dom (gp gd : nat -> ival) :
  forall (b : list ival) (ds : list ival) i,
  length ds = length b ->
  (forall j, (j < length b)%nat ->
     gp (i + j)%nat = nth j b (0, 0) /\ gd (i + j)%nat = nth j ds (0, 0)) ->
  match mapM (fun x => atoms1 use_dom x (gp x) (gd x)) (seq i (length b)) with
  | Some cs => Some (concat cs)
  | None => None
  end = box_atoms use_dom i ds b.
Proof.
  induction b as [|ab b IH]; intros ds i Hl H.
  - destruct ds; reflexivity.
  - destruct ds as [|d ds]; [discriminate|].
    cbn [length seq mapM]. rewrite box_atoms_cons.
    destruct (H O (Nat.lt_0_succ _)) as [Hp Hd]. rewrite Nat.add_0_r in Hp, Hd.
    cbn [nth] in Hp, Hd. rewrite Hp, Hd.
    rewrite <- (IH ds (S i)).
    + destruct (atoms1 use_dom i ab d); [|reflexivity].
      destruct (mapM _ (seq (S i) (length b))); reflexivity.
    + cbn in Hl. lia.
    + intros j Hj. specialize (H (S j)). cbn [length nth] in H.
      replace (S i + j)%nat with (i + S j)%nat by lia. apply H. lia.
Qed.

(* the lines of a box: n conjuncts per line (the layout of list_expr) *)
Definition group_lines (n : nat) (w : list expr) : list (list expr) :=
  let up := (length w - length w mod n)%nat in
  chunks n (firstn up w) ++
  (if is_nil (slice w up (length w)) then [] else [slice w up (length w)]).
Definition gform (n : nat) (w : list expr) : expr :=
  conj (map conj (group_lines n w)).

Lemma group_lines_spec n w : (0 < n)%nat ->
  concat (group_lines n w) = w /\ Forall (fun t => t <> []) (group_lines n w).
Proof.
  intros Hn. unfold group_lines. cbv zeta.
  destruct (chunks_spec n (firstn (length w - length w mod n) w) Hn) as [Hc Hf].
  { apply Nat.eqb_eq, head_mod, Hn. }
  rewrite concat_app, Hc. split.
  - pose proof (head_tail_app w n Hn) as HT. cbv zeta in HT.
    destruct (slice w (length w - length w mod n) (length w));
      cbn [is_nil concat]; rewrite ?app_nil_r in *; exact HT.
  - apply Forall_app. split; [exact Hf|].
    destruct (slice w _ (length w)) eqn:E; cbn [is_nil];
      constructor; [discriminate|constructor].
Qed.

Theorem gform_norm n w : (0 < n)%nat -> norm (gform n w) = norm (conj w).
Proof.
  intros Hn. destruct (group_lines_spec n w Hn) as [Hc Hf].
  unfold gform. rewrite (norm_conj_groups _ Hf), Hc. reflexivity.
Qed.

(* the facts of Section Tail without local definitions *)
Lemma tail_lt' {A} (w : list A) n : (0 < n)%nat ->
  Nat.ltb (length (slice w (length w - length w mod n) (length w))) n = true.
Proof. intros Hn. exact (tail_lt w n Hn). Qed.
Lemma head_mod' {A} (w : list A) n : (0 < n)%nat ->
  Nat.eqb (length (firstn (length w - length w mod n) w) mod n) 0 = true.
Proof. intros Hn. exact (head_mod w n Hn). Qed.
Lemma head_tail_sum' {A} (w : list A) n : (0 < n)%nat ->
  Nat.eqb (length (firstn (length w - length w mod n) w) +
           length (slice w (length w - length w mod n) (length w)))
          (length w) = true.
Proof. intros Hn. exact (head_tail_sum w n Hn). Qed.

Lemma join_lines n w : (0 < n)%nat ->
  mapM (fun t => match join_infix JAnd t with
                 | Some e => Some e
                 | None => None
                 end) (group_lines n w) = Some (map conj (group_lines n w)).
Proof.
  intros Hn. destruct (group_lines_spec n w Hn) as [_ Hf].
  apply mapM_total. intros t Ht.
  rewrite Forall_forall in Hf. specialize (Hf t Ht).
  destruct t; [congruence|reflexivity].
Qed.

Section Boxes.
Variable natsorted_forms : list expr -> list expr.
Variables (vars : table) (doms : list ival) (N : nat).
Hypothesis Hlen : length doms = N.
Hypothesis Hlim : forall i, (i < N)%nat -> bitfield_limits (vars i) <> None.
Hypothesis Hdom : forall i, (i < N)%nat -> h_dom (vars i) = nth i doms (0, 0).

Lemma list_expr_spec use_dom K :
  Forall (fun b => length b = N) K ->
  exists n, (0 < n)%nat /\
  lat_list_expr natsorted_forms (seq 0 N, map prod_of K) vars false use_dom =
  match mapM (box_atoms use_dom 0 doms) K with
  | Some cs => Some (natsorted_forms (map (gform n) cs))
  | None => None
  end.
Proof.
  intros HK. unfold lat_list_expr. cbv zeta.
  (* the number of conjuncts per line, as the code has it *)
  match goal with |- context [chunks ?m _] => set (n := m) in * end.
  assert (0 < n)%nat as Hn by (unfold n; lia).
  exists n. split; [exact Hn|].
  unfold cover_keys, cover_boxes. cbn [fst snd].
  erewrite (for_append _ _
    (fun p : product =>
       match mapM (fun x => atoms1 use_dom x (p x) (h_dom (vars x))) (seq 0 N)
       with
       | Some cs => Some [gform n (concat cs)]
       | None => None
       end)).
  - (* the boxes *)
    cbn [app].
    assert (forall K, Forall (fun b => length b = N) K ->
      mapM (fun p : product =>
              match mapM (fun x => atoms1 use_dom x (p x) (h_dom (vars x)))
                         (seq 0 N) with
              | Some cs => Some [gform n (concat cs)]
              | None => None
              end) (map prod_of K) =
      match mapM (box_atoms use_dom 0 doms) K with
      | Some cs => Some (map (fun c => [gform n c]) cs)
      | None => None
      end) as HM.
    { clear HK K. induction 1 as [|b K Hb _ IH]; [reflexivity|].
      cbn [map mapM]. rewrite IH.
      rewrite <- (mapM_box_atoms use_dom (prod_of b) (fun x => h_dom (vars x))
                    b doms 0).
      2:{ rewrite Hlen, Hb. reflexivity. }
      2:{ intros j Hj; split; [reflexivity|apply Hdom; rewrite <- Hb; exact Hj]. }
      rewrite Hb.
      destruct (mapM _ (seq 0 N)); [|reflexivity].
      destruct (mapM (box_atoms use_dom 0 doms) K); reflexivity. }
    rewrite (HM K HK).
    destruct (mapM (box_atoms use_dom 0 doms) K) as [cs|]; [|reflexivity].
    rewrite <- (map_map (gform n) (fun e => [e])), concat_singletons.
    reflexivity.
  - (* one box *)
    intros r p _.
    erewrite (for_append _ _
      (fun x => atoms1 use_dom x (p x) (h_dom (vars x)))).
    2:{ (* one variable: evaluate the loop body *)
      intros w x Hx. apply in_seq in Hx.
      rewrite check_type_hint_spec by (apply Hlim; lia).
      unfold atoms1, prod_a, prod_b. destruct (p x) as [a b]. cbn [fst snd].
      destruct (b <? a); [reflexivity|].
      destruct use_dom.
      - rewrite clip_subrange_is_translated_code.
        destruct (clip_subrange (a, b) (h_dom (vars x))) as [[[a' b']|]|];
          cbn [clip_img is_none andb oZ_eqb num_of].
        + unfold atom. cbn [fst snd]. destruct (a' =? b'); reflexivity.
        + rewrite app_nil_r. reflexivity.
        + reflexivity.
      - cbn [is_none andb oZ_eqb num_of]. unfold atom. cbn [fst snd].
        destruct (a =? b); reflexivity. }
    destruct (mapM _ (seq 0 N)) as [cs|]; [|reflexivity].
    cbn [app]. set (w := concat cs).
    (* the lines: the assertions hold, the tuples are the groups *)
    rewrite sub_nat_mod, tail_lt', head_mod', head_tail_sum' by exact Hn.
    match goal with
    | |- context [if negb (is_nil ?t) then Some (?c ++ [?t]) else Some ?c] =>
        replace (if negb (is_nil t) then Some (c ++ [t]) else Some c)
          with (Some (group_lines n w))
          by (unfold group_lines; cbv zeta; destruct (is_nil t); cbn [negb];
              rewrite ?app_nil_r; reflexivity)
    end.
    rewrite join_lines by exact Hn.
    rewrite vertical_op_is_translated_code. reflexivity.
Qed.
End Boxes.

(* ------------------------------------------------ dumps_cover *)
Lemma list_expr_mapM use_dom doms K :
  list_expr use_dom doms K =
  match mapM (box_atoms use_dom 0 doms) K with
  | Some cs => Some (map conj cs)
  | None => None
  end.
Proof.
  induction K as [|b K IH]; [reflexivity|]. cbn [list_expr mapM]. rewrite IH.
  destruct (box_atoms use_dom 0 doms b); [|reflexivity].
  destruct (mapM (box_atoms use_dom 0 doms) K); reflexivity.
Qed.

Lemma mapM_Forall2 {A B} (f : A -> option B) l cs :
  mapM f l = Some cs <-> Forall2 (fun c x => f x = Some c) cs l.
Proof.
  revert cs. induction l as [|x l IH]; intros cs; cbn [mapM].
  - split.
    + intros E. injection E as <-. constructor.
    + intros H. inversion H. reflexivity.
  - split.
    + destruct (f x) as [y|] eqn:Ex; [|discriminate].
      destruct (mapM f l) as [ys|]; [|discriminate].
      intros E. injection E as <-. constructor; [exact Ex|]. apply IH. reflexivity.
    + intros H. inversion H as [|c x' cs' l' Hc Hr]; subst.
      rewrite Hc. apply IH in Hr. rewrite Hr. reflexivity.
Qed.

Lemma Forall2_refl {A} (R : A -> A -> Prop) l :
  (forall x, R x x) -> Forall2 R l l.
Proof. intros H. induction l; constructor; auto. Qed.

Lemma Forall2_map2 {A B C} (R : B -> C -> Prop) (f : A -> B) (g : A -> C) l :
  (forall x, R (f x) (g x)) -> Forall2 R (map f l) (map g l).
Proof. intros H. induction l; cbn; constructor; auto. Qed.

Section Dumps.
Variable natsorted_names : list var -> list var.
Variable natsorted_forms : list expr -> list expr.
(* natsort returns the strings it is given, in some order *)
Hypothesis Hperm : forall l, Permutation l (natsorted_forms l).
Variables (xvars : list var) (vars : table) (limits doms : list ival).
(* variables are numbered by their position in the naturally sorted list *)
Hypothesis Hsorted : natsorted_names xvars = seq 0 (length limits).
Hypothesis Hne : xvars <> [].
Hypothesis Hlen : length doms = length limits.
(* the table entries: bit-field limits and type hints of the model *)
Hypothesis Hlim : forall i, (i < length limits)%nat ->
  bitfield_limits (vars i) = Some (nth i limits (0, 0)).
Hypothesis Hdom : forall i, (i < length limits)%nat ->
  h_dom (vars i) = nth i doms (0, 0).

Lemma Hlim' : forall i, (i < length limits)%nat ->
  bitfield_limits (vars i) <> None.
Proof. intros i Hi. rewrite Hlim by exact Hi. discriminate. Qed.

Theorem list_expr_is_translated_code use_dom K :
  Forall (fun b => length b = length limits) K ->
  exists K', Permutation K K' /\
  match lat_list_expr natsorted_forms (seq 0 (length limits), map prod_of K)
          vars false use_dom,
        list_expr use_dom doms K' with
  | Some gs, Some ms => Forall2 (fun g m => norm g = norm m) gs ms
  | None, None => True
  | _, _ => False
  end.
Proof.
  intros HK.
  destruct (list_expr_spec natsorted_forms vars doms (length limits)
              Hlen Hlim' Hdom use_dom K HK) as [n [Hn E]].
  rewrite E. clear E.
  destruct (mapM (box_atoms use_dom 0 doms) K) as [cs|] eqn:EK.
  - destruct (Permutation_map_inv (gform n) cs
                (Permutation_sym (Hperm (map (gform n) cs))))
      as [cs' [E' Hp]].
    apply mapM_Forall2 in EK.
    destruct (Permutation_Forall2 Hp EK) as [K' [HpK HF]].
    exists K'. split; [exact HpK|].
    apply mapM_Forall2 in HF. rewrite list_expr_mapM, HF, E'.
    apply Forall2_map2. intros c. apply gform_norm, Hn.
  - exists K. split; [apply Permutation_refl|].
    rewrite list_expr_mapM, EK. exact I.
Qed.

Theorem dumps_cover_is_translated_code
  care care_is_true show_dom show_limits comment K :
  Forall (fun b => length b = length limits) K ->
  exists K', Permutation K K' /\
  option_map norm
    (cov_dumps_cover natsorted_names natsorted_forms
       (seq 0 (length limits), map prod_of K) vars
       show_dom show_limits comment xvars
       (care_implies_hints limits doms care) care_is_true) =
  option_map norm
    (dumps_cover limits doms care care_is_true show_dom show_limits K').
Proof.
  intros HK.
  set (use_dom := andb show_dom (care_implies_hints limits doms care)).
  destruct (list_expr_is_translated_code use_dom K HK) as [K' [HpK HF]].
  exists K'. split; [exact HpK|].
  unfold cov_dumps_cover, dumps_cover. cbv zeta. fold use_dom.
  replace (if show_dom then care_implies_hints limits doms care else false)
    with use_dom by (unfold use_dom; destruct show_dom; reflexivity).
  rewrite (list_limits_is_translated_code natsorted_names xvars vars
             (length limits) Hsorted Hne limits eq_refl Hlim).
  rewrite (list_type_hints_is_translated_code natsorted_names xvars vars
             (length limits) Hsorted Hne doms Hlen Hdom).
  cbn [app].
  destruct (lat_list_expr natsorted_forms _ vars false use_dom) as [gs|],
           (list_expr use_dom doms K') as [ms|]; try contradiction.
  - rewrite !vertical_op_is_translated_code.
    assert (forall A B M,
      norm (conj (A ++ B ++ [disj gs] ++ M)) =
      norm (conj (A ++ B ++ [disj ms] ++ M))) as HN.
    { intros A B M. apply norm_conj_ext.
      apply Forall2_app; [apply Forall2_refl; reflexivity|].
      apply Forall2_app; [apply Forall2_refl; reflexivity|].
      apply Forall2_app; [|apply Forall2_refl; reflexivity].
      constructor; [|constructor]. apply norm_disj_ext, HF. }
    specialize (HN (if show_limits then range_atoms 0 limits else [])
                   (if use_dom then range_atoms 0 doms else [])
                   (if care_is_true then [] else [ETrue])).
    destruct show_limits, use_dom, care_is_true, comment;
      cbn [negb app jx option_map with_comment] in *;
      rewrite ?vertical_op_is_translated_code; cbn [jx option_map];
      unfold with_comment; rewrite ?app_nil_r in *;
      rewrite <- ?app_assoc in *; cbn [app] in *;
      f_equal; exact HN.
  - destruct show_limits, use_dom; reflexivity.
Qed.
End Dumps.

(* ------------------------------------------------ corollaries *)
Section Corollaries.
Variable natsorted_names : list var -> list var.
Variable natsorted_forms : list expr -> list expr.
Hypothesis Hperm : forall l, Permutation l (natsorted_forms l).
Variables (xvars : list var) (vars : table) (limits doms : list ival).
Hypothesis Hsorted : natsorted_names xvars = seq 0 (length limits).
Hypothesis Hne : xvars <> [].
Hypothesis Hlen : length doms = length limits.
Hypothesis Hlim : forall i, (i < length limits)%nat ->
  bitfield_limits (vars i) = Some (nth i limits (0, 0)).
Hypothesis Hdom : forall i, (i < length limits)%nat ->
  h_dom (vars i) = nth i doms (0, 0).

(* what the translated dumps_cover returns denotes what the model returns
   for the boxes in the order natsort lists them *)
Corollary dumps_cover_translated_denotation
  care care_is_true show_dom show_limits comment K :
  Forall (fun b => length b = length limits) K ->
  exists K', Permutation K K' /\
  match cov_dumps_cover natsorted_names natsorted_forms
          (seq 0 (length limits), map prod_of K) vars
          show_dom show_limits comment xvars
          (care_implies_hints limits doms care) care_is_true,
        dumps_cover limits doms care care_is_true show_dom show_limits K'
  with
  | Some g, Some m => forall p, eval p g = eval p m
  | None, None => True
  | _, _ => False
  end.
Proof.
  intros HK.
  destruct (dumps_cover_is_translated_code natsorted_names natsorted_forms
              Hperm xvars vars limits doms Hsorted Hne Hlen Hlim Hdom
              care care_is_true show_dom show_limits comment K HK)
    as [K' [Hp E]].
  exists K'. split; [exact Hp|].
  destruct (cov_dumps_cover _ _ _ _ _ _ _ _ _ _) as [g|],
           (dumps_cover _ _ _ _ _ _ K') as [m|]; cbn [option_map] in E;
    try discriminate; [|exact I].
  intros p. apply norm_eq_eval. congruence.
Qed.

(* C08, first sentence, for what the TRANSLATED printer returns *)
Theorem translated_dnf_equiv_on_care
  (f care : point -> bool) K care_is_true show_dom show_limits comment e :
  covers limits f K ->
  (forall b, In b K -> implicant limits f care b) ->
  cov_dumps_cover natsorted_names natsorted_forms
    (seq 0 (length limits), map prod_of K) vars
    show_dom show_limits comment xvars
    (care_implies_hints limits doms care) care_is_true = Some e ->
  forall p, in_ranges limits p -> care p = true -> eval p e = f p.
Proof.
  intros Hcov Himp He p Hp Hc.
  assert (Forall (fun b : box => length b = length limits) K) as HK.
  { apply Forall_forall. intros b Hb. destruct (Himp b Hb) as [Hin _].
    unfold box_in in Hin. clear -Hin. induction Hin; cbn; congruence. }
  destruct (dumps_cover_translated_denotation care care_is_true show_dom
              show_limits comment K HK) as [K' [HpK HD]].
  rewrite He in HD.
  destruct (dumps_cover limits doms care care_is_true show_dom show_limits K')
    as [m|] eqn:Em; [|contradiction].
  rewrite HD.
  apply (dnf_equiv_on_care limits doms f care K' Hlen) with
    (care_is_true := care_is_true) (show_dom := show_dom)
    (show_limits := show_limits); try assumption.
  - intros q Hq Hf. destruct (Hcov q Hq Hf) as [b [Hb Hcb]].
    exists b. split; [|exact Hcb]. apply (Permutation_in _ HpK Hb).
  - intros b Hb. apply Himp. apply (Permutation_in _ (Permutation_sym HpK) Hb).
Qed.
End Corollaries.

(* the translated _clip_subrange has the properties proved of the model *)
Theorem translated_clip_preserves a b u v x r :
  tyh_clip_subrange (a, b) (u, v) x = Some r ->
  match r with
  | (None, None) => forall z, u <= z <= v -> a <= z <= b
  | (Some a', Some b') =>
      a' <= b' /\ u <= a' /\ b' <= v /\
      forall z, u <= z <= v -> (a <= z <= b <-> a' <= z <= b')
  | _ => False
  end.
Proof.
  rewrite clip_subrange_is_translated_code.
  destruct (clip_subrange (a, b) (u, v)) as [[[a' b']|]|] eqn:E;
    cbn [clip_img]; intros H; inversion H; subst.
  - exact (clip_preserves a b u v _ E).
  - exact (clip_preserves a b u v _ E).
Qed.

(* non-vacuity: a table, a cover and options satisfying every hypothesis of
   the theorems above (natsort = identity); the translated code is evaluated
   and, up to the grouping of conjuncts, returns the model's tree. *)
Definition ex_vars : table :=
  fun i => match i with
           | O => mkHint 2 false (0, 2)
           | _ => mkHint 1 false (0, 1)
           end.
Example translated_instance :
  let limits := [(0, 3); (0, 1)] in
  let doms := [(0, 2); (0, 1)] in
  let care := mem_pt [[0;0]; [0;1]; [1;0]; [1;1]; [2;0]; [2;1]] in
  let K := [[(0,0);(0,1)]; [(2,3);(1,1)]] in
  (forall i, (i < length limits)%nat ->
     bitfield_limits (ex_vars i) = Some (nth i limits (0, 0)) /\
     h_dom (ex_vars i) = nth i doms (0, 0)) /\
  care_implies_hints limits doms care = true /\
  option_map norm
    (cov_dumps_cover (fun l => l) (fun l => l) (seq 0 2, map prod_of K)
       ex_vars true true true [O; 1%nat]
       (care_implies_hints limits doms care) false) =
  option_map norm (dumps_cover limits doms care false true true K) /\
  option_map (map norm)
    (lat_list_expr (fun l => l)
       (seq 0 4, map prod_of [[(0,0);(0,1);(2,3);(1,1)]])
       (fun _ => mkHint 3 false (0,7)) false false) =
  Some [conj [ECmp CEq (TVar 0) (TNum 0); EIn (TVar 1) (TNum 0) (TNum 1);
              EIn (TVar 2) (TNum 2) (TNum 3); ECmp CEq (TVar 3) (TNum 1)]].
Proof.
  cbv zeta. split; [|split; [|split]]; try (vm_compute; reflexivity).
  intros [|[|i]] Hi; [split; reflexivity|split; reflexivity|cbn in Hi; lia].
Qed.

Print Assumptions clip_subrange_is_translated_code.
Print Assumptions vertical_op_is_translated_code.
Print Assumptions list_expr_is_translated_code.
Print Assumptions dumps_cover_is_translated_code.
Print Assumptions translated_dnf_equiv_on_care.
