(* Isolation of assembled components under a weaker naming condition.

   [AssemblyProofs.assembly_isolation] assumes [names_plain]: component
   names without any underscore.  That is sufficient, not necessary, and
   outside it the (repaired) mangling can be ambiguous: component "a" that
   declares the hidden "_b_y" and component "a_b" with the hidden "_y" both
   use the global name "a_b_y" ([underscore_names_can_leak] below: a leak
   WITHOUT a collision, nothing is signalled).

   The isolation theorem is proved here under the SUFFICIENT condition
     [names_ok]              a component name is not empty and does not
                             start with "_" (so that no recorded global
                             name looks hidden),
     [mangling_unambiguous]  two declared hidden identifiers of components
                             of the assembly have the same mangled name
                             only if they are the same identifier of
                             components with the same name,
     [visible_clean]         (AssemblyProofs) no declared visible variable
                             is named "d_..." for a component name d.
   Necessity is not proved; [mangling_unambiguous] cannot simply be dropped
   (the witness).  [names_plain] implies the first two.  For components
   whose hidden identifiers all have the same length the mangling is
   unambiguous without any further condition on the names; synthesized
   implementations declare "_goal", "_hold" AND their primed copies
   "_goal'", "_hold'" (`AutomatonStepper.vars = aut.vars`; the model's
   [stepper_machine] has m_vars = names (a_decls A)): equal length within
   the unprimed and within the primed identifiers, and a primed and an
   unprimed one differ in their last character ([goal_hold_unambiguous]). *)
From Coq Require Import List Bool String Ascii ZArith Lia.
From Omega Require Import L4Steps.Mangle L4Steps.MangleProofs
  L4Steps.Stepper L4Steps.StepperProofs L4Steps.Assembly
  L4Steps.AssemblyProofs.
Import ListNotations.
Open Scope string_scope.

Definition names_ok (ms : machines) : Prop :=
  forall nm, In nm ms -> fst nm <> "" /\ is_hidden (fst nm) = false.

Definition mangling_unambiguous (ms : machines) : Prop :=
  forall c d, In c ms -> In d ms ->
    forall k h, In k (m_vars (snd c)) -> is_hidden k = true ->
                In h (m_vars (snd d)) -> is_hidden h = true ->
      fst c ++ k = fst d ++ h -> fst c = fst d /\ k = h.

(* ------------------------------------------------------------ sufficient *)
Lemma no_underscore_not_hidden : forall n,
  no_underscore n = true -> is_hidden n = false.
Proof.
  intros [|c n] U; [reflexivity|]. simpl in *.
  apply andb_true_iff in U. destruct U as [U _].
  destruct (Ascii.eqb c "_"%char); [discriminate|reflexivity].
Qed.

Theorem names_plain_names_ok : forall ms, names_plain ms -> names_ok ms.
Proof.
  intros ms [_ NP] nm H. destruct (NP nm H) as [NE U].
  split; [exact NE|apply no_underscore_not_hidden, U].
Qed.

Theorem names_plain_unambiguous : forall ms,
  names_plain ms -> mangling_unambiguous ms.
Proof.
  intros ms [_ NP] c d Hc Hd k h _ HK _ HH E.
  destruct (NP c Hc) as [_ U1]. destruct (NP d Hd) as [_ U2].
  exact (mangle_names_inj _ _ _ _ U1 U2 HK HH E).
Qed.

(* hidden identifiers of one length: nothing more is required of the names *)
Lemma length_append : forall a b : string,
  String.length (a ++ b) = String.length a + String.length b.
Proof. induction a as [|c a IH]; intros b; simpl; [reflexivity|]. rewrite IH. reflexivity. Qed.

Lemma append_same_length : forall n1 n2 h1 h2 : string,
  String.length h1 = String.length h2 ->
  n1 ++ h1 = n2 ++ h2 -> n1 = n2 /\ h1 = h2.
Proof.
  induction n1 as [|c n1 IH]; intros n2 h1 h2 L E.
  - destruct n2 as [|d n2]; simpl in E; [auto|].
    exfalso. rewrite E in L. simpl in L. rewrite length_append in L. lia.
  - destruct n2 as [|d n2]; simpl in E.
    + exfalso. rewrite <- E in L. simpl in L. rewrite length_append in L. lia.
    + injection E as -> E. destruct (IH _ _ _ L E) as [-> ->]. auto.
Qed.

Definition hidden_same_length (ms : machines) (n : nat) : Prop :=
  forall c k, In c ms -> In k (m_vars (snd c)) -> is_hidden k = true ->
    String.length k = n.

Theorem same_length_unambiguous : forall ms n,
  hidden_same_length ms n -> mangling_unambiguous ms.
Proof.
  intros ms n SL c d Hc Hd k h Dk HK Dh HH E.
  apply (append_same_length _ _ _ _); [|exact E].
  rewrite (SL c k Hc Dk HK), (SL d h Hd Dh HH). reflexivity.
Qed.

(* synthesized implementations (gr1.make_streett_transducer /
   make_rabin_transducer) declare the hidden identifiers "_goal", "_hold";
   `aut.vars`, hence `AutomatonStepper.vars` and [stepper_machine]'s m_vars,
   also holds their primed copies *)
Definition hidden_goal_hold (ms : machines) : Prop :=
  forall c k, In c ms -> In k (m_vars (snd c)) -> is_hidden k = true ->
    k = "_goal" \/ k = "_hold" \/ k = "_goal'" \/ k = "_hold'".

(* the last character of a mangled name is that of the identifier *)
Lemma is_primed_app : forall n k : string,
  k <> "" -> is_primed (n ++ k) = is_primed k.
Proof.
  induction n as [|c n IH]; intros k NE; [reflexivity|].
  change (String c n ++ k) with (String c (n ++ k)).
  destruct (n ++ k) as [|d r] eqn:E.
  - exfalso. destruct n; simpl in E; [exact (NE E)|discriminate].
  - change (is_primed (String c (String d r))) with (is_primed (String d r)).
    rewrite <- E. apply IH, NE.
Qed.

Theorem goal_hold_unambiguous : forall ms,
  hidden_goal_hold ms -> mangling_unambiguous ms.
Proof.
  intros ms GH c d Hc Hd k h Dk HK Dh HH E.
  assert (P : is_primed k = is_primed h).
  { rewrite <- (is_primed_app (fst c) k), <- (is_primed_app (fst d) h), E;
      [reflexivity| |]; intros ->; discriminate. }
  apply append_same_length; [|exact E].
  destruct (GH c k Hc Dk HK) as [->|[->|[->| ->]]];
    destruct (GH d h Hd Dh HH) as [->|[->|[->| ->]]];
    (reflexivity || (vm_compute in P; discriminate)).
Qed.

(* ------------------------------------------------------------- isolation *)
Lemma ok_name_not_hidden : forall n k,
  n <> "" -> is_hidden n = false -> is_hidden (n ++ k) = false.
Proof. intros [|c n] k NE H; [congruence|exact H]. Qed.

Lemma from_outputs_no_hidden_ok : forall ms outs G,
  names_ok ms -> from_outputs ms outs G -> no_hidden_keys G.
Proof.
  intros ms outs G NP [F [-> _]] g Hg.
  unfold keys in Hg. apply in_map_iff in Hg. destruct Hg as [[g' z] [E Hg]].
  simpl in E. subst g'. apply in_concat in Hg. destruct Hg as [gd [Hgd Hin]].
  apply in_map_iff in Hgd. destruct Hgd as [rg [<- Hrg]].
  destruct (Forall2_In_r _ _ _ _ _ _ F Hrg) as [nm [Hnm [NDr [_ TG]]]].
  destruct (to_global_entries _ _ _ NDr TG) as [E0 _]. rewrite E0 in Hin.
  apply in_app_or in Hin. destruct Hin as [Hin|Hin].
  - apply filter_In in Hin. destruct Hin as [_ Hv]. simpl in Hv.
    destruct (is_hidden g); [discriminate|reflexivity].
  - unfold mangle in Hin. apply in_map_iff in Hin.
    destruct Hin as [[h z'] [E _]]. simpl in E. injection E as <- _.
    destruct (NP nm Hnm) as [NE NU]. apply ok_name_not_hidden; assumption.
Qed.

(* assembly_isolation under the sufficient condition above.  The recorded state G
   consists of the mangled outputs of the components.  The local view of a
   component [c]
   - exists (no spurious collision) and contains only variables c declares;
   - every hidden entry of it is the output, of that name, of a component
     with c's name (c itself when names are distinct);
   - every visible entry of it is a visible output, of the same name, of
     some component;
   so no value of another component's hidden variable reaches c. *)
Theorem assembly_isolation_exact : forall ms outs G c,
  names_ok ms -> mangling_unambiguous ms -> visible_clean ms ->
  from_outputs ms outs G -> In c ms ->
  exists L, to_local G (fst c) (m_vars (snd c)) = Ok L /\
    forall k z, In (k, z) L ->
      In k (m_vars (snd c)) /\
      if is_hidden k
      then exists rg, In rg outs /\ to_global (fst rg) (fst c) = Ok (snd rg) /\
                      In (k, z) (fst rg)
      else exists rg, In rg outs /\ In (k, z) (visible_vars (fst rg)).
Proof.
  intros ms outs G c NP MU VC FO Hc.
  assert (NH := from_outputs_no_hidden_ok _ _ _ NP FO).
  destruct FO as [F [EG NDG]].
  destruct (to_local_exact G (fst c) (m_vars (snd c)) NDG NH) as [L [HL [NDL LK]]].
  exists L. split; [exact HL|].
  intros k z Hk. apply (In_lookup _ _ _ NDL) in Hk. rewrite LK in Hk.
  destruct (mem k (m_vars (snd c))) eqn:M; [|discriminate].
  apply mem_In in M. split; [exact M|].
  unfold spec_local in Hk.
  assert (ORIGIN : forall g, In (g, z) G ->
    exists nm rg, In nm ms /\ In rg outs /\
      NoDup (keys (fst rg)) /\
      (forall k0, In k0 (keys (fst rg)) -> In k0 (m_vars (snd nm))) /\
      to_global (fst rg) (fst nm) = Ok (snd rg) /\
      (In (g, z) (visible_vars (fst rg)) \/
       exists h, g = fst nm ++ h /\ is_hidden h = true /\ In (h, z) (fst rg))).
  { intros g Hg. rewrite EG in Hg. apply in_concat in Hg.
    destruct Hg as [gd [Hgd Hin]]. apply in_map_iff in Hgd.
    destruct Hgd as [rg [<- Hrg]].
    destruct (Forall2_In_r _ _ _ _ _ _ F Hrg) as [nm [Hnm [NDr [DECL TG]]]].
    exists nm, rg. repeat split; try assumption.
    destruct (to_global_entries _ _ _ NDr TG) as [E _]. rewrite E in Hin.
    apply in_app_or in Hin. destruct Hin as [Hin|Hin]; [left; exact Hin|right].
    unfold mangle in Hin. apply in_map_iff in Hin.
    destruct Hin as [[h z'] [E2 Hh]]. simpl in E2. injection E2 as <- <-.
    apply filter_In in Hh. destruct Hh as [Hh1 Hh2]. exists h. auto. }
  destruct (is_hidden k) eqn:HK.
  - apply lookup_In in Hk.
    destruct (ORIGIN _ Hk) as [nm [rg [Hnm [Hrg [NDr [DECL [TG [V|[h [E [Hh Hin]]]]]]]]]]].
    + (* a visible output named like c's mangled variable: excluded *)
      exfalso. apply filter_In in V. destruct V as [V1 V2]. simpl in V2.
      assert (D : In (fst c ++ k) (m_vars (snd nm))).
      { apply DECL. change (fst c ++ k) with (fst (fst c ++ k, z)). apply in_map, V1. }
      assert (S := VC nm c Hnm Hc _ D).
      destruct (is_hidden (fst c ++ k)); [discriminate|].
      apply (strip_mangled (fst c) k HK). apply S. reflexivity.
    + assert (Dh : In h (m_vars (snd nm))).
      { apply DECL. change h with (fst (h, z)). apply in_map, Hin. }
      destruct (MU c nm Hc Hnm k h M HK Dh Hh E) as [EN ->].
      exists rg. split; [exact Hrg|]. split; [|exact Hin].
      rewrite EN. exact TG.
  - destruct (strip (fst c ++ "_") k) eqn:S; [discriminate|].
    apply lookup_In in Hk.
    destruct (ORIGIN _ Hk) as [nm [rg [Hnm [Hrg [NDr [DECL [TG [V|[h [E [Hh Hin]]]]]]]]]]].
    + exists rg. auto.
    + (* a visible variable of c named like nm's mangled variable: excluded *)
      exfalso. assert (S2 := VC c nm Hc Hnm k M HK). rewrite E in S2.
      apply (strip_mangled (fst nm) h Hh). exact S2.
Qed.

(* the theorem of AssemblyProofs.v is a corollary *)
Corollary assembly_isolation_plain : forall ms outs G c,
  names_plain ms -> visible_clean ms -> from_outputs ms outs G -> In c ms ->
  exists L, to_local G (fst c) (m_vars (snd c)) = Ok L /\
    forall k z, In (k, z) L ->
      In k (m_vars (snd c)) /\
      if is_hidden k
      then exists rg, In rg outs /\ to_global (fst rg) (fst c) = Ok (snd rg) /\
                      In (k, z) (fst rg)
      else exists rg, In rg outs /\ In (k, z) (visible_vars (fst rg)).
Proof.
  intros ms outs G c NP. apply assembly_isolation_exact.
  - apply names_plain_names_ok, NP.
  - apply names_plain_unambiguous, NP.
Qed.

(* assemblies of synthesized implementations: beyond [names_ok] and
   [visible_clean], no condition on the component names *)
Corollary assembly_isolation_synthesized : forall ms outs G c,
  names_ok ms -> hidden_goal_hold ms -> visible_clean ms ->
  from_outputs ms outs G -> In c ms ->
  exists L, to_local G (fst c) (m_vars (snd c)) = Ok L /\
    forall k z, In (k, z) L ->
      In k (m_vars (snd c)) /\
      if is_hidden k
      then exists rg, In rg outs /\ to_global (fst rg) (fst c) = Ok (snd rg) /\
                      In (k, z) (fst rg)
      else exists rg, In rg outs /\ In (k, z) (visible_vars (fst rg)).
Proof.
  intros ms outs G c NO GH. apply assembly_isolation_exact; [exact NO|].
  apply goal_hold_unambiguous, GH.
Qed.

(* the state recorded by `init` consists of mangled outputs, too (for the
   states recorded by `step`: AssemblyProofs.asm_step_from_outputs) *)
Lemma asm_init_from_outputs : forall ms G,
  machines_ok ms -> asm_init ms = Ok G ->
  exists outs, from_outputs ms outs G.
Proof.
  intros ms G MOK H.
  destruct (asm_init_sound _ _ MOK H) as [ND _].
  unfold asm_init in H. destruct (asm_init_acc_inv _ _ _ H) as [parts [F [E _]]].
  exists parts. split; [|split; [exact E|exact ND]].
  clear E H ND. induction F as [|nm rg ms' parts' C F IH]; [constructor|].
  constructor.
  - destruct C as [S TG].
    destruct (MOK nm (or_introl eq_refl)) as [MI _]. destruct (MI _ S) as [A B]. auto.
  - apply IH. intros x Hx. apply MOK. right. exact Hx.
Qed.

(* ------------------------------------------------- the condition is needed *)
(* component "a_b" has the hidden "_y" (always 7); component "a" DECLARES the
   hidden "_b_y" without ever writing it and copies what it sees there to
   its visible output "u".  Both hidden identifiers mangle to "a_b_y". *)
Definition leak_ab : machine := {|
  m_vars := ["_y"]; m_init := Ok [("_y", 7%Z)];
  m_step := fun _ => Ok [("_y", 7%Z)] |}.
Definition leak_a : machine := {|
  m_vars := ["_b_y"; "u"]; m_init := Ok [("u", 0%Z)];
  m_step := fun l => Ok [("u", match lookup "_b_y" l with Some z => z | None => 0%Z end)] |}.
Definition leak_ms : machines := [("a_b", leak_ab); ("a", leak_a)].
(* the initial outputs of the two components, mangled, and the initial state *)
Definition leak_outs : list (dict * dict) :=
  [([("_y", 7%Z)], [("a_b_y", 7%Z)]); ([("u", 0%Z)], [("u", 0%Z)])].
Definition leak_G : dict := [("a_b_y", 7%Z); ("u", 0%Z)].

Example underscore_names_can_leak :
  names_ok leak_ms /\ visible_clean leak_ms /\ machines_ok leak_ms /\
  NoDup (map fst leak_ms) /\
  ~ mangling_unambiguous leak_ms /\
  (* "a" computes its output from the hidden value 7 of "a_b" *)
  (exists a, run omit1 leak_ms 1 = Ok a /\
             s_state a = Some [("a_b_y", 7%Z); ("u", 7%Z)]) /\
  to_local [("a_b_y", 7%Z); ("u", 0%Z)] "a" ["_b_y"; "u"]
  = Ok [("_b_y", 7%Z); ("u", 0%Z)] /\
  (* the initial state consists of mangled outputs and the conclusion of the
     isolation theorem is FALSE for component "a" *)
  asm_init leak_ms = Ok leak_G /\ from_outputs leak_ms leak_outs leak_G /\
  ~ (exists L, to_local leak_G "a" (m_vars leak_a) = Ok L /\
       forall k z, In (k, z) L ->
         In k (m_vars leak_a) /\
         if is_hidden k
         then exists rg, In rg leak_outs /\
                to_global (fst rg) "a" = Ok (snd rg) /\ In (k, z) (fst rg)
         else exists rg, In rg leak_outs /\ In (k, z) (visible_vars (fst rg))).
Proof.
  split; [|split; [|split; [|split; [|split; [|split; [|split; [|split; [|split]]]]]]]].
  - intros nm [<-|[<-|[]]]; simpl; split; (discriminate || reflexivity).
  - intros c d [<-|[<-|[]]] [<-|[<-|[]]] k; simpl;
      intros [<-|H]; try (intros; reflexivity); try contradiction;
      try (destruct H as [<-|[]]; intros; reflexivity); intros; discriminate.
  - intros nm [<-|[<-|[]]]; split; simpl.
    + intros r E. injection E as <-. split; [repeat constructor; simpl; tauto|].
      simpl. tauto.
    + intros l r E. injection E as <-. split; [repeat constructor; simpl; tauto|].
      simpl. tauto.
    + intros r E. injection E as <-. split; [repeat constructor; simpl; tauto|].
      simpl. tauto.
    + intros l r E. injection E as <-. split; [repeat constructor; simpl; tauto|].
      simpl. tauto.
  - repeat constructor; simpl; intuition discriminate.
  - intros MU.
    destruct (MU ("a", leak_a) ("a_b", leak_ab)
                (or_intror (or_introl eq_refl)) (or_introl eq_refl)
                "_b_y" "_y" (or_introl eq_refl) eq_refl
                (or_introl eq_refl) eq_refl eq_refl) as [E _].
    discriminate.
  - eexists. split; reflexivity.
  - reflexivity.
  - reflexivity.
  - split; [|split].
    + constructor; [|constructor; [|constructor]];
        (split; [repeat constructor; simpl; intuition discriminate
                |split; [simpl; tauto|reflexivity]]).
    + reflexivity.
    + repeat constructor; simpl; intuition discriminate.
  - intros [L [E H]]. vm_compute in E. injection E as <-.
    destruct (H "_b_y" 7%Z (or_introl eq_refl)) as [_ X]. simpl in X.
    destruct X as [rg [[<-|[<-|[]]] [_ I]]]; simpl in I; intuition discriminate.
Qed.
