(* Bridge for C06 (tie T): the circuit layer of omega/logic/bitvector.py,
   translated on every run into coq/gen/BitvectorGen.v by
   tools/py2coq_bitvector.py, is the emitter model of
   theories/L1Circuits/Deep.v.

   For every translated function g_f and every argument list:
     (soundness)  g_f args = Some r  ->  r = d_f args'
                  whenever the code returns, it returns the model's value
                  (Leibniz; args' = args with Z.to_nat on the integers);
     (success)    guard args = true  ->  g_f args = Some (d_f args')
                  for the stated Boolean guard (widths >= 2, below 32,
                  start >= 0): the code does not raise there.
   Recursive functions take [fuel]; the statements hold for every fuel above
   the number of stages.  Re-proved on every run against the regenerated
   file: a change of the circuits in /repo breaks these proofs. *)
From Coq Require Import String ZArith List Bool Lia.
From Omega Require Import L1Circuits.Circuits L1Circuits.CircuitsLengths
  L1Circuits.Deep L1Circuits.PyBits L1Circuits.PyBitsProofs L2Compile.Expr L2Compile.Emit.
From OmegaGen Require Import BitvectorGen.
Import ListNotations.
Open Scope Z_scope.

(* one step of inverting a monadic hypothesis H : <code> = Some r *)
Ltac minv1 H :=
  match type of H with
  | (match ?e with Some _ => _ | None => None end) = Some _ =>
      let E := fresh "E" in destruct e eqn:E; [|discriminate H]
  | (if ?c then _ else None) = Some _ =>
      let C := fresh "C" in destruct c eqn:C; [|discriminate H]
  | (if ?c then None else _) = Some _ =>
      let C := fresh "C" in destruct c eqn:C; [discriminate H|]
  | (let '(_, _) := ?p in _) = Some _ => destruct p
  | (match ?p with (_, _) => _ end) = Some _ => destruct p
  end.
Ltac minv H := repeat (minv1 H; cbv zeta in H).
Ltac minv_all := repeat match goal with H : _ = Some _ |- _ => minv1 H; cbv zeta in H end.

Definition nz (z : Z) : nat := Z.to_nat z.

(* ------------------------------------------------------------ sign, pad *)
Lemma g_sign_ok : forall x v, g_sign x = Some v -> v = d_sign x /\ (1 <= length x)%nat.
Proof.
  intros x v H. unfold g_sign in H. minv H. injection H as <-.
  now apply py_index_last.
Qed.

Lemma g_sign_some : forall x, (1 <= length x)%nat -> g_sign x = Some (d_sign x).
Proof. intros x L. unfold g_sign. now rewrite (py_index_last_some _ x (XC false)). Qed.

Lemma g_pad_ok : forall x n r, g_pad x n = Some r ->
  r = d_pad x (nz n) /\ (length x < nz n)%nat.
Proof.
  intros x n r H. unfold g_pad in H. cbv zeta in H. minv H. injection H as <-.
  rewrite Z.gtb_ltb in C. apply Z.ltb_lt in C. unfold py_len in *. unfold d_pad, nz. rewrite py_repeat_single.
  split; [|lia]. do 2 f_equal. lia.
Qed.

Lemma g_pad_some : forall x n, (length x < n)%nat -> g_pad x (Z.of_nat n) = Some (d_pad x n).
Proof.
  intros x n L. unfold g_pad. cbv zeta. unfold py_len.
  destruct (Z.of_nat n - Z.of_nat (length x) >? 0) eqn:C; [|rewrite Z.gtb_ltb in C; apply Z.ltb_ge in C; lia].
  rewrite py_repeat_single. unfold d_pad. do 3 f_equal. lia.
Qed.

Lemma g_truncate_ok : forall x n r, g_truncate x n = Some r -> r = firstn (nz n) x.
Proof.
  intros x n r H. unfold g_truncate in H. minv H. injection H as <-.
  apply Z.geb_le in C. now apply py_slice_to_firstn.
Qed.

(* fixed_shift(x, c, left=True) (truncating) *)
Lemma g_fixed_shift_left_ok : forall x c lg r, g_fixed_shift x c true lg true = Some r ->
  r = d_fixed_shift_left x (nz c) /\ (nz c <= length x)%nat /\ 0 <= c.
Proof.
  intros x c lg r H. unfold g_fixed_shift in H. cbv zeta in H. minv H. injection H as <-.
  apply andb_prop in C. destruct C as [C1 C2]. apply Z.leb_le in C1, C2. unfold py_len in *.
  rewrite py_repeat_single, py_slice_to_firstn by lia. unfold d_fixed_shift_left, nz.
  split; [|lia]. do 2 f_equal. lia.
Qed.

Lemma g_fixed_shift_left_some : forall x c lg, (c <= length x)%nat ->
  g_fixed_shift x (Z.of_nat c) true lg true = Some (d_fixed_shift_left x c).
Proof.
  intros x c lg L. unfold g_fixed_shift. cbv zeta. unfold py_len.
  replace ((0 <=? Z.of_nat c) && (Z.of_nat c <=? Z.of_nat (length x)))%bool with true
    by (symmetry; apply andb_true_intro; split; apply Z.leb_le; lia).
  rewrite py_repeat_single, py_slice_to_firstn by lia. unfold d_fixed_shift_left.
  do 3 f_equal; lia.
Qed.

(* ------------------------------------------------------- sign extension *)
Definition ext_guard (x : list bx) (n : Z) : bool :=
  (2 <=? py_len x) && (py_len x <=? n) && (n <? g_ALU_BITWIDTH).

Lemma firstn_app_exact : forall A (a b : list A), firstn (length a) (a ++ b) = a.
Proof. intros. rewrite firstn_app, Nat.sub_diag, firstn_all. cbn. apply app_nil_r. Qed.

Lemma g_sign_extension_ok : forall x n r, g_sign_extension x n = Some r ->
  r = d_sign_extension x (nz n) /\ ext_guard x n = true.
Proof.
  intros x n r H. unfold g_sign_extension in H. cbv zeta in H. minv H. injection H as <-.
  apply (py_index_last _ x (XC false)) in E. destruct E as [-> L].
  apply Z.ltb_ge in C0, C1. unfold py_len in *. rewrite py_repeat_single.
  unfold d_sign_extension, d_sign, ext_guard, nz, py_len. split.
  - do 2 f_equal. lia.
  - rewrite C. apply andb_true_intro; split; [apply andb_true_intro; split|reflexivity];
      apply Z.leb_le; lia.
Qed.

Lemma g_sign_extension_some : forall x n, ext_guard x n = true ->
  g_sign_extension x n = Some (d_sign_extension x (nz n)).
Proof.
  intros x n G. unfold ext_guard in G. apply andb_prop in G. destruct G as [G G3].
  apply andb_prop in G. destruct G as [G1 G2]. apply Z.leb_le in G1, G2.
  unfold g_sign_extension. cbv zeta. rewrite G3. unfold py_len in *.
  destruct (Z.of_nat (length x) <? 2) eqn:C1; [apply Z.ltb_lt in C1; lia|].
  destruct (n <? Z.of_nat (length x)) eqn:C2; [apply Z.ltb_lt in C2; lia|].
  rewrite (py_index_last_some _ x (XC false)) by lia. rewrite py_repeat_single.
  rewrite py_slice_to_firstn by lia. rewrite Nat2Z.id, firstn_app_exact.
  unfold py_bits_eqb. rewrite bxs_eqb_refl.
  rewrite app_length, repeat_length.
  replace (Z.of_nat (length x + Z.to_nat (n - Z.of_nat (length x))) =? n) with true
    by (symmetry; apply Z.eqb_eq; lia).
  unfold d_sign_extension, d_sign, nz. do 3 f_equal. lia.
Qed.

Definition eq_guard (x y : list bx) (e : Z) : bool :=
  let n := Z.max (py_len x) (py_len y) + e in ext_guard x n && ext_guard y n.

Lemma eq_guard_e : forall x y e, eq_guard x y e = true -> 0 <= e.
Proof.
  intros x y e G. unfold eq_guard, ext_guard in G. cbv zeta in G.
  repeat (apply andb_prop in G; destruct G as [G ?]).
  repeat match goal with H : (_ <=? _) = true |- _ => apply Z.leb_le in H end. lia.
Qed.

Lemma g_equalize_width_ok : forall x y e r, g_equalize_width x y e = Some r ->
  r = d_equalize_width x y (nz e) /\ eq_guard x y e = true.
Proof.
  intros x y e r H. unfold g_equalize_width in H. cbv zeta in H. minv H. injection H as <-.
  apply g_sign_extension_ok in E, E0. destruct E as [-> G1], E0 as [-> G2].
  assert (G : eq_guard x y e = true) by (unfold eq_guard; cbv zeta; now rewrite G1, G2).
  split; [|exact G]. pose proof (eq_guard_e _ _ _ G). unfold d_equalize_width, nz, py_len.
  replace (Z.to_nat (Z.max (Z.of_nat (length x)) (Z.of_nat (length y)) + e))
    with (Nat.max (length x) (length y) + Z.to_nat e)%nat by lia. reflexivity.
Qed.

Lemma d_sign_extension_length : forall x n, (length x <= n)%nat -> length (d_sign_extension x n) = n.
Proof. intros. unfold d_sign_extension. rewrite app_length, repeat_length. lia. Qed.

Lemma g_equalize_width_some : forall x y e, eq_guard x y e = true ->
  g_equalize_width x y e = Some (d_equalize_width x y (nz e)).
Proof.
  intros x y e G. pose proof (eq_guard_e _ _ _ G) as He. unfold eq_guard in G. cbv zeta in G.
  apply andb_prop in G. destruct G as [G1 G2].
  unfold g_equalize_width. cbv zeta.
  rewrite (g_sign_extension_some _ _ G1), (g_sign_extension_some _ _ G2).
  unfold ext_guard in G1, G2. 
  repeat (apply andb_prop in G1; destruct G1 as [G1 ?]).
  repeat (apply andb_prop in G2; destruct G2 as [G2 ?]).
  repeat match goal with H : (_ <=? _) = true |- _ => apply Z.leb_le in H end.
  unfold py_len in *. rewrite !d_sign_extension_length by (unfold nz; lia).
  rewrite Z.eqb_refl. unfold nz at 1. rewrite Z2Nat.id by lia. rewrite Z.eqb_refl.
  unfold d_equalize_width, nz. 
  replace (Z.to_nat (Z.max (Z.of_nat (length x)) (Z.of_nat (length y)) + e))
    with (Nat.max (length x) (length y) + Z.to_nat e)%nat by lia. reflexivity.
Qed.

Lemma g__extend_memory_ok : forall mem more start r, g__extend_memory mem more start = Some r ->
  r = (start + py_len more, mem ++ more) /\ py_len mem <= start.
Proof.
  intros mem more start r H. unfold g__extend_memory in H. minv H. injection H as <-.
  apply Z.geb_le in C. auto.
Qed.

Lemma g__extend_memory_some : forall mem more start, py_len mem <= start ->
  g__extend_memory mem more start = Some (start + py_len more, mem ++ more).
Proof.
  intros. unfold g__extend_memory.
  destruct (start >=? py_len mem) eqn:C; [reflexivity|]. rewrite Z.geb_leb in C. apply Z.leb_gt in C. lia.
Qed.

(* ------------------------------------------------------ adder_subtractor *)
Definition cell_r (a b c : bx) := XXor (XXor a b) c.
Definition cell_c (a b c : bx) := XOr (XAnd a b) (XAnd (XXor a b) c).

Lemma ripple_loop : forall (body : Z * (bx * bx) -> bx * list bx * list bx -> option (bx * list bx * list bx)) start,
  (forall i a b c m r s', body (i, (a, b)) (c, m, r) = Some s' ->
     0 <= start + 2 * i /\
     s' = (XR (nz (start + 2 * i) + 1), m ++ [cell_r a b c; cell_c a b c],
           r ++ [XR (nz (start + 2 * i))])) ->
  forall p q i0 c m r s',
  py_for (py_enum_from i0 (combine p q)) (c, m, r) body = Some s' ->
  s' = (snd (d_ripple p q c (nz (start + 2 * i0))),
        m ++ snd (fst (d_ripple p q c (nz (start + 2 * i0)))),
        r ++ fst (fst (d_ripple p q c (nz (start + 2 * i0))))).
Proof.
  intros body start Hb. induction p as [|a p IH]; intros q i0 c m r s' H.
  - cbn in H. injection H as <-. cbn. now rewrite !app_nil_r.
  - destruct q as [|b q].
    + cbn in H. injection H as <-. cbn. now rewrite !app_nil_r.
    + cbn [combine py_enum_from py_for] in H.
      destruct (body (i0, (a, b)) (c, m, r)) as [s1|] eqn:E; [|discriminate].
      apply Hb in E. destruct E as [N ->]. apply IH in H. subst s'.
      cbn [d_ripple]. replace (nz (start + 2 * (i0 + 1))) with (nz (start + 2 * i0) + 2)%nat
        by (unfold nz; lia).
      destruct (d_ripple p q (XR (nz (start + 2 * i0) + 1)) (nz (start + 2 * i0) + 2))
        as [[res mem] cf]. cbn [fst snd]. unfold cell_r, cell_c.
      now rewrite <- !app_assoc.
Qed.

Lemma ripple_loop_some : forall (body : Z * (bx * bx) -> bx * list bx * list bx -> option (bx * list bx * list bx)) start,
  (forall i a b c m r, 0 <= start + 2 * i ->
     body (i, (a, b)) (c, m, r) =
     Some (XR (nz (start + 2 * i) + 1), m ++ [cell_r a b c; cell_c a b c],
           r ++ [XR (nz (start + 2 * i))])) ->
  forall p q i0 c m r, 0 <= start + 2 * i0 ->
  py_for (py_enum_from i0 (combine p q)) (c, m, r) body =
  Some (snd (d_ripple p q c (nz (start + 2 * i0))),
        m ++ snd (fst (d_ripple p q c (nz (start + 2 * i0)))),
        r ++ fst (fst (d_ripple p q c (nz (start + 2 * i0))))).
Proof.
  intros body start Hb. induction p as [|a p IH]; intros q i0 c m r N.
  - cbn. now rewrite !app_nil_r.
  - destruct q as [|b q].
    + cbn. now rewrite !app_nil_r.
    + cbn [combine py_enum_from py_for]. rewrite Hb by assumption. rewrite IH by lia.
      cbn [d_ripple]. replace (nz (start + 2 * (i0 + 1))) with (nz (start + 2 * i0) + 2)%nat
        by (unfold nz; lia).
      destruct (d_ripple p q (XR (nz (start + 2 * i0) + 1)) (nz (start + 2 * i0) + 2))
        as [[res mem] cf]. cbn [fst snd]. unfold cell_r, cell_c.
      now rewrite <- !app_assoc.
Qed.

Lemma d_ripple_mem_length : forall p q c k,
  length (snd (fst (d_ripple p q c k))) = (2 * length (fst (fst (d_ripple p q c k))))%nat.
Proof.
  induction p as [|a p IH]; intros q c k; [reflexivity|]. destruct q as [|b q]; [reflexivity|].
  cbn [d_ripple]. specialize (IH q (XR (k + 1)) (k + 2)%nat).
  destruct (d_ripple p q (XR (k + 1)) (k + 2)) as [[res mem] cf]. cbn [fst snd length] in *. lia.
Qed.

Definition add_guard (x y : list bx) (start e : Z) : bool :=
  (0 <=? start) && eq_guard x y e.

Lemma g_adder_subtractor_ok : forall x y add start e r,
  g_adder_subtractor x y add start e = Some r ->
  r = d_adder_subtractor x y add (nz start) (nz e) /\ add_guard x y start e = true.
Proof.
  intros x y add start e r H. unfold g_adder_subtractor in H. minv H. injection H as <-.
  match goal with E : g_equalize_width _ _ _ = Some _ |- _ =>
    apply g_equalize_width_ok in E; destruct E as [E G] end.
  assert (AG : add_guard x y start e = true).
  { unfold add_guard. rewrite G.
    match goal with C : (start >=? 0) = true |- _ => apply Z.geb_le in C; apply Z.leb_le in C; now rewrite C end. }
  split; [|exact AG]. unfold d_adder_subtractor. rewrite <- E. clear E G AG.
  match goal with E : py_for _ _ _ = Some _ |- _ =>
    unfold py_enumerate in E; eapply (ripple_loop _ start) in E;
    [rewrite Z.mul_0_r, Z.add_0_r in E; injection E as -> -> ->|] end.
  - cbn [app].
    match goal with E : (if add then _ else _) = Some _ |- _ => destruct add; injection E as <- <- end;
    match goal with |- context [d_ripple ?a ?b ?c ?d] => destruct (d_ripple a b c d) as [[? ?] ?] end;
    reflexivity.
  - intros ? ? ? ? ? ? ? Hb. cbv beta iota zeta in Hb. minv Hb. injection Hb as <-.
    repeat match goal with E : py_reg _ = Some _ |- _ => apply py_reg_some in E; destruct E as [-> ?] end.
    split; [assumption|]. unfold cell_r, cell_c. rewrite <- app_assoc. cbn [app].
    do 3 f_equal. unfold nz. lia.
Qed.

Lemma g_adder_subtractor_some : forall x y add start e, add_guard x y start e = true ->
  g_adder_subtractor x y add start e = Some (d_adder_subtractor x y add (nz start) (nz e)).
Proof.
  intros x y add start e AG. unfold add_guard in AG. apply andb_prop in AG. destruct AG as [S0 G].
  pose proof (eq_guard_e _ _ _ G) as He. apply Z.leb_le in S0.
  unfold g_adder_subtractor.
  replace (start >=? 0) with true by (symmetry; apply Z.geb_le; lia).
  replace (e >=? 0) with true by (symmetry; apply Z.geb_le; lia).
  rewrite (g_equalize_width_some _ _ _ G). unfold d_adder_subtractor.
  assert (L : length (fst (d_equalize_width x y (nz e))) = length (snd (d_equalize_width x y (nz e)))).
  { unfold eq_guard, ext_guard in G. cbv zeta in G.
    repeat (apply andb_prop in G; destruct G as [G ?]).
    repeat match goal with H : (_ <=? _) = true |- _ => apply Z.leb_le in H end.
    unfold py_len in *. unfold d_equalize_width. cbn [fst snd].
    rewrite !d_sign_extension_length; unfold nz; lia. }
  destruct (d_equalize_width x y (nz e)) as [p q]. cbn [fst snd] in L. cbv zeta.
  unfold py_len. rewrite L, Z.eqb_refl.
  unfold py_enumerate.
  destruct add; cbv zeta.
  - erewrite (ripple_loop_some _ start);
      [|intros ? ? ? ? ? ? N; cbv beta iota zeta; rewrite !py_reg_nonneg by lia;
        unfold cell_r, cell_c; rewrite <- app_assoc; cbn [app]; unfold nz; repeat f_equal; lia|lia].
    rewrite Z.mul_0_r, Z.add_0_r. cbn [app].
    pose proof (d_ripple_mem_length p q (XC false) (nz start)) as ML.
    destruct (d_ripple p q (XC false) (nz start)) as [[res mem] cf]. cbn [fst snd] in *.
    rewrite ML. replace (Z.of_nat (2 * length res) =? 2 * Z.of_nat (length res)) with true
      by (symmetry; apply Z.eqb_eq; lia). reflexivity.
  - erewrite (ripple_loop_some _ start);
      [|intros ? ? ? ? ? ? N; cbv beta iota zeta; rewrite !py_reg_nonneg by lia;
        unfold cell_r, cell_c; rewrite <- app_assoc; cbn [app]; unfold nz; repeat f_equal; lia|lia].
    rewrite Z.mul_0_r, Z.add_0_r. cbn [app].
    pose proof (d_ripple_mem_length p (map (fun bit => XNot bit) q) (XC true) (nz start)) as ML.
    change (map XNot q) with (map (fun bit => XNot bit) q).
    destruct (d_ripple p (map (fun bit => XNot bit) q) (XC true) (nz start)) as [[res mem] cf]. cbn [fst snd] in *.
    rewrite ML. replace (Z.of_nat (2 * length res) =? 2 * Z.of_nat (length res)) with true
      by (symmetry; apply Z.eqb_eq; lia). reflexivity.
Qed.

(* ----------------------------------------------- inequality, less_than *)
Lemma fold_inequality : forall p q,
  fold_right (fun '(a, b) acc => XOr (XXor a b) acc) (XC false) (combine p q) = d_inequality p q.
Proof.
  induction p as [|a p IH]; intros q; [reflexivity|]. destruct q as [|b q]; [reflexivity|].
  cbn. now rewrite IH.
Qed.

Lemma g_inequality_ok : forall p q mem r, g_inequality p q mem = Some r ->
  r = d_inequality p q /\ length p = length q.
Proof.
  intros p q mem r H. unfold g_inequality in H. minv H. injection H as <-.
  split; [apply fold_inequality|].
  match goal with C : (_ =? _) = true |- _ => apply Z.eqb_eq in C; unfold py_len in C; lia end.
Qed.

Lemma g_inequality_some : forall p q mem, length p = length q ->
  g_inequality p q mem = Some (d_inequality p q).
Proof.
  intros p q mem L. unfold g_inequality, py_len. rewrite L, Z.eqb_refl.
  now rewrite fold_inequality.
Qed.

Lemma g_less_than_ok : forall p q mem r, g_less_than p q mem = Some r ->
  r = (fst (d_less_than p q (length mem)), mem ++ snd (d_less_than p q (length mem)))
  /\ add_guard p q (py_len mem) 1 = true.
Proof.
  intros p q mem r H. unfold g_less_than in H. minv H. injection H as <-.
  match goal with E : g_adder_subtractor _ _ _ _ _ = Some _ |- _ =>
    apply g_adder_subtractor_ok in E; destruct E as [E G] end.
  split; [|exact G]. unfold d_less_than.
  change (nz 1) with 1%nat in E. unfold nz in E. rewrite py_len_to_nat in E. rewrite <- E.
  cbn [fst snd].
  repeat match goal with E : py_index _ (-1) = Some _ |- _ =>
    apply (py_index_last _ _ (XC false)) in E; destruct E as [-> ?] end.
  reflexivity.
Qed.

Lemma eq_guard_lengths : forall x y e, eq_guard x y e = true ->
  (2 <= length x)%nat /\ (2 <= length y)%nat /\ 0 <= e /\
  Z.max (py_len x) (py_len y) + e < g_ALU_BITWIDTH.
Proof.
  intros x y e G. pose proof (eq_guard_e _ _ _ G). unfold eq_guard, ext_guard in G. cbv zeta in G.
  repeat (apply andb_prop in G; destruct G as [G ?]).
  repeat match goal with H : (_ <=? _) = true |- _ => apply Z.leb_le in H end.
  repeat match goal with H : (_ <? _) = true |- _ => apply Z.ltb_lt in H end.
  unfold py_len in *. lia.
Qed.

Lemma eq_guard_intro : forall x y e, (2 <= length x)%nat -> (2 <= length y)%nat -> 0 <= e ->
  Z.max (py_len x) (py_len y) + e < g_ALU_BITWIDTH -> eq_guard x y e = true.
Proof.
  intros x y e Lx Ly He B. unfold eq_guard, ext_guard. cbv zeta. unfold py_len in *.
  repeat (apply andb_true_intro; split); first [apply Z.leb_le; lia | apply Z.ltb_lt; lia].
Qed.

Lemma g_less_than_some : forall p q mem, add_guard p q (py_len mem) 1 = true ->
  g_less_than p q mem =
  Some (fst (d_less_than p q (length mem)), mem ++ snd (d_less_than p q (length mem))).
Proof.
  intros p q mem G. unfold g_less_than. rewrite (g_adder_subtractor_some _ _ _ _ _ G).
  unfold add_guard in G. apply andb_prop in G. destruct G as [_ G].
  apply eq_guard_lengths in G. destruct G as (Lp & Lq & _).
  change (nz 1) with 1%nat. unfold nz. rewrite py_len_to_nat. unfold d_less_than.
  destruct (d_adder_subtractor p q false (length mem) 1) as [[res rmem] cf]. cbv zeta.
  rewrite (py_index_last_some _ p (XC false)), (py_index_last_some _ q (XC false)) by lia.
  reflexivity.
Qed.

(* -------------------------------------------------------- ite_function *)
Definition ite_cell (p q : bx) (k : nat) := XOr (XAnd p (XR k)) (XAnd q (XNot (XR k))).

Lemma ite_loop : forall (body : bx * bx -> list bx -> option (list bx)) start,
  (forall p q m s', body (p, q) m = Some s' ->
     0 <= start /\ s' = m ++ [ite_cell p q (nz start)]) ->
  forall b c m s', py_for (combine b c) m body = Some s' ->
  s' = m ++ d_ite_cells b c (nz start) /\ (combine b c = [] \/ 0 <= start).
Proof.
  intros body start Hb. induction b as [|p b IH]; intros c m s' H.
  - cbn in H. injection H as <-. cbn. rewrite app_nil_r. auto.
  - destruct c as [|q c].
    + cbn in H. injection H as <-. cbn. rewrite app_nil_r. auto.
    + cbn [combine py_for] in H. destruct (body (p, q) m) eqn:E; [|discriminate].
      apply Hb in E. destruct E as [N ->]. apply IH in H. destruct H as [-> _].
      split; [|now right]. cbn [d_ite_cells]. now rewrite <- app_assoc.
Qed.

Lemma ite_loop_some : forall (body : bx * bx -> list bx -> option (list bx)) start,
  (forall p q m, body (p, q) m = Some (m ++ [ite_cell p q (nz start)])) ->
  forall b c m, py_for (combine b c) m body = Some (m ++ d_ite_cells b c (nz start)).
Proof.
  intros body start Hb. induction b as [|p b IH]; intros c m.
  - cbn. now rewrite app_nil_r.
  - destruct c as [|q c]; [cbn; now rewrite app_nil_r|].
    cbn [combine py_for]. rewrite Hb, IH. cbn [d_ite_cells]. now rewrite <- app_assoc.
Qed.

Lemma regs_map : forall (b : list bx) start, 0 <= start ->
  map (fun p : Z * bx => XR (Z.to_nat (fst p + start + 1))) (py_enum_from 0 b)
  = map (fun i => XR (i + nz start + 1)) (seq 0 (length b)).
Proof.
  intros b start N. rewrite (map_enum_from _ _ (fun z => XR (Z.to_nat (z + start + 1)))).
  apply map_ext. intros k. f_equal. unfold nz. lia.
Qed.

Lemma g_ite_function_ok : forall a b c start r, g_ite_function a b c start = Some r ->
  r = d_ite_function a b c (nz start) /\ length b = length c.
Proof.
  intros a b c start r H. unfold g_ite_function in H. minv H. injection H as <-.
  match goal with C : (py_len b =? py_len c) = true |- _ =>
    apply Z.eqb_eq in C; unfold py_len in C; assert (L : length b = length c) by lia end.
  split; [|exact L].
  match goal with E : py_for _ _ _ = Some _ |- _ => eapply (ite_loop _ start) in E;
    [destruct E as [-> D]|] end.
  2:{ intros ? ? ? ? Hb. cbv beta iota zeta in Hb. minv Hb. injection Hb as <-.
      repeat match goal with E : py_reg _ = Some _ |- _ => apply py_reg_some in E; destruct E as [-> ?] end.
      split; [assumption|reflexivity]. }
  unfold d_ite_function. cbn [app]. f_equal.
  match goal with E : py_mapM _ _ = Some _ |- _ =>
    eapply (py_mapM_map _ _ _ (fun p : Z * bx => XR (Z.to_nat (fst p + start + 1)))) in E;
    [rewrite E|] end.
  2:{ intros [i u] y _ Hy. cbv beta iota zeta in Hy. minv Hy. injection Hy as <-.
      match goal with E : py_reg _ = Some _ |- _ => apply py_reg_some in E; destruct E as [-> ?] end.
      reflexivity. }
  unfold py_enumerate. destruct D as [D|D].
  - destruct b as [|p b]; [reflexivity|]. destruct c as [|q c]; discriminate.
  - now apply regs_map.
Qed.

Lemma g_ite_function_some : forall a b c start, length b = length c -> 0 <= start ->
  g_ite_function a b c start = Some (d_ite_function a b c (nz start)).
Proof.
  intros a b c start L N. unfold g_ite_function, py_len. rewrite L, Z.eqb_refl. cbv zeta.
  erewrite (ite_loop_some _ start);
    [|intros ? ? ?; cbv beta iota zeta; rewrite !py_reg_nonneg by lia; reflexivity].
  erewrite (py_mapM_some _ _ _ (fun p : Z * bx => XR (Z.to_nat (fst p + start + 1)))).
  2:{ intros [i u] Hx. cbv beta iota zeta. unfold py_enumerate in Hx. apply in_enum_from in Hx.
      pose proof (py_len_nonneg _ b). rewrite py_reg_nonneg by lia. reflexivity. }
  unfold py_enumerate. rewrite regs_map by assumption. reflexivity.
Qed.

(* ------------------------------------------------------ ite_connective *)
Lemma g_ite_connective_eq : forall a b c, g_ite_connective a b c = Some (d_ite_connective a b c).
Proof. reflexivity. Qed.

(* ------------------------------------------------------ _negate_if, abs_ *)
Ltac use_ok :=
  repeat match goal with
  | E : g_sign _ = Some _ |- _ => apply g_sign_ok in E; destruct E as [-> ?]
  | E : g_pad _ _ = Some _ |- _ => apply g_pad_ok in E; destruct E as [-> ?]
  | E : g_truncate _ _ = Some _ |- _ => apply g_truncate_ok in E; subst
  | E : g_fixed_shift _ _ true _ true = Some _ |- _ =>
      apply g_fixed_shift_left_ok in E; destruct E as (-> & ? & ?)
  | E : g_sign_extension _ _ = Some _ |- _ => apply g_sign_extension_ok in E; destruct E as [-> ?]
  | E : g_equalize_width _ _ _ = Some _ |- _ => apply g_equalize_width_ok in E; destruct E as [E ?]
  | E : g__extend_memory _ _ _ = Some _ |- _ =>
      apply g__extend_memory_ok in E; destruct E as [E ?]; injection E as ? ?; subst
  | E : g_adder_subtractor _ _ _ _ _ = Some _ |- _ =>
      apply g_adder_subtractor_ok in E; destruct E as [E ?]
  | E : g_ite_function _ _ _ _ = Some _ |- _ => apply g_ite_function_ok in E; destruct E as [E ?]
  end.

Lemma g__negate_if_ok : forall guard x start r, g__negate_if guard x start = Some r ->
  r = d_negate_if guard x (nz start) /\ 0 <= start.
Proof.
  intros guard x start r H. unfold g__negate_if in H. minv H. injection H as <-.
  match goal with C : (start >=? 0) = true |- _ => apply Z.geb_le in C end.
  split; [|assumption]. use_ok. unfold d_negate_if.
  change (nz 1) with 1%nat in *. unfold nz in *. rewrite py_len_to_nat in *.
  replace (Z.to_nat (py_len x + 1)) with (length x + 1)%nat in * by (unfold py_len; lia).
  match goal with E : _ = d_adder_subtractor _ _ _ _ _ |- _ => rewrite <- E end.
  match goal with E : _ = d_ite_function _ _ _ ?k |- context [d_ite_function _ _ _ ?k2] =>
    replace k2 with k by (unfold py_len; lia); rewrite <- E end.
  reflexivity.
Qed.

Lemma d_ripple_length : forall p q c k,
  length (fst (fst (d_ripple p q c k))) = Nat.min (length p) (length q).
Proof.
  induction p as [|a p IH]; intros q c k; [reflexivity|]. destruct q as [|b q]; [reflexivity|].
  cbn [d_ripple]. specialize (IH q (XR (k + 1)) (k + 2)%nat).
  destruct (d_ripple p q (XR (k + 1)) (k + 2)) as [[res mem] cf]. cbn [fst snd length] in *. lia.
Qed.

Lemma d_adder_length : forall x y add start e,
  length (fst (fst (d_adder_subtractor x y add start e)))
  = (Nat.max (length x) (length y) + e)%nat.
Proof.
  intros. unfold d_adder_subtractor, d_equalize_width.
  destruct add; rewrite d_ripple_length; rewrite ?map_length, !d_sign_extension_length; lia.
Qed.

Lemma d_adder_mem_length : forall x y add start e,
  length (snd (fst (d_adder_subtractor x y add start e)))
  = (2 * (Nat.max (length x) (length y) + e))%nat.
Proof.
  intros. rewrite <- d_adder_length with (add := add) (start := start).
  unfold d_adder_subtractor, d_equalize_width. destruct add; apply d_ripple_mem_length.
Qed.

Lemma d_pad_length : forall x n, (length x <= n)%nat -> length (d_pad x n) = n.
Proof. intros. unfold d_pad. rewrite app_length, repeat_length. lia. Qed.

Definition neg_guard (x : list bx) (start : Z) : bool :=
  (0 <=? start) && (2 <=? py_len x) && (py_len x + 1 <? g_ALU_BITWIDTH).

Lemma g__negate_if_some : forall guard x start, neg_guard x start = true ->
  g__negate_if guard x start = Some (d_negate_if guard x (nz start)).
Proof.
  intros guard x start G. unfold neg_guard in G.
  apply andb_prop in G. destruct G as [G G3]. apply andb_prop in G. destruct G as [G1 G2].
  apply Z.leb_le in G1, G2. apply Z.ltb_lt in G3. unfold py_len in G2, G3.
  unfold g__negate_if. replace (start >=? 0) with true by (symmetry; apply Z.geb_le; lia).
  cbv zeta. unfold py_len at 1. rewrite g_pad_some by (cbn [length]; lia).
  assert (LZ : length (d_pad [XC false] (length x)) = length x)
    by (apply d_pad_length; cbn [length]; lia).
  rewrite g_adder_subtractor_some.
  2:{ unfold add_guard. apply andb_true_intro. split; [apply Z.leb_le; lia|].
      apply eq_guard_intro; unfold py_len; rewrite ?LZ; lia. }
  unfold d_negate_if. change (nz 1) with 1%nat.
  pose proof (d_adder_length (d_pad [XC false] (length x)) x false (nz start) 1) as LA.
  destruct (d_adder_subtractor (d_pad [XC false] (length x)) x false (nz start) 1)
    as [[neg_x mem] cf]. cbn [fst snd] in LA. rewrite LZ, Nat.max_id in LA.
  rewrite g_sign_extension_some.
  2:{ unfold ext_guard, py_len.
      repeat (apply andb_true_intro; split); first [apply Z.leb_le; lia | apply Z.ltb_lt; lia]. }
  replace (nz (py_len x + 1)) with (length x + 1)%nat by (unfold nz, py_len; lia).
  rewrite g_ite_function_some.
  2:{ rewrite LA, d_sign_extension_length; lia. }
  2:{ pose proof (py_len_nonneg _ mem). lia. }
  replace (nz (start + py_len mem)) with (nz start + length mem)%nat by (unfold nz, py_len; lia).
  destruct (d_ite_function guard neg_x (d_sign_extension x (length x + 1)) (nz start + length mem))
    as [r ite_mem].
  rewrite g__extend_memory_some by lia. reflexivity.
Qed.

Lemma g_abs__ok : forall x start r, g_abs_ x start = Some r ->
  r = d_abs x (nz start) /\ 0 <= start.
Proof.
  intros x start r H. unfold g_abs_ in H. minv H. injection H as <-. use_ok.
  match goal with E : g__negate_if _ _ _ = Some _ |- _ => apply g__negate_if_ok in E; exact E end.
Qed.

Lemma g_abs__some : forall x start, neg_guard x start = true ->
  g_abs_ x start = Some (d_abs x (nz start)).
Proof.
  intros x start G. unfold g_abs_. rewrite g_sign_some.
  - now rewrite g__negate_if_some.
  - unfold neg_guard in G. apply andb_prop in G. destruct G as [G _].
    apply andb_prop in G. destruct G as [_ G]. apply Z.leb_le in G. unfold py_len in G. lia.
Qed.

(* ------------------------------------------------------------ multiplier *)
Definition stage (s : option Z) (n : Z) : Z := match s with Some s => s | None => n - 1 end.

Lemma g__multiplier_none : forall fuel x y start,
  g__multiplier fuel x y None start = g__multiplier fuel x y (Some (py_len y - 1)) start.
Proof. destruct fuel; reflexivity. Qed.

Lemma g__multiplier_some_ok : forall fuel x y s start r,
  g__multiplier fuel x y (Some s) start = Some r ->
  r = d_mult_stages x y (nz (s + 1)) (nz start)
  /\ 0 <= start /\ -1 <= s < py_len y /\ length x = length y.
Proof.
  induction fuel as [|fuel IH]; intros x y s start r H; [discriminate|].
  cbn [g__multiplier] in H. cbv beta iota zeta in H.
  destruct (start >=? 0) eqn:C0; [|discriminate]. apply Z.geb_le in C0.
  destruct (py_len x =? py_len y) eqn:C1; [|discriminate]. apply Z.eqb_eq in C1.
  assert (L : length x = length y) by (unfold py_len in C1; lia).
  destruct ((-1 <=? s) && (s <? py_len y))%bool eqn:C2; [|discriminate].
  apply andb_prop in C2. destruct C2 as [C2 C3]. apply Z.leb_le in C2. apply Z.ltb_lt in C3.
  destruct (s =? -1) eqn:C4.
  - apply Z.eqb_eq in C4. subst s. injection H as <-. cbn [nz Z.add Z.to_nat d_mult_stages].
    rewrite py_repeat_single, py_len_to_nat. repeat split; auto; lia.
  - apply Z.eqb_neq in C4. minv H. injection H as <-.
    match goal with E : g__multiplier _ _ _ _ _ = Some _ |- _ => apply IH in E; destruct E as (E & _) end.
    use_ok. repeat split; auto; try lia.
    replace (nz (s + 1)) with (S (nz s)) by (unfold nz; lia). cbn [d_mult_stages].
    replace (s - 1 + 1) with s in * by lia.
    match goal with E : _ = d_mult_stages _ _ _ _ |- _ => rewrite <- E end.
    match goal with E : py_index _ _ = Some _ |- _ =>
      apply (py_index_nth _ _ _ (XC false)) in E; [destruct E as [-> ?]|lia] end.
    unfold nz in *. change (Z.to_nat 0) with 0%nat in *.
    match goal with E : _ = d_adder_subtractor _ _ _ ?k _ |- context [d_adder_subtractor _ _ _ ?k2 _] =>
      replace k2 with k by (unfold py_len; lia); rewrite <- E end.
    reflexivity.
Qed.

Lemma g__multiplier_ok : forall fuel x y s start r,
  g__multiplier fuel x y s start = Some r ->
  r = d_mult_stages x y (nz (stage s (py_len y) + 1)) (nz start)
  /\ 0 <= start /\ -1 <= stage s (py_len y) < py_len y /\ length x = length y.
Proof.
  intros fuel x y [s|] start r H; cbn [stage].
  - now apply g__multiplier_some_ok in H.
  - rewrite g__multiplier_none in H. now apply g__multiplier_some_ok in H.
Qed.

Lemma g_multiplier_ok : forall fuel x y start r, g_multiplier fuel x y start = Some r ->
  r = d_multiplier x y (nz start).
Proof.
  intros fuel x y start r H. unfold g_multiplier in H. cbv zeta in H. minv H.
  use_ok.
  match goal with E : g__multiplier _ _ _ _ _ = Some _ |- _ =>
    apply g__multiplier_ok in E; destruct E as (E & ? & ? & ?) end.
  cbn [stage] in *. unfold d_multiplier.
  replace (nz (Z.min (py_len x) (py_len y))) with (Nat.min (length x) (length y)) in *
    by (unfold nz, py_len; lia).
  match goal with E : _ = d_equalize_width _ _ _ |- _ => rewrite <- E end.
  match goal with E : _ = d_mult_stages _ _ ?k _ |- context [d_mult_stages _ _ ?k2 _] =>
    replace k with k2 in E by (unfold nz, py_len; lia); rewrite <- E end.
  (* the truncation to ALU_BITWIDTH bits is not reached *)
  match goal with E : (if ?c then _ else _) = Some _ |- _ => destruct c eqn:CT end.
  - exfalso.
    match goal with G : eq_guard x y _ = true |- _ => apply eq_guard_lengths in G end.
    match goal with C : (py_len _ =? py_len x + py_len y) = true |- _ => apply Z.eqb_eq in C end.
    rewrite Z.gtb_ltb in CT. apply Z.ltb_lt in CT. lia.
  - repeat match goal with E : Some _ = Some _ |- _ => injection E as ?; subst end.
    reflexivity.
Qed.

(* --------------------------------------------------------------- divider *)
Lemma g__restoring_divider_none : forall fuel x y start,
  g__restoring_divider fuel x y None start =
  match g_pad y (2 * py_len x) with
  | Some y1 =>
      match g_fixed_shift y1 (py_len x) true false true with
      | Some y2 => g__restoring_divider fuel x y2 (Some (py_len x - 1)) start
      | None => None
      end
  | None => None
  end.
Proof.
  intros [|fuel] x y start.
  - cbn [g__restoring_divider]. destruct (g_pad y (2 * py_len x)); [|reflexivity].
    now destruct (g_fixed_shift l (py_len x) true false true).
  - cbn [g__restoring_divider]. cbv beta iota zeta.
    destruct (g_pad y (2 * py_len x)) as [y1|]; [|now destruct (start >=? 0)].
    destruct (g_fixed_shift y1 (py_len x) true false true) as [y2|]; [|now destruct (start >=? 0)].
    reflexivity.
Qed.

Definition div_result (x y : list bx) (s start : Z) : list bx * list bx * list bx :=
  let '(quo, rem, mem) := d_div_stages x y (length x) (nz (s + 1)) (nz start) in
  (quo, if s =? py_len x - 1 then skipn (length x) rem else rem, mem).

Lemma g__restoring_divider_some_ok : forall fuel x y s start r,
  g__restoring_divider fuel x y (Some s) start = Some r ->
  r = div_result x y s start /\ 0 <= start /\ -1 <= s < py_len x /\ (1 <= length x)%nat.
Proof.
  induction fuel as [|fuel IH]; intros x y s start r H; [discriminate|].
  cbn [g__restoring_divider] in H. cbv beta iota zeta in H.
  destruct (start >=? 0) eqn:C0; [|discriminate]. apply Z.geb_le in C0.
  destruct ((-1 <=? s) && (s <? py_len x))%bool eqn:C2; [|discriminate].
  apply andb_prop in C2. destruct C2 as [C2 C3]. apply Z.leb_le in C2. apply Z.ltb_lt in C3.
  unfold div_result.
  destruct (s =? -1) eqn:C4.
  - apply Z.eqb_eq in C4. subst s. minv H. injection H as <-. use_ok.
    cbn [nz Z.add Z.to_nat d_div_stages].
    assert (N : (1 <= length x)%nat) by (unfold nz, py_len in *; lia).
    replace (-1 =? py_len x - 1) with false by (symmetry; apply Z.eqb_neq; unfold py_len; lia).
    replace (nz (2 * py_len x)) with (2 * length x)%nat by (unfold nz, py_len; lia).
    repeat split; auto; lia.
  - apply Z.eqb_neq in C4. minv H. 
    match goal with E : g__restoring_divider _ _ _ _ _ = Some _ |- _ =>
      apply IH in E; destruct E as (E & _ & _ & N) end.
    use_ok. repeat split; auto; try lia.
    unfold div_result in *.
    replace (s - 1 =? py_len x - 1) with false in * by (symmetry; apply Z.eqb_neq; lia).
    replace (nz (s + 1)) with (S (nz s)) by (unfold nz; lia). cbn [d_div_stages].
    replace (s - 1 + 1) with s in * by lia.
    match goal with |- context [d_div_stages ?a ?b ?c ?d ?e] =>
      destruct (d_div_stages a b c d e) as [[quo0 p0] mem0] end.
    match goal with E : (_, _, _) = (_, _, _) |- _ => injection E as ? ? ?; subst end.
    unfold nz in *. change (Z.to_nat 0) with 0%nat in *. change (Z.to_nat 1) with 1%nat in *.
    rewrite !py_len_app in *. cbn [app] in *.
    match goal with E : _ = d_adder_subtractor _ _ _ ?k _ |- context [d_adder_subtractor _ _ _ ?k2 _] =>
      replace k2 with k by (unfold py_len; lia); rewrite <- E end.
    match goal with E : _ = d_ite_function _ _ _ ?k |- context [d_ite_function _ _ _ ?k2] =>
      replace k2 with k by (unfold py_len; lia); rewrite <- E end.
    match goal with E : (if ?c then _ else _) = Some _ |- _ =>
      destruct c; injection E as ?; subst end;
    injection H as <-; rewrite <- ?app_assoc;
    rewrite ?py_slice_from_skipn by apply py_len_nonneg; rewrite ?py_len_to_nat; reflexivity.
Qed.

Lemma g_restoring_divider_ok : forall fuel x y start r,
  g_restoring_divider fuel x y start = Some r -> r = d_restoring_divider x y (nz start).
Proof.
  intros fuel x y start r H. unfold g_restoring_divider in H. cbv zeta in H. minv H.
  injection H as <-.
  repeat match goal with E : g_abs_ _ _ = Some _ |- _ =>
    apply g_abs__ok in E; destruct E as [E ?] end.
  match goal with E : g__restoring_divider _ _ _ None _ = Some _ |- _ =>
    rewrite g__restoring_divider_none in E; minv E end.
  match goal with E : g__restoring_divider _ _ _ _ _ = Some _ |- _ =>
    apply g__restoring_divider_some_ok in E; destruct E as (E & ? & ? & ?) end.
  repeat match goal with E : g__negate_if _ _ _ = Some _ |- _ =>
    apply g__negate_if_ok in E; destruct E as [E ?] end.
  use_ok. unfold d_restoring_divider.
  unfold nz in *. change (Z.to_nat 0) with 0%nat in *. cbn [app] in *.
  rewrite !py_len_app in *.
  match goal with E : _ = d_abs x _ |- _ => rewrite <- E end.
  match goal with E : _ = d_abs y ?k |- context [d_abs y ?k2] =>
    replace k2 with k by (unfold py_len; lia); rewrite <- E end.
  match goal with E : _ = d_equalize_width _ _ _ |- _ => rewrite <- E end.
  unfold d_restoring_divider_pos.
  match goal with E : _ = div_result ?a _ _ _ |- _ => unfold div_result, nz in E;
    rewrite Z.eqb_refl in E;
    replace (Z.to_nat (py_len a - 1 + 1)) with (length a) in E by (unfold py_len; lia);
    replace (Z.to_nat (2 * py_len a)) with (2 * length a)%nat in * by (unfold py_len; lia);
    rewrite py_len_to_nat in * end.
  match goal with E : context [d_div_stages ?a ?b ?c ?d ?k] |- context [d_div_stages _ _ _ _ ?k2] =>
    replace k2 with k by (unfold py_len; lia);
    destruct (d_div_stages a b c d k) as [[quo0 rem0] mem0];
    injection E as ? ? ?; subst end.
  match goal with E : _ = d_negate_if (XXor _ _) _ ?k |- context [d_negate_if (XXor _ _) _ ?k2] =>
    replace k2 with k by (unfold py_len; lia); rewrite <- E end.
  match goal with E : _ = d_negate_if (d_sign x) _ ?k |- context [d_negate_if (d_sign x) _ ?k2] =>
    replace k2 with k by (unfold py_len; lia); rewrite <- E end.
  now rewrite <- !app_assoc.
Qed.

(* --------------------------------------------------- flatten_arithmetic *)
Ltac eval_strings H :=
  repeat match type of H with context [String.eqb ?a ?b] =>
    let v := eval vm_compute in (String.eqb a b) in change (String.eqb a b) with v in H end.

Ltac case_op op s := destruct (String.eqb_spec op s); [subst op|].

Lemma g_flatten_arithmetic_ok : forall fuel op p q mem r,
  g_flatten_arithmetic fuel op p q mem = Some r ->
  exists o, aop_of_string op = Some o /\
    r = (fst (d_flatten_arithmetic o p q (length mem)),
         mem ++ snd (d_flatten_arithmetic o p q (length mem))).
Proof.
  intros fuel op p q mem r H. unfold g_flatten_arithmetic in H. cbv zeta in H.
  case_op op "+"%string; [|case_op op "-"%string; [|case_op op "*"%string;
    [|case_op op "/"%string; [|case_op op "%"%string]]]].
  6:{ exfalso. repeat match goal with N : op <> _ |- _ => apply String.eqb_neq in N end.
      cbn [existsb] in H.
      repeat match goal with N : String.eqb op _ = false |- _ => rewrite ?N in H; clear N end.
      cbn [orb] in H. discriminate. }
  all: cbn [existsb] in H; eval_strings H; cbn [orb] in H; cbv beta iota in H; minv_all;
    repeat match goal with E : Some _ = Some _ |- _ => injection E as ?; subst end;
    eexists; (split; [reflexivity|]); cbn [d_flatten_arithmetic].
  1,2: use_ok; change (nz 1) with 1%nat in *; unfold nz in *; rewrite py_len_to_nat in *;
    match goal with E : _ = d_adder_subtractor _ _ _ _ _ |- _ => rewrite <- E end; reflexivity.
  - match goal with E : g_multiplier _ _ _ _ = Some _ |- _ => apply g_multiplier_ok in E;
      unfold nz in E; rewrite py_len_to_nat in E; rewrite <- E end. reflexivity.
  - match goal with E : g_restoring_divider _ _ _ _ = Some _ |- _ =>
      apply g_restoring_divider_ok in E;
      unfold nz in E; rewrite py_len_to_nat in E; rewrite <- E end. reflexivity.
  - match goal with E : g_restoring_divider _ _ _ _ = Some _ |- _ =>
      apply g_restoring_divider_ok in E;
      unfold nz in E; rewrite py_len_to_nat in E; rewrite <- E end. reflexivity.
Qed.

(* --------------------------------------------------- flatten_comparator *)
Lemma g_flatten_comparator_ok : forall op x y mem r,
  g_flatten_comparator op x y mem = Some r ->
  exists o, cmp_of_string op = Some o /\
    r = (FBuf (py_len (d_comparator_mem o x y mem)) (d_comparator_mem o x y mem),
         d_comparator_mem o x y mem).
Proof.
  intros op x y mem r H. unfold g_flatten_comparator in H. cbv zeta in H.
  case_op op "<"%string; [|case_op op "<="%string; [|case_op op "=<"%string;
    [|case_op op "="%string; [|case_op op "#"%string; [|case_op op "/="%string;
    [|case_op op "!="%string; [|case_op op ">="%string; [|case_op op ">"%string]]]]]]]].
  10:{ exfalso. repeat match goal with N : op <> _ |- _ => apply String.eqb_neq in N end.
      minv H. cbn [existsb] in *.
      repeat match goal with N : String.eqb op _ = false |- _ => rewrite ?N in *; clear N end.
      cbn [orb] in *. discriminate. }
  all: cbn [existsb] in H; eval_strings H; cbn [orb] in H; cbv beta iota in H; minv_all;
    repeat match goal with E : Some _ = Some _ |- _ => injection E as ?; subst end;
    eexists; (split; [reflexivity|]).
  all: repeat match goal with
       | E : g_inequality _ _ _ = Some _ |- _ => apply g_inequality_ok in E; destruct E as [-> ?]
       | E : g_less_than _ _ _ = Some _ |- _ => apply g_less_than_ok in E; destruct E as [E ?];
           injection E as ? ?; subst
       end; use_ok.
  all: unfold d_comparator_mem, d_flatten_comparator; change (nz 0) with 0%nat in *;
    match goal with E : _ = d_equalize_width _ _ _ |- _ => rewrite <- E end.
  all: try match goal with |- context [d_less_than ?a ?b ?c] =>
         destruct (d_less_than a b c) as [? ?]; cbn [fst snd] end.
  all: rewrite <- ?app_assoc; reflexivity.
Qed.

Definition cmp_guard (x y : list bx) : bool :=
  (2 <=? py_len x) && (2 <=? py_len y) && (Z.max (py_len x) (py_len y) + 1 <? g_ALU_BITWIDTH).

Lemma d_equalize_lengths : forall x y e,
  length (fst (d_equalize_width x y e)) = (Nat.max (length x) (length y) + e)%nat /\
  length (snd (d_equalize_width x y e)) = (Nat.max (length x) (length y) + e)%nat.
Proof.
  intros. unfold d_equalize_width. cbn [fst snd]. split; apply d_sign_extension_length; lia.
Qed.

Lemma g_flatten_comparator_some : forall op o x y mem,
  cmp_of_string op = Some o -> cmp_guard x y = true ->
  g_flatten_comparator op x y mem =
  Some (FBuf (py_len (d_comparator_mem o x y mem)) (d_comparator_mem o x y mem),
        d_comparator_mem o x y mem).
Proof.
  intros op o x y mem Ho G. unfold cmp_guard in G.
  apply andb_prop in G. destruct G as [G G3]. apply andb_prop in G. destruct G as [G1 G2].
  apply Z.leb_le in G1, G2. apply Z.ltb_lt in G3.
  assert (EG : eq_guard x y 0 = true) by (apply eq_guard_intro; unfold py_len in *; lia).
  unfold g_flatten_comparator. rewrite (g_equalize_width_some _ _ _ EG). change (nz 0) with 0%nat.
  unfold d_comparator_mem, d_flatten_comparator.
  destruct (d_equalize_lengths x y 0) as [Lp Lq].
  destruct (d_equalize_width x y 0) as [p q]. cbn [fst snd] in Lp, Lq. cbv zeta.
  unfold py_len at 1 2. rewrite Lp, Lq, Z.eqb_refl.
  assert (AG1 : add_guard p q (py_len mem) 1 = true).
  { unfold add_guard. apply andb_true_intro. split; [apply Z.leb_le, py_len_nonneg|].
    apply eq_guard_intro; unfold py_len in *; lia. }
  assert (AG2 : add_guard q p (py_len mem) 1 = true).
  { unfold add_guard. apply andb_true_intro. split; [apply Z.leb_le, py_len_nonneg|].
    apply eq_guard_intro; unfold py_len in *; lia. }
  assert (LI : length p = length q) by lia.
  unfold cmp_of_string in Ho.
  case_op op "<"%string; [|case_op op "<="%string; [|case_op op "=<"%string;
    [|case_op op "="%string; [|case_op op "#"%string; [|case_op op "/="%string;
    [|case_op op "!="%string; [|case_op op ">="%string; [|case_op op ">"%string]]]]]]]].
  10:{ repeat match goal with N : op <> _ |- _ => apply String.eqb_neq in N; rewrite ?N in Ho end.
       discriminate. }
  all: vm_compute in Ho; injection Ho as <-; cbn [existsb];
    repeat match goal with |- context [String.eqb ?a ?b] =>
      let v := eval vm_compute in (String.eqb a b) in change (String.eqb a b) with v end;
    cbn [orb]; cbv beta iota zeta;
    rewrite ?(g_inequality_some _ _ _ LI), ?(g_less_than_some _ _ _ AG1), ?(g_less_than_some _ _ _ AG2);
    try match goal with |- context [d_less_than ?a ?b ?c] =>
      destruct (d_less_than a b c) as [? ?]; cbn [fst snd] end;
    rewrite <- ?app_assoc; reflexivity.
Qed.

(* ------------------------------------------- success under the guards *)
(* multiplier, divider, flatten_arithmetic do not raise when the widths are
   within the 32-bit limit; the guard of flatten_arithmetic is exactly the
   static acceptance condition of the value-level model Expr.c_arith *)
Lemma d_fixed_shift_left_length : forall x c, (c <= length x)%nat ->
  length (d_fixed_shift_left x c) = length x.
Proof. intros. unfold d_fixed_shift_left. rewrite app_length, repeat_length, firstn_length. lia. Qed.

Lemma d_mult_stages_length : forall x y k start, (k <= length x)%nat ->
  length (fst (d_mult_stages x y k start)) = length x.
Proof.
  intros x y. induction k as [|k IH]; intros start Hk; cbn [d_mult_stages].
  - cbn [fst]. apply repeat_length.
  - specialize (IH start ltac:(lia)). destruct (d_mult_stages x y k start) as [mul_res mem].
    cbn [fst] in IH.
    match goal with |- context [d_adder_subtractor ?a ?b ?c ?d ?e] =>
      pose proof (d_adder_length a b c d e) as LA;
      destruct (d_adder_subtractor a b c d e) as [[res sm] cf] end.
    cbn [fst] in *. rewrite LA, IH, map_length, d_fixed_shift_left_length by lia. lia.
Qed.

Definition mul_stage_guard (x y : list bx) (start : Z) : bool :=
  (0 <=? start) && (py_len x =? py_len y) && (2 <=? py_len x) && (py_len x <? g_ALU_BITWIDTH).

Lemma g__multiplier_stage_some : forall k fuel x y start,
  (k < fuel)%nat -> mul_stage_guard x y start = true -> (k <= length y)%nat ->
  g__multiplier fuel x y (Some (Z.of_nat k - 1)) start = Some (d_mult_stages x y k (nz start)).
Proof.
  induction k as [|k IH]; intros fuel x y start Hf G Hk; (destruct fuel as [|fuel]; [lia|]);
    pose proof G as G0; unfold mul_stage_guard in G;
    repeat (apply andb_prop in G; destruct G as [G ?]);
    repeat match goal with H : (_ <=? _) = true |- _ => apply Z.leb_le in H end;
    repeat match goal with H : (_ <? _) = true |- _ => apply Z.ltb_lt in H end;
    match goal with H : (_ =? _) = true |- _ => pose proof H as EQ; apply Z.eqb_eq in H end;
    cbn [g__multiplier]; cbv beta iota zeta;
    replace (start >=? 0) with true by (symmetry; apply Z.geb_le; lia); rewrite EQ.
  - replace ((-1 <=? Z.of_nat 0 - 1) && (Z.of_nat 0 - 1 <? py_len y))%bool with true
      by (symmetry; apply andb_true_intro; split; [reflexivity|apply Z.ltb_lt; unfold py_len in *; lia]).
    cbn [Z.of_nat Z.sub Z.opp Z.add Z.eqb Z.pos_sub]. cbv beta iota.
    rewrite py_repeat_single, py_len_to_nat. reflexivity.
  - replace ((-1 <=? Z.of_nat (S k) - 1) && (Z.of_nat (S k) - 1 <? py_len y))%bool with true
      by (symmetry; apply andb_true_intro; split; [apply Z.leb_le|apply Z.ltb_lt]; unfold py_len in *; lia).
    replace (Z.of_nat (S k) - 1 =? -1) with false by (symmetry; apply Z.eqb_neq; lia).
    replace (Z.of_nat (S k) - 1 - 1) with (Z.of_nat k - 1) by lia.
    rewrite (IH fuel x y start ltac:(lia) G0 ltac:(lia)).
    pose proof (d_mult_stages_length x y k (nz start) ltac:(unfold py_len in *; lia)) as LM.
    cbn [d_mult_stages]. destruct (d_mult_stages x y k (nz start)) as [mul_res mem].
    cbn [fst] in LM. cbv beta iota zeta.
    replace (Z.of_nat (S k) - 1) with (Z.of_nat k) by lia.
    rewrite g_fixed_shift_left_some by (unfold py_len in *; lia).
    rewrite (py_index_nth_some _ y (Z.of_nat k) (XC false)) by lia. rewrite Nat2Z.id.
    cbv beta iota zeta.
    assert (LZ : length (map (fun a : bx => XAnd a (nth k y (XC false))) (d_fixed_shift_left x k)) = length x).
    { rewrite map_length, d_fixed_shift_left_length; unfold py_len in *; lia. }
    rewrite g_adder_subtractor_some.
    2:{ unfold add_guard. apply andb_true_intro. split.
        - apply Z.leb_le. pose proof (py_len_nonneg _ mem). lia.
        - apply eq_guard_intro; unfold py_len in *; rewrite ?LZ, ?LM; lia. }
    change (nz 0) with 0%nat.
    replace (nz (start + py_len mem)) with (nz start + length mem)%nat by (unfold nz, py_len; lia).
    match goal with |- context [d_adder_subtractor ?a ?b ?c ?d ?e] =>
      pose proof (d_adder_length a b c d e) as LA;
      destruct (d_adder_subtractor a b c d e) as [[res sm] cf] end.
    cbn [fst] in LA. cbv beta iota zeta.
    rewrite g__extend_memory_some by lia. cbv beta iota zeta.
    replace (py_len res =? py_len x) with true
      by (symmetry; apply Z.eqb_eq; unfold py_len; rewrite LA, LZ, LM; lia).
    reflexivity.
Qed.

Definition mul_guard (x y : list bx) (start : Z) : bool :=
  (0 <=? start) && (2 <=? py_len x) && (2 <=? py_len y)
  && (py_len x + py_len y <? g_ALU_BITWIDTH).

Lemma g_multiplier_some : forall fuel x y start, mul_guard x y start = true ->
  (length x + length y < fuel)%nat ->
  g_multiplier fuel x y start = Some (d_multiplier x y (nz start)).
Proof.
  intros fuel x y start G Hf. unfold mul_guard in G.
  repeat (apply andb_prop in G; destruct G as [G ?]).
  repeat match goal with H : (_ <=? _) = true |- _ => apply Z.leb_le in H end.
  repeat match goal with H : (_ <? _) = true |- _ => apply Z.ltb_lt in H end.
  unfold g_multiplier. cbv zeta.
  assert (EG : eq_guard x y (Z.min (py_len x) (py_len y)) = true)
    by (apply eq_guard_intro; unfold py_len in *; lia).
  rewrite (g_equalize_width_some _ _ _ EG). unfold d_multiplier.
  replace (nz (Z.min (py_len x) (py_len y))) with (Nat.min (length x) (length y))
    by (unfold nz, py_len; lia).
  destruct (d_equalize_lengths x y (Nat.min (length x) (length y))) as [Lp Lq].
  destruct (d_equalize_width x y (Nat.min (length x) (length y))) as [p q].
  cbn [fst snd] in Lp, Lq. cbv beta iota zeta.
  rewrite g__multiplier_none.
  replace (py_len q - 1) with (Z.of_nat (length q) - 1) by reflexivity.
  rewrite g__multiplier_stage_some.
  - pose proof (d_mult_stages_length p q (length q) (nz start) ltac:(lia)) as LM.
    destruct (d_mult_stages p q (length q) (nz start)) as [res mem]. cbn [fst] in LM.
    cbv beta iota zeta.
    replace (py_len res =? py_len x + py_len y) with true
      by (symmetry; apply Z.eqb_eq; unfold py_len; lia).
    replace (py_len x + py_len y >? g_ALU_BITWIDTH) with false
      by (symmetry; rewrite Z.gtb_ltb; apply Z.ltb_ge; lia).
    reflexivity.
  - lia.
  - unfold mul_stage_guard, py_len in *.
    repeat (apply andb_true_intro; split);
      first [apply Z.leb_le; lia | apply Z.ltb_lt; lia | apply Z.eqb_eq; lia].
  - lia.
Qed.

(* ---- divider *)
Lemma d_ite_function_length : forall a b c k, length (fst (d_ite_function a b c k)) = length b.
Proof. intros. unfold d_ite_function. cbn [fst]. now rewrite map_length, seq_length. Qed.

Lemma d_div_stages_length : forall x y n k start, length x = n -> length y = (2 * n)%nat ->
  (1 <= n)%nat ->
  length (snd (fst (d_div_stages x y n k start))) = (2 * n)%nat.
Proof.
  intros x y n k start Lx Ly Hn. induction k as [|k IH]; cbn [d_div_stages].
  - cbn [fst snd]. apply d_pad_length. lia.
  - destruct (d_div_stages x y n k start) as [[quo p] mem]. cbn [fst snd] in IH.
    match goal with |- context [d_adder_subtractor ?a ?b ?c ?d ?e] =>
      pose proof (d_adder_length a b c d e) as LA;
      destruct (d_adder_subtractor a b c d e) as [[r sm] cf] end.
    cbn [fst] in LA.
    match goal with |- context [d_ite_function ?a ?b ?c ?d] =>
      pose proof (d_ite_function_length a b c d) as LI;
      destruct (d_ite_function a b c d) as [rem im] end.
    cbn [fst snd] in *. rewrite LI, LA, d_fixed_shift_left_length by lia. lia.
Qed.

Definition div_stage_guard (x y : list bx) (start : Z) : bool :=
  (0 <=? start) && (1 <=? py_len x) && (py_len y =? 2 * py_len x)
  && (2 * py_len x <? g_ALU_BITWIDTH).

Lemma g__restoring_divider_stage_some : forall k fuel x y start,
  (k < fuel)%nat -> div_stage_guard x y start = true -> (k <= length x)%nat ->
  g__restoring_divider fuel x y (Some (Z.of_nat k - 1)) start
  = Some (div_result x y (Z.of_nat k - 1) start).
Proof.
  induction k as [|k IH]; intros fuel x y start Hf G Hk; (destruct fuel as [|fuel]; [lia|]);
    pose proof G as G0; unfold div_stage_guard in G;
    repeat (apply andb_prop in G; destruct G as [G ?]);
    repeat match goal with H : (_ <=? _) = true |- _ => apply Z.leb_le in H end;
    repeat match goal with H : (_ <? _) = true |- _ => apply Z.ltb_lt in H end;
    match goal with H : (_ =? _) = true |- _ => apply Z.eqb_eq in H end;
    cbn [g__restoring_divider]; cbv beta iota zeta;
    replace (start >=? 0) with true by (symmetry; apply Z.geb_le; lia); unfold div_result.
  - replace ((-1 <=? Z.of_nat 0 - 1) && (Z.of_nat 0 - 1 <? py_len x))%bool with true
      by (symmetry; apply andb_true_intro; split; [reflexivity|apply Z.ltb_lt; unfold py_len in *; lia]).
    change (Z.of_nat 0 - 1) with (-1). rewrite Z.eqb_refl. cbv beta iota.
    replace (2 * py_len x) with (Z.of_nat (2 * length x)) by (unfold py_len; lia).
    rewrite g_pad_some by (unfold py_len in *; lia). change (nz (-1 + 1)) with 0%nat. cbn [d_div_stages].
    replace (-1 =? py_len x - 1) with false by (symmetry; apply Z.eqb_neq; unfold py_len in *; lia).
    reflexivity.
  - replace ((-1 <=? Z.of_nat (S k) - 1) && (Z.of_nat (S k) - 1 <? py_len x))%bool with true
      by (symmetry; apply andb_true_intro; split; [apply Z.leb_le|apply Z.ltb_lt]; unfold py_len in *; lia).
    replace (Z.of_nat (S k) - 1 =? -1) with false by (symmetry; apply Z.eqb_neq; lia).
    replace (Z.of_nat (S k) - 1 - 1) with (Z.of_nat k - 1) by lia.
    rewrite (IH fuel x y start ltac:(lia) G0 ltac:(lia)). unfold div_result.
    replace (Z.of_nat k - 1 =? py_len x - 1) with false
      by (symmetry; apply Z.eqb_neq; unfold py_len in *; lia).
    replace (nz (Z.of_nat k - 1 + 1)) with k by (unfold nz; lia).
    replace (nz (Z.of_nat (S k) - 1 + 1)) with (S k) by (unfold nz; lia).
    pose proof (d_div_stages_length x y (length x) k (nz start) eq_refl
                  ltac:(unfold py_len in *; lia) ltac:(unfold py_len in *; lia)) as LP.
    cbn [d_div_stages]. destruct (d_div_stages x y (length x) k (nz start)) as [[quo p] mem].
    cbn [fst snd] in LP. cbv beta iota zeta.
    rewrite g__extend_memory_some by (unfold py_len; cbn [length]; lia). cbv beta iota zeta.
    cbn [app].
    change 1 with (Z.of_nat 1). rewrite g_fixed_shift_left_some by lia. cbv beta iota zeta.
    assert (LS : length (d_fixed_shift_left p 1) = (2 * length x)%nat)
      by (rewrite d_fixed_shift_left_length; lia).
    rewrite g_adder_subtractor_some.
    2:{ unfold add_guard. apply andb_true_intro. split.
        - apply Z.leb_le. pose proof (py_len_nonneg _ mem). lia.
        - apply eq_guard_intro; unfold py_len in *; rewrite ?LS; lia. }
    change (nz 0) with 0%nat.
    replace (nz (start + py_len mem)) with (nz start + length mem)%nat
      by (unfold nz, py_len; cbn [length]; lia).
    match goal with |- context [d_adder_subtractor ?a ?b ?c ?d ?e] =>
      pose proof (d_adder_length a b c d e) as LA;
      destruct (d_adder_subtractor a b c d e) as [[r sm] cf] end.
    cbn [fst] in LA. cbv beta iota zeta.
    rewrite g__extend_memory_some by (unfold py_len; cbn [length]; lia). cbv beta iota zeta.
    rewrite g_sign_some by (rewrite LA, LS; unfold py_len in *; lia). cbv beta iota zeta.
    rewrite g_ite_function_some.
    2:{ rewrite LA, LS. unfold py_len in *. lia. }
    2:{ pose proof (py_len_nonneg _ mem). pose proof (py_len_nonneg _ sm).
        lia. }
    replace (nz (start + py_len mem + py_len sm))
      with (nz start + length mem + length sm)%nat by (unfold nz, py_len; cbn [length]; lia).
    destruct (d_ite_function (XNot (d_sign r)) r (d_fixed_shift_left p 1)
                (nz start + length mem + length sm)) as [rem im].
    cbv beta iota zeta.
    rewrite g__extend_memory_some by (rewrite py_len_app; unfold py_len; cbn [length]; lia).
    cbv beta iota zeta.
    match goal with |- context [if ?c then Some _ else Some _] => destruct c end; cbv beta iota zeta;
      rewrite <- ?app_assoc; rewrite ?py_slice_from_skipn by apply py_len_nonneg;
      rewrite ?py_len_to_nat; reflexivity.
Qed.

Lemma d_div_stages_quo_length : forall x y n k start,
  length (fst (fst (d_div_stages x y n k start))) = k.
Proof.
  intros x y n k start. induction k as [|k IH]; cbn [d_div_stages]; [reflexivity|].
  destruct (d_div_stages x y n k start) as [[quo p] mem]. cbn [fst] in IH.
  destruct (d_adder_subtractor (d_fixed_shift_left p 1) y false (start + length mem) 0) as [[r sm] cf].
  destruct (d_ite_function (XNot (d_sign r)) r (d_fixed_shift_left p 1)
              (start + length mem + length sm)) as [rem im].
  cbn [fst length]. now rewrite IH.
Qed.

Lemma d_negate_if_length : forall g x start, (1 <= length x)%nat ->
  length (fst (d_negate_if g x start)) = S (length x).
Proof.
  intros g x start L. unfold d_negate_if.
  pose proof (d_adder_length (d_pad [XC false] (length x)) x false start 1) as LA.
  destruct (d_adder_subtractor (d_pad [XC false] (length x)) x false start 1) as [[neg_x mem] cf].
  cbn [fst] in LA. rewrite d_pad_length in LA by (cbn [length]; lia).
  match goal with |- context [d_ite_function ?a ?b ?c ?d] =>
    pose proof (d_ite_function_length a b c d) as LI;
    destruct (d_ite_function a b c d) as [r im] end.
  cbn [fst] in *. lia.
Qed.

Definition div_guard (x y : list bx) (start : Z) : bool :=
  (0 <=? start) && (2 <=? py_len x) && (2 <=? py_len y)
  && (2 * (Z.max (py_len x) (py_len y) + 1) <? g_ALU_BITWIDTH).

Lemma neg_guard_intro : forall x start, 0 <= start -> (2 <= length x)%nat ->
  py_len x + 1 < g_ALU_BITWIDTH -> neg_guard x start = true.
Proof.
  intros. unfold neg_guard, py_len in *.
  repeat (apply andb_true_intro; split); first [apply Z.leb_le; lia | apply Z.ltb_lt; lia].
Qed.

Lemma g_restoring_divider_some : forall fuel x y start, div_guard x y start = true ->
  (Nat.max (length x) (length y) + 1 < fuel)%nat ->
  g_restoring_divider fuel x y start = Some (d_restoring_divider x y (nz start)).
Proof.
  intros fuel x y start G Hf. unfold div_guard in G.
  repeat (apply andb_prop in G; destruct G as [G ?]).
  repeat match goal with H : (_ <=? _) = true |- _ => apply Z.leb_le in H end.
  repeat match goal with H : (_ <? _) = true |- _ => apply Z.ltb_lt in H end.
  assert (Lx : (2 <= length x)%nat) by (unfold py_len in *; lia).
  assert (Ly : (2 <= length y)%nat) by (unfold py_len in *; lia).
  assert (B : 2 * (Z.of_nat (Nat.max (length x) (length y)) + 1) < g_ALU_BITWIDTH)
    by (unfold py_len in *; lia).
  unfold g_restoring_divider, d_restoring_divider. cbv zeta.
  replace (start >=? 0) with true by (symmetry; apply Z.geb_le; lia).
  (* |x| *)
  rewrite g_abs__some by (apply neg_guard_intro; unfold py_len; lia).
  pose proof (d_negate_if_length (d_sign x) x (nz start) ltac:(lia)) as La.
  change (d_negate_if (d_sign x) x (nz start)) with (d_abs x (nz start)) in La.
  destruct (d_abs x (nz start)) as [a a_mem]. cbn [fst] in La. cbv beta iota zeta.
  rewrite g__extend_memory_some by (unfold py_len; cbn [length]; lia). cbv beta iota zeta.
  cbn [app].
  (* |y| *)
  pose proof (py_len_nonneg _ a_mem) as Na.
  rewrite g_abs__some by (apply neg_guard_intro; unfold py_len in *; lia).
  replace (nz (start + py_len a_mem)) with (nz start + length a_mem)%nat
    by (unfold nz, py_len; lia).
  pose proof (d_negate_if_length (d_sign y) y (nz start + length a_mem) ltac:(lia)) as Lb.
  change (d_negate_if (d_sign y) y (nz start + length a_mem))
    with (d_abs y (nz start + length a_mem)) in Lb.
  destruct (d_abs y (nz start + length a_mem)) as [b b_mem]. cbn [fst] in Lb. cbv beta iota zeta.
  rewrite g__extend_memory_some by lia. cbv beta iota zeta.
  pose proof (py_len_nonneg _ b_mem) as Nb.
  (* equalize *)
  rewrite g_equalize_width_some by (apply eq_guard_intro; unfold py_len; lia).
  change (nz 0) with 0%nat.
  destruct (d_equalize_lengths a b 0) as [Lp Lq].
  destruct (d_equalize_width a b 0) as [a' b']. cbn [fst snd] in Lp, Lq. cbv beta iota zeta.
  set (n := length a') in *.
  assert (Hn : n = S (Nat.max (length x) (length y))) by lia.
  (* the stages *)
  rewrite g__restoring_divider_none.
  change (py_len a') with (Z.of_nat n).
  replace (2 * Z.of_nat n) with (Z.of_nat (2 * n)) by lia.
  rewrite g_pad_some by lia.
  rewrite g_fixed_shift_left_some by (rewrite d_pad_length; lia).
  rewrite g__restoring_divider_stage_some.
  2: lia.
  2:{ unfold div_stage_guard. change (py_len a') with (Z.of_nat n). unfold py_len.
      rewrite d_fixed_shift_left_length, d_pad_length by (rewrite ?d_pad_length; lia).
      repeat (apply andb_true_intro; split);
        first [apply Z.leb_le; lia | apply Z.ltb_lt; lia | apply Z.eqb_eq; lia]. }
  2: fold n; lia.
  unfold div_result, d_restoring_divider_pos. fold n.
  change (py_len a') with (Z.of_nat n). rewrite Z.eqb_refl.
  replace (nz (Z.of_nat n - 1 + 1)) with n by (unfold nz; lia).
  replace (nz (start + py_len a_mem + py_len b_mem))
    with (nz start + length a_mem + length b_mem)%nat by (unfold nz, py_len; lia).
  set (y2 := d_fixed_shift_left (d_pad b' (2 * n)) n).
  pose proof (d_div_stages_quo_length a' y2 n n (nz start + length a_mem + length b_mem)) as LQ.
  pose proof (d_div_stages_length a' y2 n n (nz start + length a_mem + length b_mem) eq_refl
                ltac:(unfold y2; rewrite d_fixed_shift_left_length, d_pad_length
                        by (rewrite ?d_pad_length; lia); reflexivity) ltac:(lia)) as LR.
  destruct (d_div_stages a' y2 n n (nz start + length a_mem + length b_mem)) as [[quo rem] dmem].
  cbn [fst snd] in LQ, LR. cbv beta iota zeta.
  rewrite g__extend_memory_some by (rewrite py_len_app; lia). cbv beta iota zeta.
  pose proof (py_len_nonneg _ dmem) as Nd.
  rewrite !g_sign_some by lia. cbv beta iota zeta.
  (* signs *)
  rewrite g__negate_if_some by (apply neg_guard_intro; unfold py_len; lia).
  replace (nz (start + py_len a_mem + py_len b_mem + py_len dmem))
    with (nz start + length a_mem + length b_mem + length dmem)%nat by (unfold nz, py_len; lia).
  destruct (d_negate_if (XXor (d_sign x) (d_sign y)) quo
              (nz start + length a_mem + length b_mem + length dmem)) as [quo' nm1].
  cbv beta iota zeta.
  rewrite g__extend_memory_some by (rewrite !py_len_app; lia). cbv beta iota zeta.
  pose proof (py_len_nonneg _ nm1) as N1.
  rewrite g__negate_if_some
    by (apply neg_guard_intro; [lia|rewrite skipn_length; lia|unfold py_len; rewrite skipn_length; lia]).
  replace (nz (start + py_len a_mem + py_len b_mem + py_len dmem + py_len nm1))
    with (nz start + length a_mem + length b_mem + length dmem + length nm1)%nat
    by (unfold nz, py_len; lia).
  destruct (d_negate_if (d_sign x) (skipn n rem)
              (nz start + length a_mem + length b_mem + length dmem + length nm1)) as [rem' nm2].
  cbv beta iota zeta.
  rewrite g__extend_memory_some by (rewrite !py_len_app; lia). cbv beta iota zeta.
  now rewrite <- !app_assoc.
Qed.

(* ---- flatten_arithmetic *)
Definition arith_guard (o : aop) (p q : list bx) : bool :=
  match o with
  | AAdd | ASub => eq_guard p q 1
  | AMul => mul_guard p q 0
  | ADiv | AMod => div_guard p q 0
  end.

Lemma g_flatten_arithmetic_some : forall fuel op o p q mem,
  aop_of_string op = Some o -> arith_guard o p q = true -> (32 < fuel)%nat ->
  g_flatten_arithmetic fuel op p q mem =
  Some (fst (d_flatten_arithmetic o p q (length mem)),
        mem ++ snd (d_flatten_arithmetic o p q (length mem))).
Proof.
  intros fuel op o p q mem Ho G Hf. pose proof (py_len_nonneg _ mem) as Nm.
  unfold aop_of_string in Ho.
  case_op op "+"%string; [|case_op op "-"%string; [|case_op op "*"%string;
    [|case_op op "/"%string; [|case_op op "%"%string]]]].
  6:{ repeat match goal with N : op <> _ |- _ => apply String.eqb_neq in N; rewrite ?N in Ho end.
      discriminate. }
  all: vm_compute in Ho; injection Ho as <-; cbn [arith_guard] in G;
    unfold g_flatten_arithmetic; cbv zeta; cbn [existsb];
    repeat match goal with |- context [String.eqb ?a ?b] =>
      let v := eval vm_compute in (String.eqb a b) in change (String.eqb a b) with v end;
    cbn [orb]; cbv beta iota; cbn [d_flatten_arithmetic].
  1,2: rewrite g_adder_subtractor_some
         by (unfold add_guard; apply andb_true_intro; split; [apply Z.leb_le; lia|exact G]);
       change (nz 1) with 1%nat; unfold nz; rewrite py_len_to_nat;
       match goal with |- context [d_adder_subtractor ?a ?b ?c ?d ?e] =>
         destruct (d_adder_subtractor a b c d e) as [[r m] cf] end; reflexivity.
  - assert (G' : mul_guard p q (py_len mem) = true).
    { unfold mul_guard in *. repeat (apply andb_prop in G; destruct G as [G ?]).
      repeat (apply andb_true_intro; split); try assumption. apply Z.leb_le. lia. }
    rewrite g_multiplier_some.
    + unfold nz. rewrite py_len_to_nat. destruct (d_multiplier p q (length mem)). reflexivity.
    + exact G'.
    + unfold mul_guard in G. repeat (apply andb_prop in G; destruct G as [G ?]).
      match goal with H : (_ <? _) = true |- _ => apply Z.ltb_lt in H; unfold py_len in H end.
      change g_ALU_BITWIDTH with 32 in *. lia.
  - assert (G' : div_guard p q (py_len mem) = true).
    { unfold div_guard in *. repeat (apply andb_prop in G; destruct G as [G ?]).
      repeat (apply andb_true_intro; split); try assumption. apply Z.leb_le. lia. }
    rewrite g_restoring_divider_some.
    + unfold nz. rewrite py_len_to_nat.
      destruct (d_restoring_divider p q (length mem)) as [[quo rem] m]. reflexivity.
    + exact G'.
    + unfold div_guard in G. repeat (apply andb_prop in G; destruct G as [G ?]).
      match goal with H : (_ <? _) = true |- _ => apply Z.ltb_lt in H; unfold py_len in H end.
      change g_ALU_BITWIDTH with 32 in *. lia.
  - assert (G' : div_guard p q (py_len mem) = true).
    { unfold div_guard in *. repeat (apply andb_prop in G; destruct G as [G ?]).
      repeat (apply andb_true_intro; split); try assumption. apply Z.leb_le. lia. }
    rewrite g_restoring_divider_some.
    + unfold nz. rewrite py_len_to_nat.
      destruct (d_restoring_divider p q (length mem)) as [[quo rem] m]. reflexivity.
    + exact G'.
    + unfold div_guard in G. repeat (apply andb_prop in G; destruct G as [G ?]).
      match goal with H : (_ <? _) = true |- _ => apply Z.ltb_lt in H; unfold py_len in H end.
      change g_ALU_BITWIDTH with 32 in *. lia.
Qed.

(* the guard is the static acceptance condition of the value-level model
   (Expr.c_arith): same widths, same 32-bit limit *)
Lemma arith_guard_is_c_arith_guard : forall o p q (vx vy : list bool),
  length vx = length p -> length vy = length q ->
  arith_guard o p q = match c_arith o vx vy with Some _ => true | None => false end.
Proof.
  intros o p q vx vy Lx Ly.
  assert (E : forall e, eq_guard p q (Z.of_nat e) = equalize_ok vx vy e).
  { intros e. unfold eq_guard, ext_guard, equalize_ok, ext_ok, py_len, Expr.ALU_BITWIDTH.
    cbv zeta. rewrite Lx, Ly. change g_ALU_BITWIDTH with 32.
    set (n := (Nat.max (length p) (length q) + e)%nat).
    replace (Z.max (Z.of_nat (length p)) (Z.of_nat (length q)) + Z.of_nat e) with (Z.of_nat n)
      by (unfold n; lia).
    repeat match goal with |- context [(?a <=? ?b)%nat] =>
      destruct (Nat.leb_spec a b) end;
    repeat match goal with |- context [(?a <? ?b)%nat] =>
      destruct (Nat.ltb_spec a b) end;
    repeat match goal with |- context [?a <=? ?b] => destruct (Z.leb_spec a b) end;
    repeat match goal with |- context [?a <? ?b] => destruct (Z.ltb_spec a b) end;
    cbn; try reflexivity; lia. }
  destruct o; cbn [arith_guard c_arith].
  - change 1 with (Z.of_nat 1). rewrite E. now destruct (equalize_ok vx vy 1).
  - change 1 with (Z.of_nat 1). rewrite E. now destruct (equalize_ok vx vy 1).
  - rewrite <- (E (Nat.min (length vx) (length vy))).
    destruct (eq_guard p q (Z.of_nat (Nat.min (length vx) (length vy)))) eqn:G.
    + apply eq_guard_lengths in G. destruct G as (G1 & G2 & _ & G3).
      unfold mul_guard, py_len in *. change g_ALU_BITWIDTH with 32 in *.
      repeat (apply andb_true_intro; split); first [apply Z.leb_le; lia | apply Z.ltb_lt; lia].
    + destruct (mul_guard p q 0) eqn:G2; [|reflexivity]. exfalso.
      unfold mul_guard in G2. repeat (apply andb_prop in G2; destruct G2 as [G2 ?]).
      repeat match goal with H : (_ <=? _) = true |- _ => apply Z.leb_le in H end.
      repeat match goal with H : (_ <? _) = true |- _ => apply Z.ltb_lt in H end.
      rewrite eq_guard_intro in G; [discriminate| | | |]; unfold py_len in *; lia.
  - unfold div_guard, py_len, Expr.ALU_BITWIDTH. rewrite Lx, Ly. change g_ALU_BITWIDTH with 32.
    destruct (restoring_divider vx vy).
    repeat match goal with |- context [(?a <=? ?b)%nat] => destruct (Nat.leb_spec a b) end;
    repeat match goal with |- context [(?a <? ?b)%nat] => destruct (Nat.ltb_spec a b) end;
    repeat match goal with |- context [?a <=? ?b] => destruct (Z.leb_spec a b) end;
    repeat match goal with |- context [?a <? ?b] => destruct (Z.ltb_spec a b) end;
    cbn; try reflexivity; lia.
  - unfold div_guard, py_len, Expr.ALU_BITWIDTH. rewrite Lx, Ly. change g_ALU_BITWIDTH with 32.
    destruct (restoring_divider vx vy).
    repeat match goal with |- context [(?a <=? ?b)%nat] => destruct (Nat.leb_spec a b) end;
    repeat match goal with |- context [(?a <? ?b)%nat] => destruct (Nat.ltb_spec a b) end;
    repeat match goal with |- context [?a <=? ?b] => destruct (Z.leb_spec a b) end;
    repeat match goal with |- context [?a <? ?b] => destruct (Z.ltb_spec a b) end;
    cbn; try reflexivity; lia.
Qed.
