"""Regenerate coq/gen/EnumGen.v from omega/symbolic/enumeration.py and
omega/logic/bitvector.py (tie T for C07; translator tools/py2coq_enum.py).

Translated on every run: enumeration._enumerate_int, _take_product_iter,
_bitfields_to_int_iter and bitvector._append_sign_bit.  The theorems of
coq/GenProofs/EnumBridge.v (generated code = hand-written model) are about
these generated definitions and are re-proved on every run.
"""
import os
import sys

sys.path.insert(0, os.path.join(os.path.dirname(__file__), '..'))
import py2coq  # noqa: E402
import py2coq_enum  # noqa: E402
from vlib.core import Broken, REPO  # noqa: E402

SOURCES = [py2coq_enum.ENUM_SRC, py2coq_enum.BV_SRC]
FUNCTIONS = ['bitvector._append_sign_bit', 'enumeration._enumerate_int',
             'enumeration._take_product_iter',
             'enumeration._bitfields_to_int_iter']


def enum_text():
    """(text of gen/EnumGen.v, translator notes)."""
    text, notes = py2coq_enum.translate(
        os.path.join(REPO, py2coq_enum.ENUM_SRC),
        os.path.join(REPO, py2coq_enum.BV_SRC))
    body = py2coq_enum.HEADER + text + py2coq_enum.FOOTER
    body += ''.join(f'(* note: {py2coq_enum._comment(n)} *)\n' for n in notes)
    return body, notes


def ensure_enum(ctx):
    try:
        t, notes = enum_text()
    except py2coq.Refuse as e:
        raise Broken('translator', f'{", ".join(FUNCTIONS)}: {e}')
    except (SyntaxError, OSError) as e:
        raise Broken('translator', f'{", ".join(SOURCES)}: {e}')
    ctx.write_gen('gen/EnumGen.v', t)
    return notes


if __name__ == '__main__':
    print(enum_text()[0])
