(* C20 — converting a labelled graph to logic yields exactly the transitions
   of the graph.  Statements only; proofs in theories/L6Graph/*Proofs.v.

   The definitions named Logicizer.* / Formula.* are the hand-written model of
   omega/symbolic/logicizer.py and omega.logic.syntax.conj/disj.  The model
   is tied to the code twice on every run: the functions are translated from
   the current source into gen/LogicizerGen.v and proved equal to the model
   (section C20T below, GenProofs/LogicizerBridge.v), and the correspondence
   check of tools/props/c20.py compares the model with the BDDs of the real
   code.  Labels are given semantically: an edge formula l means
   [esem l s s'], a node formula [nsem l s]; the theorems hold for every
   choice of these meanings, every graph, every pair of valuations (also
   values of the node variable outside the graph) and every combination of
   the flags ignore_initial, receptive, self_loops. *)
From Coq Require Import List Bool ZArith Arith Lia.
Import ListNotations.
From Omega Require Import L6Graph.Formula L6Graph.FormulaProofs
  L6Graph.Logicizer L6Graph.GraphSpec L6Graph.LogicizerProofs.
From OmegaGen Require Import LogicizerGen.
From OmegaGP Require Import LogicizerBridge.

Section C20.
Variables EL NL : Type.
Variable esem : EL -> val -> val -> bool.
Variable nsem : NL -> val -> bool.
Local Notation eval := (@eval EL NL esem nsem).
Local Notation tsys := (tsys EL NL).

(* ---- syntax.conj / syntax.disj (`_recurse_op`) ------------------------- *)

(* the split point 2^((n-1).bit_length()-1) is a power of two with
   c < n <= 2c, so both halves are non-empty and shorter *)
Theorem C20_split_point : forall n, 2 <= n ->
  (exists m, split_point n = 2 ^ m) /\
  1 <= split_point n /\ split_point n < n /\ n <= 2 * split_point n.
Proof.
  intros n H. split; [apply split_point_pow2|apply split_point_bounds, H].
Qed.

(* the formula built by the balanced folding with TRUE/FALSE absorption
   denotes the n-ary conjunction (disjunction) of the items *)
Theorem C20_recurse_op_sem_conj : forall fuel (h : list (form EL NL)) s s',
  length h <= fuel ->
  eval (recurse_op fuel is_FFalse is_FTrue FFalse FTrue FAnd h) s s'
  = forallb (fun f => eval f s s') h.
Proof. exact (recurse_op_sem_conj EL NL esem nsem). Qed.

Theorem C20_recurse_op_sem_disj : forall fuel (h : list (form EL NL)) s s',
  length h <= fuel ->
  eval (recurse_op fuel is_FTrue is_FFalse FTrue FFalse FOr h) s s'
  = existsb (fun f => eval f s s') h.
Proof. exact (recurse_op_sem_disj EL NL esem nsem). Qed.

(* with the empty strings filtered out first *)
Theorem C20_conj_sem : forall items s s',
  eval (conj items) s s'
  = forallb (fun it => match it with None => true | Some f => eval f s s' end)
            items.
Proof. exact (conj_sem EL NL esem nsem). Qed.

Theorem C20_disj_sem : forall items s s',
  eval (disj items) s s'
  = existsb (fun it => match it with None => false | Some f => eval f s s' end)
            items.
Proof. exact (disj_sem EL NL esem nsem). Qed.

(* ---- graph_to_logic ---------------------------------------------------- *)

(* exactness for EVERY pair of valuations *)
Theorem C20_owner_action_exact : forall nd ign rec sl (g : tsys) s s',
  eval (owner_action (graph_to_logic nd ign rec sl g) g) s s'
  = owner_action_sem esem nsem nd sl g s s'.
Proof. exact (owner_action_exact EL NL esem nsem). Qed.

(* the property's formulation: at a node value u = s(nd) of the graph the
   owner's action holds at (s, s') iff some edge u -> s'(nd) has its label
   satisfied by (s, s') (or s'(nd) = s(nd) when self-loops are requested),
   and the label of the node s'(nd) holds at s' *)
Theorem C20_owner_action_spec : forall nd ign rec sl (g : tsys) s s',
  In (s nd) (map fst (ts_nodes g)) ->
  eval (owner_action (graph_to_logic nd ign rec sl g) g) s s' = true <->
  ((exists u v l, In (u, v, l) (ts_edges g) /\ u = s nd /\ v = s' nd
                  /\ elabel_holds esem (in_dvars nd g) l s s' = true)
   \/ (sl = true /\ s' nd = s nd))
  /\ node_labels_hold nsem nd g s' = true.
Proof. exact (owner_action_spec EL NL esem nsem). Qed.

(* for node lists without duplicate ids (every networkx graph),
   [node_labels_hold] is "the label of the node s(nd), if it is a node" *)
Theorem C20_node_labels_hold_nodup : forall nd (g : tsys) s,
  NoDup (map fst (ts_nodes g)) ->
  node_labels_hold nsem nd g s
  = match node_label g (s nd) with
    | Some l => nlabel_holds nsem nd g l s
    | None => true
    end.
Proof. exact (node_labels_hold_nodup EL NL nsem). Qed.

(* nodes without successors admit no step *)
Theorem C20_dead_end_no_step : forall nd ign rec (g : tsys) s s',
  In (s nd) (map fst (ts_nodes g)) ->
  has_succ g (s nd) = false ->
  eval (owner_action (graph_to_logic nd ign rec false g) g) s s' = false.
Proof. exact (dead_end_no_step EL NL esem nsem). Qed.

(* the initial condition holds exactly at initial nodes (any node value if
   ignore_initial) whose labels are satisfied *)
Theorem C20_init_spec : forall nd ign rec sl (g : tsys) s s',
  eval (owner_init (graph_to_logic nd ign rec sl g) g) s s' = true <->
  (ign = true \/ In (s nd) (ts_initial g))
  /\ node_labels_hold nsem nd g s = true.
Proof. exact (init_spec EL NL esem nsem). Qed.

(* the other player is unconstrained (initial condition and action) unless
   the component owns the graph and receptiveness was requested *)
Theorem C20_other_player_unconstrained : forall nd ign rec sl (g : tsys) s s',
  ts_owner_sys g && rec = false ->
  eval (other_action (graph_to_logic nd ign rec sl g) g) s s' = true
  /\ eval (other_init (graph_to_logic nd ign rec sl g) g) s s' = true.
Proof. exact (other_player_unconstrained EL NL esem nsem). Qed.

Theorem C20_other_init_true : forall nd ign rec sl (g : tsys) s s',
  eval (other_init (graph_to_logic nd ign rec sl g) g) s s' = true.
Proof. exact (other_init_true EL NL esem nsem). Qed.

(* with receptive = True and owner 'sys', the environment's action is: at a
   node with successors, some outgoing edge has its formula and its
   assignments to unprimed environment variables satisfied *)
Theorem C20_receptive_spec : forall nd ign sl (g : tsys) s s',
  ts_owner_sys g = true ->
  eval (env_action (graph_to_logic nd ign true sl g)) s s'
  = receptive_sem esem nd g s s'.
Proof. exact (receptive_spec EL NL esem nsem). Qed.

(* ---- declarations made by graph_to_logic -------------------------------- *)

(* the node variable is declared with the tight range of the node ids
   (`_nodevar_dom`) *)
Theorem C20_nodevar_dom_spec : forall (g : tsys),
  ts_nodes g <> [] ->
  let '(lo, hi) := nodevar_dom g in
  (forall u, In u (node_ids g) -> (lo <= u <= hi)%Z)
  /\ In lo (node_ids g) /\ In hi (node_ids g).
Proof. exact (nodevar_dom_spec EL NL). Qed.

(* the node variable belongs to the owner of the graph; every other variable
   is the environment's iff it is in env_vars, the component's iff it is
   declared and not in env_vars *)
Theorem C20_varlists_spec : forall nd (g : tsys),
  let '(env, sys) := varlists nd g in
  (if ts_owner_sys g then In nd sys else In nd env)
  /\ (forall k, k <> nd ->
        (In k env <-> In k (ts_env_vars g)) /\
        (In k sys <-> In k (ts_vars g) /\ ~ In k (ts_env_vars g))).
Proof. exact (varlists_spec EL NL). Qed.

(* ---- lifted to runs ------------------------------------------------------ *)

(* finite runs of the owner's action that start at a node of the graph are
   exactly the labelled paths of the graph (plus stuttering steps if
   self-loops were requested) and never leave the graph; [wf_graph]: initial
   nodes and end points of edges are nodes (true of every networkx graph
   that passed assert_consistent) *)
Theorem C20_runs_are_paths : forall nd ign rec sl (g : tsys),
  wf_graph g ->
  forall rest s0,
  In (s0 nd) (node_ids g) ->
  chain (fun s t => eval (owner_action (graph_to_logic nd ign rec sl g) g) s t
                    = true) s0 rest
  <-> chain (graph_step esem nsem nd sl g) s0 rest
      /\ Forall (fun s => In (s nd) (node_ids g)) rest.
Proof. exact (runs_are_paths EL NL esem nsem). Qed.

Theorem C20_initial_runs_are_paths : forall nd rec sl (g : tsys),
  wf_graph g ->
  forall rest s0 s0',
  (eval (owner_init (graph_to_logic nd false rec sl g) g) s0 s0' = true /\
   chain (fun s t => eval (owner_action (graph_to_logic nd false rec sl g) g)
                          s t = true) s0 rest)
  <-> (graph_init nsem nd false g s0 /\
       chain (graph_step esem nsem nd sl g) s0 rest /\
       Forall (fun s => In (s nd) (node_ids g)) (s0 :: rest)).
Proof. exact (initial_runs_are_paths EL NL esem nsem). Qed.

End C20.

(* ---- tie T: the model is the translated code --------------------------- *)
(* coq/gen/LogicizerGen.v is regenerated from omega/symbolic/logicizer.py and
   omega/logic/syntax.py on every run (tools/py2coq_logicizer.py: formula
   strings become formula trees through a fixed table of templates printed in
   the generated file); GenProofs/LogicizerBridge.v proves it equal to the
   hand-written model.  [code_accepts]: the code does not raise (non-empty
   graph; initial nodes unless ignore_initial); [labels_ok]: no edge label
   assigns the primed node variable (`t[nodevar'] = v` then appends). *)
Section C20T.
Variables EL NL : Type.
Variable esem : EL -> val -> val -> bool.
Variable nsem : NL -> val -> bool.
Local Notation eval := (@eval EL NL esem nsem).
Local Notation tsys := (tsys EL NL).
Local Notation form := (form EL NL).

(* `_recurse_op(a, b, h, true, false, glue)` on indices, with fuel, is the
   model's recursion on the sublist h[a:b]: same tree *)
Theorem C20_recurse_op_is_translated_code :
  forall fuel a b (h : list form) t f gl,
  a <= b -> b <= length h -> b - a < fuel ->
  stx_recurse_op EL NL fuel a b h t f gl
  = recurse_op (b - a) (fun x => str_is EL NL x t) (fun x => str_is EL NL x f)
               t f (gop_mk EL NL gl) (firstn (b - a) (skipn a h)).
Proof. exact (stx_recurse_op_eq EL NL). Qed.

Theorem C20_conj_is_translated_code : forall items,
  stx_conj EL NL items OpConj = conj items.
Proof. exact (stx_conj_eq EL NL). Qed.

Theorem C20_disj_is_translated_code : forall items,
  stx_disj EL NL items OpDisj = disj items.
Proof. exact (stx_disj_eq EL NL). Qed.

(* graph_to_logic: the four formulas (same trees), the declared range of the
   node variable and the variable lists; the Python set of
   `_env_trans_from_sys_ts` iterated in insertion order *)
Theorem C20_model_is_translated_code : forall (g : tsys) nd ign rec sl,
  code_accepts EL NL ign g -> labels_ok EL NL nd g ->
  let a := lz_graph_to_logic EL NL (fun l => l) g nd ign rec sl in
  aut_of EL NL a = graph_to_logic nd ign rec sl g
  /\ a_nd_dom EL NL a = nodevar_dom g
  /\ (a_env_vars EL NL a, a_sys_vars EL NL a) = varlists nd g.
Proof. exact (translated_graph_to_logic_is_model EL NL). Qed.

(* for EVERY iteration order / removal of duplicates [so] of that set: three
   formulas are the model's trees, the fourth has the model's meaning *)
Theorem C20_translated_meaning : forall so,
  (forall l x, In x (so l) <-> In x l) ->
  forall (g : tsys) nd ign rec sl,
  code_accepts EL NL ign g -> labels_ok EL NL nd g ->
  forall s s',
  let a := translated EL NL so g nd ign rec sl in
  let m := graph_to_logic nd ign rec sl g in
  env_init a = env_init m /\ sys_init a = sys_init m
  /\ sys_action a = sys_action m
  /\ eval (env_action a) s s' = eval (env_action m) s s'.
Proof. exact (translated_meaning EL NL esem nsem). Qed.

(* the main theorems, about the translated code *)
Theorem C20_translated_owner_action_exact : forall so,
  (forall l x, In x (so l) <-> In x l) ->
  forall (g : tsys) nd ign rec sl,
  code_accepts EL NL ign g -> labels_ok EL NL nd g ->
  forall s s',
  eval (owner_action (translated EL NL so g nd ign rec sl) g) s s'
  = owner_action_sem esem nsem nd sl g s s'.
Proof. exact (translated_owner_action_exact EL NL esem nsem). Qed.

Theorem C20_translated_owner_action_spec : forall so,
  (forall l x, In x (so l) <-> In x l) ->
  forall (g : tsys) nd ign rec sl,
  code_accepts EL NL ign g -> labels_ok EL NL nd g ->
  forall s s',
  In (s nd) (map fst (ts_nodes g)) ->
  eval (owner_action (translated EL NL so g nd ign rec sl) g) s s' = true <->
  ((exists u v l, In (u, v, l) (ts_edges g) /\ u = s nd /\ v = s' nd
                  /\ elabel_holds esem (in_dvars nd g) l s s' = true)
   \/ (sl = true /\ s' nd = s nd))
  /\ node_labels_hold nsem nd g s' = true.
Proof. exact (translated_owner_action_spec EL NL esem nsem). Qed.

Theorem C20_translated_init_spec : forall so,
  (forall l x, In x (so l) <-> In x l) ->
  forall (g : tsys) nd ign rec sl,
  code_accepts EL NL ign g -> labels_ok EL NL nd g ->
  forall s s',
  eval (owner_init (translated EL NL so g nd ign rec sl) g) s s' = true <->
  (ign = true \/ In (s nd) (ts_initial g))
  /\ node_labels_hold nsem nd g s = true.
Proof. exact (translated_init_spec EL NL esem nsem). Qed.

Theorem C20_translated_other_player : forall so,
  (forall l x, In x (so l) <-> In x l) ->
  forall (g : tsys) nd ign rec sl,
  code_accepts EL NL ign g -> labels_ok EL NL nd g ->
  forall s s',
  eval (other_action (translated EL NL so g nd ign rec sl) g) s s'
  = if ts_owner_sys g && rec then receptive_sem esem nd g s s' else true.
Proof. exact (translated_other_action_exact EL NL esem nsem). Qed.

Theorem C20_translated_other_player_unconstrained : forall so,
  (forall l x, In x (so l) <-> In x l) ->
  forall (g : tsys) nd ign rec sl,
  code_accepts EL NL ign g -> labels_ok EL NL nd g ->
  forall s s',
  ts_owner_sys g && rec = false ->
  eval (other_action (translated EL NL so g nd ign rec sl) g) s s' = true
  /\ eval (other_init (translated EL NL so g nd ign rec sl) g) s s' = true.
Proof. exact (translated_other_player_unconstrained EL NL esem nsem). Qed.

Theorem C20_translated_runs_are_paths : forall so,
  (forall l x, In x (so l) <-> In x l) ->
  forall (g : tsys) nd ign rec sl,
  code_accepts EL NL ign g -> labels_ok EL NL nd g ->
  wf_graph g ->
  forall rest s0,
  In (s0 nd) (node_ids g) ->
  chain (fun s t =>
           eval (owner_action (translated EL NL so g nd ign rec sl) g) s t
           = true) s0 rest
  <-> chain (graph_step esem nsem nd sl g) s0 rest
      /\ Forall (fun s => In (s nd) (node_ids g)) rest.
Proof. exact (translated_runs_are_paths EL NL esem nsem). Qed.

(* `_recurse_op` as `conj` / `disj` call it *)
Theorem C20_translated_recurse_op_sem_conj : forall (h : list form) s s',
  eval (stx_recurse_op EL NL (S (length h)) 0 (length h) h FFalse FTrue
                       OpConj) s s'
  = forallb (fun f => eval f s s') h.
Proof. exact (translated_recurse_op_sem_conj EL NL esem nsem). Qed.

Theorem C20_translated_recurse_op_sem_disj : forall (h : list form) s s',
  eval (stx_recurse_op EL NL (S (length h)) 0 (length h) h FTrue FFalse
                       OpDisj) s s'
  = existsb (fun f => eval f s s') h.
Proof. exact (translated_recurse_op_sem_disj EL NL esem nsem). Qed.

End C20T.

(* ---- non-vacuity and regression examples ------------------------------- *)
Section Examples.
Local Open Scope Z_scope.

(* the graph of tests/symbolic_test.py::test_logicizer_env:
   0 -[x=True]-> 1 -["x'"]-> 2 -> 1, owner env, k = variable 0, x = 1;
   the only formula label "x'" means s'(x) = 1 *)
Definition ex_k : var := 0%nat.
Definition ex_x : var := 1%nat.
Definition ex_esem (l : unit) (s s' : val) : bool := Z.eqb (s' ex_x) 1.
Definition ex_nsem (l : unit) (s : val) : bool := true.
Definition ex_nl : nlabel unit := Build_nlabel None [].
Definition ex_g : tsys unit unit :=
  Build_tsys
    [(0, ex_nl); (1, ex_nl); (2, ex_nl)]
    [(0, 1, Build_elabel None [(false, ex_x, 1)]);
     (1, 2, Build_elabel (Some (SLab tt)) []);
     (2, 1, Build_elabel None [])]
    [] false [ex_x] [].

(* the model builds the very tree of the string pinned by that test:
   (((((k = 0)) => (((x <=> TRUE)) /\ ((k' = 1)))) /\ (((k = 1)) =>
   ((x') /\ ((k' = 2))))) /\ (((k = 2)) => ((k' = 1)))) \/ (k' = k) *)
Example C20_example_pinned_string :
  env_action (graph_to_logic ex_k true false true ex_g)
  = FOr (FAnd (FAnd (FImp (FAsg false ex_k 0)
                          (FAnd (FAsg false ex_x 1) (FAsg true ex_k 1)))
                    (FImp (FAsg false ex_k 1)
                          (FAnd (FELab tt) (FAsg true ex_k 2))))
              (FImp (FAsg false ex_k 2) (FAsg true ex_k 1)))
        (FStutter ex_k).
Proof. reflexivity. Qed.

Definition ex_val (k x : Z) : val :=
  fun v => if Nat.eqb v ex_k then k else if Nat.eqb v ex_x then x else 0.

(* hypotheses of C20_owner_action_spec are satisfiable, and both outcomes
   occur: 0 -> 1 needs x, 1 -> 2 needs x' *)
Example C20_example_spec_hyp :
  In (ex_val 0 1 ex_k) (map fst (ts_nodes ex_g)).
Proof. cbn. auto. Qed.

Example C20_example_steps :
  let a := env_action (graph_to_logic ex_k true false false ex_g) in
  eval ex_esem ex_nsem a (ex_val 0 1) (ex_val 1 0) = true /\
  eval ex_esem ex_nsem a (ex_val 0 0) (ex_val 1 0) = false /\
  eval ex_esem ex_nsem a (ex_val 1 0) (ex_val 2 1) = true /\
  eval ex_esem ex_nsem a (ex_val 1 0) (ex_val 2 0) = false /\
  eval ex_esem ex_nsem a (ex_val 2 0) (ex_val 2 0) = false.
Proof. vm_compute. auto. Qed.

(* hypotheses of C20_runs_are_paths are satisfiable, with a run of two
   steps 0 -> 1 -> 2 *)
Example C20_example_runs_hyp :
  wf_graph ex_g /\ In (ex_val 0 1 ex_k) (node_ids ex_g) /\
  chain (fun s t => eval ex_esem ex_nsem
           (owner_action (graph_to_logic ex_k true false false ex_g) ex_g) s t
           = true) (ex_val 0 1) [ex_val 1 0; ex_val 2 1].
Proof.
  split; [|split; [cbn; auto|vm_compute; auto]].
  split; [intros u []|].
  intros u v l H. cbn in H.
  destruct H as [H|[H|[H|[]]]]; inversion H; subst; cbn; auto.
Qed.

Example C20_example_nodevar_dom :
  ts_nodes ex_g <> [] /\ nodevar_dom ex_g = (0, 2)
  /\ varlists ex_k ex_g = ([ex_k], [ex_x]).
Proof. split; [discriminate|split; reflexivity]. Qed.

(* a dead end (hypotheses of C20_dead_end_no_step): node 1 of 0 -> 1 *)
Definition ex_dead : tsys unit unit :=
  Build_tsys [(0, ex_nl); (1, ex_nl)] [(0, 1, Build_elabel None [])]
             [0] true [ex_x] [ex_x].
Example C20_example_dead_end_hyp :
  In (ex_val 1 0 ex_k) (map fst (ts_nodes ex_dead))
  /\ has_succ ex_dead (ex_val 1 0 ex_k) = false
  /\ NoDup (map fst (ts_nodes ex_dead)).
Proof.
  cbn. repeat split; auto.
  repeat constructor; cbn; intuition discriminate.
Qed.

(* receptiveness (hypothesis of C20_receptive_spec) and the remark that a
   primed environment assignment does not enter the assumption: the edge
   0 -[x'=True]-> 1 yields the environment action TRUE at node 0 *)
Definition ex_rec : tsys unit unit :=
  Build_tsys [(0, ex_nl); (1, ex_nl)]
             [(0, 1, Build_elabel None [(true, ex_x, 1)])]
             [0] true [ex_x] [ex_x].
Example C20_example_receptive :
  ts_owner_sys ex_rec = true /\
  eval ex_esem ex_nsem
       (env_action (graph_to_logic ex_k false true false ex_rec))
       (ex_val 0 0) (ex_val 1 0) = true.
Proof. vm_compute. auto. Qed.

(* the absorption in `_recurse_op` matters for the tree, not the meaning:
   conj ['TRUE', a, ''] is a itself, conj [a, 'FALSE'] is 'FALSE' *)
Example C20_example_absorption :
  @conj unit unit [Some FTrue; Some (FAsg false ex_x 1); None]
    = FAsg false ex_x 1
  /\ @conj unit unit [Some (FAsg false ex_x 1); Some FFalse] = FFalse
  /\ @disj unit unit [] = FFalse /\ @conj unit unit [] = FTrue.
Proof. vm_compute. auto. Qed.

(* five items split as 4 + 1, the four as 2 + 2 *)
Example C20_example_balanced :
  let a i := FAsg false ex_x i : form unit unit in
  conj [Some (a 0); Some (a 1); Some (a 2); Some (a 3); Some (a 4)]
  = FAnd (FAnd (FAnd (a 0) (a 1)) (FAnd (a 2) (a 3))) (a 4).
Proof. reflexivity. Qed.

(* hypotheses of the C20_translated_* theorems are satisfiable: the graph of
   the pinned test is accepted by the code, its labels do not assign k', and
   both the insertion order and its reverse are admissible set orders *)
Example C20_example_translated_hyp :
  code_accepts unit unit true ex_g /\ labels_ok unit unit ex_k ex_g
  /\ (forall (l : list (form unit unit)) x, In x ((fun l => l) l) <-> In x l)
  /\ (forall (l : list (form unit unit)) x, In x (rev l) <-> In x l).
Proof.
  split; [split; [discriminate|discriminate]|].
  split; [|split; [tauto|intros; symmetry; apply in_rev]].
  intros u v d H. cbn in H.
  destruct H as [H|[H|[H|[]]]]; inversion H; subst; cbn;
    intuition discriminate.
Qed.

(* the TRANSLATED code builds the tree of the string pinned by
   tests/symbolic_test.py::test_logicizer_env *)
Example C20_example_translated_pinned_string :
  env_action (translated unit unit (fun l => l) ex_g ex_k true false true)
  = FOr (FAnd (FAnd (FImp (FAsg false ex_k 0)
                          (FAnd (FAsg false ex_x 1) (FAsg true ex_k 1)))
                    (FImp (FAsg false ex_k 1)
                          (FAnd (FELab tt) (FAsg true ex_k 2))))
              (FImp (FAsg false ex_k 2) (FAsg true ex_k 1)))
        (FStutter ex_k).
Proof. reflexivity. Qed.

(* receptiveness through the translated code, the set iterated in reverse *)
Example C20_example_translated_receptive :
  code_accepts unit unit false ex_rec /\ labels_ok unit unit ex_k ex_rec /\
  eval ex_esem ex_nsem
       (env_action (translated unit unit (@rev _) ex_rec ex_k false true
                               false))
       (ex_val 0 0) (ex_val 1 0) = true.
Proof.
  split; [split; discriminate|]. split; [|vm_compute; reflexivity].
  intros u v d H. cbn in H. destruct H as [H|[]]. inversion H. subst. cbn.
  intuition discriminate.
Qed.

End Examples.

Print Assumptions C20_split_point.
Print Assumptions C20_recurse_op_sem_conj.
Print Assumptions C20_recurse_op_sem_disj.
Print Assumptions C20_conj_sem.
Print Assumptions C20_disj_sem.
Print Assumptions C20_owner_action_exact.
Print Assumptions C20_owner_action_spec.
Print Assumptions C20_node_labels_hold_nodup.
Print Assumptions C20_dead_end_no_step.
Print Assumptions C20_init_spec.
Print Assumptions C20_other_player_unconstrained.
Print Assumptions C20_other_init_true.
Print Assumptions C20_receptive_spec.
Print Assumptions C20_nodevar_dom_spec.
Print Assumptions C20_varlists_spec.
Print Assumptions C20_runs_are_paths.
Print Assumptions C20_initial_runs_are_paths.
Print Assumptions C20_recurse_op_is_translated_code.
Print Assumptions C20_conj_is_translated_code.
Print Assumptions C20_disj_is_translated_code.
Print Assumptions C20_model_is_translated_code.
Print Assumptions C20_translated_meaning.
Print Assumptions C20_translated_owner_action_exact.
Print Assumptions C20_translated_owner_action_spec.
Print Assumptions C20_translated_init_spec.
Print Assumptions C20_translated_other_player.
Print Assumptions C20_translated_other_player_unconstrained.
Print Assumptions C20_translated_runs_are_paths.
Print Assumptions C20_translated_recurse_op_sem_conj.
Print Assumptions C20_translated_recurse_op_sem_disj.
