(* L6 Syntax — "the tree determined by the precedence/associativity table"
   for the WHOLE expression grammar of the parser model: besides the forms of
   PrecSpec.v (operators, parentheses, terminals, ranges, ite, IF/THEN/ELSE,
   quantifiers) also LET ... IN, junction lists (/\ a /\ b \/ c), truncation
   `x <<>> n`, `@ n`, and quantifiers over arbitrary expression lists; and
   the module level (VARIABLE(S)/CONSTANT(S) declarations, definitions).
   Surface trees here carry EVERY token of the sequence (parentheses, commas,
   keywords included), so that every token sequence the parser accepts is the
   yield of a surface tree whatever the values of its tokens.
   Specification file: definitions only. *)
From Coq Require Import List String Ascii NArith Bool.
From Omega Require Import L6Syntax.Tokens L6Syntax.Parser L6Syntax.PrecSpec.
Import ListNotations.
Local Open Scope string_scope.
Local Open Scope list_scope.

(* number : NUMBER | MINUS NUMBER *)
Inductive xnum := XPos (n : token) | XNeg (mi n : token).

Inductive xt :=
| XName (t : token)                                  (* identifier *)
| XBool (t : token)                                  (* TRUE / FALSE *)
| XNum (n : xnum)
| XStr (q1 n q2 : token)                             (* " name " *)
| XRange (a : xnum) (d : token) (b : xnum)           (* a .. b *)
| XAt (kw : token) (n : xnum)                        (* @ n *)
| XPre (t : token) (x : xt)                          (* prefix operator *)
| XPost (t : token) (x : xt)                         (* postfix operator *)
| XBin (t : token) (l r : xt)                        (* infix operator *)
| XTrunc (t : token) (x : xt) (n : xnum)             (* x <<>> n *)
| XParen (lp : token) (x : xt) (rp : token)          (* ( x ) *)
| XIte (kw lp : token) (a : xt) (c1 : token) (b : xt) (c2 : token) (c : xt)
       (rp : token)                                  (* ite ( a , b , c ) *)
| XIf (i : token) (a : xt) (th : token) (b : xt) (el : token) (c : xt)
                                                     (* IF a THEN b ELSE c *)
| XLet (kw : token) (ds : xdefs) (i : token) (b : xt)   (* LET defs IN b *)
| XQuant (kw : token) (vs : xlist) (col : token) (b : xt)  (* \A list : b *)
| XJunc (j : xjunc)                                  (* a junction list *)
(* defs : def | def defs ;  def : NAME == expr *)
with xdefs :=
| D1 (n d : token) (e : xt)
| DS (n d : token) (e : xt) (ds : xdefs)
(* list : expr | expr , list *)
with xlist :=
| L1 (e : xt)
| LS (e : xt) (c : token) (l : xlist)
(* junc_list : /\ expr | \/ expr | junc_list /\ expr | junc_list \/ expr *)
with xjunc :=
| J1 (t : token) (x : xt)
| JS (j : xjunc) (t : token) (x : xt).

Definition xnum_toks (n : xnum) : list token :=
  match n with
  | XPos n => [n]
  | XNeg mi n => [mi; n]
  end.
Definition xnum_tree (n : xnum) : tree :=
  match n with
  | XPos n => Term KNum (tval n)
  | XNeg _ n => Term KNum ("-" ++ tval n)
  end.
Definition xnum_wf (n : xnum) : Prop :=
  match n with
  | XPos n => tty n = "NUMBER"
  | XNeg mi n => tty mi = "MINUS" /\ tty n = "NUMBER"
  end.

(* the token sequence of a surface tree: all its tokens, in order *)
Fixpoint xyield (s : xt) : list token :=
  match s with
  | XName t => [t]
  | XBool t => [t]
  | XNum n => xnum_toks n
  | XStr q1 n q2 => [q1; n; q2]
  | XRange a d b => xnum_toks a ++ d :: xnum_toks b
  | XAt kw n => kw :: xnum_toks n
  | XPre t x => t :: xyield x
  | XPost t x => xyield x ++ [t]
  | XBin t l r => xyield l ++ t :: xyield r
  | XTrunc t x n => xyield x ++ t :: xnum_toks n
  | XParen lp x rp => lp :: xyield x ++ [rp]
  | XIte kw lp a c1 b c2 c rp =>
      kw :: lp :: xyield a ++ c1 :: xyield b ++ c2 :: xyield c ++ [rp]
  | XIf i a th b el c => i :: xyield a ++ th :: xyield b ++ el :: xyield c
  | XLet kw ds i b => kw :: dyield ds ++ i :: xyield b
  | XQuant kw vs col b => kw :: lyield vs ++ col :: xyield b
  | XJunc j => jyield j
  end
with dyield (ds : xdefs) : list token :=
  match ds with
  | D1 n d e => n :: d :: xyield e
  | DS n d e r => n :: d :: xyield e ++ dyield r
  end
with lyield (l : xlist) : list token :=
  match l with
  | L1 e => xyield e
  | LS e c r => xyield e ++ c :: lyield r
  end
with jyield (j : xjunc) : list token :=
  match j with
  | J1 t x => t :: xyield x
  | JS j t x => jyield j ++ t :: xyield x
  end.

Section Spec.
Variable T : ptable.

(* the syntax tree a surface tree denotes *)
Fixpoint xerase (s : xt) : tree :=
  match s with
  | XName t => Term KVar (tval t)
  | XBool t => Term KBool (tval t)
  | XNum n => xnum_tree n
  | XStr _ n _ => Term KStr ("""" ++ tval n ++ """")
  | XRange a d b => Bin CBinary (tval d) (xnum_tree a) (xnum_tree b)
  | XAt kw n => Opr (tval kw) [xnum_tree n]
  | XPre t x => Un (tval t) (xerase x)
  | XPost t x =>
      match pt_post T (tty t) with
      | Some (_, _, name) => Un name (xerase x)
      | None => Un (tval t) (xerase x)
      end
  | XBin t l r =>
      match pt_bin T (tty t) with
      | Some (c, _, _) => Bin c (tval t) (xerase l) (xerase r)
      | None => Bin CBinary (tval t) (xerase l) (xerase r)
      end
  | XTrunc t x n => Bin CArithmetic (tval t) (xerase x) (xnum_tree n)
  | XParen _ x _ => xerase x
  | XIte kw _ a _ b _ c _ => Opr (tval kw) [xerase a; xerase b; xerase c]
  | XIf _ a _ b _ c => Opr "ite" [xerase a; xerase b; xerase c]
  | XLet kw ds _ b => Opr (tval kw) [Lst (derase ds); xerase b]
  | XQuant kw vs _ b => Opr (tval kw) [Opr "params" (lerase vs); xerase b]
  | XJunc j => jerase j
  end
with derase (ds : xdefs) : list tree :=
  match ds with
  | D1 n _ e => [Bin CBinary "==" (Term KOpname (tval n)) (xerase e)]
  | DS n _ e r => Bin CBinary "==" (Term KOpname (tval n)) (xerase e) :: derase r
  end
with lerase (l : xlist) : list tree :=
  match l with
  | L1 e => [xerase e]
  | LS e _ r => xerase e :: lerase r
  end
with jerase (j : xjunc) : tree :=
  match j with
  | J1 _ x => xerase x
  | JS j t x => Bin CBinary (tval t) (jerase j) (xerase x)
  end.

Definition is_junc_ty (ty : string) : Prop := ty = "AND" \/ ty = "OR".

(* every token of the tree has the type its position demands; operator
   tokens are operators of their kind in the table *)
Fixpoint xwf (s : xt) : Prop :=
  match s with
  | XName t => tty t = "NAME"
  | XBool t => tty t = "TRUE" \/ tty t = "FALSE"
  | XNum n => xnum_wf n
  | XStr q1 n q2 => tty q1 = "DQUOTES" /\ tty n = "NAME" /\ tty q2 = "DQUOTES"
  | XRange a d b => xnum_wf a /\ tty d = "DOTS" /\ xnum_wf b
  | XAt kw n => tty kw = "AT" /\ xnum_wf n
  | XPre t x => pt_pre T (tty t) <> None /\ xwf x
  | XPost t x => pt_bin T (tty t) = None /\ pt_post T (tty t) <> None /\ xwf x
  | XBin t l r => pt_bin T (tty t) <> None /\ xwf l /\ xwf r
  | XTrunc t x n =>
      tty t = "TRUNCATE" /\ pt_bin T (tty t) = None /\ pt_post T (tty t) = None
      /\ xwf x /\ xnum_wf n
  | XParen lp x rp => tty lp = "LPAREN" /\ xwf x /\ tty rp = "RPAREN"
  | XIte kw lp a c1 b c2 c rp =>
      tty kw = "ITE" /\ tty lp = "LPAREN" /\ xwf a /\ tty c1 = "COMMA" /\ xwf b
      /\ tty c2 = "COMMA" /\ xwf c /\ tty rp = "RPAREN"
  | XIf i a th b el c =>
      tty i = "IF" /\ xwf a /\ tty th = "THEN" /\ xwf b /\ tty el = "ELSE" /\ xwf c
  | XLet kw ds i b => tty kw = "LET" /\ dwf ds /\ tty i = "IN_EXPR" /\ xwf b
  | XQuant kw vs col b =>
      (tty kw = "FORALL" \/ tty kw = "EXISTS") /\ lwf vs /\ tty col = "COLON" /\ xwf b
  | XJunc j => jwf j
  end
with dwf (ds : xdefs) : Prop :=
  match ds with
  | D1 n d e => tty n = "NAME" /\ tty d = "DEF" /\ xwf e
  | DS n d e r => tty n = "NAME" /\ tty d = "DEF" /\ xwf e /\ dwf r
  end
with lwf (l : xlist) : Prop :=
  match l with
  | L1 e => xwf e
  | LS e c r => xwf e /\ tty c = "COMMA" /\ lwf r
  end
with jwf (j : xjunc) : Prop :=
  match j with
  | J1 t x => is_junc_ty (tty t) /\ xwf x
  | JS j t x => jwf j /\ is_junc_ty (tty t) /\ xwf x
  end.

(* minimum binding of the item after a junction token: the rule
   `junc_list : AND expr` has the precedence of AND, `junc_list : OR expr`
   has %prec CONJ_LIST, `junc_list : junc_list AND/OR expr` that of the
   token *)
Definition jfirst_bind (t : token) : N :=
  if String.eqb (tty t) "AND" then rule_bind T "AND" else rule_bind T "CONJ_LIST".
Definition jitem_bind (t : token) : N := rule_bind T (tty t).

(* a junction list is continued by AND / OR, whatever the context *)
Definition not_junc (o : option token) : Prop :=
  match o with
  | Some t => String.eqb (tty t) "AND" || String.eqb (tty t) "OR" = false
  | None => True
  end.

Local Notation stops := (stops T).

(* right edge: with o the token that follows s, every operator (and special
   form) on the right spine of s has finished *)
Fixpoint xrok (o : option token) (s : xt) : Prop :=
  match s with
  | XBin t l r => stops (bin_rbp T t) o /\ xrok o r
  | XPre t x => stops (pre_pbp T t) o /\ xrok o x
  | XNum _ => not_dots o                    (* `n ..` would start a range *)
  | XIf _ _ _ _ _ c => stops (rule_bind T "IF_THEN_ELSE") o /\ xrok o c
  | XLet _ _ _ b => stops (rule_bind T "LET_IN") o /\ xrok o b
  | XQuant _ _ _ b => stops (rule_bind T "COLON") o /\ xrok o b
  | XJunc j => not_junc o /\ jrok o j
  | XName _ | XBool _ | XStr _ _ _ | XRange _ _ _ | XAt _ _ | XPost _ _
  | XTrunc _ _ _ | XParen _ _ _ | XIte _ _ _ _ _ _ _ _ => True
  end
with jrok (o : option token) (j : xjunc) : Prop :=
  match j with
  | J1 t x => stops (jfirst_bind t) o /\ xrok o x
  | JS _ t x => stops (jitem_bind t) o /\ xrok o x
  end.

(* left edge: every infix/postfix operator on the left spine of s can be
   absorbed under minimum binding m *)
Fixpoint xfits (m : N) (s : xt) : Prop :=
  match s with
  | XBin t l r => can_shift m (bin_lv T t) = true /\ xfits m l
  | XPost t x => can_shift m (post_lv T t) = true /\ xfits m x
  | XTrunc t x _ => can_shift m (snd (pt_rule T "TRUNCATE")) = true /\ xfits m x
  | _ => True
  end.

(* the surface tree groups its operators as the table demands *)
Fixpoint xrespects (s : xt) : Prop :=
  match s with
  | XName _ | XBool _ | XNum _ | XStr _ _ _ | XRange _ _ _ | XAt _ _ => True
  | XPre t x => xrespects x /\ xfits (pre_pbp T t) x
  | XPost t x => xrespects x /\ xrok (Some t) x
  | XBin t l r =>
      xrespects l /\ xrespects r /\ xrok (Some t) l /\ xfits (bin_rbp T t) r
  | XTrunc t x _ => xrespects x /\ xrok (Some t) x
  | XParen _ x _ => xrespects x
  | XIte _ _ a _ b _ c _ => xrespects a /\ xrespects b /\ xrespects c
  | XIf _ a _ b _ c =>
      xrespects a /\ xrespects b /\ xrespects c
      /\ xfits (rule_bind T "IF_THEN_ELSE") c
  | XLet _ ds _ b => drespects ds /\ xrespects b /\ xfits (rule_bind T "LET_IN") b
  | XQuant _ vs _ b => lrespects vs /\ xrespects b /\ xfits (rule_bind T "COLON") b
  | XJunc j => jrespects j
  end
with drespects (ds : xdefs) : Prop :=
  match ds with
  | D1 _ _ e => xrespects e /\ xfits (rule_bind T "DEF") e
  | DS _ _ e r => xrespects e /\ xfits (rule_bind T "DEF") e /\ drespects r
  end
with lrespects (l : xlist) : Prop :=
  match l with
  | L1 e => xrespects e
  | LS e _ r => xrespects e /\ lrespects r
  end
with jrespects (j : xjunc) : Prop :=
  match j with
  | J1 t x => xrespects x /\ xfits (jfirst_bind t) x
  | JS j t x =>
      jrespects j /\ jrok (Some t) j /\ xrespects x /\ xfits (jitem_bind t) x
  end.

Fixpoint xcost (s : xt) : nat :=
  match s with
  | XName _ | XBool _ | XNum _ | XStr _ _ _ | XRange _ _ _ | XAt _ _ => 2
  | XPre _ x => xcost x + 3
  | XPost _ x => xcost x + 1
  | XBin _ l r => xcost l + xcost r + 2
  | XTrunc _ x _ => xcost x + 1
  | XParen _ x _ => xcost x + 3
  | XIte _ _ a _ b _ c _ => xcost a + xcost b + xcost c + 5
  | XIf _ a _ b _ c => xcost a + xcost b + xcost c + 5
  | XLet _ ds _ b => dcost ds + xcost b + 5
  | XQuant _ vs _ b => lcost vs + xcost b + 5
  | XJunc j => jcost j + 2
  end
with dcost (ds : xdefs) : nat :=
  match ds with
  | D1 _ _ e => xcost e + 3
  | DS _ _ e r => xcost e + dcost r + 3
  end
with lcost (l : xlist) : nat :=
  match l with
  | L1 e => xcost e + 3
  | LS e _ r => xcost e + lcost r + 3
  end
with jcost (j : xjunc) : nat :=
  match j with
  | J1 _ x => xcost x + 2
  | JS j _ x => jcost j + xcost x + 2
  end.

(* side conditions on the table, beyond PrecSpec.table_ok: the tokens that
   start a junction list are not prefix operators; the tokens that close a
   definition of LET (the next NAME, IN) are not operators *)
Definition table_ok_full : bool :=
  table_ok T
  && is_none (pt_pre T "AND") && is_none (pt_pre T "OR")
  && forallb (fun k => is_none (pt_bin T k) && is_none (pt_post T k))
             ["NAME"; "IN_EXPR"].

(* ---- surface trees of PrecSpec.v as surface trees of this file ---- *)
Definition inj_num (n : numlit) : xnum :=
  match n with
  | NPos v => XPos (Tok "NUMBER" v)
  | NNeg v => XNeg MINUSt (Tok "NUMBER" v)
  end.
Definition inj_atom (a : atom) : xt :=
  match a with
  | AVar v => XName (Tok "NAME" v)
  | ABool t => XBool t
  | ANum n => XNum (inj_num n)
  | AStr v => XStr DQt (Tok "NAME" v) DQt
  | ARange a d b => XRange (inj_num a) d (inj_num b)
  end.
Definition inj_var (v : string * option token) : xt :=
  match snd v with
  | None => XName (Tok "NAME" (fst v))
  | Some t => XPost t (XName (Tok "NAME" (fst v)))
  end.
Fixpoint inj_vars (v : string * option token) (vs : list (string * option token))
  : xlist :=
  match vs with
  | [] => L1 (inj_var v)
  | w :: r => LS (inj_var v) CMt (inj_vars w r)
  end.
Fixpoint inj (s : stree) : xt :=
  match s with
  | SAtom a => inj_atom a
  | SPre t x => XPre t (inj x)
  | SPost t x => XPost t (inj x)
  | SBin t l r => XBin t (inj l) (inj r)
  | SParen x => XParen LPt (inj x) RPt
  | SIte kw a b c => XIte kw LPt (inj a) CMt (inj b) CMt (inj c) RPt
  | SIf a b c => XIf IFt (inj a) THENt (inj b) ELSEt (inj c)
  | SQuant kw vs body =>
      match vs with
      | [] => XName (Tok "NAME" "")          (* excluded by wf *)
      | v :: r => XQuant kw (inj_vars v r) COLONt (inj body)
      end
  end.

End Spec.

(* ---- the module level ----
   module : unit+ ;  unit : VARIABLE(S)/CONSTANT(S) list | NAME == expr *)
Inductive xunit :=
| UDecl (kw : token) (vs : xlist)
| UDef (n d : token) (e : xt).

Definition uyield (u : xunit) : list token :=
  match u with
  | UDecl kw vs => kw :: lyield vs
  | UDef n d e => n :: d :: xyield e
  end.
Definition myield (us : list xunit) : list token := flat_map uyield us.

Section ModSpec.
Variable T : ptable.

Definition uerase (u : xunit) : tree :=
  match u with
  | UDecl kw vs => Opr (tval kw) [Lst (lerase T vs)]
  | UDef n _ e => Bin CBinary "==" (Term KOpname (tval n)) (xerase T e)
  end.
Definition merase (us : list xunit) : tree := Lst (map uerase us).

Definition is_decl_ty (ty : string) : Prop :=
  ty = "VARIABLE" \/ ty = "VARIABLES" \/ ty = "CONSTANT" \/ ty = "CONSTANTS".

Definition uwf (u : xunit) : Prop :=
  match u with
  | UDecl kw vs => is_decl_ty (tty kw) /\ lwf T vs
  | UDef n d e => tty n = "NAME" /\ tty d = "DEF" /\ xwf T e
  end.

(* the last expression of a list *)
Fixpoint llast (l : xlist) : xt :=
  match l with
  | L1 e => e
  | LS _ _ r => llast r
  end.

(* the token after the unit (the first token of the next unit, if any)
   ends it *)
Definition urok (o : option token) (u : xunit) : Prop :=
  match u with
  | UDecl _ vs =>
      stops T 0 o /\ xrok T o (llast vs)
      /\ match o with Some t => is_ty t "COMMA" = false | None => True end
  | UDef _ _ e => stops T (rule_bind T "DEF") o /\ xrok T o e
  end.
Definition urespects (u : xunit) : Prop :=
  match u with
  | UDecl _ vs => lrespects T vs
  | UDef _ _ e => xrespects T e /\ xfits T (rule_bind T "DEF") e
  end.

Fixpoint mrespects (us : list xunit) : Prop :=
  match us with
  | [] => True
  | u :: r => urespects u /\ urok (hd_error (myield r)) u /\ mrespects r
  end.

Definition mwf (us : list xunit) : Prop := us <> [] /\ Forall uwf us.

Definition ucost (u : xunit) : nat :=
  match u with
  | UDecl _ vs => lcost vs + 2
  | UDef _ _ e => xcost e + 3
  end.
Fixpoint mcost (us : list xunit) : nat :=
  match us with
  | [] => 0
  | u :: r => ucost u + mcost r
  end.

End ModSpec.
