(* L5Cover / MinCoverOld: cover._traverse / cover.minimize BEFORE the repair
   fixes/F16.patch (finding F16), kept for the regression example
   (MinCoverRefuted.v, Properties/C09.v C09_refuted_unrepaired_leaf).

   Difference with MinCover.traverse: at a leaf (empty cyclic core) the
   unrepaired code sets bab.upper_bound = branch_lb and returns the essential
   elements WITHOUT comparing branch_lb with bab.upper_bound.  Hence a branch
   that was pruned by a tie with the upper bound (the size of the greedy
   cover) can be replaced by a strictly more expensive leaf of its sibling,
   and minimize prefers the cover of the traversal to the greedy one.

   Model file: definitions only. *)
From Coq Require Import List ZArith Bool Lia Arith.
Import ListNotations.
From Omega Require Import L5Cover.Boxes L5Cover.MinCover.
Open Scope Z_scope.

Section AlgOld.
Variable rs : ranges.
Variable pick : list box -> option box.

Fixpoint traverse_old (fuel : nat) (X Y : list box) (pc ub : nat)
  : option (option (list box) * nat * nat) :=
  match fuel with
  | O => None
  | S n =>
      match cyclic_core rs X Y with
      | None => None
      | Some (Xc, Yc, E) =>
          let cost_ess := length E in
          let core_lb := indep_size pick (S (length Xc)) Xc Yc in
          let sub_lb := (cost_ess + core_lb)%nat in
          let branch_lb := (pc + sub_lb)%nat in
          match Xc with
          | [] => Some (Some E, sub_lb, branch_lb)
          | _ =>
              if (ub <=? branch_lb)%nat then Some (None, sub_lb, ub)
              else
                let pc' := (pc + cost_ess)%nat in
                match pick Yc with
                | None => None
                | Some d =>
                    let Ynew := diff Yc [d] in
                    let Xm := filter (fun p => negb (box_leb p d)) Xc in
                    match traverse_old n Xm Ynew (S pc') ub with
                    | None => None
                    | Some (e0, left_lb, ub1) =>
                        if (ub1 <=? pc' + left_lb)%nat
                        then Some (None, sub_lb, ub1)
                        else
                          match traverse_old n Xc Ynew pc' ub1 with
                          | None => None
                          | Some (e1, _, ub2) =>
                              let r := if lt_cost e0 e1
                                       then option_map (cons d) e0 else e1 in
                              Some (option_map (fun c => union c E) r,
                                    sub_lb, ub2)
                          end
                    end
                end
          end
      end
  end.

(* cover.minimize with the F13 repair and the unrepaired leaf *)
Definition minimize_xy_old (X Y : list box) : option (list box) :=
  match some_cover pick (S (length X)) X Y with
  | None => None
  | Some c0 =>
      match traverse_old (S (length Y)) X Y 0 (length c0) with
      | Some (Some C, _, _) => unfloors pick C Y
      | Some (None, _, _) => unfloors pick c0 Y
      | None => None
      end
  end.
End AlgOld.

Definition minimize_old (rs : ranges) (pick : list box -> option box)
  (f care : point -> bool) : option (list box) :=
  minimize_xy_old rs pick (embed rs f) (primes rs f care).
