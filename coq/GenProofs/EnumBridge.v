(* The functions TRANSLATED from omega/symbolic/enumeration.py and
   omega/logic/bitvector.py (gen/EnumGen.v, tools/py2coq_enum.py, tie T)
   against the hand-written model of L0Bits/Bits.v and L3Context/Ctx.v that
   the C07 theorems talk about.  Re-proved on every run.

     append_sign_bit        = Bits.append_sign_bit            (Leibniz)
     enumerate_int          = Bits.enumerate_int_from / enumerate_int
                                                              (Leibniz, same order)
     take_product_iter      = Ctx.take_product on the REVERSED dict of sets
                              (Leibniz; the code pops the last item, the model
                              takes the first: the yielded dictionaries and
                              their order of keys differ by that reversal)
     bitfields_to_int_iter  = Ctx.bitfields_to_int_iter with the sets reversed
                              (Leibniz), hence the same dictionaries up to the
                              order of the list and of the keys
                              ([bitfields_rev_vs_model])

   Every statement quantifies over ALL arguments and over every sufficient
   fuel (fuel only bounds the recursion depth of the translated generators).

   The proofs do not follow the shape of the generated text: each loop is
   matched against a lemma about ANY body function that satisfies an equation
   (what one iteration does to the state and what it yields); the equation is
   established for the generated body by computation and arithmetic.  A
   rewrite of the source that renames locals or splits expressions keeps the
   equations provable; a change of meaning does not. *)
From Coq Require Import ZArith List Bool String Lia ZifyBool Permutation.
From Omega Require Import L0Bits.Bits L0Bits.BitsFacts L3Context.Ctx
  L3Context.CtxFacts.
From OmegaGen Require EnumGen.
Import ListNotations.
Open Scope Z_scope.

Import EnumGen.

(* ---- the effect combinators ------------------------------------------------ *)
Ltac run :=
  cbv beta iota zeta delta
    [m_ret m_fail m_yield m_assert m_opt m_bind m_consume m_values m_result].

(* equal results: same constructors, integer entries equal as polynomials *)
Ltac same_values :=
  repeat (match goal with
          | |- Some _ = Some _ => f_equal
          | |- (_, _) = (_, _) => f_equal
          | |- _ :: _ = _ :: _ => f_equal
          end);
  try reflexivity; try ring.

(* a loop whose body leaves the state alone *)
Lemma m_for_const_in {A S T} (body : S -> A -> M S T) (out : A -> list T) s l :
  (forall x, In x l -> body s x = Some (s, out x)) ->
  m_for body l s = Some (s, flat_map out l).
Proof.
  induction l as [|x r IH]; intro H; cbn [m_for flat_map].
  - reflexivity.
  - rewrite (H x (or_introl eq_refl)). unfold m_bind.
    rewrite IH by (intros; apply H; right; auto). reflexivity.
Qed.

Lemma m_for_const {A S T} (body : S -> A -> M S T) (out : A -> list T) s l :
  (forall x, body s x = Some (s, out x)) ->
  m_for body l s = Some (s, flat_map out l).
Proof. intro H. apply m_for_const_in. auto. Qed.

(* a loop that yields nothing: a fold that may fail *)
Fixpoint fold_opt {A S} (step : S -> A -> option S) (l : list A) (s : S)
    : option S :=
  match l with
  | [] => Some s
  | x :: r => match step s x with Some s' => fold_opt step r s' | None => None end
  end.

Definition m_of_opt {S T} (o : option S) : M S T :=
  match o with Some s => Some (s, []) | None => None end.

Lemma m_for_silent {A S T} (body : S -> A -> M S T) (step : S -> A -> option S) l :
  (forall s x, In x l -> body s x = m_of_opt (step s x)) ->
  forall s, m_for body l s = m_of_opt (fold_opt step l s).
Proof.
  induction l as [|x r IH]; intros H s; cbn [m_for fold_opt].
  - reflexivity.
  - rewrite (H s x (or_introl eq_refl)). destruct (step s x) as [s'|]; cbn.
    + rewrite IH by (intros; apply H; right; auto).
      destruct (fold_opt step r s'); reflexivity.
    + reflexivity.
Qed.

(* ---- Python primitives ------------------------------------------------------ *)
Lemma py_pow_nonneg a b : 0 <= b -> py_pow a b = Some (a ^ b).
Proof. intro H. unfold py_pow. destruct (Z.ltb_spec b 0); [lia|reflexivity]. Qed.

Lemma py_index_skipn {A} (l : list A) j x rest : 0 <= j ->
  skipn (Z.to_nat j) l = x :: rest -> py_index l j = Some x.
Proof.
  intros Hj E. unfold py_index. destruct (Z.ltb_spec j 0); [lia|].
  revert l E. generalize (Z.to_nat j) as k.
  induction k as [|k IH]; intros l E; destruct l as [|y l]; cbn in *;
    try discriminate.
  - inversion E; reflexivity.
  - apply IH; auto.
Qed.

Lemma skipn_S_tail {A} (l : list A) k x rest :
  skipn k l = x :: rest -> skipn (S k) l = rest.
Proof.
  revert l; induction k as [|k IH]; intros l E; destruct l as [|y l]; cbn in *;
    try discriminate.
  - inversion E; reflexivity.
  - apply IH; auto.
Qed.

Lemma skipn_nonempty {A} (l : list A) k : (k < List.length l)%nat ->
  exists x rest, skipn k l = x :: rest.
Proof.
  revert l; induction k as [|k IH]; intros l H; destruct l as [|y l]; cbn in *;
    try lia.
  - eauto.
  - apply IH. lia.
Qed.

Lemma py_popitem_snoc {K V} (r : list (K * V)) a :
  py_popitem (r ++ [a]) = Some (r, a).
Proof. unfold py_popitem. rewrite rev_unit, rev_involutive. reflexivity. Qed.

Lemma is_nil_snoc {A} (r : list A) a : is_nil (r ++ [a]) = false.
Proof. destruct r; reflexivity. Qed.

Lemma is_nil_filter_forallb {A} (p : A -> bool) l :
  is_nil (filter (fun x => negb (p x)) l) = forallb p l.
Proof.
  induction l as [|x l IH]; cbn [filter forallb]; [reflexivity|].
  destruct (p x); cbn [negb andb is_nil]; auto.
Qed.

Lemma is_nil_filter_existsb {A} (p : A -> bool) l :
  is_nil (filter p l) = negb (existsb p l).
Proof.
  induction l as [|x l IH]; cbn [filter existsb]; [reflexivity|].
  destruct (p x); cbn [negb orb is_nil]; auto.
Qed.

(* ==== bitvector._append_sign_bit =========================================== *)
Definition hint_of {B} (d : entry B) : hint :=
  mkHint (e_width d) (e_signed d) (e_dom d).

(* for every non-empty bit field: the same list, or failure in the same
   cases.  (On the empty field the code additionally asserts len(bits) > 1
   after appending; declared widths are >= 1.) *)
Theorem append_sign_bit_generated_is_model {B T : Type}
    (bits : list (option bool)) (var : string) (d : entry B) :
  bits <> [] ->
  @EnumGen.append_sign_bit B T bits var d =
  m_of_opt (Bits.append_sign_bit (Some false) (Some true) bits (hint_of d)).
Proof.
  intro Hne. unfold EnumGen.append_sign_bit, Bits.append_sign_bit, hint_of.
  cbn [h_signed h_dom]. run.
  assert (Hlen : (1 <= List.length bits)%nat)
    by (destruct bits; [congruence|cbn; lia]).
  destruct (e_signed d).
  - destruct (Nat.ltb_spec (List.length bits) 2);
      destruct (Z.ltb_spec (Z.of_nat (List.length bits)) 2); try lia; reflexivity.
  - destruct (e_dom d) as [mn mx].
    repeat rewrite app_length. cbn [List.length].
    repeat match goal with
           | |- context [if ?c then _ else _] => destruct c eqn:?
           end; try reflexivity; exfalso; lia.
Qed.

(* ==== enumeration._enumerate_int ============================================ *)
Theorem enumerate_int_generated_is_model : forall fuel bs j,
  0 <= j < Z.of_nat (List.length bs) ->
  (Z.to_nat (Z.of_nat (List.length bs) - j) <= fuel)%nat ->
  EnumGen.enumerate_int fuel bs j =
  Some (Datatypes.tt, enumerate_int_from j (skipn (Z.to_nat j) bs)).
Proof.
  induction fuel as [|fuel IH]; intros bs j Hj Hfuel; [lia|].
  cbn [EnumGen.enumerate_int]. cbv zeta.
  destruct (skipn_nonempty bs (Z.to_nat j)) as (b & rest & Esk); [lia|].
  assert (Hrest : Z.of_nat (List.length rest) = Z.of_nat (List.length bs) - j - 1).
  { pose proof (skipn_length (Z.to_nat j) bs) as Hl. rewrite Esk in Hl.
    cbn [List.length] in Hl. lia. }
  rewrite Esk.
  rewrite (py_index_skipn bs j b rest) by (auto; lia).
  rewrite !py_pow_nonneg by lia.
  destruct (Z.ltb_spec j (Z.of_nat (List.length bs))); [|lia].
  run.
  destruct rest as [|c rest'].
  - (* the sign bit *)
    cbn [List.length] in Hrest.
    destruct (Z.eqb_spec j (Z.of_nat (List.length bs) - 1)); [|lia].
    cbn [enumerate_int_from].
    destruct b as [b|]; same_values.
  - cbn [List.length] in Hrest.
    destruct (Z.eqb_spec j (Z.of_nat (List.length bs) - 1)); [lia|].
    destruct (Z.ltb_spec j (Z.of_nat (List.length bs) - 1)); [|lia].
    rewrite (IH bs (j + 1)) by lia.
    replace (Z.to_nat (j + 1)) with (S (Z.to_nat j)) by lia.
    rewrite (skipn_S_tail bs _ b (c :: rest') Esk).
    rewrite enumerate_int_from_cons.
    rewrite m_for_const with
      (out := fun v => match b with
                       | None => [v; v + 2 ^ j]
                       | Some b => [v + 2 ^ j * Z.b2z b]
                       end).
    + rewrite app_nil_r. reflexivity.
    + intro v. rewrite ?py_pow_nonneg by lia. run.
      destruct b as [b|]; same_values.
Qed.

(* the entry point used by _bitfields_to_int_iter: j = 0 *)
Corollary enumerate_int_generated_is_model_0 fuel bs :
  bs <> [] -> (List.length bs <= fuel)%nat ->
  EnumGen.enumerate_int fuel bs 0 = Some (Datatypes.tt, Bits.enumerate_int bs).
Proof.
  intros Hne Hf. unfold Bits.enumerate_int.
  rewrite enumerate_int_generated_is_model; [reflexivity| |lia].
  destruct bs; [congruence|cbn [List.length]; lia].
Qed.

(* outside the index range the code fails with its assertion, for every fuel *)
Theorem enumerate_int_generated_asserts fuel bs j :
  Z.of_nat (List.length bs) <= j -> EnumGen.enumerate_int fuel bs j = None.
Proof.
  intro H. destruct fuel as [|fuel]; [reflexivity|].
  cbn [EnumGen.enumerate_int]. cbv zeta. run.
  destruct (Z.ltb_spec j (Z.of_nat (List.length bs))); [lia|reflexivity].
Qed.

(* ==== enumeration._take_product_iter ======================================== *)
Lemma dict_set_fresh_s {V} k (v : V) d : ~ In k (map fst d) ->
  dict_set String.eqb k v d = d ++ [(k, v)].
Proof.
  induction d as [|[k' v'] d IH]; intro H; cbn [dict_set app]; [reflexivity|].
  destruct (String.eqb_spec k k') as [->|Hne].
  - exfalso. apply H. left; reflexivity.
  - rewrite IH; [reflexivity|]. intro Hin. apply H. right; auto.
Qed.

Lemma dict_set_last_s {V} k (v w : V) d : ~ In k (map fst d) ->
  dict_set String.eqb k v (d ++ [(k, w)]) = d ++ [(k, v)].
Proof.
  induction d as [|[k' v'] d IH]; intro H; cbn [dict_set app].
  - rewrite String.eqb_refl. reflexivity.
  - destruct (String.eqb_spec k k') as [->|Hne].
    + exfalso. apply H. left; reflexivity.
    + rewrite IH; [reflexivity|]. intro Hin. apply H. right; auto.
Qed.

(* the inner loop `for v in values: m = dict(m); m[var] = v; yield m` for ANY
   body that stores and yields; the state (the last dictionary) is not used
   afterwards *)
Lemma inner_loop_shape (x : string)
    (inner : list (string * val) -> Z -> M (list (string * val)) (list (string * val))) :
  (forall s v, inner s v =
     Some (dict_set String.eqb x (VZ v) s, [dict_set String.eqb x (VZ v) s])) ->
  forall vals (m : list (string * val)), ~ In x (map fst m) ->
  exists st, m_for inner vals m =
             Some (st, map (fun v => m ++ [(x, VZ v)]) vals).
Proof.
  intros H vals m Hx.
  assert (A : forall vals w, exists st,
             m_for inner vals (m ++ [(x, w)]) =
             Some (st, map (fun v => m ++ [(x, VZ v)]) vals)).
  { induction vals0 as [|v vs IHv]; intro w; cbn [m_for map].
    - eexists; reflexivity.
    - rewrite H, dict_set_last_s by auto. destruct (IHv (VZ v)) as [st E].
      unfold m_bind. rewrite E. eexists; reflexivity. }
  destruct vals as [|v vs]; cbn [m_for map].
  - eexists; reflexivity.
  - rewrite H, dict_set_fresh_s by auto. destruct (A vs (VZ v)) as [st E].
    unfold m_bind. rewrite E. eexists; reflexivity.
Qed.

Theorem take_product_generated_is_model : forall sets fuel model,
  (List.length sets < fuel)%nat ->
  NoDup (map fst sets) ->
  (forall x, In x (map fst sets) -> ~ In x (map fst model)) ->
  EnumGen.take_product_iter fuel sets model =
  Some (Datatypes.tt, Ctx.take_product (rev sets) model).
Proof.
  intro sets. induction sets as [|[x vals] r IH] using rev_ind;
    intros fuel model Hf ND Hdisj; (destruct fuel as [|fuel]; [cbn in Hf; lia|]).
  - reflexivity.
  - cbn [EnumGen.take_product_iter].
    rewrite is_nil_snoc, py_popitem_snoc. run.
    rewrite app_length in Hf. cbn [List.length] in Hf.
    rewrite map_app in ND. cbn [map fst] in ND.
    apply NoDup_remove in ND. rewrite app_nil_r in ND. destruct ND as [NDr Hxr].
    assert (Hdr : forall y, In y (map fst r) -> ~ In y (map fst model)).
    { intros y Hy. apply Hdisj. rewrite map_app, in_app_iff. auto. }
    assert (Hxm : ~ In x (map fst model)).
    { apply Hdisj. rewrite map_app, in_app_iff. right. left. reflexivity. }
    rewrite IH by (auto; lia).
    rewrite rev_unit. cbn [Ctx.take_product].
    rewrite m_for_const_in with
      (out := fun m => map (fun v => m ++ [(x, VZ v)]) vals).
    + rewrite app_nil_r. reflexivity.
    + intros m Hm.
      assert (Hxk : ~ In x (map fst m)).
      { apply take_product_rel in Hm. rewrite (prod_rel_keys _ _ _ Hm).
        rewrite map_rev, <- in_rev. tauto. }
      match goal with
      | |- context [m_for ?inner vals m] =>
        destruct (inner_loop_shape x inner ltac:(intros; reflexivity) vals m Hxk)
          as [st E]
      end.
      rewrite E. run. rewrite app_nil_r. reflexivity.
Qed.

(* ==== enumeration._bitfields_to_int_iter ==================================== *)
(* The Python table maps a name to a dict with string keys; the model's table
   maps it to DBool | DInt hint and derives the bit names (x, i).  [entry_of]
   is the entry of the Python table that bitblast_table stores for a model
   declaration (fields that the code never reads for that type are filled with
   dummies). *)
Definition bool_bit (x : string) : bit := (x, 0%nat).

Definition entry_of (x : ident) (d : vdecl) : entry bit :=
  match d with
  | DBool => mkEntry "bool" [] false (0, 0) 0
  | DInt h => mkEntry "int" (bitnames x (DInt h)) (h_signed h) (h_dom h)
                (h_width h)
  end.

Definition table_of (t : tbl) : list (string * entry bit) :=
  map (fun xd => (fst xd, entry_of (fst xd) (snd xd))) t.

(* the model, with the dict of integer sets reversed (the code pops the last
   item first) *)
Definition bitfields_rev (t : tbl) (c : cube) : option (list fasgn) :=
  if negb (subset bit_eqb (map fst c) (all_bits t)) then None
  else match int_sets t c with
       | Some sets => Some (take_product (rev sets) (bool_model t c))
       | None => None
       end.

(* enough fuel: deeper than the number of variables and than every bit field
   with its sign bit *)
Definition fuel_ok (t : tbl) (fuel : nat) : Prop :=
  (List.length t < fuel)%nat /\
  forall x h, In (x, DInt h) t -> (wnat h + 1 <= fuel)%nat.

Lemma m_bind_some {A S T} (a : A) (k : A -> M S T) :
  m_bind (m_of_opt (Some a)) k = k a.
Proof. unfold m_bind, m_of_opt. destruct (k a) as [[s l]|]; reflexivity. Qed.

Lemma loop_over_table {S T} (body : S -> string * entry bit -> M S T)
    (step : S -> ident * vdecl -> option S) (t : tbl) :
  (forall s xd, In xd t ->
     body s (fst xd, entry_of (fst xd) (snd xd)) = m_of_opt (step s xd)) ->
  forall s, m_for body (table_of t) s = m_of_opt (fold_opt step t s).
Proof.
  induction t as [|xd r IH]; intros H s; cbn [table_of map m_for fold_opt].
  - reflexivity.
  - rewrite (H s xd (or_introl eq_refl)). destruct (step s xd) as [s'|].
    + rewrite m_bind_some. apply IH. intros; apply H; right; auto.
    + reflexivity.
Qed.

(* -- loop 1: the set of all bits of the table ------------------------------- *)
Definition step1 (acc : list bit) (xd : ident * vdecl) : option (list bit) :=
  Some (acc ++ bitnames (fst xd) (snd xd)).

Lemma loop1_value t : forall acc,
  fold_opt step1 t acc = Some (acc ++ all_bits t).
Proof.
  induction t as [|xd r IH]; intro acc; cbn [fold_opt step1 all_bits flat_map].
  - rewrite app_nil_r. reflexivity.
  - rewrite IH, <- app_assoc. reflexivity.
Qed.

(* -- loop 2: Boolean variables are moved from the bits to the model ---------- *)
Definition step2 (s : cube * fasgn) (xd : ident * vdecl) : option (cube * fasgn) :=
  match snd xd with
  | DInt _ => Some s
  | DBool =>
    match dict_get bit_eqb (bool_bit (fst xd)) (fst s) with
    | Some v => Some (dict_remove bit_eqb (bool_bit (fst xd)) (fst s),
                      dict_set String.eqb (fst xd) (VB v) (snd s))
    | None => Some s
    end
  end.

Lemma dict_get_remove_other {V} (b k : bit) (d : list (bit * V)) : b <> k ->
  dict_get bit_eqb b (dict_remove bit_eqb k d) = dict_get bit_eqb b d.
Proof.
  intro Hne. unfold dict_remove.
  induction d as [|[k' v] d IH]; cbn [filter dict_get fst]; [reflexivity|].
  destruct (bit_eqb_spec k k') as [<-|Hk]; cbn [negb dict_get].
  - destruct (bit_eqb_spec b k); [congruence|]. exact IH.
  - rewrite IH. reflexivity.
Qed.

Lemma flat_map_ext_in_ {A B} (f g : A -> list B) l :
  (forall x, In x l -> f x = g x) -> flat_map f l = flat_map g l.
Proof.
  induction l as [|x l IH]; intro H; cbn [flat_map]; [reflexivity|].
  rewrite (H x (or_introl eq_refl)), IH; [reflexivity|].
  intros; apply H; right; auto.
Qed.

Lemma bool_model_ext t (c c' : cube) :
  (forall y, In y (map fst t) ->
     dict_get bit_eqb (y, 0%nat) c = dict_get bit_eqb (y, 0%nat) c') ->
  bool_model t c = bool_model t c'.
Proof.
  intro H. unfold bool_model. apply flat_map_ext_in_. intros [x d] Hin.
  cbn [fst snd]. destruct d; [|reflexivity].
  rewrite (H x); [reflexivity|]. apply in_map_iff. exists (x, DBool). auto.
Qed.

Lemma loop2_value t : NoDup (map fst t) -> forall bits acc,
  (forall x, In x (map fst t) -> ~ In x (map fst acc)) ->
  exists bits',
    fold_opt step2 t (bits, acc) = Some (bits', acc ++ bool_model t bits) /\
    forall b, (forall y, In (y, DBool) t -> b <> bool_bit y) ->
              dict_get bit_eqb b bits' = dict_get bit_eqb b bits.
Proof.
  induction t as [|[x d] r IH]; intros ND bits acc Hfresh.
  - exists bits. cbn [fold_opt bool_model flat_map]. rewrite app_nil_r. auto.
  - cbn [map fst] in ND. inversion ND as [|? ? Hx NDr]; subst.
    cbn [fold_opt bool_model flat_map]. unfold step2 at 1. cbn [fst snd].
    fold (bool_model r bits). destruct d as [|h].
    + unfold bool_bit. destruct (dict_get bit_eqb (x, 0%nat) bits) as [v|] eqn:Eg.
      * destruct (IH NDr (dict_remove bit_eqb (x, 0%nat) bits)
                    (dict_set String.eqb x (VB v) acc)) as (bits' & E & Hag).
        { intros y Hy. rewrite (dict_set_keys String.eqb string_eqb_spec').
          intros [->|Hin]; [auto|]. apply (Hfresh y); [right; auto|auto]. }
        exists bits'. split.
        -- match goal with
           | |- context [match ?g with Some _ => _ | None => Some (bits, acc) end] =>
             replace g with (Some v) by (symmetry; exact Eg)
           end.
           refine (eq_trans E _). rewrite dict_set_fresh_s by (apply Hfresh; left; reflexivity).
           rewrite <- app_assoc. cbn [app].
           rewrite (bool_model_ext r (dict_remove bit_eqb (x, 0%nat) bits) bits);
             [reflexivity|]. intros y Hy. apply dict_get_remove_other.
           intro Eq. inversion Eq; subst. auto.
        -- intros b Hb. rewrite Hag by (intros y Hy; apply Hb; right; auto).
           apply dict_get_remove_other. apply Hb. left; reflexivity.
      * destruct (IH NDr bits acc) as (bits' & E & Hag).
        { intros y Hy. apply Hfresh. right; auto. }
        exists bits'. split.
        { match goal with
          | |- context [match ?g with Some _ => _ | None => Some (bits, acc) end] =>
            replace g with (@None bool) by (symmetry; exact Eg)
          end. exact E. }
        intros b Hb. apply Hag. intros y Hy. apply Hb. right; auto.
    + destruct (IH NDr bits acc) as (bits' & E & Hag).
      { intros y Hy. apply Hfresh. right; auto. }
      exists bits'. split; [exact E|].
      intros b Hb. apply Hag. intros y Hy. apply Hb. right.
      exact Hy.
Qed.

(* -- loop 3: the set of values of every integer variable the cube touches ---- *)
Definition step3 (fuel : nat) (bits : cube) (acc : list (ident * list Z))
    (xd : ident * vdecl) : option (list (ident * list Z)) :=
  match snd xd with
  | DBool => Some acc
  | DInt h =>
    let names := bitnames (fst xd) (DInt h) in
    if existsb (fun b => dict_has bit_eqb b bits) names then
      match Bits.append_sign_bit (Some false) (Some true)
              (map (fun b => dict_get bit_eqb b bits) names) h with
      | Some bv => Some (dict_set String.eqb (fst xd) (Bits.enumerate_int bv) acc)
      | None => None
      end
    else Some acc
  end.

Lemma dict_has_mem {V} (b : bit) (c : list (bit * V)) :
  dict_has bit_eqb b c = mem bit_eqb b (map fst c).
Proof.
  unfold dict_has. induction c as [|[k v] c IH]; cbn [dict_get map fst mem];
    [reflexivity|].
  destruct (bit_eqb b k); cbn [orb]; [reflexivity|exact IH].
Qed.

Lemma int_bit_not_bool t x h b y : NoDup (map fst t) ->
  In (x, DInt h) t -> In b (bitnames x (DInt h)) -> In (y, DBool) t ->
  b <> bool_bit y.
Proof.
  intros ND Hx Hb Hy ->. cbn [bitnames] in Hb. apply in_map_iff in Hb.
  destruct Hb as (i & E & _). unfold bool_bit in E. inversion E; subst.
  pose proof (in_tlookup t _ _ ND Hx). pose proof (in_tlookup t _ _ ND Hy).
  congruence.
Qed.

Lemma loop3_value fuel t (c bits : cube) : NoDup (map fst t) ->
  forall t2, incl t2 t -> NoDup (map fst t2) ->
  (forall x h b, In (x, DInt h) t2 -> In b (bitnames x (DInt h)) ->
     dict_get bit_eqb b bits = dict_get bit_eqb b c) ->
  forall acc, (forall x, In x (map fst t2) -> ~ In x (map fst acc)) ->
  fold_opt (step3 fuel bits) t2 acc =
  match int_sets t2 c with Some sets => Some (acc ++ sets) | None => None end.
Proof.
  intros ND t2. induction t2 as [|[x d] r IH]; intros Hincl ND2 Hag acc Hfresh.
  - cbn [fold_opt int_sets]. rewrite app_nil_r. reflexivity.
  - cbn [map fst] in ND2. inversion ND2 as [|? ? Hx NDr]; subst.
    assert (Hincl' : incl r t) by (intros z Hz; apply Hincl; right; auto).
    assert (Hag' : forall x h b, In (x, DInt h) r -> In b (bitnames x (DInt h)) ->
               dict_get bit_eqb b bits = dict_get bit_eqb b c)
      by (intros; eapply Hag; [right|]; eauto).
    cbn [fold_opt int_sets]. unfold step3 at 1. cbn [fst snd]. destruct d as [|h].
    + apply IH; auto. intros y Hy. apply Hfresh. right; auto.
    + assert (Hagx : forall b, In b (bitnames x (DInt h)) ->
                dict_get bit_eqb b bits = dict_get bit_eqb b c)
        by (intros; eapply Hag; [left; reflexivity|auto]).
      assert (Et : existsb (fun b => dict_has bit_eqb b bits) (bitnames x (DInt h)) =
                   existsb (fun b => mem bit_eqb b (map fst c)) (bitnames x (DInt h))).
      { clear - Hagx. induction (bitnames x (DInt h)) as [|b l IHl];
          cbn [existsb]; [reflexivity|].
        rewrite IHl by (intros; apply Hagx; right; auto).
        rewrite <- dict_has_mem. unfold dict_has.
        rewrite (Hagx b (or_introl eq_refl)). reflexivity. }
      cbv zeta. rewrite Et.
      destruct (existsb (fun b => mem bit_eqb b (map fst c)) (bitnames x (DInt h)));
        cbn [negb].
      * rewrite (map_ext_in _ (fun b => dict_get bit_eqb b c) _ Hagx).
        destruct (Bits.append_sign_bit (Some false) (Some true)
                    (map (fun b => dict_get bit_eqb b c) (bitnames x (DInt h))) h)
          as [bv|]; [|reflexivity].
        rewrite dict_set_fresh_s by (apply Hfresh; left; reflexivity).
        rewrite IH; auto.
        -- destruct (int_sets r c); [|reflexivity]. rewrite <- app_assoc. reflexivity.
        -- intros y Hy. rewrite map_app, in_app_iff. cbn [map fst In].
           intros [Hin|[<-|[]]]; [|auto]. apply (Hfresh y); [right; auto|auto].
      * apply IH; auto. intros y Hy. apply Hfresh. right; auto.
Qed.

Lemma int_sets_keys t c : forall sets, int_sets t c = Some sets ->
  (List.length sets <= List.length t)%nat /\
  (forall x, In x (map fst sets) -> exists h, In (x, DInt h) t) /\
  (NoDup (map fst t) -> NoDup (map fst sets)).
Proof.
  induction t as [|[x d] r IH]; intros sets E; cbn [int_sets] in E.
  - inversion E; subst. cbn. split; [lia|]. split; [intros ? []|]. intros _. constructor.
  - destruct d as [|h].
    + destruct (IH sets E) as (A & B & C). cbn [List.length map fst].
      split; [lia|]. split.
      * intros y Hy. destruct (B y Hy) as [h Hh]. exists h. right; auto.
      * intro ND. inversion ND; auto.
    + destruct (negb _).
      * destruct (IH sets E) as (A & B & C). cbn [List.length map fst].
        split; [lia|]. split.
        -- intros y Hy. destruct (B y Hy) as [h' Hh]. exists h'. right; auto.
        -- intro ND. inversion ND; auto.
      * destruct (Bits.append_sign_bit _ _ _ _) as [bv|]; [|discriminate].
        destruct (int_sets r c) as [rest|]; [|discriminate].
        inversion E; subst. destruct (IH rest eq_refl) as (A & B & C).
        cbn [List.length map fst]. split; [lia|]. split.
        -- intros y [<-|Hy]; [exists h; left; reflexivity|].
           destruct (B y Hy) as [h' Hh]. exists h'. right; auto.
        -- intro ND. inversion ND as [|? ? Hx NDr]; subst. constructor; auto.
           intro Hin. destruct (B x Hin) as [h' Hh]. apply Hx.
           apply in_map_iff. exists (x, DInt h'). auto.
Qed.

Lemma append_sign_bit_shape {A} (z o : A) bits h bv :
  Bits.append_sign_bit z o bits h = Some bv -> bits <> [] ->
  bv <> [] /\ (List.length bv <= List.length bits + 1)%nat.
Proof.
  unfold Bits.append_sign_bit. intros E Hne.
  destruct (h_signed h).
  - destruct (_ <? _)%nat; inversion E; subst. split; [auto|lia].
  - destruct (h_dom h) as [mn mx].
    destruct (mn * mx <? 0); [discriminate|].
    destruct (mn >=? 0); [|destruct (mx <? 0); [|discriminate]];
      inversion E; subst; rewrite app_length; cbn [List.length];
      (split; [destruct bits; discriminate|lia]).
Qed.

Local Notation gen_bitfields :=
  (EnumGen.bitfields_to_int_iter bit bit_eqb bool_bit).

(* THE TIE for _bitfields_to_int_iter: for every table whose names are
   distinct (it is a Python dict), every bit assignment and every sufficient
   fuel, the translated code fails exactly when the model does and otherwise
   yields, in this order, the dictionaries of the model with the sets reversed *)
Theorem bitfields_generated_is_model t c fuel :
  NoDup (map fst t) -> fuel_ok t fuel ->
  gen_bitfields fuel c (table_of t) =
  match bitfields_rev t c with
  | Some L => Some (Datatypes.tt, L)
  | None => None
  end.
Proof.
  intros ND [Hf1 Hf2]. unfold EnumGen.bitfields_to_int_iter, bitfields_rev.
  cbv zeta.
  (* loop 1 *)
  rewrite (loop_over_table _ step1 t)
    by (intros s [x [|h]] _; reflexivity).
  rewrite loop1_value, m_bind_some. cbn [app].
  rewrite is_nil_filter_forallb.
  change (forallb (fun x => mem bit_eqb x (all_bits t)) (map fst c))
    with (subset bit_eqb (map fst c) (all_bits t)).
  unfold m_assert.
  destruct (subset bit_eqb (map fst c) (all_bits t)); cbn [negb]; [|reflexivity].
  (* loop 2 *)
  rewrite (loop_over_table _ step2 t).
  2:{ intros [bits model] [x [|h]] _; [|reflexivity].
      cbn [fst snd entry_of e_type]. unfold step2, dict_has. cbn [fst snd].
      destruct (dict_get bit_eqb (bool_bit x) bits); reflexivity. }
  destruct (loop2_value t ND c []) as (bits' & E2 & Hag); [intros ? _ []|].
  match goal with
  | |- context [m_of_opt ?f] =>
    replace f with (Some (bits', bool_model t c)) by (symmetry; exact E2)
  end.
  rewrite m_bind_some.
  (* loop 3 *)
  rewrite (loop_over_table _ (step3 fuel bits') t).
  2:{ intros acc [x [|h]] Hin; [reflexivity|].
      cbn [fst snd entry_of e_type e_bitnames]. unfold step3. cbn [fst snd].
      cbv zeta. change (String.eqb "int" "bool") with false. cbv iota.
      rewrite is_nil_filter_existsb.
      destruct (existsb (fun b => dict_has bit_eqb b bits') (bitnames x (DInt h)))
        eqn:Et; cbn [negb]; [|reflexivity].
      assert (Hne : map (fun b => dict_get bit_eqb b bits') (bitnames x (DInt h)) <> []).
      { destruct (bitnames x (DInt h)); [discriminate|discriminate]. }
      rewrite append_sign_bit_generated_is_model by exact Hne.
      replace (hint_of _) with h by (destruct h; reflexivity).
      destruct (Bits.append_sign_bit (Some false) (Some true) _ h) as [bv|] eqn:Ea;
        [|reflexivity].
      rewrite m_bind_some.
      destruct (append_sign_bit_shape _ _ _ _ _ Ea Hne) as [Hbv Hlen].
      rewrite enumerate_int_generated_is_model_0; [reflexivity|exact Hbv|].
      rewrite map_length in Hlen. cbn [bitnames] in Hlen.
      rewrite map_length, seq_length in Hlen. specialize (Hf2 x h Hin). lia. }
  rewrite (loop3_value fuel t c bits' ND t (incl_refl t) ND).
  2:{ intros x h b Hx Hb. apply Hag. intros y Hy.
      eapply int_bit_not_bool; eauto. }
  2:{ intros ? _ []. }
  destruct (int_sets t c) as [sets|] eqn:Es; [|reflexivity].
  rewrite m_bind_some. cbn [app].
  destruct (int_sets_keys t c sets Es) as (Hlen & Hkeys & Hnd).
  apply take_product_generated_is_model; [unfold tbl, ident in *; lia|auto|].
  intros x Hx Hb. destruct (Hkeys x Hx) as [h Hh].
  apply in_map_iff in Hb. destruct Hb as ([y w] & <- & Hb). cbn [fst] in *.
  apply bool_model_in in Hb. destruct Hb as (bv & Hb & _).
  pose proof (in_tlookup t _ _ ND Hh). pose proof (in_tlookup t _ _ ND Hb).
  congruence.
Qed.

(* ==== the reversed model against the model =================================== *)
(* The model takes the first item of the dict of sets, the code the last: the
   two enumerate the same product, in another order and with the integer keys
   of each dictionary in the opposite order. *)
Lemma prod_rel_perm model sets sets' : Permutation sets sets' ->
  forall d, prod_rel model sets d ->
  exists d', prod_rel model sets' d' /\ Permutation d d'.
Proof.
  induction 1 as [|[x vals] l l' Hp IH|[x vx] [y vy] l|l l' l'' H1 IH1 H2 IH2];
    intros d Hd.
  - exists d. split; auto.
  - inversion Hd as [|? ? ? m v Hm Hv]; subst.
    destruct (IH m Hm) as (m' & Hm' & Hpm).
    exists (m' ++ [(x, VZ v)]). split; [constructor; auto|].
    apply Permutation_app_tail. exact Hpm.
  - inversion Hd as [|? ? ? m1 v1 Hm1 Hv1]; subst.
    inversion Hm1 as [|? ? ? m0 v0 Hm0 Hv0]; subst.
    exists ((m0 ++ [(y, VZ v1)]) ++ [(x, VZ v0)]). split.
    + constructor; [constructor; auto|auto].
    + rewrite <- !app_assoc. apply Permutation_app_head. cbn [app]. constructor.
  - destruct (IH1 d Hd) as (d1 & Hd1 & P1). destruct (IH2 d1 Hd1) as (d2 & Hd2 & P2).
    exists d2. split; auto. eapply Permutation_trans; eauto.
Qed.

Lemma extends_perm f (d d' : fasgn) : Permutation d d' -> extends f d -> extends f d'.
Proof.
  intros P H x v Hin. apply H. eapply Permutation_in; [apply Permutation_sym|]; eauto.
Qed.

(* number of dictionaries: the product of the sizes of the sets *)
Fixpoint prod_len (sets : list (ident * list Z)) : nat :=
  match sets with
  | [] => 1%nat
  | xs :: r => (List.length (snd xs) * prod_len r)%nat
  end.

Lemma take_product_length sets model :
  List.length (take_product sets model) = prod_len sets.
Proof.
  induction sets as [|[x vals] r IH]; cbn [take_product prod_len snd];
    [reflexivity|].
  rewrite (length_flat_map_const _ (List.length vals)) by (intro; apply map_length).
  f_equal. exact IH.
Qed.

Lemma prod_len_app a b : prod_len (a ++ b) = (prod_len a * prod_len b)%nat.
Proof.
  induction a as [|x a IH]; cbn [app prod_len]; [lia|]. rewrite IH. lia.
Qed.

Lemma prod_len_rev sets : prod_len (rev sets) = prod_len sets.
Proof.
  induction sets as [|x r IH]; cbn [rev prod_len]; [reflexivity|].
  rewrite prod_len_app, IH. cbn [prod_len]. lia.
Qed.

Section RevModel.
Variables (t : tbl) (c : cube).
Hypothesis Hwf : wf_tbl t.
Hypothesis Hc : cube_ok (all_bits t) c.

Let Lm := take_product (int_sets_spec t c) (bool_model t c).
Let Lr := take_product (rev (int_sets_spec t c)) (bool_model t c).

Lemma bitfields_rev_value : bitfields_rev t c = Some Lr.
Proof.
  destruct Hwf as [_ Hh]. destruct Hc as [_ Hkeys]. unfold bitfields_rev.
  assert (Hs : subset bit_eqb (map fst c) (all_bits t) = true)
    by (apply (subset_spec bit_eqb bit_eqb_spec); auto).
  rewrite Hs. cbn [negb]. rewrite int_sets_eq by auto. reflexivity.
Qed.

Lemma rev_to_model d : In d Lr -> exists d', In d' Lm /\ Permutation d d'.
Proof.
  intro H. apply take_product_rel in H.
  destruct (prod_rel_perm _ _ _ (Permutation_sym (Permutation_rev _)) d H)
    as (d' & H' & P).
  exists d'. split; auto. apply take_product_rel. auto.
Qed.

Lemma model_to_rev d' : In d' Lm -> exists d, In d Lr /\ Permutation d d'.
Proof.
  intro H. apply take_product_rel in H.
  destruct (prod_rel_perm _ _ _ (Permutation_rev _) d' H) as (d & Hd & P).
  exists d. split; [apply take_product_rel; auto|apply Permutation_sym; auto].
Qed.

Lemma rev_length : List.length Lr = List.length Lm.
Proof. unfold Lr, Lm. rewrite !take_product_length. apply prod_len_rev. Qed.

Lemma rev_nodup : NoDup Lr.
Proof.
  destruct (bitfields_spec t c Hwf Hc) as (L & E & _).
  apply take_product_nodup. intros x vals Hin. apply in_rev in Hin.
  apply int_sets_spec_in in Hin. destruct Hin as (h & Hin & _ & ->).
  apply enumerate_int_spec.
  destruct (pbits c x h) eqn:Ep; [|discriminate].
  assert (Hl : List.length (pbits c x h) = wnat h)
    by (unfold pbits; cbn [bitnames]; rewrite !map_length, seq_length; reflexivity).
  rewrite Ep in Hl. cbn in Hl. destruct Hwf as [_ Hh].
  destruct (Hh x h Hin) as [H1 _]. unfold wnat in Hl. lia.
Qed.

Lemma rev_holds f : in_range t f ->
  ((exists d, In d Lr /\ extends f d) <-> cube_holds c (encode t f) = true).
Proof.
  intro Hf.
  destruct (bitfields_spec t c Hwf Hc) as (L & E & _ & HA & _).
  rewrite (bitfields_value t c Hwf Hc) in E. inversion E; subst L.
  rewrite <- (HA f Hf). split.
  - intros (d & Hd & He). destruct (rev_to_model d Hd) as (d' & Hd' & P).
    exists d'. split; auto. eapply extends_perm; eauto.
  - intros (d' & Hd' & He). destruct (model_to_rev d' Hd') as (d & Hd & P).
    exists d. split; auto. eapply extends_perm; [apply Permutation_sym|]; eauto.
Qed.

Lemma rev_unique f d1 d2 : In d1 Lr -> In d2 Lr -> extends f d1 -> extends f d2 ->
  d1 = d2.
Proof.
  intros H1 H2. apply take_product_rel in H1. apply take_product_rel in H2.
  eapply prod_rel_unique; eauto.
Qed.

Lemma rev_dict_ok d : In d Lr ->
  NoDup (map fst d) /\
  (forall y w, In (y, w) d -> exists dy, In (y, dy) t /\ val_in_range dy w = true) /\
  (forall y, In y (map fst d) -> exists b, In b (map fst c) /\ fst b = y).
Proof.
  intro H. destruct (rev_to_model d H) as (d' & Hd' & P).
  destruct (yielded_dict_ok t c d' Hwf Hd') as (A & B & C).
  split; [|split].
  - eapply Permutation_NoDup; [|exact A]. apply Permutation_sym, Permutation_map. exact P.
  - intros y w Hin. apply B. eapply Permutation_in; eauto.
  - intros y Hy. apply C. eapply Permutation_in; [apply Permutation_map; exact P|auto].
Qed.

End RevModel.

(* the precise relation between what the translated code yields for one cube
   and what the model yields *)
Theorem bitfields_rev_vs_model t c : wf_tbl t -> cube_ok (all_bits t) c ->
  exists Lr Lm, bitfields_rev t c = Some Lr /\ Ctx.bitfields_to_int_iter t c = Some Lm /\
    List.length Lr = List.length Lm /\ NoDup Lr /\ NoDup Lm /\
    (forall d, In d Lr -> exists d', In d' Lm /\ Permutation d d') /\
    (forall d', In d' Lm -> exists d, In d Lr /\ Permutation d d').
Proof.
  intros Hwf Hc. eexists _, _.
  split; [apply bitfields_rev_value; auto|].
  split; [apply bitfields_value; auto|].
  split; [apply rev_length|].
  split; [apply rev_nodup; auto|].
  split.
  { destruct (bitfields_spec t c Hwf Hc) as (L & E & ND & _).
    rewrite (bitfields_value t c Hwf Hc) in E. inversion E; subst L. exact ND. }
  split; [apply rev_to_model|apply model_to_rev].
Qed.

(* ==== Context.pick_iter on top of the translated enumeration ================= *)
(* fol.Context.pick_iter with the TRANSLATED _bitfields_to_int_iter (and, inside
   it, the translated _append_sign_bit, _enumerate_int, _take_product_iter) in
   the place of the model's; the rest of the method (support, care bits, the
   assertion set(d).issubset(vrs)) is the hand-written model of Ctx.v *)
Definition ctx_pick_iter_gen (fuel : nat) (t : tbl) (u : pred)
    (care_vars : option (list ident)) (cubes : list cube)
    : option (list fasgn) :=
  match ctx_support t u with
  | None => None
  | Some support =>
    let vrs := set_union String.eqb support
                 (match care_vars with Some c => c | None => [] end) in
    match concat_opt
            (map (fun c => m_values (gen_bitfields fuel c (table_of t))) cubes) with
    | None => None
    | Some ds =>
      if forallb (fun d => subset String.eqb (map fst d) vrs) ds
      then Some ds else None
    end
  end.

Section PickIterGen.
Variables (t : tbl) (u : pred) (care_vars : option (list ident))
          (cb : option (list bit)) (cubes : list cube) (fuel : nat).
Hypothesis Hwf : wf_tbl t.
Hypothesis Hu : uses_only (all_bits t) u.
Hypothesis Hcare : care_bits_of t care_vars = Some cb.
Hypothesis Hct : contract (all_bits t) u cb cubes.
Hypothesis Hfuel : fuel_ok t fuel.

Let Lm (c : cube) := take_product (int_sets_spec t c) (bool_model t c).
Let Lr (c : cube) := take_product (rev (int_sets_spec t c)) (bool_model t c).

Lemma gen_cube_value c : In c cubes ->
  m_values (gen_bitfields fuel c (table_of t)) = Some (Lr c).
Proof.
  intro Hc. destruct Hwf as [ND _].
  rewrite bitfields_generated_is_model by auto.
  rewrite (bitfields_rev_value t c Hwf (ct_ok _ _ _ _ Hct c Hc)). reflexivity.
Qed.

Lemma in_yield_gen d :
  In d (List.concat (map Lr cubes)) <-> exists c, In c cubes /\ In d (Lr c).
Proof.
  rewrite in_concat. split.
  - intros (Lc & H1 & H2). apply in_map_iff in H1. destruct H1 as (c & <- & Hc). eauto.
  - intros (c & Hc & Hd). exists (Lr c). split; auto. apply in_map_iff. eauto.
Qed.

(* every dictionary of the translated code is, up to the order of its keys, a
   dictionary of the model, and conversely; same number *)
Lemma gen_to_model d : In d (List.concat (map Lr cubes)) ->
  exists d', In d' (List.concat (map Lm cubes)) /\ Permutation d d'.
Proof.
  intro H. apply in_yield_gen in H. destruct H as (c & Hc & Hd).
  destruct (rev_to_model t c d Hd) as (d' & Hd' & P). exists d'. split; auto.
  apply in_concat. exists (Lm c). split; auto. apply in_map_iff. eauto.
Qed.

Lemma model_to_gen d' : In d' (List.concat (map Lm cubes)) ->
  exists d, In d (List.concat (map Lr cubes)) /\ Permutation d d'.
Proof.
  intro H. apply in_concat in H. destruct H as (Lc & HLc & Hd).
  apply in_map_iff in HLc. destruct HLc as (c & <- & Hc).
  destruct (model_to_rev t c d' Hd) as (d & Hd0 & P). exists d. split; auto.
  apply in_yield_gen. eauto.
Qed.

Lemma gen_length :
  List.length (List.concat (map Lr cubes)) = List.length (List.concat (map Lm cubes)).
Proof.
  clear Hct Hcare. induction cubes as [|c r IH]; cbn [map List.concat]; [reflexivity|].
  rewrite !app_length, IH. f_equal. apply rev_length.
Qed.

Lemma pick_iter_gen_value :
  ctx_pick_iter_gen fuel t u care_vars cubes = Some (List.concat (map Lr cubes)).
Proof.
  assert (Em : ctx_pick_iter t u care_vars cubes = Some (List.concat (map Lm cubes)))
    by (apply (pick_iter_value t u care_vars cb cubes); auto).
  unfold ctx_pick_iter in Em. unfold ctx_pick_iter_gen.
  destruct (ctx_support t u) as [s|]; [|discriminate]. cbv zeta in *.
  rewrite (concat_opt_some _ (map Lr cubes)).
  2:{ rewrite map_map. apply map_ext_in. intros c Hc. apply gen_cube_value; auto. }
  rewrite (concat_opt_some _ (map Lm cubes)) in Em.
  2:{ rewrite map_map. apply map_ext_in. intros c Hc. apply bitfields_value; auto.
      apply (ct_ok _ _ _ _ Hct); auto. }
  set (vrs := set_union String.eqb s match care_vars with Some c => c | None => [] end) in *.
  destruct (forallb (fun d => subset String.eqb (map fst d) vrs)
              (List.concat (map Lm cubes))) eqn:Ef; [|discriminate].
  assert (Hall : forallb (fun d => subset String.eqb (map fst d) vrs)
                   (List.concat (map Lr cubes)) = true).
  { apply forallb_forall. intros d Hd. destruct (gen_to_model d Hd) as (d' & Hd' & P).
    rewrite forallb_forall in Ef. specialize (Ef d' Hd').
    apply (subset_spec String.eqb string_eqb_spec'). intros y Hy.
    pose proof (proj1 (subset_spec String.eqb string_eqb_spec' _ _) Ef) as Ef'.
    apply Ef'.
    eapply Permutation_in; [apply Permutation_map; exact P|auto]. }
  rewrite Hall. reflexivity.
Qed.

Lemma cube_of_yield_gen c d f : In c cubes -> In d (Lr c) -> in_range t f ->
  extends f d -> cube_holds c (encode t f) = true.
Proof.
  intros Hc Hd Hf He.
  apply (rev_holds t c Hwf (ct_ok _ _ _ _ Hct c Hc) f Hf). eauto.
Qed.

Theorem pick_iter_gen_sound d f : In d (List.concat (map Lr cubes)) ->
  in_range t f -> extends f d -> sem t u f = true.
Proof.
  intros Hd Hf He. apply in_yield_gen in Hd. destruct Hd as (c & Hc & Hd).
  unfold sem. rewrite (ct_cover _ _ _ _ Hct). apply existsb_exists.
  exists c. split; auto. eapply cube_of_yield_gen; eauto.
Qed.

Theorem pick_iter_gen_complete f : in_range t f -> sem t u f = true ->
  exists d, In d (List.concat (map Lr cubes)) /\ extends f d.
Proof.
  intros Hf Hs. unfold sem in Hs. rewrite (ct_cover _ _ _ _ Hct) in Hs.
  apply existsb_exists in Hs. destruct Hs as (c & Hc & Hh).
  apply (rev_holds t c Hwf (ct_ok _ _ _ _ Hct c Hc) f Hf) in Hh.
  destruct Hh as (d & Hd & He). exists d. split; auto. apply in_yield_gen. eauto.
Qed.

Theorem pick_iter_gen_unique f d1 d2 : in_range t f ->
  In d1 (List.concat (map Lr cubes)) -> In d2 (List.concat (map Lr cubes)) ->
  extends f d1 -> extends f d2 -> d1 = d2.
Proof.
  intros Hf H1 H2 E1 E2. apply in_yield_gen in H1. apply in_yield_gen in H2.
  destruct H1 as (c1 & Hc1 & Hd1). destruct H2 as (c2 & Hc2 & Hd2).
  pose proof (cube_of_yield_gen c1 d1 f Hc1 Hd1 Hf E1) as Hh1.
  pose proof (cube_of_yield_gen c2 d2 f Hc2 Hd2 Hf E2) as Hh2.
  destruct (ForallOrdPairs_In (ct_disjoint _ _ _ _ Hct) c1 c2 Hc1 Hc2) as [Ec|[Hx|Hx]].
  - subst c2. eapply rev_unique; eauto.
  - exfalso. eapply cubes_conflict_spec; eauto.
  - exfalso. eapply cubes_conflict_spec; eauto.
Qed.

Theorem pick_iter_gen_nodup : NoDup (List.concat (map Lr cubes)).
Proof.
  pose proof (ct_disjoint _ _ _ _ Hct) as Hd. pose proof (ct_ok _ _ _ _ Hct) as Hok.
  clear Hct Hcare. induction cubes as [|c r IH]; cbn [map List.concat]; [constructor|].
  inversion Hd as [|? ? Hc Hr]; subst. apply nodup_app.
  - apply rev_nodup; auto. apply Hok. left; auto.
  - apply IH; auto. intros; apply Hok; right; auto.
  - intros d Hd1 Hd2. apply in_concat in Hd2. destruct Hd2 as (Lc & HLc & Hd2).
    apply in_map_iff in HLc. destruct HLc as (c' & <- & Hc').
    destruct (rev_dict_ok t c Hwf d Hd1) as (NDd & Hv & _).
    destruct (extension_exists t d Hwf NDd Hv) as (f & Hf & He).
    rewrite Forall_forall in Hc. specialize (Hc c' Hc').
    assert (H1 : cube_holds c (encode t f) = true).
    { apply (rev_holds t c Hwf (Hok c (or_introl eq_refl)) f Hf). eauto. }
    assert (H2 : cube_holds c' (encode t f) = true).
    { apply (rev_holds t c' Hwf (Hok c' (or_intror Hc')) f Hf). eauto. }
    eapply cubes_conflict_spec; eauto.
Qed.

Theorem pick_iter_gen_values d : In d (List.concat (map Lr cubes)) ->
  NoDup (map fst d) /\
  forall y w, In (y, w) d -> exists dy, In (y, dy) t /\ val_in_range dy w = true.
Proof.
  intro Hd. apply in_yield_gen in Hd. destruct Hd as (c & Hc & Hd).
  destruct (rev_dict_ok t c Hwf d Hd) as (A & B & _). auto.
Qed.

End PickIterGen.

(* ==== summary: the C07 statements about the translated code =================== *)
(* _enumerate_int as translated enumerates exactly the values of the total bit
   vectors that agree with the partial one, each once *)
Theorem enumerate_int_gen_spec fuel bs : bs <> [] -> (List.length bs <= fuel)%nat ->
  exists l, m_values (EnumGen.enumerate_int fuel bs 0) = Some l /\
    (forall v, In v l <-> exists bits, agrees bs bits /\ twos_complement_to_int bits = v) /\
    NoDup l.
Proof.
  intros Hne Hf. exists (Bits.enumerate_int bs).
  rewrite enumerate_int_generated_is_model_0 by auto.
  split; [reflexivity|]. apply enumerate_int_spec; auto.
Qed.

Theorem pick_iter_gen_spec t u care_vars cb cubes fuel :
  wf_tbl t -> uses_only (all_bits t) u ->
  care_bits_of t care_vars = Some cb ->
  contract (all_bits t) u cb cubes -> fuel_ok t fuel ->
  exists ds, ctx_pick_iter_gen fuel t u care_vars cubes = Some ds /\
    NoDup ds /\
    (forall d, In d ds -> NoDup (map fst d) /\
       forall y w, In (y, w) d -> exists dy, In (y, dy) t /\ val_in_range dy w = true) /\
    (forall d f, In d ds -> in_range t f -> extends f d -> sem t u f = true) /\
    (forall f, in_range t f -> sem t u f = true -> exists d, In d ds /\ extends f d) /\
    (forall f d1 d2, in_range t f -> In d1 ds -> In d2 ds ->
       extends f d1 -> extends f d2 -> d1 = d2).
Proof.
  intros Hwf Hu Hcare Hct Hfuel.
  eexists. split; [apply (pick_iter_gen_value t u care_vars cb cubes fuel); auto|].
  split; [apply (pick_iter_gen_nodup t u cb cubes); auto|].
  split; [intros d Hd; apply (pick_iter_gen_values t cubes Hwf d Hd)|].
  split; [intros d f; apply (pick_iter_gen_sound t u cb cubes); auto|].
  split; [intros f; apply (pick_iter_gen_complete t u cb cubes); auto|].
  intros f d1 d2. apply (pick_iter_gen_unique t u cb cubes); auto.
Qed.

Theorem pick_iter_gen_total t u care_vars cb cubes s fuel :
  wf_tbl t -> uses_only (all_bits t) u ->
  care_bits_of t care_vars = Some cb ->
  contract (all_bits t) u cb cubes -> fuel_ok t fuel ->
  ctx_support t u = Some s ->
  match care_vars with
  | None => True
  | Some cv => forall x, In x s -> In x cv
  end ->
  forall ds, ctx_pick_iter_gen fuel t u care_vars cubes = Some ds ->
  forall d, In d ds ->
  forall y, In y (map fst d) <->
            In y s \/ In y (match care_vars with Some cv => cv | None => [] end).
Proof.
  intros Hwf Hu Hcare Hct Hfuel Hs Hcov ds Hds d Hd y.
  rewrite (pick_iter_gen_value t u care_vars cb cubes fuel) in Hds by auto.
  inversion Hds; subst ds.
  destruct (gen_to_model t cubes d Hd) as (d' & Hd' & P).
  assert (Ht : In y (map fst d') <->
               In y s \/ In y (match care_vars with Some cv => cv | None => [] end))
    by (apply (pick_iter_total t u care_vars cb cubes s); auto).
  rewrite <- Ht.
  split; intro H; (eapply Permutation_in; [|exact H]);
    [apply Permutation_map; exact P|apply Permutation_map, Permutation_sym; exact P].
Qed.

(* count = number of dictionaries yielded by the translated enumeration *)
Theorem count_eq_yield_gen t u cv cb cubes s fuel :
  wf_tbl t -> uses_only (all_bits t) u -> ctx_support t u = Some s ->
  (forall x, In x s -> In x cv) ->
  (forall x, In x cv -> exists d, tlookup x t = Some d) ->
  care_bits_of t (Some cv) = Some cb ->
  contract (all_bits t) u cb cubes -> fuel_ok t fuel ->
  exists n ds, ctx_count t u (Some cv) = Some n /\
    ctx_pick_iter_gen fuel t u (Some cv) cubes = Some ds /\
    n = Z.of_nat (List.length ds) /\ n = Z.of_nat (List.length cubes).
Proof.
  intros Hwf Hu Es Hcov Hd Hcare Hct Hfuel.
  destruct (count_eq_yield t u cv cb cubes s Hwf Hu Es Hcov Hd Hcare Hct)
    as (n & ds & Ec & Ep & En & Enc).
  rewrite (pick_iter_value t u (Some cv) cb cubes) in Ep by auto.
  inversion Ep; subst ds.
  exists n. eexists. split; [exact Ec|].
  split; [apply (pick_iter_gen_value t u (Some cv) cb cubes fuel); auto|].
  split; [|exact Enc]. rewrite (gen_length t cubes). exact En.
Qed.

Theorem count_eq_yield_default_gen t u cubes s fuel :
  wf_tbl t -> uses_only (all_bits t) u -> ctx_support t u = Some s ->
  contract (all_bits t) u None cubes -> fuel_ok t fuel ->
  exists n ds, ctx_count t u None = Some n /\
    ctx_pick_iter_gen fuel t u None cubes = Some ds /\ n = Z.of_nat (List.length ds).
Proof.
  intros Hwf Hu Es Hct Hfuel.
  destruct (count_eq_yield_default t u cubes s Hwf Hu Es Hct) as (n & ds & Ec & Ep & En).
  rewrite (pick_iter_value t u None None cubes) in Ep by auto.
  inversion Ep; subst ds.
  exists n. eexists. split; [exact Ec|].
  split; [apply (pick_iter_gen_value t u None None cubes fuel); auto|].
  rewrite (gen_length t cubes). exact En.
Qed.

(* enough fuel always exists *)
Lemma fuel_ok_exists t : exists fuel, fuel_ok t fuel.
Proof.
  exists (S (List.length t + fold_right (fun xd n => match snd xd with
                                                    | DInt h => wnat h + 1 + n
                                                    | DBool => n
                                                    end) 0 t))%nat.
  split; [lia|]. intros x h Hin.
  induction t as [|[y d] r IH]; [destruct Hin|].
  cbn [fold_right snd List.length]. destruct Hin as [E|Hin].
  - inversion E; subst. lia.
  - specialize (IH Hin). destruct d; lia.
Qed.

Theorem enumeration_model_is_translated_code :
  (forall (B T : Type) bits var (d : entry B), bits <> [] ->
     @EnumGen.append_sign_bit B T bits var d =
     m_of_opt (Bits.append_sign_bit (Some false) (Some true) bits (hint_of d))) /\
  (forall fuel bs j, 0 <= j < Z.of_nat (List.length bs) ->
     (Z.to_nat (Z.of_nat (List.length bs) - j) <= fuel)%nat ->
     EnumGen.enumerate_int fuel bs j =
     Some (Datatypes.tt, enumerate_int_from j (skipn (Z.to_nat j) bs))) /\
  (forall fuel bs, bs <> [] -> (List.length bs <= fuel)%nat ->
     EnumGen.enumerate_int fuel bs 0 = Some (Datatypes.tt, Bits.enumerate_int bs)) /\
  (forall fuel bs j, Z.of_nat (List.length bs) <= j ->
     EnumGen.enumerate_int fuel bs j = None) /\
  (forall sets fuel model, (List.length sets < fuel)%nat ->
     NoDup (map fst sets) ->
     (forall x, In x (map fst sets) -> ~ In x (map fst model)) ->
     EnumGen.take_product_iter fuel sets model =
     Some (Datatypes.tt, Ctx.take_product (rev sets) model)) /\
  (forall t c fuel, NoDup (map fst t) -> fuel_ok t fuel ->
     EnumGen.bitfields_to_int_iter bit bit_eqb bool_bit fuel c (table_of t) =
     match bitfields_rev t c with
     | Some L => Some (Datatypes.tt, L)
     | None => None
     end) /\
  (forall t c, wf_tbl t -> cube_ok (all_bits t) c ->
     exists Lr Lm, bitfields_rev t c = Some Lr /\
       Ctx.bitfields_to_int_iter t c = Some Lm /\
       List.length Lr = List.length Lm /\ NoDup Lr /\ NoDup Lm /\
       (forall d, In d Lr -> exists d', In d' Lm /\ Permutation d d') /\
       (forall d', In d' Lm -> exists d, In d Lr /\ Permutation d d')).
Proof.
  split; [intros; apply append_sign_bit_generated_is_model; auto|].
  split; [intros; apply enumerate_int_generated_is_model; auto|].
  split; [intros; apply enumerate_int_generated_is_model_0; auto|].
  split; [intros; apply enumerate_int_generated_asserts; auto|].
  split; [intros; apply take_product_generated_is_model; auto|].
  split; [intros; apply bitfields_generated_is_model; auto|].
  intros; apply bitfields_rev_vs_model; auto.
Qed.
