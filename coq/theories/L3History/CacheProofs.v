(* fetch_sound: whatever `_fetch_expr` returns denotes the node it was asked
   about, for every interleaving of caching, collections, allocations with
   re-used identifiers, and fetches.  Without the re-validation it is false. *)
From Coq Require Import List Bool ZArith Lia.
From Omega Require Import L3History.Cache.
Import ListNotations.

Section CacheFacts.
Variables X Dn : Type.
Variable sem : X -> Dn.
Variable deq : Dn -> Dn -> bool.
Hypothesis deq_refl : forall d, deq d d = true.

Local Notation st := (st X Dn).
Local Notation add := (add X Dn sem deq).
Local Notation fetch := (fetch X Dn sem deq).
Local Notation cache_expr := (cache_expr X Dn sem deq).
Local Notation alloc := (alloc X Dn deq).
Local Notation collect := (collect X Dn).
Local Notation clear_scan := (clear_scan X Dn sem deq).
Local Notation clear_invalid := (clear_invalid X Dn sem deq).
Local Notation estep := (estep X Dn sem deq).
Local Notation erun := (erun X Dn sem deq).
Local Notation find_den := (find_den Dn deq).

Definition wf (s : st) : Prop := NoDup (map fst (live X Dn s)).

Lemma lookup_In : forall (A : Type) u (l : list (uid * A)) a,
  lookup u l = Some a -> In (u, a) l.
Proof.
  induction l as [|[k b] l IH]; simpl; intros a H; [discriminate|].
  destruct (Z.eqb u k) eqn:E.
  - apply Z.eqb_eq in E. subst. injection H as ->. left. reflexivity.
  - right. apply IH, H.
Qed.

Lemma In_lookup : forall (A : Type) u (l : list (uid * A)) a,
  NoDup (map fst l) -> In (u, a) l -> lookup u l = Some a.
Proof.
  induction l as [|[k b] l IH]; simpl; intros a ND H; [contradiction|].
  inversion ND as [|? ? Hn ND']; subst.
  destruct H as [H|H].
  - injection H as -> ->. rewrite Z.eqb_refl. reflexivity.
  - destruct (Z.eqb u k) eqn:E.
    + apply Z.eqb_eq in E. subst. exfalso. apply Hn.
      change k with (fst (k, a)). apply in_map, H.
    + apply IH; assumption.
Qed.

Lemma find_den_spec : forall d l k,
  find_den d l = Some k -> exists d', In (k, d') l /\ deq d d' = true.
Proof.
  induction l as [|[k' d'] l IH]; simpl; intros k H; [discriminate|].
  destruct (deq d d') eqn:E.
  - injection H as <-. exists d'. split; [left; reflexivity|exact E].
  - destruct (IH _ H) as [d'' [A B]]. exists d''. split; [right; exact A|exact B].
Qed.

Lemma lookup_None_notin : forall (A : Type) u (l : list (uid * A)),
  lookup u l = None -> ~ In u (map fst l).
Proof.
  induction l as [|[k b] l IH]; simpl; intros H; [tauto|].
  destruct (Z.eqb u k) eqn:E; [discriminate|].
  apply Z.eqb_neq in E. intros [F|F]; [congruence|]. apply IH; assumption.
Qed.

(* the node `_add_expr` returns denotes the expression *)
Lemma add_spec : forall s e f s' u,
  add s e f = Some (s', u) -> wf s ->
  wf s' /\ cache X Dn s' = cache X Dn s /\
  exists d, lookup u (live X Dn s') = Some d /\ deq (sem e) d = true.
Proof.
  intros s e f s' u H W. unfold Cache.add in H.
  destruct (find_den (sem e) (live X Dn s)) as [k|] eqn:F.
  - injection H as <- <-. split; [exact W|]. split; [reflexivity|].
    destruct (find_den_spec _ _ _ F) as [d' [I E]].
    exists d'. split; [apply In_lookup; assumption|exact E].
  - destruct (lookup f (live X Dn s)) eqn:L; [discriminate|].
    injection H as <- <-. simpl. split; [|split; [reflexivity|]].
    + unfold wf. simpl. constructor; [apply lookup_None_notin, L|exact W].
    + exists (sem e). rewrite Z.eqb_refl. split; [reflexivity|apply deq_refl].
Qed.

(* fetch_sound, one step *)
Theorem fetch_sound_step : forall s u f s' e,
  wf s -> fetch s u f = Some (s', Some e) ->
  exists d, lookup u (live X Dn s') = Some d /\ deq (sem e) d = true.
Proof.
  intros s u f s' e W H. unfold Cache.fetch in H.
  destruct (lookup u (cache X Dn s)) as [e0|]; [|discriminate].
  destruct (add s e0 f) as [[s1 u1]|] eqn:A; [|discriminate].
  destruct (Z.eqb u u1) eqn:E; [|discriminate].
  injection H as <- <-. apply Z.eqb_eq in E. subst u1.
  destruct (add_spec _ _ _ _ _ A W) as [_ [_ D]]. exact D.
Qed.

(* ----------------------------------------------------------- reachability *)
Lemma remove_key_keys : forall (A : Type) u (l : list (uid * A)) k,
  In k (map fst (remove_key u l)) -> In k (map fst l).
Proof.
  induction l as [|[k' a] l IH]; simpl; intros k H; [contradiction|].
  destruct (Z.eqb u k'); simpl in *.
  - right. apply IH, H.
  - destruct H as [H|H]; [left; exact H|right; apply IH, H].
Qed.

Lemma remove_key_NoDup : forall (A : Type) u (l : list (uid * A)),
  NoDup (map fst l) -> NoDup (map fst (remove_key u l)).
Proof.
  induction l as [|[k' a] l IH]; simpl; intros ND; [constructor|].
  inversion ND as [|? ? Hn ND']; subst.
  destruct (Z.eqb u k'); simpl; [apply IH, ND'|].
  constructor; [|apply IH, ND'].
  intros H. apply Hn. eapply remove_key_keys, H.
Qed.

Lemma fold_remove_NoDup : forall (A : Type) dead (l : list (uid * A)),
  NoDup (map fst l) ->
  NoDup (map fst (fold_left (fun l k => remove_key k l) dead l)).
Proof.
  induction dead as [|k dead IH]; simpl; intros l ND; [exact ND|].
  apply IH, remove_key_NoDup, ND.
Qed.

Lemma clear_scan_wf : forall entries s fs inv s' inv',
  clear_scan s entries fs inv = Some (s', inv') -> wf s -> wf s'.
Proof.
  induction entries as [|[k e] entries IH]; simpl; intros s fs inv s' inv' H W.
  - injection H as <- _. exact W.
  - destruct (add s e (hd 0%Z fs)) as [[s1 u]|] eqn:A; [|discriminate].
    destruct (add_spec _ _ _ _ _ A W) as [W1 _]. eapply IH; eauto.
Qed.

Lemma estep_wf : forall s ev s', estep s ev = Some s' -> wf s -> wf s'.
Proof.
  intros s ev s' H W. destruct ev; simpl in H.
  - unfold Cache.cache_expr in H.
    destruct (add s e fresh) as [[s1 u]|] eqn:A; [|discriminate].
    simpl in H. injection H as <-. unfold wf. simpl.
    exact (proj1 (add_spec _ _ _ _ _ A W)).
  - unfold Cache.fetch in H.
    destruct (lookup u (cache X Dn s)) as [e0|].
    + destruct (add s e0 fresh) as [[s1 u1]|] eqn:A; [|discriminate].
      destruct (add_spec _ _ _ _ _ A W) as [W1 _].
      destruct (Z.eqb u u1); simpl in H; injection H as <-; exact W1.
    + simpl in H. injection H as <-. exact W.
  - unfold Cache.clear_invalid in H.
    destruct (clear_scan s (cache X Dn s) freshes []) as [[s1 inv]|] eqn:C; [|discriminate].
    injection H as <-. unfold wf. simpl. eapply clear_scan_wf; eauto.
  - injection H as <-. unfold wf, Cache.collect. simpl.
    apply fold_remove_NoDup, W.
  - unfold Cache.alloc in H.
    destruct (find_den d (live X Dn s)).
    + simpl in H. injection H as <-. exact W.
    + destruct (lookup fresh (live X Dn s)) eqn:L; [discriminate|].
      simpl in H. injection H as <-. unfold wf. simpl.
      constructor; [apply lookup_None_notin, L|exact W].
Qed.

Lemma erun_wf : forall evs s s', erun s evs = Some s' -> wf s -> wf s'.
Proof.
  induction evs as [|ev evs IH]; simpl; intros s s' H W.
  - injection H as <-. exact W.
  - destruct (estep s ev) as [s1|] eqn:E; [|discriminate].
    eapply IH; [exact H|]. eapply estep_wf; eauto.
Qed.

(* fetch_sound: in every state reachable from the empty cache by any
   sequence of events (the adversary chooses collections and identifiers) *)
Theorem fetch_sound : forall evs s u f s' e,
  erun (empty X Dn) evs = Some s ->
  fetch s u f = Some (s', Some e) ->
  exists d, lookup u (live X Dn s') = Some d /\ deq (sem e) d = true.
Proof.
  intros evs s u f s' e R H. eapply fetch_sound_step; [|exact H].
  eapply erun_wf; [exact R|]. unfold wf. simpl. constructor.
Qed.
End CacheFacts.

(* without the re-validation: cache expression 1 at node 5, collect node 5,
   another operation re-binds 5 to the denotation of expression 2; the
   unchecked fetch of node 5 answers "expression 1".  (Expressions are
   numbers that denote themselves.) *)
Definition bad_run : list (event nat nat) :=
  [ECache 1 5%Z; ECollect [5%Z]; EAlloc 2 5%Z].

Example fetch_unchecked_unsound :
  exists s d,
    erun nat nat (fun e => e) Nat.eqb (empty nat nat) bad_run = Some s /\
    fetch_unchecked nat nat s 5%Z = Some 1 /\
    lookup 5%Z (live nat nat s) = Some d /\ Nat.eqb 1 d = false.
Proof. eexists. exists 2. repeat split; reflexivity. Qed.

(* the checked fetch on the same run drops the stale entry *)
Example fetch_checked_on_bad_run :
  exists s s',
    erun nat nat (fun e => e) Nat.eqb (empty nat nat) bad_run = Some s /\
    fetch nat nat (fun e => e) Nat.eqb s 5%Z 9%Z = Some (s', None) /\
    cache nat nat s' = [].
Proof. eexists. eexists. repeat split; reflexivity. Qed.

(* non-vacuity of fetch_sound: a fetch that does return an expression *)
Example fetch_returns_example :
  exists s s',
    erun nat nat (fun e => e) Nat.eqb (empty nat nat) [ECache 1 5%Z; EAlloc 2 6%Z] = Some s /\
    fetch nat nat (fun e => e) Nat.eqb s 5%Z 9%Z = Some (s', Some 1).
Proof. eexists. eexists. split; reflexivity. Qed.
