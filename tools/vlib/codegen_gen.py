"""Regenerate coq/gen/CodegenGen.v from omega/symbolic/codegen.py
(tie T for C13; translator tools/py2coq_codegen.py).

Translated on every run: _latch_name, _latch_ref, _register_nodes,
_append_sep, _comment_level, _dumps_node, _dumps_layer, _collect_layers,
dumps_bdd_as_code, int_to_bits, assign_bitvectors, _list_bits and
omega/logic/bitvector.py twos_complement_to_int.  The theorems of
coq/GenProofs/CodegenBridge.v (generated code = hand-written model
L7Codegen/{Bits,Dag,Render,Step}.v) are about these generated definitions and are
re-proved on every run.  The generated file imports gen/C13_tables.v (the
`languages` table): write that first.
"""
import os
import sys

sys.path.insert(0, os.path.join(os.path.dirname(__file__), '..'))
import py2coq  # noqa: E402
import py2coq_codegen  # noqa: E402
from vlib.core import Broken, REPO  # noqa: E402

GEN = 'gen/CodegenGen.v'
SRC = py2coq_codegen.SRC
SOURCES = [py2coq_codegen.SRC, py2coq_codegen.BV_SRC]
FUNCTIONS = [('bitvector.' if py2coq_codegen.SIGS[n].get('mod') == 'bv'
              else 'codegen.') + n for n in py2coq_codegen.ORDER]


def codegen_text():
    """(text of gen/CodegenGen.v, translator notes, texts met)."""
    return py2coq_codegen.generate(REPO)


def ensure_codegen(ctx):
    """Translate the current codegen.py; write and compile gen/CodegenGen.v.

    Returns (notes, [(text, tokens)]).  A refusal of the translator (the
    source left the supported subset) is a broken tie."""
    try:
        text, notes, templates = codegen_text()
    except py2coq.Refuse as e:
        raise Broken('translator', f'{", ".join(SOURCES)}: {e}')
    except (SyntaxError, OSError) as e:
        raise Broken('translator', f'{", ".join(SOURCES)}: {e}')
    ctx.write_gen(GEN, text)
    return notes, templates


if __name__ == '__main__':
    print(codegen_text()[0])
