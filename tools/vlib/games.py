"""Random finite game arenas on the real `omega` + their literal tables.

An `Arena` owns a `temporal.Automaton` with constants, environment and
component variables, enumerates *all bit-range valuations* of each group
(so values outside the type hints are included, as the properties demand)
and converts between BDDs and truth tables at the *bit level* of `dd`
(own two's-complement encoding, not omega's refinement code, so that the
game checks do not depend on the code checked by C07).
"""
import itertools
import zlib
import logging

logging.disable(logging.CRITICAL)

import omega.symbolic.temporal as trl  # noqa: E402

import contextlib
import io


@contextlib.contextmanager
def quiet():
    """Swallow what the library prints (realizability messages, warnings)."""
    with contextlib.redirect_stdout(io.StringIO()):
        yield


KINDS = ['bool', (0, 1), (0, 2), (-1, 1), (-2, -1), (0, 3), (-2, 1), (1, 1)]


def set_backend(aut, backend):
    if backend == 'autoref':
        import dd.autoref as _bdd
        aut.bdd = _bdd.BDD()
    elif backend == 'cudd':
        import dd.cudd as _bdd
        aut.bdd = _bdd.BDD()
    else:
        raise ValueError(backend)


def var_values(d):
    """All values representable in the bits of a declared variable."""
    if d['type'] == 'bool':
        return [False, True]
    w = d['width']
    if d['signed']:
        return list(range(-2 ** (w - 1), 2 ** (w - 1)))
    lo, hi = d['dom']
    if lo >= 0:
        return list(range(0, 2 ** w))
    return list(range(-2 ** w, 0))


def value_bits(name, d, val, primed=False):
    """Bit assignment {bitname: bool} for variable `name` = val."""
    p = "'" if primed else ''
    if d['type'] == 'bool':
        return {name + p: bool(val)}
    w = d['width']
    if d['signed']:
        u = val % (2 ** w)
    else:
        lo, hi = d['dom']
        u = val if lo >= 0 else val + 2 ** w
    assert 0 <= u < 2 ** w, (name, val, d)
    return {f'{name}_{i}{p}': bool((u >> i) & 1) for i in range(w)}


class Arena:
    def __init__(self, decl, backend='autoref'):
        """decl: dict(const={name: kind}, env={...}, sys={...})."""
        self.decl = decl
        self.backend = backend
        aut = trl.Automaton()
        set_backend(aut, backend)
        # history independence: for about a third of the declarations
        # (chosen by a hash of the declaration, so that a replay rebuilds the
        # same history) the automaton is USED before it is complete: the
        # first group of identifiers is declared, primed, stepped and solved
        # on, and only then are the other identifiers declared.  Nothing the
        # library caches at first use may outlive the later declarations.
        key = repr([(g, sorted(decl.get(g, {}).items()))
                    for g in ('const', 'env', 'sys')]) + backend
        self.history = 'warm' if zlib.crc32(key.encode()) % 3 == 0 else 'plain'
        if self.history == 'warm':
            self._warm_up(aut, decl)
        else:
            if decl.get('const'):
                aut.declare_constants(**decl['const'])
            for g in ('env', 'sys'):
                if decl.get(g):
                    aut.declare_variables(**decl[g])
        aut.varlist['env'] = list(decl.get('env', {}))
        aut.varlist['sys'] = list(decl.get('sys', {}))
        aut.prime_varlists()
        self.aut = aut
        self.refresh()

    @staticmethod
    def _warm_up(aut, decl):
        """Declare the component's identifiers, use the automaton (priming,
        one-step operators, image, both solvers), then declare the rest."""
        import contextlib
        import io
        import omega.games.gr1 as gr1
        import omega.symbolic.fixpoint as fx
        import omega.symbolic.prime as prm
        first = dict(decl.get('sys', {}))
        if first:
            aut.declare_variables(**first)
            aut.varlist['env'] = list()
            aut.varlist['sys'] = list(first)
            aut.prime_varlists()
            n = sorted(first)[0]
            if first[n] == 'bool':
                u = aut.add_expr(n)
            else:
                u = aut.add_expr(f'{n} = {first[n][0]}')
            aut.action['env'] = aut.true
            aut.action['sys'] = aut.true
            aut.win['<>[]'] = [aut.false]
            aut.win['[]<>'] = [u]
            had = [a for a in ('moore', 'plus_one') if hasattr(aut, a)]
            saved = {a: getattr(aut, a) for a in had}
            aut.moore, aut.plus_one = True, True
            with contextlib.redirect_stdout(io.StringIO()):
                prm.prime(u, aut)
                prm.is_state_predicate(u)
                fx.step(aut.true, aut.true, u, aut)
                fx.ee_image(u, aut)
                gr1.solve_streett_game(aut)
                gr1.solve_rabin_game(aut)
            for a in ('moore', 'plus_one'):
                if a in saved:
                    setattr(aut, a, saved[a])
                else:
                    delattr(aut, a)
            del aut.action['env'], aut.action['sys']
            aut.win.clear()
        if decl.get('const'):
            aut.declare_constants(**decl['const'])
        if decl.get('env'):
            aut.declare_variables(**decl['env'])

    def refresh(self):
        """(Re)compute valuations of each group from the automaton."""
        aut = self.aut
        self.names = dict(const=list(self.decl.get('const', {})),
                          env=list(aut.varlist['env']),
                          sys=list(aut.varlist['sys']))
        self.vals = {}
        for g, names in self.names.items():
            doms = [var_values(aut.vars[n]) for n in names]
            self.vals[g] = [dict(zip(names, c))
                            for c in itertools.product(*doms)]
        self.nc = len(self.vals['const'])
        self.nx = len(self.vals['env'])
        self.ny = len(self.vals['sys'])
        self.ns = self.nc * self.nx * self.ny
        self.np = self.nx * self.ny
        # bit cubes
        self._bits = {}
        for g, primed in (('const', False), ('env', False), ('sys', False),
                          ('env', True), ('sys', True)):
            lst = []
            for val in self.vals[g]:
                b = {}
                for n, v in val.items():
                    b.update(value_bits(n, aut.vars[n], v, primed))
                lst.append(b)
            self._bits[(g, primed)] = lst
        self.allbits = sorted(
            set().union(*[set(b) for lst in self._bits.values()
                          for b in lst]) if self._bits else set())

    # ------------------------------------------------------------ indices
    def states(self):
        return list(itertools.product(range(self.nc), range(self.nx),
                                      range(self.ny)))

    def sidx(self, c, x, y):
        return (c * self.nx + x) * self.ny + y

    def state_dict(self, c, x, y):
        d = {}
        d.update(self.vals['const'][c])
        d.update(self.vals['env'][x])
        d.update(self.vals['sys'][y])
        return d

    def bits_of(self, c, x, y, xp=None, yp=None):
        b = {}
        b.update(self._bits[('const', False)][c])
        b.update(self._bits[('env', False)][x])
        b.update(self._bits[('sys', False)][y])
        if xp is not None:
            b.update(self._bits[('env', True)][xp])
            b.update(self._bits[('sys', True)][yp])
        return b

    # ------------------------------------------------------- BDD <-> table
    def bdd1(self, tab):
        """State predicate from list of bool indexed by sidx."""
        bdd = self.aut.bdd
        u = bdd.false
        for (c, x, y) in self.states():
            if tab[self.sidx(c, x, y)]:
                u |= bdd.cube(self.bits_of(c, x, y))
        return u

    def bdd2(self, tab):
        """Relation from list (by sidx) of lists (by xp*ny+yp)."""
        bdd = self.aut.bdd
        u = bdd.false
        for (c, x, y) in self.states():
            row = tab[self.sidx(c, x, y)]
            for xp in range(self.nx):
                for yp in range(self.ny):
                    if row[xp * self.ny + yp]:
                        u |= bdd.cube(self.bits_of(c, x, y, xp, yp))
        return u

    def _key_maps(self):
        if getattr(self, '_km', None) is None:
            km = {}
            for key, lst in self._bits.items():
                names = sorted(lst[0]) if lst else []
                km[key] = (names, {tuple(b[n] for n in names): i
                                   for i, b in enumerate(lst)})
            self._km = km
        return self._km

    def table2(self, u):
        """Truth table over (state, next) of BDD node u (bit level)."""
        bdd = self.aut.bdd
        tab = [[False] * self.np for _ in range(self.ns)]
        km = self._key_maps()
        for a in bdd.pick_iter(u, care_vars=self.allbits):
            idx = {}
            for key, (names, m) in km.items():
                idx[key] = m[tuple(bool(a[n]) for n in names)]
            s = self.sidx(idx[('const', False)], idx[('env', False)],
                          idx[('sys', False)])
            j = idx[('env', True)] * self.ny + idx[('sys', True)]
            tab[s][j] = True
        return tab

    def table1(self, u):
        """Truth table over states; asserts u is a state predicate."""
        t2 = self.table2(u)
        out = []
        for row in t2:
            assert all(b == row[0] for b in row), 'not a state predicate'
            out.append(row[0])
        return out

    def depends_on_primed(self, u):
        sup = self.aut.bdd.support(u)
        return any(b.endswith("'") for b in sup)


def random_decl(rng, max_states=32, allow_const=True):
    """Random declaration with nc*nx*ny <= max_states."""
    while True:
        decl = dict(const={}, env={}, sys={})
        ne = rng.choice([1, 1, 1, 2])
        ns = rng.choice([1, 1, 1, 2])
        for i in range(ne):
            decl['env'][f'x{i}' if ne > 1 else 'x'] = rng.choice(KINDS)
        for i in range(ns):
            decl['sys'][f'y{i}' if ns > 1 else 'y'] = rng.choice(KINDS)
        if allow_const and rng.random() < 0.25:
            # the same name is a constant in one game and a variable in
            # another one of the same process (nothing may be remembered by
            # identifier name across contexts)
            free = [c for c in ('k', 'k', 'x', 'y')
                    if c not in decl['env'] and c not in decl['sys']]
            decl['const'][rng.choice(free)] = rng.choice(
                ['bool', (0, 1), (-1, 0)])
        n = 1
        for g in decl.values():
            for k in g.values():
                n *= size_of_kind(k)
        if n <= max_states:
            return decl


def size_of_kind(k):
    if k == 'bool':
        return 2
    lo, hi = k
    signed = lo < 0 <= hi
    w = max(abs(lo), abs(hi)).bit_length() or 1
    if signed:
        w += 1
    return 2 ** w


def rand_table1(rng, ar, dens):
    return [rng.random() < dens for _ in range(ar.ns)]


def rand_table2(rng, ar, dens, no_yp=False, no_xp=False):
    """Random relation; no_yp: value independent of y'; no_xp: of x'."""
    tab = []
    for s in range(ar.ns):
        if no_yp:
            col = [rng.random() < dens for _ in range(ar.nx)]
            row = [col[xp] for xp in range(ar.nx) for yp in range(ar.ny)]
        elif no_xp:
            col = [rng.random() < dens for _ in range(ar.ny)]
            row = [col[yp] for xp in range(ar.nx) for yp in range(ar.ny)]
        else:
            row = [rng.random() < dens for _ in range(ar.np)]
        tab.append(row)
    return tab


def structured_sys_table(rng, ar):
    """Component action with some structure: bounded moves of y."""
    kind = rng.choice(['near', 'any', 'sparse'])
    tab = []
    for (c, x, y) in ar.states():
        row = []
        for xp in range(ar.nx):
            for yp in range(ar.ny):
                if kind == 'near':
                    ok = abs(yp - y) <= 1 or rng.random() < 0.1
                elif kind == 'any':
                    ok = rng.random() < 0.8
                else:
                    ok = rng.random() < 0.35
                row.append(ok)
        tab.append(row)
    return tab


# ---- Gallina literals ------------------------------------------------------
def lit1(tab):
    """list of bool as `bitsN len n` (see L4/Tables.v)."""
    n = sum(1 << i for i, b in enumerate(tab) if b)
    return f'(bitsN {len(tab)} {n}%N)'


def lit2(tab):
    return '[' + ';\n  '.join(lit1(r) for r in tab) + ']'


def litn(x):
    """nested lists of truth tables; innermost lists of bool -> bitsN."""
    if isinstance(x, bool):
        return 'true' if x else 'false'
    if x and all(isinstance(y, bool) for y in x):
        return lit1(x)
    return '[' + ';'.join(litn(y) for y in x) + ']'
