(* L2 / CompileProofs: the translation agrees with the integer semantics. *)
From Coq Require Import ZArith List Bool Lia.
From Omega Require Import L1Circuits.Circuits L1Circuits.CircuitsProofs L2Compile.Expr.
Import ListNotations.
Open Scope Z_scope.

(* a translated value represents a semantic value *)
Definition vrel (c : cval) (v : value) : Prop :=
  match c, v with
  | CB b, VB b' => b = b'
  | CZ l, VZ z => l <> [] /\ sval l = z
  | _, _ => False
  end.

(* accepted => well-typed, and equal unless a divisor is zero *)
Definition agrees (oc : option cval) (r : res) : Prop :=
  match oc with
  | None => True
  | Some c => match r with Ok v => vrel c v | DivZero => True | Ill => False end
  end.

(* ---------------------------------------------------------- assignments *)
Lemma alpha_nth : forall t be v,
  nth_error (alpha_of t be) v =
  match nth_error t v, nth_error be v with
  | Some ty, Some x => Some (val_of ty (fst x), val_of ty (snd x))
  | _, _ => None
  end.
Proof.
  induction t as [|ty t IH]; intros be v.
  - cbn [alpha_of]. destruct v; reflexivity.
  - destruct be as [|[a b] be]; cbn [alpha_of].
    + destruct v; cbn [nth_error]; [reflexivity|]. destruct (nth_error t v); reflexivity.
    + destruct v; cbn [nth_error fst snd]; [reflexivity|apply IH].
Qed.

Lemma alpha_upd : forall t be v ty p bs, nth_error t v = Some ty ->
  alpha_of t (upd_nth be v (upd2 p bs)) =
  upd_nth (alpha_of t be) v (upd2 p (val_of ty bs)).
Proof.
  induction t as [|ty' t IH]; intros be v ty p bs H.
  - destruct v; discriminate.
  - destruct be as [|[a b] be].
    + destruct v; reflexivity.
    + destruct v as [|v]; cbn [nth_error] in H.
      * injection H as ->. cbn [upd_nth alpha_of]. destruct p; reflexivity.
      * cbn [upd_nth alpha_of]. f_equal. now apply IH.
Qed.

(* --------------------------------------------------- representable values *)
Lemma all_bits_In : forall w bs, In bs (all_bits w) <-> length bs = w.
Proof.
  induction w as [|w IH]; intros bs; cbn [all_bits].
  - split; [intros [<-|[]]; reflexivity|]. destruct bs; [now left|discriminate].
  - rewrite in_app_iff, !in_map_iff. split.
    + intros [[r [<- H]]|[r [<- H]]]; cbn [length]; f_equal; now apply IH.
    + destruct bs as [|b bs]; [discriminate|]. cbn [length]. intros H. injection H as H.
      apply IH in H. destruct b; [right|left]; eauto.
Qed.

Lemma zrange_In : forall lo hi z, In z (zrange lo hi) <-> lo <= z <= hi.
Proof.
  intros lo hi z. unfold zrange. rewrite in_map_iff. split.
  - intros [i [<- H]]. apply in_seq in H. lia.
  - intros H. exists (Z.to_nat (z - lo)). split; [lia|]. apply in_seq. lia.
Qed.

Lemma dom_to_width_pos : forall lo hi,
  (1 <= snd (dom_to_width lo hi))%nat /\
  (fst (dom_to_width lo hi) = true -> (2 <= snd (dom_to_width lo hi))%nat).
Proof.
  intros lo hi. unfold dom_to_width.
  destruct ((lo <? 0) && (0 <=? hi))%bool; cbn [fst snd];
    destruct (bit_length (Z.max (Z.abs lo) (Z.abs hi))); split; intros; try lia; discriminate.
Qed.

(* the values of the bit field of a variable are exactly the interval of
   _bitfield_limits: every bit vector of the declared width decodes into it,
   and every value of it is the decoding of one *)
Lemma var_bits_limits : forall lo hi bs, length bs = snd (dom_to_width lo hi) ->
  let '(l, h) := limits lo hi in l <= sval (var_bits lo hi bs) <= h.
Proof.
  intros lo hi bs H. unfold limits, var_bits.
  destruct (dom_to_width_pos lo hi) as [W1 W2].
  destruct (dom_to_width lo hi) as [signed w]. cbn [fst snd] in *.
  destruct signed.
  - specialize (W2 eq_refl). assert (N : bs <> []) by (apply length_nonempty; lia).
    pose proof (sval_range bs N) as R. rewrite H in R.
    replace (Z.of_nat w - 1) with (Z.of_nat (w - 1)) by lia. lia.
  - rewrite sval_snoc, H. pose proof (uval_range bs) as R. rewrite H in R.
    destruct (lo <? 0); cbn [b2z]; lia.
Qed.

Lemma var_bits_onto : forall lo hi z,
  (let '(l, h) := limits lo hi in l <= z <= h) ->
  exists bs, length bs = snd (dom_to_width lo hi) /\ sval (var_bits lo hi bs) = z.
Proof.
  intros lo hi z. unfold limits, var_bits.
  destruct (dom_to_width_pos lo hi) as [W1 W2].
  destruct (dom_to_width lo hi) as [signed w]. cbn [fst snd] in *.
  destruct signed.
  - specialize (W2 eq_refl). intros H.
    replace (Z.of_nat w - 1) with (Z.of_nat (w - 1)) in H by lia.
    exists (to_bits (w - 1) z ++ [z <? 0]). split.
    + rewrite app_length, to_bits_length. cbn [length]. lia.
    + apply to_bits_sval. lia.
  - destruct (Z.ltb_spec lo 0) as [Hlo|Hlo]; intros H; exists (to_bits w z); rewrite to_bits_length;
      (split; [reflexivity|]).
    + replace true with (z <? 0) by (apply Z.ltb_lt; lia). apply to_bits_sval. lia.
    + replace false with (z <? 0) by (apply Z.ltb_ge; lia). apply to_bits_sval. lia.
Qed.

Lemma values_of_sound : forall ty bs, In bs (all_bits (nbits ty)) ->
  In (val_of ty bs) (values_of ty).
Proof.
  intros [|lo hi] bs H; apply all_bits_In in H; cbn [nbits val_of values_of] in *.
  - destruct bs as [|[|] [|]]; try discriminate; cbn; auto.
  - pose proof (var_bits_limits lo hi bs H) as L. destruct (limits lo hi) as [l h].
    apply in_map, zrange_In, L.
Qed.

Lemma values_of_complete : forall ty x, In x (values_of ty) ->
  exists bs, In bs (all_bits (nbits ty)) /\ val_of ty bs = x.
Proof.
  intros [|lo hi] x H; cbn [nbits val_of values_of] in *.
  - destruct H as [<-|[<-|[]]]; [exists [false]|exists [true]]; cbn; auto.
  - pose proof (var_bits_onto lo hi) as O. destruct (limits lo hi) as [l h].
    apply in_map_iff in H. destruct H as [z [<- H]]. apply zrange_In in H.
    destruct (O z H) as [bs [L S]]. exists bs. split; [now apply all_bits_In|]. now rewrite S.
Qed.

(* ------------------------------------------------------------ quantifiers *)
Lemma quant_agree : forall (A B : Type) fa (la : list A) (lb : list B)
  (f : A -> option cval) (g : B -> res) (h : A -> B),
  (forall a, In a la -> In (h a) lb) ->
  (forall b, In b lb -> exists a, In a la /\ h a = b) ->
  (forall a, In a la -> agrees (f a) (g (h a))) ->
  agrees (quant_c fa (map f la)) (quant_res fa (map g lb)).
Proof.
  intros A B fa la lb f g h Hs Hc Hag. unfold quant_c.
  destruct (forallb is_cb (map f la)) eqn:Ecb; [|exact I].
  rewrite forallb_forall in Ecb.
  assert (Fa : forall a, In a la -> exists c, f a = Some (CB c) /\
            (g (h a) = Ok (VB c) \/ g (h a) = DivZero)).
  { intros a Ha. specialize (Ecb (f a) (in_map f la a Ha)). specialize (Hag a Ha).
    destruct (f a) as [[c|l]|]; try discriminate. exists c. split; [reflexivity|].
    cbn in Hag. destruct (g (h a)) as [[b|z]| |]; cbn in Hag; try contradiction; subst; auto. }
  unfold quant_res.
  assert (E1 : forallb (fun r => is_okb r || is_dz r) (map g lb) = true).
  { apply forallb_forall. intros r Hr. apply in_map_iff in Hr. destruct Hr as [b [<- Hb]].
    destruct (Hc b Hb) as [a [Ha <-]]. destruct (Fa a Ha) as [c [_ [->| ->]]]; reflexivity. }
  rewrite E1. cbn [negb].
  destruct (existsb is_dz (map g lb)) eqn:Edz; [exact I|].
  assert (Nd : forall b, In b lb -> is_dz (g b) = false).
  { intros b Hb. destruct (is_dz (g b)) eqn:E; [|reflexivity].
    assert (existsb is_dz (map g lb) = true)
      by (apply existsb_exists; exists (g b); split; [now apply in_map|assumption]).
    congruence. }
  assert (Fa' : forall a, In a la -> exists c, f a = Some (CB c) /\ g (h a) = Ok (VB c)).
  { intros a Ha. destruct (Fa a Ha) as [c [E [G|G]]]; [eauto|].
    specialize (Nd (h a) (Hs a Ha)). rewrite G in Nd. discriminate. }
  cbn [agrees vrel]. destruct fa.
  - apply Bool.eq_iff_eq_true. rewrite !forallb_forall. split.
    + intros H r Hr. apply in_map_iff in Hr. destruct Hr as [b [<- Hb]].
      destruct (Hc b Hb) as [a [Ha <-]]. destruct (Fa' a Ha) as [c [E G]].
      specialize (H (f a) (in_map f la a Ha)). rewrite E in H. rewrite G.
      destruct c; [reflexivity|discriminate].
    + intros H r Hr. apply in_map_iff in Hr. destruct Hr as [a [<- Ha]].
      destruct (Fa' a Ha) as [c [E G]]. specialize (H (g (h a)) (in_map g lb _ (Hs a Ha))).
      rewrite G in H. rewrite E. destruct c; [reflexivity|discriminate].
  - apply Bool.eq_iff_eq_true. rewrite !existsb_exists. split.
    + intros [r [Hr T]]. apply in_map_iff in Hr. destruct Hr as [a [<- Ha]].
      destruct (Fa' a Ha) as [c [E G]]. exists (g (h a)). split; [apply in_map; auto|].
      rewrite E in T. rewrite G. destruct c; [reflexivity|discriminate].
    + intros [r [Hr T]]. apply in_map_iff in Hr. destruct Hr as [b [<- Hb]].
      destruct (Hc b Hb) as [a [Ha <-]]. destruct (Fa' a Ha) as [c [E G]].
      exists (f a). split; [now apply in_map|]. rewrite G in T. rewrite E.
      destruct c; [reflexivity|discriminate].
Qed.
(* ------------------------------------------------------------ definitions *)
Definition closure_rel (t : table) (cf : benv -> bool -> bool -> option cval)
  (sf : aenv -> bool -> res) : Prop :=
  forall be p a, agrees (cf be p a) (sf (alpha_of t be) p).

Inductive env_rel (t : table) : cenv -> senv -> Prop :=
| env_nil : env_rel t [] []
| env_cons : forall n cf sf ce se, closure_rel t cf sf -> env_rel t ce se ->
    env_rel t ((n, cf) :: ce) ((n, sf) :: se).

Lemma env_lookup : forall t ce se n, env_rel t ce se ->
  match lookup n ce, lookup n se with
  | Some cf, Some sf => closure_rel t cf sf
  | None, None => True
  | _, _ => False
  end.
Proof.
  intros t ce se n H. induction H as [|m cf sf ce se C _ IH]; cbn [lookup]; [exact I|].
  destruct (Nat.eqb n m); [exact C|exact IH].
Qed.

(* ------------------------------------------------------- operator lemmas *)
Lemma ext_ok_nonempty : forall x n, ext_ok x n = true -> x <> [].
Proof.
  intros x n H. unfold ext_ok in H. apply andb_prop in H as [H _]. apply andb_prop in H as [H _].
  apply Nat.leb_le in H. apply length_nonempty. lia.
Qed.

Lemma c_cmp_agrees : forall o x y r, x <> [] -> y <> [] -> c_cmp o x y = Some r ->
  r = sem_cmp o (sval x) (sval y).
Proof.
  intros o x y r Hx Hy H. unfold c_cmp in H.
  assert (E : r = comparator o x y).
  { destruct o; match type of H with (if ?c then _ else _) = _ => destruct c end;
      congruence. }
  rewrite E, comparator_spec by assumption. destruct o; reflexivity.
Qed.

Lemma c_arith_agrees : forall o x y r, x <> [] -> y <> [] -> c_arith o x y = Some r ->
  match sem_aop o (sval x) (sval y) with
  | Ok v => vrel (CZ r) v
  | DivZero => True
  | Ill => False
  end.
Proof.
  intros o x y r Hx Hy H. unfold c_arith in H. destruct o.
  - destruct (equalize_ok x y 1); [|discriminate]. injection H as <-.
    destruct (adder_spec x y true 1 Hx Hy (le_n 1)) as [L S]. cbv zeta in L, S.
    cbn [sem_aop vrel]. split; [apply length_nonempty; lia|exact S].
  - destruct (equalize_ok x y 1); [|discriminate]. injection H as <-.
    destruct (adder_spec x y false 1 Hx Hy (le_n 1)) as [L S]. cbv zeta in L, S.
    cbn [sem_aop vrel]. split; [apply length_nonempty; lia|exact S].
  - destruct (equalize_ok x y _); [|discriminate]. injection H as <-.
    destruct (multiplier_spec x y Hx Hy) as [L S].
    pose proof (nonempty_len x Hx). cbn [sem_aop vrel]. split; [apply length_nonempty; lia|exact S].
  - destruct (_ && _)%bool; [|discriminate]. cbn [sem_aop].
    destruct (Z.eqb_spec (sval y) 0) as [E|E]; [exact I|].
    pose proof (divider_spec x y Hx Hy E) as D.
    destruct (restoring_divider x y) as [quo rem]. injection H as <-.
    destruct D as (SQ & _ & LQ & _). cbn [vrel]. split; [apply length_nonempty; lia|exact SQ].
  - destruct (_ && _)%bool; [|discriminate]. cbn [sem_aop].
    destruct (Z.eqb_spec (sval y) 0) as [E|E]; [exact I|].
    pose proof (divider_spec x y Hx Hy E) as D.
    destruct (restoring_divider x y) as [quo rem]. injection H as <-.
    destruct D as (_ & SR & _ & LR). cbn [vrel]. split; [apply length_nonempty; lia|exact SR].
Qed.

Ltac inv_agrees H :=
  match type of H with
  | agrees ?c ?r =>
      let c' := fresh "c" in let r' := fresh "r" in
      destruct c as [[?|?]|]; destruct r as [[?|?]| |]; cbn [agrees vrel] in H;
      try contradiction; try exact I
  end.

Ltac fin :=
  try exact I;
  match goal with
  | |- agrees (match ?x with _ => _ end) DivZero => destruct x; fin
  | |- agrees (if ?x then _ else _) DivZero => destruct x; fin
  | |- agrees (let '(_, _) := ?x in _) DivZero => destruct x; fin
  end.

(* ------------------------------------------------------------ main theorem *)
Theorem ceval_agrees : forall t e be ce se prime arith, env_rel t ce se ->
  agrees (ceval t be ce prime arith e) (sem t (alpha_of t be) se prime e).
Proof.
  intros t. induction e; intros be ce se prime arith ER; cbn [ceval sem].
  - (* ETrue *) reflexivity.
  - reflexivity.
  - (* ENum *) cbn [agrees vrel]. destruct (int_to_twos_complement_spec z) as [S L].
    split; [apply length_nonempty; lia|exact S].
  - (* EVar *)
    rewrite alpha_nth. destruct (nth_error t v) as [ty|]; [|exact I].
    destruct (nth_error be v) as [[a b]|]; [|exact I]. cbn [fst snd].
    destruct ty as [|lo hi].
    + destruct prime; reflexivity.
    + destruct (2 <=? length (var_bits lo hi (sel prime (a, b))))%nat eqn:E; [|exact I].
      apply Nat.leb_le in E. cbn [agrees vrel]. destruct prime; cbn [sel fst snd val_of] in *;
        (split; [apply length_nonempty; lia|reflexivity]).
  - (* EOp *)
    pose proof (env_lookup t ce se n ER) as L.
    destruct (lookup n ce) as [cf|]; destruct (lookup n se) as [sf|]; try contradiction;
      [apply L|exact I].
  - (* ENot *)
    specialize (IHe be ce se prime arith ER).
    destruct (ceval t be ce prime arith e) as [[b|l]|];
      destruct (sem t (alpha_of t be) se prime e) as [[b'|z]| |];
      cbn [agrees vrel] in *; try contradiction; try exact I. now subst.
  - (* EBin *)
    specialize (IHe1 be ce se prime arith ER). specialize (IHe2 be ce se prime arith ER).
    destruct (ceval t be ce prime arith e1) as [[b1|l1]|];
      destruct (sem t (alpha_of t be) se prime e1) as [[b1'|z1]| |];
      cbn [agrees vrel] in IHe1; try contradiction; try exact I;
      destruct (ceval t be ce prime arith e2) as [[b2|l2]|];
      destruct (sem t (alpha_of t be) se prime e2) as [[b2'|z2]| |];
      cbn [agrees vrel bind2] in *; try contradiction; try exact I. now subst.
  - (* ECmp *)
    destruct arith; [exact I|].
    specialize (IHe1 be ce se prime true ER). specialize (IHe2 be ce se prime true ER).
    destruct (ceval t be ce prime true e1) as [[b1|l1]|];
      destruct (sem t (alpha_of t be) se prime e1) as [[b1'|z1]| |];
      cbn [agrees vrel] in IHe1; try contradiction; try exact I;
      destruct (ceval t be ce prime true e2) as [[b2|l2]|];
      destruct (sem t (alpha_of t be) se prime e2) as [[b2'|z2]| |];
      cbn [agrees vrel bind2] in *; try contradiction; try exact I.
    all: try solve [fin].
    + subst. destruct o; cbn [agrees vrel]; try exact I; destruct b1', b2'; reflexivity.
    + destruct IHe1 as [N1 <-]. destruct IHe2 as [N2 <-].
      destruct (c_cmp o l1 l2) as [r|] eqn:E; [|exact I].
      cbn [agrees vrel]. now apply c_cmp_agrees.
  - (* EArith *)
    destruct arith; [|exact I].
    specialize (IHe1 be ce se prime true ER). specialize (IHe2 be ce se prime true ER).
    destruct (ceval t be ce prime true e1) as [[b1|l1]|];
      destruct (sem t (alpha_of t be) se prime e1) as [[b1'|z1]| |];
      cbn [agrees vrel] in IHe1; try contradiction; try exact I;
      destruct (ceval t be ce prime true e2) as [[b2|l2]|];
      destruct (sem t (alpha_of t be) se prime e2) as [[b2'|z2]| |];
      cbn [agrees vrel bind2] in *; try contradiction; try exact I.
    all: try solve [fin].
    destruct IHe1 as [N1 <-]. destruct IHe2 as [N2 <-].
    destruct (c_arith o l1 l2) as [r|] eqn:E; [|exact I].
    cbn [agrees]. now apply c_arith_agrees.
  - (* EIn *)
    specialize (IHe be ce se prime false ER).
    destruct (ceval t be ce prime false e) as [[b|l]|];
      destruct (sem t (alpha_of t be) se prime e) as [[b'|z]| |];
      cbn [agrees vrel] in *; try contradiction; try exact I.
    all: try solve [fin].
    destruct IHe as [N <-].
    destruct (int_to_twos_complement_spec lo) as [S1 L1].
    destruct (int_to_twos_complement_spec hi) as [S2 L2].
    destruct (c_cmp CLe (int_to_twos_complement lo) l) as [r1|] eqn:E1; [|exact I].
    destruct (c_cmp CLe l (int_to_twos_complement hi)) as [r2|] eqn:E2; [|exact I].
    apply c_cmp_agrees in E1; [|apply length_nonempty; lia|assumption].
    apply c_cmp_agrees in E2; [|assumption|apply length_nonempty; lia].
    cbn [agrees vrel sem_cmp] in *. rewrite S1 in E1. rewrite S2 in E2. now subst.
  - (* EIte *)
    specialize (IHe1 be ce se prime false ER).
    specialize (IHe2 be ce se prime arith ER). specialize (IHe3 be ce se prime arith ER).
    destruct (ceval t be ce prime false e1) as [[g|lg]|];
      destruct (sem t (alpha_of t be) se prime e1) as [[g'|zg]| |];
      cbn [agrees vrel] in IHe1; try contradiction; try exact I;
      destruct (ceval t be ce prime arith e2) as [[b2|l2]|];
      destruct (sem t (alpha_of t be) se prime e2) as [[b2'|z2]| |];
      cbn [agrees vrel] in IHe2; try contradiction; try exact I;
      destruct (ceval t be ce prime arith e3) as [[b3|l3]|];
      destruct (sem t (alpha_of t be) se prime e3) as [[b3'|z3]| |];
      cbn [agrees vrel sem_ite] in *; try contradiction; try exact I;
      destruct arith; try exact I.
    all: try solve [fin].
    + subst. cbn [agrees vrel]. rewrite ite_connective_spec. reflexivity.
    + destruct IHe2 as [N2 <-]. destruct IHe3 as [N3 <-]. subst.
      destruct (equalize_ok l2 l3 0); [|exact I].
      pose proof (equalize_width_spec l2 l3 0 N2 N3) as H.
      destruct (equalize_width l2 l3 0) as [p q]. cbv zeta in H.
      destruct H as (Lp & Lq & Sp & Sq & _ & _ & Np & Nq).
      cbn [agrees vrel]. rewrite ite_function_spec by lia.
      destruct g'; split; assumption.
  - (* ELet *)
    pose proof (env_lookup t ce se n ER) as L.
    destruct (lookup n ce); destruct (lookup n se); try contradiction; [exact I|].
    apply IHe2. constructor; [|exact ER].
    intros be' p a. apply IHe1. exact ER.
  - (* EPrime *) apply IHe. exact ER.
  - (* EQuant *)
    destruct arith; [exact I|].
    destruct (nth_error t v) as [ty|] eqn:Et; [|exact I].
    apply (quant_agree _ _ fa (all_bits (nbits ty)) (values_of ty)
             (fun bs => ceval t (upd_nth be v (upd2 (prime || pv) bs)) ce prime false e)
             (fun x => sem t (upd_nth (alpha_of t be) v (upd2 (prime || pv) x)) se prime e)
             (val_of ty)).
    + apply values_of_sound.
    + apply values_of_complete.
    + intros bs _. rewrite <- (alpha_upd t be v ty _ bs Et). apply IHe. exact ER.
Qed.

(* Top level (Context.add_expr): if the translator accepts the predicate,
   the formula is well-typed, and for every assignment of the bits under
   which no divisor is zero the BDD's value is the truth value of the formula
   under unbounded integer arithmetic at the integer assignment the bits
   encode. *)
Theorem compile_correct : forall t e be b,
  compile t e be = Some b ->
  match sem t (alpha_of t be) [] false e with
  | Ok v => v = VB b
  | DivZero => True
  | Ill => False
  end.
Proof.
  intros t e be b H. unfold compile in H.
  pose proof (ceval_agrees t e be [] [] false false (env_nil t)) as A.
  destruct (ceval t be [] false false e) as [[c|l]|]; try discriminate.
  injection H as <-.
  destruct (sem t (alpha_of t be) [] false e) as [[b'|z]| |]; cbn [agrees vrel] in A;
    try contradiction; try exact I. now subst.
Qed.

Theorem compile_bits_correct : forall t e be l,
  compile_bits t e be = Some l ->
  match sem t (alpha_of t be) [] false e with
  | Ok v => v = VZ (sval l)
  | DivZero => True
  | Ill => False
  end.
Proof.
  intros t e be l H. unfold compile_bits in H.
  pose proof (ceval_agrees t e be [] [] false true (env_nil t)) as A.
  destruct (ceval t be [] false true e) as [[c|l']|]; try discriminate.
  injection H as <-.
  destruct (sem t (alpha_of t be) [] false e) as [[b'|z]| |]; cbn [agrees vrel] in A;
    try contradiction; try exact I. destruct A as [_ <-]. reflexivity.
Qed.
