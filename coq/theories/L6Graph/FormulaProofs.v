(* L6Graph / FormulaProofs: the formula built by `conj` / `disj`
   (`_recurse_op`) denotes the n-ary conjunction / disjunction of the
   non-empty items, for every list of items. *)
From Coq Require Import List Bool ZArith Arith Lia.
Import ListNotations.
From Omega Require Import L6Graph.Formula.

(* the split point is the largest power of two strictly below n
   (the `assert c < n <= 2 * c` of syntax.recurse_binary) *)
Lemma split_point_bounds n :
  2 <= n -> 1 <= split_point n /\ split_point n < n /\ n <= 2 * split_point n.
Proof.
  intros Hn. unfold split_point.
  assert (H0 : 0 < n - 1) by lia.
  pose proof (Nat.log2_spec (n - 1) H0) as [Hlo Hhi].
  rewrite Nat.pow_succ_r' in Hhi.
  assert (2 ^ Nat.log2 (n - 1) <> 0) by (apply Nat.pow_nonzero; lia).
  lia.
Qed.

Lemma split_point_pow2 n : exists m, split_point n = 2 ^ m.
Proof. eexists. reflexivity. Qed.

Section Sem.
Variables EL NL : Type.
Variable esem : EL -> val -> val -> bool.
Variable nsem : NL -> val -> bool.
Local Notation form := (form EL NL).
Local Notation eval := (@eval EL NL esem nsem).

(* generic statement: [op] with controlling value cv and neutral value iv *)
Section Generic.
Variables (is_ctrl is_idn : form -> bool) (ctrl idn : form)
          (mk : form -> form -> form) (op : bool -> bool -> bool)
          (cv iv : bool).
Variables s s' : val.
Hypothesis is_ctrl_sem : forall x, is_ctrl x = true -> eval x s s' = cv.
Hypothesis is_idn_sem : forall x, is_idn x = true -> eval x s s' = iv.
Hypothesis ctrl_sem : eval ctrl s s' = cv.
Hypothesis idn_sem : eval idn s s' = iv.
Hypothesis mk_sem : forall x y,
  eval (mk x y) s s' = op (eval x s s') (eval y s s').
Hypothesis op_cv_l : forall b, op cv b = cv.
Hypothesis op_cv_r : forall b, op b cv = cv.
Hypothesis op_iv_l : forall b, op iv b = b.
Hypothesis op_iv_r : forall b, op b iv = b.

Definition fold_op (h : list form) : bool :=
  fold_right (fun x acc => op (eval x s s') acc) iv h.

Hypothesis op_assoc : forall a b c, op a (op b c) = op (op a b) c.

Lemma fold_op_app h1 h2 : fold_op (h1 ++ h2) = op (fold_op h1) (fold_op h2).
Proof.
  induction h1 as [|x h1 IH]; cbn.
  - now rewrite op_iv_l.
  - unfold fold_op in *. rewrite IH. apply op_assoc.
Qed.

Lemma recurse_op_generic fuel : forall h,
  length h <= fuel ->
  eval (recurse_op fuel is_ctrl is_idn ctrl idn mk h) s s' = fold_op h.
Proof.
  induction fuel as [|fuel IH]; intros h Hlen.
  - destruct h; [|cbn in Hlen; lia]. cbn. exact idn_sem.
  - destruct h as [|x1 [|x2 t]].
    + cbn. exact idn_sem.
    + cbn. now rewrite op_iv_r.
    + remember (x1 :: x2 :: t) as h0 eqn:Eh.
      assert (Hn : 2 <= length h0) by (subst h0; cbn; lia).
      pose proof (split_point_bounds _ Hn) as (Hc1 & Hc2 & _).
      set (c := split_point (length h0)) in *.
      assert (E : recurse_op (S fuel) is_ctrl is_idn ctrl idn mk h0 =
        let x := recurse_op fuel is_ctrl is_idn ctrl idn mk (firstn c h0) in
        let y := recurse_op fuel is_ctrl is_idn ctrl idn mk (skipn c h0) in
        if is_ctrl x || is_ctrl y then ctrl
        else if is_idn x then y else if is_idn y then x else mk x y).
      { subst h0. reflexivity. }
      rewrite E. clear E. cbv zeta.
      assert (Hx := IH (firstn c h0)). assert (Hy := IH (skipn c h0)).
      rewrite firstn_length in Hx. rewrite skipn_length in Hy.
      specialize (Hx ltac:(lia)). specialize (Hy ltac:(lia)).
      replace (fold_op h0) with (fold_op (firstn c h0 ++ skipn c h0))
        by now rewrite firstn_skipn.
      rewrite fold_op_app.
      rewrite <- Hx, <- Hy.
      set (x := recurse_op fuel is_ctrl is_idn ctrl idn mk (firstn c h0)).
      set (y := recurse_op fuel is_ctrl is_idn ctrl idn mk (skipn c h0)).
      destruct (is_ctrl x) eqn:Ecx; cbn [orb].
      { rewrite (is_ctrl_sem _ Ecx), op_cv_l. exact ctrl_sem. }
      destruct (is_ctrl y) eqn:Ecy.
      { rewrite (is_ctrl_sem _ Ecy), op_cv_r. exact ctrl_sem. }
      destruct (is_idn x) eqn:Eix.
      { rewrite (is_idn_sem _ Eix), op_iv_l. reflexivity. }
      destruct (is_idn y) eqn:Eiy.
      { rewrite (is_idn_sem _ Eiy), op_iv_r. reflexivity. }
      apply mk_sem.
Qed.
End Generic.

Definition eval_item (s s' : val) (it : option form) : bool :=
  match it with None => true | Some f => eval f s s' end.
Definition eval_item_or (s s' : val) (it : option form) : bool :=
  match it with None => false | Some f => eval f s s' end.

Lemma is_FTrue_sem (x : form) s s' : is_FTrue x = true -> eval x s s' = true.
Proof. destruct x; cbn; congruence. Qed.
Lemma is_FFalse_sem (x : form) s s' : is_FFalse x = true -> eval x s s' = false.
Proof. destruct x; cbn; congruence. Qed.

Lemma fold_and h s s' :
  fold_op andb true s s' h = forallb (fun f => eval f s s') h.
Proof. induction h; cbn; [reflexivity|]. unfold fold_op in IHh. now rewrite IHh. Qed.
Lemma fold_or h s s' :
  fold_op orb false s s' h = existsb (fun f => eval f s s') h.
Proof. induction h; cbn; [reflexivity|]. unfold fold_op in IHh. now rewrite IHh. Qed.

(* recurse_op_sem, conjunction: for every list h and fuel >= |h| *)
Theorem recurse_op_sem_conj fuel h s s' :
  length h <= fuel ->
  eval (recurse_op fuel is_FFalse is_FTrue FFalse FTrue FAnd h) s s'
  = forallb (fun f => eval f s s') h.
Proof.
  intros H. rewrite <- fold_and.
  apply recurse_op_generic with (cv := false); auto.
  - intros x. apply is_FFalse_sem.
  - intros x. apply is_FTrue_sem.
  - intros b. apply andb_false_r.
  - intros b. apply andb_true_r.
  - intros a b c. apply andb_assoc.
Qed.

Theorem recurse_op_sem_disj fuel h s s' :
  length h <= fuel ->
  eval (recurse_op fuel is_FTrue is_FFalse FTrue FFalse FOr h) s s'
  = existsb (fun f => eval f s s') h.
Proof.
  intros H. rewrite <- fold_or.
  apply recurse_op_generic with (cv := true); auto.
  - intros x. apply is_FTrue_sem.
  - intros x. apply is_FFalse_sem.
  - intros b. apply orb_true_r.
  - intros b. apply orb_false_r.
  - intros a b c. apply orb_assoc.
Qed.

Lemma forallb_nonempty items s s' :
  forallb (fun f => eval f s s') (nonempty items)
  = forallb (eval_item s s') items.
Proof.
  induction items as [|[f|] r IH]; cbn; [reflexivity| |]; now rewrite IH.
Qed.
Lemma existsb_nonempty items s s' :
  existsb (fun f => eval f s s') (nonempty items)
  = existsb (eval_item_or s s') items.
Proof.
  induction items as [|[f|] r IH]; cbn; [reflexivity| |]; now rewrite IH.
Qed.

(* `conj(items)` holds iff every non-empty item holds *)
Theorem conj_sem items s s' :
  eval (conj items) s s' = forallb (eval_item s s') items.
Proof.
  unfold conj. rewrite recurse_op_sem_conj by lia. apply forallb_nonempty.
Qed.

(* `disj(items)` holds iff some non-empty item holds *)
Theorem disj_sem items s s' :
  eval (disj items) s s' = existsb (eval_item_or s s') items.
Proof.
  unfold disj. rewrite recurse_op_sem_disj by lia. apply existsb_nonempty.
Qed.

(* fuel: any amount >= |h| gives the same formula (so `length h` is never
   exhausted and the choice of fuel is immaterial) *)
Lemma recurse_op_fuel is_ctrl is_idn ctrl idn mk fuel : forall fuel' h,
  length h <= fuel -> length h <= fuel' ->
  @recurse_op EL NL fuel is_ctrl is_idn ctrl idn mk h
  = recurse_op fuel' is_ctrl is_idn ctrl idn mk h.
Proof.
  induction fuel as [|fuel IH]; intros fuel' h H1 H2.
  - destruct h; [|cbn in H1; lia]. destruct fuel'; reflexivity.
  - destruct fuel' as [|fuel'].
    + destruct h; [reflexivity|cbn in H2; lia].
    + destruct h as [|x1 [|x2 t]]; try reflexivity.
      remember (x1 :: x2 :: t) as h0 eqn:Eh.
      assert (Hn : 2 <= length h0) by (subst h0; cbn; lia).
      pose proof (split_point_bounds _ Hn) as (Hc1 & Hc2 & _).
      assert (E : forall f, recurse_op (S f) is_ctrl is_idn ctrl idn mk h0 =
        let c := split_point (length h0) in
        let x := recurse_op f is_ctrl is_idn ctrl idn mk (firstn c h0) in
        let y := recurse_op f is_ctrl is_idn ctrl idn mk (skipn c h0) in
        if is_ctrl x || is_ctrl y then ctrl
        else if is_idn x then y else if is_idn y then x else mk x y).
      { intros f. subst h0. reflexivity. }
      rewrite !E. cbv zeta.
      rewrite (IH fuel' (firstn _ h0)), (IH fuel' (skipn _ h0));
        rewrite ?firstn_length, ?skipn_length; try lia.
      reflexivity.
Qed.

(* the result is never built from more than the items: a conjunction of
   zero items is the string 'TRUE', a disjunction 'FALSE' *)
Lemma conj_nil : @conj EL NL [] = FTrue.
Proof. reflexivity. Qed.
Lemma disj_nil : @disj EL NL [] = FFalse.
Proof. reflexivity. Qed.

End Sem.
