(* L2t / Thread: how bitvector.Nodes.*.flatten threads the memory buffer
   `mem` through an arithmetic expression under one comparator (the part of
   the translation that the value-level model Expr.ceval does not show):

     Comparator.flatten   mem = list(); p, q = flatten of the operands with
                          that one list; flatten_comparator(op, p, q, mem)
     Arithmetic.flatten   p, q = flatten of the operands with the caller's
                          list; flatten_arithmetic(op, p, q, mem)
     Operator.flatten     ite in arithmetic scope: guard flattened without
                          memory, branches with the caller's list, then
                          equalize_width, ite_function(start = len(mem)),
                          mem.extend
     Unary.flatten        X / ': same memory, prime flag set

   A parsed tree is a [pnode] (class name, operator / value, operands).
   [anode] is the shape of an arithmetic-scope tree: leaves are the nodes
   whose flatten returns bits without touching the memory (variables,
   numerals; their bits are given), the guard of an ite is a Boolean-scope
   node whose flatten returns one formula.  No proofs here (ThreadProofs.v). *)
From Coq Require Import String ZArith List Bool.
From Omega Require Import L1Circuits.Circuits L1Circuits.Deep L1Circuits.PyBits
  L2Compile.Expr L2Compile.Emit.
Import ListNotations.

Inductive pnode := PNode (cls op : string) (args : list pnode).

(* what a flatten method returns: a formula (str), bits (list) or a buffer
   text (str starting with $) *)
Inductive fres := RStr (b : bx) | RBits (l : list bx) | RBuf (f : fbuf).

Definition is_bits (r : fres) : bool := match r with RBits _ => true | _ => false end.

Inductive anode :=
| ALeaf (u : pnode) (bits : list bx)
| APrime (op : string) (a : anode)
| AArith (o : aop) (op : string) (a b : anode)
| AIte (g : pnode) (gb : bx) (a b : anode).

(* the tree that the parser builds *)
Fixpoint node_of (e : anode) : pnode :=
  match e with
  | ALeaf u _ => u
  | APrime op a => PNode "Unary" op [node_of a]
  | AArith _ op a b => PNode "Arithmetic" op [node_of a; node_of b]
  | AIte g _ a b => PNode "Operator" "ite" [g; node_of a; node_of b]
  end.

(* (result bits, memory after) *)
Fixpoint d_aflat (e : anode) (mem : list bx) : list bx * list bx :=
  match e with
  | ALeaf _ bits => (bits, mem)
  | APrime _ a => d_aflat a mem
  | AArith o _ a b =>
      let '(p, m1) := d_aflat a mem in
      let '(q, m2) := d_aflat b m1 in
      let '(r, cells) := d_flatten_arithmetic o p q (length m2) in
      (r, (m2 ++ cells)%list)
  | AIte _ gb a b =>
      let '(y, m1) := d_aflat a mem in
      let '(z, m2) := d_aflat b m1 in
      let '(p, q) := d_equalize_width y z 0 in
      let '(r, ite_mem) := d_ite_function gb p q (length m2) in
      (r, (m2 ++ ite_mem)%list)
  end.

(* Comparator.flatten on arithmetic operands: the cells of the buffer *)
Definition d_cmp_flat (o : cmp) (a b : anode) : list bx :=
  let '(p, m1) := d_aflat a [] in
  let '(q, m2) := d_aflat b m1 in
  d_comparator_mem o p q m2.

(* ---- values *)
Fixpoint reg_free (e : bx) : bool :=
  match e with
  | XC _ | XV _ => true
  | XR _ => false
  | XNot a => reg_free a
  | XAnd a b | XOr a b | XXor a b => reg_free a && reg_free b
  end.

Section Values.
Variable vars : nat -> bool.

Fixpoint aval (e : anode) : list bool :=
  match e with
  | ALeaf _ bits => map (evalx vars []) bits
  | APrime _ a => aval a
  | AArith o _ a b =>
      match o with
      | AAdd => fst (adder_subtractor (aval a) (aval b) true 1)
      | ASub => fst (adder_subtractor (aval a) (aval b) false 1)
      | AMul => multiplier (aval a) (aval b)
      | ADiv => fst (restoring_divider (aval a) (aval b))
      | AMod => snd (restoring_divider (aval a) (aval b))
      end
  | AIte _ gb a b =>
      let '(p, q) := equalize_width (aval a) (aval b) 0 in
      ite_function (evalx vars [] gb) p q
  end.
End Values.

(* leaves are non-empty and do not read registers (variable bits, constant
   bits); guards do not read registers of the enclosing buffer *)
Fixpoint awf (e : anode) : bool :=
  match e with
  | ALeaf _ bits => negb (Nat.eqb (length bits) 0) && forallb reg_free bits
  | APrime _ a => awf a
  | AArith _ _ a b => awf a && awf b
  | AIte _ gb a b => reg_free gb && awf a && awf b
  end.
