(* Properties of the Streett transducer model that hold for ARBITRARY
   iterate lists (so they do not depend on the solver being right):
   (a) every allowed step satisfies the component's specified action under
       the mode's causality rule;
   (b) a Moore implementation does not depend on the next environment values;
   (c) the goal counter is within range before and after every step in which
       the environment keeps its action. *)
From Coq Require Import List Bool Arith Lia.
Import ListNotations.
From Omega Require Import L4.Arena L4.ArenaFacts L4.Kleene L4.GameSpec.
From OmegaGen Require Import FixpointGen Gr1Gen.
From OmegaGP Require Import TransducerModel.

Ltac ext_all := repeat first [apply forallb_ext'; intro | apply existsb_ext'; intro].
Ltac strip := repeat (progress (alg_unfold; cbn [forall_raw exist_raw dom app]; ext_all)).

Lemma fold_left_inv {A B} (I : A -> Prop) (f : A -> B -> A) l a :
  I a -> (forall a b, I a -> I (f a b)) -> I (fold_left f l a).
Proof.
  intros Ha Hf. revert a Ha. induction l as [|b l IH]; intros a Ha; cbn [fold_left];
    [exact Ha|]. apply IH, Hf, Ha.
Qed.

Lemma fold_left_inv_in {A B} (I : A -> Prop) (f : A -> B -> A) l a :
  I a -> (forall a b, In b l -> I a -> I (f a b)) -> I (fold_left f l a).
Proof.
  revert a. induction l as [|b l IH]; intros a Ha Hf; cbn [fold_left]; [exact Ha|].
  apply IH; [apply Hf; [left; reflexivity|exact Ha]|].
  intros a' b' Hb'. apply Hf. right. exact Hb'.
Qed.

Lemma in_enumerate {A} (l : list A) k i x : In (i, x) (enumerate k l) -> In x l.
Proof.
  revert k. induction l as [|a l IH]; intros k; cbn [enumerate]; [intros []|].
  intros [H|H]; [left; congruence|right; apply (IH _ H)].
Qed.

Section StreettTP.
Variables nc nx ny G : nat.
Variables E S : bdd.
Variables holds goals : list bdd.
Variables moore plus_one : bool.

Local Notation nyE := (ny * G).
Local Notation band := (Arena.band nc nx nyE).
Local Notation bor := (Arena.bor nc nx nyE).
Local Notation bnot := (Arena.bnot nc nx nyE).
Local Notation ca := (Gr1Gen.controllable_action nc nx nyE E S moore plus_one 0).
Local Notation action := (streett_action nc nx ny G E S holds goals moore plus_one).

(* the component's obligation at a step: strict or stepwise implication *)
Definition oblig (v : V) : bool :=
  if plus_one then S v else negb (E v) || S v.
(* ... for every next environment value, if Moore *)
Definition oblig_mode (v : V) : bool :=
  if moore then forallb (fun x' => oblig (setg Envp v x')) (seq 0 nx) else oblig v.

Definition Sub (R : V -> bool) (u : bdd) : Prop := forall v, u v = true -> R v = true.

Lemma Sub_bor R a b : Sub R a -> Sub R b -> Sub R (bor a b).
Proof. intros Ha Hb v. rewrite bor_spec, orb_true_iff. intros [H|H]; auto. Qed.
Lemma Sub_band_l R a b : Sub R a -> Sub R (band a b).
Proof. intros Ha v. rewrite band_spec, andb_true_iff. intros [H _]; auto. Qed.
Lemma Sub_band_r R a b : Sub R b -> Sub R (band a b).
Proof. intros Hb v. rewrite band_spec, andb_true_iff. intros [_ H]; auto. Qed.
Lemma Sub_bfalse R : Sub R bfalse.
Proof. intros v H. discriminate. Qed.

Lemma ca_sub t e : Sub oblig_mode (ca t e).
Proof.
  intros v. unfold Gr1Gen.controllable_action, oblig_mode, oblig. cbv zeta.
  destruct v as [c x y xp yp].
  destruct e as [e|], plus_one, moore; strip;
    try (apply forallb_mono; intros x' _); strip;
    cbn [setg vc vx vy vxp vyp];
    repeat match goal with |- context [?f (mkV ?a ?b ?c ?d ?e)] =>
      is_var f; destruct (f (mkV a b c d e)) end;
    cbn; congruence.
Qed.

Lemma rho_1_sub z : Sub oblig_mode (rho_1 nc nx ny G E S goals moore plus_one z).
Proof. apply ca_sub. Qed.

Lemma rho_2_sub yij : Sub oblig_mode (rho_2 nc nx ny G E S moore plus_one yij).
Proof.
  unfold rho_2. apply fold_left_inv; [apply Sub_bfalse|].
  intros acc [i yj] Hacc.
  match goal with |- context [fold_left ?f ?l ?a] =>
    assert (Hin : Sub oblig_mode (fst (fold_left f l a))) end.
  { apply (fold_left_inv (fun p : bdd * bdd => Sub oblig_mode (fst p)));
      [apply Sub_bfalse|].
    intros [r basin] y Hr. cbn [fst]. apply Sub_bor; [exact Hr|].
    apply Sub_band_r, ca_sub. }
  destruct (fold_left _ (tl yj) _) as [r2 basin]. cbn [fst] in Hin.
  apply Sub_bor; [exact Hacc|]. apply Sub_band_l, Hin.
Qed.

Lemma rho_3_sub xijk : Sub oblig_mode (rho_3 nc nx ny G E S holds moore plus_one xijk).
Proof.
  unfold rho_3. apply fold_left_inv; [apply Sub_bfalse|].
  intros acc [i xjk] Hacc.
  match goal with |- context [fold_left ?f xjk ?a] =>
    assert (Hin : Sub oblig_mode (snd (fold_left f xjk a))) end.
  { apply (fold_left_inv (fun p : bdd * bdd => Sub oblig_mode (snd p)));
      [apply Sub_bfalse|].
    intros [used0 r0] xk Hp.
    apply (fold_left_inv (fun p : bdd * bdd => Sub oblig_mode (snd p))); [exact Hp|].
    intros [used r] [x hold] Hr. cbn [snd]. apply Sub_bor; [exact Hr|].
    apply Sub_band_l, Sub_band_r, ca_sub. }
  destruct (fold_left _ xjk _) as [used r3]. cbn [snd] in Hin.
  apply Sub_bor; [exact Hacc|]. apply Sub_band_l, Hin.
Qed.

(* (a) refinement of the specified action, any iterates *)
Theorem streett_action_refines z yij xijk :
  Sub oblig_mode (action z yij xijk).
Proof.
  unfold streett_action. cbv zeta.
  assert (H0 : Sub oblig_mode
    (band (bor (bor (rho_1 nc nx ny G E S goals moore plus_one z)
                    (rho_2 nc nx ny G E S moore plus_one yij))
               (rho_3 nc nx ny G E S holds moore plus_one xijk))
          (memo nc nx nyE (fun v => Nat.leb (cnt G v) (length goals - 1))))).
  { apply Sub_band_l. apply Sub_bor; [apply Sub_bor|];
      [apply rho_1_sub|apply rho_2_sub|apply rho_3_sub]. }
  destruct plus_one eqn:Ep; cbn [negb]; [exact H0|].
  set (u0 := band _ _) in *.
  destruct moore eqn:Em.
  - intros v. rewrite forall_spec. cbn [forall_raw dom]. unfold oblig_mode. rewrite Em.
    apply forallb_mono. intros x' Hx'. rewrite bor_spec, bnot_spec, orb_true_iff.
    intros [H|H].
    + specialize (H0 _ H). unfold oblig_mode in H0. rewrite Em in H0.
      rewrite forallb_forall in H0.
      specialize (H0 x' Hx').
      replace (setg Envp (setg Envp v x') x') with (setg Envp v x') in H0
        by (destruct v; reflexivity). exact H0.
    + unfold oblig. rewrite Ep. cbn [setg] in *. rewrite H. reflexivity.
  - intros v. rewrite bor_spec, bnot_spec, orb_true_iff. intros [H|H].
    + apply (H0 _ H).
    + unfold oblig_mode, oblig. rewrite Em, Ep. rewrite H. reflexivity.
Qed.

(* at valuations of the arena the Moore obligation includes the plain one *)
Lemma oblig_mode_oblig v : inr nc nx nyE v -> oblig_mode v = true -> oblig v = true.
Proof.
  intros Hv. unfold oblig_mode. destruct moore; [|auto].
  rewrite forallb_forall. intros H. specialize (H (vxp v)).
  replace (setg Envp v (vxp v)) with v in H by (destruct v; reflexivity).
  apply H. apply in_seq. unfold inr, in_range in Hv.
  repeat rewrite andb_true_iff in Hv. repeat rewrite Nat.ltb_lt in Hv. lia.
Qed.


End StreettTP.

(* ---------------------------------------------------------------- (b) *)
Section StreettTP_b.
Variables nc nx ny G : nat.
Variables E S : bdd.
Variables holds goals : list bdd.
Local Notation nyE := (ny * G).
Local Notation band := (Arena.band nc nx nyE).
Local Notation bor := (Arena.bor nc nx nyE).
Local Notation bnot := (Arena.bnot nc nx nyE).

(* independence of the next environment values *)
Definition indep (u : bdd) : Prop := forall v x', u (setg Envp v x') = u v.

Lemma indep_band a b : indep a -> indep b -> indep (band a b).
Proof. intros Ha Hb v x'. rewrite !band_spec, Ha, Hb. reflexivity. Qed.
Lemma indep_bor a b : indep a -> indep b -> indep (bor a b).
Proof. intros Ha Hb v x'. rewrite !bor_spec, Ha, Hb. reflexivity. Qed.
Lemma indep_bnot a : indep a -> indep (bnot a).
Proof. intros Ha v x'. rewrite !bnot_spec, Ha. reflexivity. Qed.
Lemma indep_bfalse : indep bfalse.
Proof. intros v x'. reflexivity. Qed.
Lemma indep_memo f : (forall v x', f (setg Envp v x') = f v) -> indep (memo nc nx nyE f).
Proof. intros H v x'. rewrite !memo_id. apply H. Qed.
Lemma indep_forall_envp u : indep (Arena.forall_ nc nx nyE [Envp] u).
Proof.
  intros v x'. rewrite !forall_spec. cbn [forall_raw dom].
  apply forallb_ext'. intros a. destruct v; reflexivity.
Qed.
Lemma indep_count_eq i ip : indep (count_eq nc nx ny G i ip).
Proof. apply indep_memo. intros v x'. destruct v; reflexivity. Qed.

Lemma indep_ca po t e :
  indep (Gr1Gen.controllable_action nc nx nyE E S true po 0 t e).
Proof.
  unfold Gr1Gen.controllable_action. cbv zeta.
  destruct e, po; apply indep_forall_envp.
Qed.

Lemma Forall_hd {A} (P : A -> Prop) d l : P d -> Forall P l -> P (hd d l).
Proof. intros Hd H. destruct H; [exact Hd|assumption]. Qed.
Lemma Forall_tl {A} (P : A -> Prop) l : Forall P l -> Forall P (tl l).
Proof. intros H. destruct H; [constructor|assumption]. Qed.

Theorem streett_action_moore_indep po z yij xijk :
  indep z -> Forall (Forall indep) yij -> Forall (Forall (Forall indep)) xijk ->
  Forall indep goals -> Forall indep holds ->
  indep (streett_action nc nx ny G E S holds goals true po z yij xijk).
Proof.
  intros Hz Hy Hx Hg Hh. unfold streett_action. cbv zeta.
  destruct po; cbn [negb]; [|apply indep_forall_envp].
  apply indep_band; [|apply indep_memo; intros v x'; destruct v; reflexivity].
  apply indep_bor; [apply indep_bor|].
  - apply indep_ca.
  - unfold rho_2. apply fold_left_inv_in; [apply indep_bfalse|].
    intros acc [i yj] Hin Hacc. apply in_enumerate in Hin.
    rewrite Forall_forall in Hy. specialize (Hy _ Hin).
    match goal with |- context [fold_left ?f ?l ?a] =>
      assert (Hinv : indep (fst (fold_left f l a)) /\ indep (snd (fold_left f l a))) end.
    { apply (fold_left_inv_in (fun p : bdd * bdd => indep (fst p) /\ indep (snd p))).
      - cbn [fst snd]. split; [apply indep_bfalse|].
        apply Forall_hd; [apply indep_bfalse|exact Hy].
      - intros [r basin] y Hyin [Hr Hb]. cbn [fst snd].
        assert (Hyi : indep y).
        { apply Forall_tl in Hy. rewrite Forall_forall in Hy. apply Hy, Hyin. }
        split.
        + apply indep_bor; [exact Hr|]. apply indep_band; [|apply indep_ca].
          apply indep_band; [exact Hyi|apply indep_bnot, Hb].
        + apply indep_bor; assumption. }
    destruct (fold_left _ (tl yj) _) as [r2 basin]. cbn [fst snd] in Hinv.
    apply indep_bor; [exact Hacc|]. apply indep_band; [apply Hinv|apply indep_count_eq].
  - unfold rho_3. apply fold_left_inv_in; [apply indep_bfalse|].
    intros acc [i xjk] Hin Hacc. apply in_enumerate in Hin.
    rewrite Forall_forall in Hx. specialize (Hx _ Hin).
    match goal with |- context [fold_left ?f xjk ?a] =>
      assert (Hinv : indep (fst (fold_left f xjk a)) /\ indep (snd (fold_left f xjk a))) end.
    { apply (fold_left_inv_in (fun p : bdd * bdd => indep (fst p) /\ indep (snd p))).
      - cbn [fst snd]. split; apply indep_bfalse.
      - intros [used0 r0] xk Hxk Hp. rewrite Forall_forall in Hx. specialize (Hx _ Hxk).
        apply (fold_left_inv_in (fun p : bdd * bdd => indep (fst p) /\ indep (snd p)));
          [exact Hp|].
        intros [used r] [x hold] Hxh [Hu Hr]. cbn [fst snd].
        pose proof (in_combine_l _ _ _ _ Hxh) as Hx1.
        pose proof (in_combine_r _ _ _ _ Hxh) as Hh1.
        rewrite Forall_forall in Hx, Hh.
        specialize (Hx _ Hx1). specialize (Hh _ Hh1).
        split.
        + apply indep_bor; assumption.
        + apply indep_bor; [exact Hr|]. apply indep_band; [|exact Hh].
          apply indep_band; [|apply indep_ca].
          apply indep_band; [exact Hx|apply indep_bnot, Hu]. }
    destruct (fold_left _ xjk _) as [used r3]. cbn [fst snd] in Hinv.
    apply indep_bor; [exact Hacc|]. apply indep_band; [apply Hinv|apply indep_count_eq].
Qed.

End StreettTP_b.

(* ---------------------------------------------------------------- (c) *)
Section StreettTP_c.
Variables nc nx ny G : nat.
Variables E S : bdd.
Variables holds goals : list bdd.
Local Notation nyE := (ny * G).
Local Notation band := (Arena.band nc nx nyE).
Local Notation bor := (Arena.bor nc nx nyE).
Local Notation bnot := (Arena.bnot nc nx nyE).
Local Notation inr := (inr nc nx nyE).
Local Notation cmax := (length goals - 1).

Lemma inr_vxp v : inr v -> In (vxp v) (seq 0 nx).
Proof.
  intros Hv. apply in_seq. unfold Kleene.inr, in_range in Hv.
  repeat rewrite andb_true_iff in Hv. repeat rewrite Nat.ltb_lt in Hv. lia.
Qed.
Lemma setg_envp_self v : setg Envp v (vxp v) = v.
Proof. destruct v; reflexivity. Qed.

(* when the environment keeps its action, a controllable action with an extra
   conjunct forces that conjunct *)
Lemma ca_env_extra mo po t e v :
  inr v -> Gr1Gen.controllable_action nc nx nyE E S mo po 0 t (Some e) v = true ->
  E v = true -> e v = true.
Proof.
  intros Hv. unfold Gr1Gen.controllable_action. cbv zeta.
  destruct mo, po; rewrite ?forall_spec; cbn [forall_raw dom].
  1,2: rewrite forallb_forall; intros H He; specialize (H _ (inr_vxp v Hv));
       rewrite setg_envp_self in H; revert H He.
  all: alg_unfold; destruct (E v), (e v), (S v); cbn; try congruence;
       intros; rewrite ?andb_false_r in *; cbn in *; congruence.
Qed.

Definition Rc (v : V) : bool :=
  negb (Nat.leb (cnt G v) cmax) || Nat.leb (cntp G v) cmax.

Lemma count_eq_same i v : count_eq nc nx ny G i i v = true -> Rc v = true.
Proof.
  unfold count_eq, Rc. rewrite memo_id, andb_true_iff, !Nat.eqb_eq. intros [-> ->].
  destruct (Nat.leb i cmax); reflexivity.
Qed.

Lemma rho_2_Rc mo po yij v :
  rho_2 nc nx ny G E S mo po yij v = true -> Rc v = true.
Proof.
  revert v. unfold rho_2. apply (fold_left_inv (fun u : bdd => forall v, u v = true -> Rc v = true)).
  - intros v H; discriminate.
  - intros acc [i yj] Hacc v. destruct (fold_left _ (tl yj) _) as [r2 basin].
    rewrite bor_spec, band_spec, orb_true_iff, andb_true_iff.
    intros [H|[_ H]]; [apply Hacc, H|apply (count_eq_same i), H].
Qed.

Lemma rho_3_Rc mo po xijk v :
  rho_3 nc nx ny G E S holds mo po xijk v = true -> Rc v = true.
Proof.
  revert v. unfold rho_3. apply (fold_left_inv (fun u : bdd => forall v, u v = true -> Rc v = true)).
  - intros v H; discriminate.
  - intros acc [i xjk] Hacc v. destruct (fold_left _ xjk _) as [used r3].
    rewrite bor_spec, band_spec, orb_true_iff, andb_true_iff.
    intros [H|[_ H]]; [apply Hacc, H|apply (count_eq_same i), H].
Qed.

Lemma tng_bound n l k (acc : bdd) v :
  0 < n -> (acc v = true -> cntp G v < n) ->
  fold_left (fun acc '(i, goal) =>
      bor acc (band (count_eq nc nx ny G i ((i + 1) mod n)) goal))
    (enumerate k l) acc v = true ->
  cntp G v < n.
Proof.
  intros Hn. revert k acc. induction l as [|g l IH]; intros k acc Hacc;
    cbn [enumerate fold_left]; [exact Hacc|].
  apply IH. rewrite bor_spec, band_spec, orb_true_iff, andb_true_iff.
  intros [H|[H _]]; [apply Hacc, H|].
  unfold count_eq in H. rewrite memo_id, andb_true_iff, !Nat.eqb_eq in H.
  destruct H as [_ ->]. apply Nat.mod_upper_bound. lia.
Qed.

Lemma rho_1_next mo po z v :
  inr v -> rho_1 nc nx ny G E S goals mo po z v = true -> E v = true ->
  cntp G v <= cmax.
Proof.
  intros Hv H He. unfold rho_1 in H. cbv zeta in H.
  apply (ca_env_extra _ _ _ _ _ Hv) in H; [|exact He].
  destruct goals as [|g0 gl] eqn:Eg; [cbn in H; discriminate|].
  apply tng_bound in H; [cbn [length] in *; lia|cbn [length]; lia|discriminate].
Qed.

(* (c) when the environment keeps its action, the goal counter is in range
   before and after the step; with strict causality it is in range before
   every allowed step *)
Theorem streett_counter_range mo po z yij xijk v :
  inr v ->
  streett_action nc nx ny G E S holds goals mo po z yij xijk v = true ->
  (E v = true -> cnt G v <= cmax /\ cntp G v <= cmax) /\
  (po = true -> cnt G v <= cmax).
Proof.
  intros Hv. unfold streett_action. cbv zeta.
  set (r1 := rho_1 nc nx ny G E S goals mo po z).
  set (r2 := rho_2 nc nx ny G E S mo po yij).
  set (r3 := rho_3 nc nx ny G E S holds mo po xijk).
  set (lim := memo nc nx nyE (fun v => Nat.leb (cnt G v) cmax)).
  assert (Hu0 : band (bor (bor r1 r2) r3) lim v = true ->
                cnt G v <= cmax /\ (E v = true -> cntp G v <= cmax)).
  { rewrite band_spec, !bor_spec, andb_true_iff, !orb_true_iff.
    unfold lim. rewrite memo_id. intros [H Hl]. apply Nat.leb_le in Hl.
    split; [exact Hl|]. intros He.
    destruct H as [[H|H]|H].
    - apply (rho_1_next mo po z v Hv H He).
    - apply rho_2_Rc in H. unfold Rc in H.
      apply Nat.leb_le in Hl. rewrite Hl in H. cbn in H. apply Nat.leb_le, H.
    - apply rho_3_Rc in H. unfold Rc in H.
      apply Nat.leb_le in Hl. rewrite Hl in H. cbn in H. apply Nat.leb_le, H. }
  destruct po; cbn [negb].
  - intros H. destruct (Hu0 H) as [H1 H2]. split; [intros He; split; auto|auto].
  - destruct mo.
    + rewrite forall_spec. cbn [forall_raw dom]. rewrite forallb_forall. intros H.
      specialize (H _ (inr_vxp v Hv)). rewrite setg_envp_self in H.
      rewrite bor_spec, bnot_spec, orb_true_iff in H.
      split; [|discriminate]. intros He. destruct H as [H|H]; [|rewrite He in H; discriminate].
      destruct (Hu0 H) as [H1 H2]. split; auto.
    + rewrite bor_spec, bnot_spec, orb_true_iff. intros H.
      split; [|discriminate]. intros He. destruct H as [H|H]; [|rewrite He in H; discriminate].
      destruct (Hu0 H) as [H1 H2]. split; auto.
Qed.

End StreettTP_c.
