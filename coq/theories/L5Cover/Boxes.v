(* L5Cover / Boxes: boxes (orthotopes) over declared integer ranges, the
   property-level notions of C08/C09/C10 (implicant, prime = maximal
   implicant, cover, minimum cover by primes, the set of all such covers) and
   the executable reference/checkers that decide them on finite instances.

   Model file: definitions only.  Proofs are in BoxesProofs.v.

   Conventions.  An instance is
     rs   : ranges      the value range (lo, hi) of each variable; for the
                        real code this is the bit-field range of the variable
                        (every value a BDD over its bits can take)
     f    : point->bool the predicate to be covered
     care : point->bool the care set
   A box is a list of closed intervals (a, b), one per variable.  The real
   code parameterises boxes by integer variables a_x, b_x that range over the
   same bit-field as x (orthotopes.setup_aux_vars). *)
From Coq Require Import List ZArith Bool Lia.
Import ListNotations.
Open Scope Z_scope.

Definition point := list Z.
Definition ival := (Z * Z)%type.
Definition box := list ival.
Definition ranges := list ival.

(* ---------------------------------------------------------------- Prop level *)
Definition in_ival (i : ival) (x : Z) : Prop := fst i <= x <= snd i.
(* proper (non-empty) interval within a range *)
Definition ival_in (r : ival) (i : ival) : Prop :=
  fst r <= fst i /\ fst i <= snd i /\ snd i <= snd r.
Definition ival_le (i j : ival) : Prop := fst j <= fst i /\ snd i <= snd j.

Definition in_ranges (rs : ranges) (p : point) : Prop := Forall2 in_ival rs p.
Definition box_in (rs : ranges) (b : box) : Prop := Forall2 ival_in rs b.
Definition contains (b : box) (p : point) : Prop := Forall2 in_ival b p.
(* the order of the code: p_leq_q = /\_x (u_x <= a_x) /\ (b_x <= v_x) *)
Definition box_le (b c : box) : Prop := Forall2 ival_le b c.
(* set inclusion of the denoted sets of points *)
Definition box_incl (b c : box) : Prop := forall p, contains b p -> contains c p.

Section Spec.
Variable rs : ranges.
Variables f care : point -> bool.

(* a box all of whose points lie in [f or outside care] *)
Definition implicant (b : box) : Prop :=
  box_in rs b /\ forall p, contains b p -> f p = true \/ care p = false.
(* maximal such box *)
Definition prime (b : box) : Prop :=
  implicant b /\ forall c, implicant c -> box_le b c -> c = b.
(* every point of f lies in some box of K *)
Definition covers (K : list box) : Prop :=
  forall p, in_ranges rs p -> f p = true -> exists b, In b K /\ contains b p.
Definition prime_cover (K : list box) : Prop :=
  (forall b, In b K -> prime b) /\ covers K.
(* C09: K is a minimum-cardinality cover of f by primes of f \/ ~care *)
Definition min_prime_cover (K : list box) : Prop :=
  NoDup K /\ prime_cover K /\
  forall K', prime_cover K' -> (length K <= length K')%nat.
Definition same_set (K K' : list box) : Prop := incl K K' /\ incl K' K.
(* C10: R is, up to the order of boxes inside a cover, exactly the set of all
   minimum covers by primes *)
Definition all_min_prime_covers (R : list (list box)) : Prop :=
  (forall K, In K R -> min_prime_cover K) /\
  (forall K, min_prime_cover K -> exists K', In K' R /\ same_set K K').
End Spec.

(* ---------------------------------------------------------------- executable *)
(* Evaluation note: vm_compute is call-by-value, so [a && b] and the stdlib
   [existsb]/[forallb] evaluate both operands.  The executable definitions use
   [if] and the short-circuiting [anyb]/[allb] instead (equal to
   existsb/forallb, see BoxesProofs). *)
Fixpoint anyb {A} (f : A -> bool) (l : list A) : bool :=
  match l with [] => false | a :: l' => if f a then true else anyb f l' end.
Fixpoint allb {A} (f : A -> bool) (l : list A) : bool :=
  match l with [] => true | a :: l' => if f a then allb f l' else false end.

Fixpoint zrange_from (lo : Z) (n : nat) : list Z :=
  match n with O => [] | S n' => lo :: zrange_from (lo + 1) n' end.
Definition zrange (lo hi : Z) : list Z :=
  zrange_from lo (Z.to_nat (hi - lo + 1)).

Fixpoint grid (rs : ranges) : list point :=
  match rs with
  | [] => [[]]
  | r :: rs' =>
      let g := grid rs' in
      flat_map (fun x => map (cons x) g) (zrange (fst r) (snd r))
  end.

(* all proper intervals inside r *)
Definition ivals (r : ival) : list ival :=
  flat_map (fun a => map (pair a) (zrange a (snd r))) (zrange (fst r) (snd r)).

Fixpoint boxes (rs : ranges) : list box :=
  match rs with
  | [] => [[]]
  | r :: rs' =>
      let bs := boxes rs' in
      flat_map (fun i => map (cons i) bs) (ivals r)
  end.

Fixpoint containsb (b : box) (p : point) : bool :=
  match b, p with
  | [], [] => true
  | i :: b', x :: p' =>
      if fst i <=? x then if x <=? snd i then containsb b' p' else false
      else false
  | _, _ => false
  end.

Fixpoint box_leb (b c : box) : bool :=
  match b, c with
  | [], [] => true
  | i :: b', j :: c' =>
      if fst j <=? fst i then if snd i <=? snd j then box_leb b' c' else false
      else false
  | _, _ => false
  end.

Fixpoint box_eqb (b c : box) : bool :=
  match b, c with
  | [], [] => true
  | i :: b', j :: c' =>
      if fst i =? fst j then if snd i =? snd j then box_eqb b' c' else false
      else false
  | _, _ => false
  end.

Fixpoint pt_eqb (p q : point) : bool :=
  match p, q with
  | [], [] => true
  | x :: p', y :: q' => if x =? y then pt_eqb p' q' else false
  | _, _ => false
  end.

Definition mem_pt (l : list point) (p : point) : bool := anyb (pt_eqb p) l.
Definition mem_box (l : list box) (b : box) : bool := anyb (box_eqb b) l.

(* points of a box *)
Fixpoint box_points (b : box) : list point :=
  match b with
  | [] => [[]]
  | i :: b' =>
      let g := box_points b' in
      flat_map (fun x => map (cons x) g) (zrange (fst i) (snd i))
  end.

Fixpoint nodupb (l : list box) : bool :=
  match l with
  | [] => true
  | b :: l' => if mem_box l' b then false else nodupb l'
  end.

Definition inclb (K K' : list box) : bool := allb (mem_box K') K.
Definition same_setb (K K' : list box) : bool :=
  if inclb K K' then inclb K' K else false.

Section Exec.
Variable rs : ranges.
Variables f care : point -> bool.

Definition implicantb (b : box) : bool :=
  allb (fun p => if f p then true else negb (care p)) (box_points b).
Definition implicants : list box := filter implicantb (boxes rs).
Definition maximal_in (l : list box) (b : box) : bool :=
  allb (fun c => if box_leb b c then box_eqb c b else true) l.
Definition primes : list box :=
  let imps := implicants in filter (maximal_in imps) imps.
(* points of f (the elements to be covered) *)
Definition fpoints : list point := filter f (grid rs).

Definition coversb (K : list box) : bool :=
  allb (fun p => anyb (fun b => containsb b p) K) fpoints.

Definition uncovered (b : box) (unc : list point) : list point :=
  filter (fun q => negb (containsb b q)) unc.

(* is there a cover of the points [unc] by at most k boxes from ps ?
   branch on the boxes that contain the first uncovered point *)
Fixpoint coverable (ps : list box) (k : nat) (unc : list point) : bool :=
  match unc with
  | [] => true
  | p :: _ =>
      match k with
      | O => false
      | S k' =>
          anyb (fun b => if containsb b p
                         then coverable ps k' (uncovered b unc) else false) ps
      end
  end.

(* some cover with at most k boxes, if any *)
Fixpoint find_cover (ps : list box) (k : nat) (unc : list point)
  : option (list box) :=
  match unc with
  | [] => Some []
  | p :: _ =>
      match k with
      | O => None
      | S k' =>
          (fix go (l : list box) : option (list box) :=
             match l with
             | [] => None
             | b :: l' =>
                 if containsb b p then
                   match find_cover ps k' (uncovered b unc) with
                   | Some K => Some (b :: K)
                   | None => go l'
                   end
                 else go l'
             end) ps
      end
  end.

(* all covers found by the same branching with at most k boxes; every
   minimum cover appears (in some order) when k is the minimum size *)
Fixpoint all_covers (ps : list box) (k : nat) (unc : list point)
  : list (list box) :=
  match unc with
  | [] => [[]]
  | p :: _ =>
      match k with
      | O => []
      | S k' =>
          flat_map (fun b =>
            if containsb b p
            then map (cons b) (all_covers ps k' (uncovered b unc))
            else []) ps
      end
  end.

(* least k <= fuel-bound with a cover of size k, searching upwards from k0 *)
Fixpoint min_size_from (ps : list box) (unc : list point) (k0 : nat)
  (fuel : nat) : option nat :=
  if coverable ps k0 unc then Some k0
  else match fuel with
       | O => None
       | S fuel' => min_size_from ps unc (S k0) fuel'
       end.

(* reference: the minimum cardinality of a cover of f by primes *)
Definition min_cover_size : option nat :=
  let ps := primes in min_size_from ps fpoints 0 (length ps).

(* reference: one minimum cover *)
Definition min_cover_ref : option (list box) :=
  let ps := primes in
  match min_size_from ps fpoints 0 (length ps) with
  | Some k => find_cover ps k fpoints
  | None => None
  end.

Fixpoint dedup_sets (l : list (list box)) : list (list box) :=
  match l with
  | [] => []
  | K :: l' =>
      let d := dedup_sets l' in
      if anyb (same_setb K) d then d else K :: d
  end.

(* reference: all minimum covers (each once, as sets) *)
Definition all_min_covers_ref : list (list box) :=
  let ps := primes in
  match min_size_from ps fpoints 0 (length ps) with
  | Some k => dedup_sets (all_covers ps k fpoints)
  | None => []
  end.

(* C09 checker: K is a minimum cover of f by primes *)
Definition is_min_prime_cover_b (K : list box) : bool :=
  let ps := primes in
  if nodupb K then
    if allb (mem_box ps) K then
      if coversb K then
        match length K with
        | O => true
        | S n => negb (coverable ps n fpoints)
        end
      else false
    else false
  else false.

(* C10 checker: R is exactly the set of minimum covers by primes *)
Definition same_familyb (R R' : list (list box)) : bool :=
  if allb (fun K => anyb (same_setb K) R') R
  then allb (fun K => anyb (same_setb K) R) R' else false.
Definition is_all_min_covers_b (R : list (list box)) : bool :=
  if allb nodupb R then same_familyb R all_min_covers_ref else false.
End Exec.
