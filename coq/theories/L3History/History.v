(* L3History / History: a `fol.Context` as a state machine that stores truth
   tables.

   A context is the list of its declarations (name, type hint, values
   representable in the bits chosen for the hint) and an append-only store of
   the predicates obtained so far; a stored predicate is the truth table over
   the identifiers that were declared when it was obtained.  Operations are
   modelled by meaning (dd is outside the model): `add_expr` by the integer
   semantics [sem] of a fragment of the input language, `exist/forall/let/
   apply` on the tables, `to_expr` by its effect on the declarations (it
   declares the parameters a_x, b_x, u_x, v_x and their `_cp` copies for
   every x in the support) and by the meaning of the formula it returns,
   `reorder`/`collect_garbage` by the identity, `copy` between two contexts.

   No proofs here (see HistoryProofs.v). *)
From Coq Require Import List Bool String Ascii ZArith.
From Omega Require Import L4Steps.Mangle L4Steps.Stepper.
Import ListNotations.
Open Scope string_scope.

(* ------------------------------------------------------------ expressions *)
Inductive term :=
| TVar (x : string) | TConst (z : Z)
| TAdd (a b : term) | TSub (a b : term).

Inductive cmp := Lt | Le | Eq | Ne | Ge | Gt.

Inductive form :=
| FTrue | FFalse
| FBool (x : string)                         (* Boolean-valued variable *)
| FCmp (c : cmp) (a b : term)
| FIn (a : term) (lo hi : Z)                 (* a \in lo..hi *)
| FNot (f : form)
| FAnd (f g : form) | FOr (f g : form) | FImp (f g : form) | FIff (f g : form)
| FIte (c f g : form)
| FEx (x : string) (f : form) | FAll (x : string) (f : form).

Fixpoint tsem (v : val) (t : term) : Z :=
  match t with
  | TVar x => v x
  | TConst z => z
  | TAdd a b => (tsem v a + tsem v b)%Z
  | TSub a b => (tsem v a - tsem v b)%Z
  end.

Definition csem (c : cmp) (a b : Z) : bool :=
  match c with
  | Lt => (a <? b)%Z | Le => (a <=? b)%Z | Eq => (a =? b)%Z
  | Ne => negb (a =? b)%Z | Ge => (b <=? a)%Z | Gt => (b <? a)%Z
  end.

(* [rng x]: the values over which a quantifier on x ranges (all values
   representable in the bits of x) *)
Fixpoint sem (rng : string -> list Z) (v : val) (f : form) : bool :=
  match f with
  | FTrue => true
  | FFalse => false
  | FBool x => negb (v x =? 0)%Z
  | FCmp c a b => csem c (tsem v a) (tsem v b)
  | FIn a lo hi => ((lo <=? tsem v a) && (tsem v a <=? hi))%Z
  | FNot g => negb (sem rng v g)
  | FAnd g h => sem rng v g && sem rng v h
  | FOr g h => sem rng v g || sem rng v h
  | FImp g h => negb (sem rng v g) || sem rng v h
  | FIff g h => Bool.eqb (sem rng v g) (sem rng v h)
  | FIte c g h => if sem rng v c then sem rng v g else sem rng v h
  | FEx x g => existsb (fun z => sem rng (upd v x z) g) (rng x)
  | FAll x g => forallb (fun z => sem rng (upd v x z) g) (rng x)
  end.

(* --------------------------------------------------------------- contexts *)
Inductive hint := HBool | HInt (lo hi : Z).

Definition hint_eqb (a b : hint) : bool :=
  match a, b with
  | HBool, HBool => true
  | HInt l h, HInt l' h' => (l =? l')%Z && (h =? h')%Z
  | _, _ => false
  end.

Record vdecl := { vd_name : string; vd_hint : hint; vd_vals : list Z }.

Definition entry := (decls * tbl)%type.

Record ctx := { c_vars : list vdecl; c_store : list entry }.

Definition empty_ctx : ctx := {| c_vars := []; c_store := [] |}.

Definition ctx_decls (c : ctx) : decls :=
  map (fun d => (vd_name d, vd_vals d)) (c_vars c).

Fixpoint find_var (x : string) (vs : list vdecl) : option vdecl :=
  match vs with
  | [] => None
  | d :: vs' => if String.eqb x (vd_name d) then Some d else find_var x vs'
  end.

Definition ranges (c : ctx) (x : string) : list Z :=
  match find_var x (c_vars c) with Some d => vd_vals d | None => [] end.

(* truth table of a predicate over the identifiers ds *)
Fixpoint tabulate (ds : decls) (p : pred) (v : val) : tbl :=
  match ds with
  | [] => Leaf (p v)
  | (x, dom) :: ds' => Node (map (fun z => tabulate ds' p (upd v x z)) dom)
  end.

Definition denote (e : entry) : pred := eval_tbl (fst e) (snd e).

(* identifiers a formula can depend on *)
Fixpoint tvars (t : term) : list string :=
  match t with
  | TVar x => [x]
  | TConst _ => []
  | TAdd a b | TSub a b => (tvars a ++ tvars b)%list
  end.

Definition minus (xs ys : list string) : list string :=
  filter (fun x => negb (mem x ys)) xs.

Fixpoint fvars (f : form) : list string :=
  match f with
  | FTrue | FFalse => []
  | FBool x => [x]
  | FCmp _ a b => (tvars a ++ tvars b)%list
  | FIn a _ _ => tvars a
  | FNot g => fvars g
  | FAnd g h | FOr g h | FImp g h | FIff g h => (fvars g ++ fvars h)%list
  | FIte c g h => (fvars c ++ fvars g ++ fvars h)%list
  | FEx x g | FAll x g => minus (fvars g) [x]
  end.

(* the stored table ranges over the declared identifiers among [xs], the
   identifiers the predicate can depend on *)
Definition mk_entry (c : ctx) (xs : list string) (p : pred) : entry :=
  let ds := restrict_decls (ctx_decls c) xs in
  (ds, tabulate ds p (fun _ => 0%Z)).

Definition evars (e : entry) : list string := names (fst e).

(* `_avoid_redeclaration` + `add_vars`: a fresh identifier is appended, the
   same declaration again changes nothing, a different one is refused *)
Inductive outcome := Done | Refused | Handle (h : nat) | Bad.

Definition declare1 (c : ctx) (d : vdecl) : ctx * outcome :=
  match find_var (vd_name d) (c_vars c) with
  | Some old =>
      if hint_eqb (vd_hint old) (vd_hint d) then (c, Done) else (c, Refused)
  | None => ({| c_vars := c_vars c ++ [d]; c_store := c_store c |}, Done)
  end.

(* `declare`: `_avoid_redeclaration` checks all before any is added *)
Definition declare (c : ctx) (ds : list vdecl) : ctx * outcome :=
  if forallb (fun d => match find_var (vd_name d) (c_vars c) with
                       | Some old => hint_eqb (vd_hint old) (vd_hint d)
                       | None => true
                       end) ds
  then (fold_left (fun c d => fst (declare1 c d)) ds c, Done)
  else (c, Refused).

Definition push (c : ctx) (e : entry) : ctx * outcome :=
  ({| c_vars := c_vars c; c_store := c_store c ++ [e] |},
   Handle (List.length (c_store c))).

Definition with_handle (c : ctx) (h : nat) (k : entry -> ctx * outcome)
    : ctx * outcome :=
  match nth_error (c_store c) h with
  | Some e => k e
  | None => (c, Bad)
  end.

Fixpoint ex_vars (rng : string -> list Z) (qs : list string) (p : pred) : pred :=
  match qs with
  | [] => p
  | x :: qs' => fun v => existsb (fun z => ex_vars rng qs' p (upd v x z)) (rng x)
  end.

Fixpoint all_vars (rng : string -> list Z) (qs : list string) (p : pred) : pred :=
  match qs with
  | [] => p
  | x :: qs' => fun v => forallb (fun z => all_vars rng qs' p (upd v x z)) (rng x)
  end.

(* parameters `to_expr` declares for x *)
Definition aux_names (x : string) : list string :=
  flat_map (fun p => [p ++ "_" ++ x; p ++ "_" ++ x ++ "_cp"]) ["a"; "b"; "u"; "v"].

Definition aux_decls (c : ctx) (xs : list string) : list vdecl :=
  flat_map (fun x =>
    match find_var x (c_vars c) with
    | Some d => map (fun n => {| vd_name := n; vd_hint := vd_hint d;
                                 vd_vals := vd_vals d |}) (aux_names x)
    | None => []
    end) xs.

Inductive op :=
| ODeclare (ds : list vdecl)
| OAdd (f : form)
| OExist (qs : list string) (h : nat)
| OForall (qs : list string) (h : nat)
| OLetVal (x : string) (z : Z) (h : nat)
| ORename (x y : string) (h : nat)          (* `let({x: y}, u)` *)
| ONot (h : nat) | OAnd (h1 h2 : nat) | OOr (h1 h2 : nat)
| OToExpr (xs : list string) (h : nat)      (* xs = support, in the order used *)
| ONoop.                                     (* reorder, collect_garbage *)

Definition step1 (c : ctx) (o : op) : ctx * outcome :=
  match o with
  | ODeclare ds => declare c ds
  | OAdd f => push c (mk_entry c (fvars f) (fun v => sem (ranges c) v f))
  | OExist qs h =>
      with_handle c h (fun e =>
        push c (mk_entry c (minus (evars e) qs) (ex_vars (ranges c) qs (denote e))))
  | OForall qs h =>
      with_handle c h (fun e =>
        push c (mk_entry c (minus (evars e) qs) (all_vars (ranges c) qs (denote e))))
  | OLetVal x z h =>
      with_handle c h (fun e =>
        push c (mk_entry c (minus (evars e) [x]) (fun v => denote e (upd v x z))))
  | ORename x y h =>
      with_handle c h (fun e =>
        push c (mk_entry c (y :: minus (evars e) [x])
                  (fun v => denote e (upd v x (v y)))))
  | ONot h =>
      with_handle c h (fun e =>
        push c (mk_entry c (evars e) (fun v => negb (denote e v))))
  | OAnd h1 h2 =>
      with_handle c h1 (fun e1 => with_handle c h2 (fun e2 =>
        push c (mk_entry c (evars e1 ++ evars e2)%list
                  (fun v => denote e1 v && denote e2 v))))
  | OOr h1 h2 =>
      with_handle c h1 (fun e1 => with_handle c h2 (fun e2 =>
        push c (mk_entry c (evars e1 ++ evars e2)%list
                  (fun v => denote e1 v || denote e2 v))))
  | OToExpr xs h =>
      match nth_error (c_store c) h with
      | None => (c, Bad)
      | Some e =>
          match declare c (aux_decls c xs) with
          | (c', Done) => push c' e       (* the printed formula means e *)
          | (c', o') => (c', o')
          end
      end
  | ONoop => (c, Done)
  end.

(* two contexts; `copy` moves a predicate from one to the other *)
Record world := { w0 : ctx; w1 : ctx }.

Definition get (k : bool) (w : world) : ctx := if k then w1 w else w0 w.
Definition set (k : bool) (w : world) (c : ctx) : world :=
  if k then {| w0 := w0 w; w1 := c |} else {| w0 := c; w1 := w1 w |}.

Inductive wop :=
| WOp (k : bool) (o : op)
| WCopy (k : bool) (h : nat).                 (* from context k to the other *)

Definition wstep (w : world) (o : wop) : world * outcome :=
  match o with
  | WOp k o =>
      let (c, r) := step1 (get k w) o in (set k w c, r)
  | WCopy k h =>
      match nth_error (c_store (get k w)) h with
      | None => (w, Bad)
      | Some e =>
          let (c, r) := push (get (negb k) w) e in (set (negb k) w c, r)
      end
  end.

Fixpoint wrun (w : world) (os : list wop) : world * list outcome :=
  match os with
  | [] => (w, [])
  | o :: os' =>
      let (w', r) := wstep w o in
      let (w'', rs) := wrun w' os' in (w'', r :: rs)
  end.

(* ------------------------------------------------------------ comparison *)
Fixpoint tbl_eqb (a b : tbl) {struct a} : bool :=
  match a, b with
  | Leaf x, Leaf y => Bool.eqb x y
  | Node xs, Node ys =>
      (fix go (xs ys : list tbl) : bool :=
         match xs, ys with
         | [], [] => true
         | x :: xs', y :: ys' => tbl_eqb x y && go xs' ys'
         | _, _ => false
         end) xs ys
  | _, _ => false
  end.

Definition outcome_eqb (a b : outcome) : bool :=
  match a, b with
  | Done, Done | Refused, Refused | Bad, Bad => true
  | Handle x, Handle y => Nat.eqb x y
  | _, _ => false
  end.

(* the table a stored predicate has when it is read over the identifiers ds
   (a superset of its own, e.g. those declared at the end of a run) *)
Definition table_over (ds : decls) (e : entry) : tbl :=
  tabulate ds (denote e) (fun _ => 0%Z).

Definition names_of (c : ctx) : list string := map vd_name (c_vars c).
