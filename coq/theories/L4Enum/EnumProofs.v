(* L4Enum / EnumProofs: every graph the worklist model returns passes the
   checker of C12's statement, for every environment/component action pair,
   every [pick] that returns an element of the set it is given, and every
   number of worklist steps. *)
From Coq Require Import List Bool Arith Lia FinFun.
Import ListNotations.
From Omega Require Import L4Enum.EnumModel.

Lemma state_eqb_eq a b : state_eqb a b = true <-> a = b.
Proof.
  unfold state_eqb. destruct a as [a1 a2], b as [b1 b2]. cbn [fst snd].
  rewrite andb_true_iff, !Nat.eqb_eq. split; [intros [-> ->]; reflexivity|].
  intros H; inversion H; auto.
Qed.

Lemma find_node_some l s i w :
  find_node l s i = Some w -> i <= w /\ nth_error l (w - i) = Some s.
Proof.
  revert i. induction l as [|a r IH]; intros i; cbn [find_node]; [discriminate|].
  destruct (state_eqb a s) eqn:Ea.
  - intros H. inversion H. subst. apply state_eqb_eq in Ea. subst.
    rewrite Nat.sub_diag. split; [lia|reflexivity].
  - intros H. apply IH in H. destruct H as [Hle Hn]. split; [lia|].
    replace (w - i) with (Datatypes.S (w - Datatypes.S i)) by lia. exact Hn.
Qed.

Lemma find_node_none l s i : find_node l s i = None <-> ~ In s l.
Proof.
  revert i. induction l as [|a r IH]; intros i; cbn [find_node In]; [tauto|].
  destruct (state_eqb a s) eqn:Ea.
  - apply state_eqb_eq in Ea. subst. split; [discriminate|tauto].
  - rewrite IH. split; [|tauto]. intros H [H1|H1]; [|tauto].
    subst. rewrite (proj2 (state_eqb_eq s s) eq_refl) in Ea. discriminate.
Qed.

Lemma nodup_b_iff l : nodup_b l = true <-> NoDup l.
Proof.
  induction l as [|a r IH]; cbn [nodup_b]; [split; [constructor|reflexivity]|].
  rewrite andb_true_iff, negb_true_iff, IH. split.
  - intros [H1 H2]. constructor; [|exact H2]. intros Hin.
    assert (existsb (state_eqb a) r = true).
    { apply existsb_exists. exists a. split; [exact Hin|apply state_eqb_eq; reflexivity]. }
    congruence.
  - intros H. inversion H as [|? ? Hn Hd]. subst. split; [|exact Hd].
    destruct (existsb (state_eqb a) r) eqn:Ex; [|reflexivity].
    apply existsb_exists in Ex. destruct Ex as [b [Hb Heq]].
    apply state_eqb_eq in Heq. subst. contradiction.
Qed.

Lemma NoDup_app_snoc {A} (l : list A) a : NoDup l -> ~ In a l -> NoDup (l ++ [a]).
Proof.
  intros Hl Ha. induction Hl as [|b l Hb Hl IH]; cbn [app].
  - constructor; [intros []|constructor].
  - constructor.
    + rewrite in_app_iff. intros [H|[H|[]]]; [contradiction|]. subst. apply Ha. left. reflexivity.
    + apply IH. intros H. apply Ha. right. exact H.
Qed.

Lemma NoDup_app_intro {A} (l1 l2 : list A) :
  NoDup l1 -> NoDup l2 -> (forall a, In a l1 -> In a l2 -> False) -> NoDup (l1 ++ l2).
Proof.
  intros H1 H2 Hd. induction H1 as [|a l Ha Hl IH]; cbn [app]; [exact H2|].
  constructor.
  - rewrite in_app_iff. intros [H|H]; [contradiction|]. apply (Hd a); [left; reflexivity|exact H].
  - apply IH. intros b Hb. apply Hd. right. exact Hb.
Qed.

Section EnumP.
Variables nx ny : nat.
Variable E : nat -> nat -> nat -> bool.
Variable S : nat -> nat -> nat -> nat -> bool.
Variable pick : (nat -> bool) -> option nat.
(* the only thing assumed of dd's pick: it returns a member of the set *)
Hypothesis pick_sound : forall p y, pick p = Some y -> y < ny /\ p y = true.

Local Notation edge_ok := (edge_ok E S).
Local Notation out_count := (out_count).
Local Notation node_complete := (node_complete nx E).
Local Notation process_env := (process_env ny S pick).
Local Notation process_all := (process_all ny E S pick).
Local Notation step := (step nx ny E S pick).
Local Notation run := (run nx ny E S pick).

Definition in_range (s : state) : Prop := fst s < nx /\ snd s < ny.

(* well-formedness that every intermediate graph satisfies *)
Record WF (g : graph) : Prop := {
  wf_nodup : NoDup (nodes g);
  wf_range : forall s, In s (nodes g) -> in_range s;
  wf_edges : forall e, In e (edges g) -> edge_ok (nodes g) e = true;
  wf_queue : forall u, In u (queue g) -> u < length (nodes g);
  wf_qnodup : NoDup (queue g);
  wf_qfresh : forall u e, In u (queue g) -> In e (edges g) -> fst e <> u }.

(* out-edge counts of node u: [done] already have their exact count, [todo]
   still have none *)
Definition counts (g : graph) (u : nat) (s : state) (done todo : list nat) : Prop :=
  (forall x', In x' done ->
     out_count (nodes g) (edges g) u x' = if E (fst s) (snd s) x' then 1 else 0) /\
  (forall x', In x' todo -> out_count (nodes g) (edges g) u x' = 0).

Definition complete (g : graph) (u : nat) (s : state) : Prop :=
  forall x', x' < nx ->
    out_count (nodes g) (edges g) u x' = if E (fst s) (snd s) x' then 1 else 0.

Lemma edge_ok_app ns extra e : edge_ok ns e = true -> edge_ok (ns ++ extra) e = true.
Proof.
  unfold EnumModel.edge_ok.
  destruct (nth_error ns (fst e)) as [s|] eqn:E1; [|discriminate].
  destruct (nth_error ns (snd e)) as [t|] eqn:E2; [|discriminate].
  rewrite (nth_error_app1 _ _ (proj1 (nth_error_Some ns (fst e)) ltac:(congruence))), E1.
  rewrite (nth_error_app1 _ _ (proj1 (nth_error_Some ns (snd e)) ltac:(congruence))), E2.
  auto.
Qed.

Lemma out_count_app ns extra es u x' :
  (forall e, In e es -> snd e < length ns) ->
  out_count (ns ++ extra) es u x' = out_count ns es u x'.
Proof.
  unfold EnumModel.out_count. intros H. f_equal.
  apply filter_ext_in. intros e He. f_equal.
  rewrite nth_error_app1 by (apply H, He). reflexivity.
Qed.

Lemma out_count_cons ns es u x' a w :
  out_count ns ((a, w) :: es) u x' =
  (if Nat.eqb a u && match nth_error ns w with
                     | Some t => Nat.eqb (fst t) x' | None => false end
   then 1 else 0) + out_count ns es u x'.
Proof.
  unfold EnumModel.out_count. cbn [filter fst snd].
  destruct (Nat.eqb a u && _); reflexivity.
Qed.

Lemma edges_target_lt g : WF g -> forall e, In e (edges g) -> snd e < length (nodes g).
Proof.
  intros Hwf e He. pose proof (wf_edges g Hwf e He) as H.
  unfold EnumModel.edge_ok in H.
  destruct (nth_error (nodes g) (fst e)); [|discriminate].
  destruct (nth_error (nodes g) (snd e)) eqn:E2; [|discriminate].
  apply nth_error_Some. congruence.
Qed.


Lemma edges_source_lt g : WF g -> forall e, In e (edges g) -> fst e < length (nodes g).
Proof.
  intros Hwf e He. pose proof (wf_edges g Hwf e He) as H.
  unfold EnumModel.edge_ok in H.
  destruct (nth_error (nodes g) (fst e)) eqn:E1; [|discriminate].
  apply nth_error_Some. congruence.
Qed.

Lemma nonempty_false p : nonempty ny p = false -> forall y, y < ny -> p y = false.
Proof.
  unfold nonempty. intros H y Hy. destruct (p y) eqn:Ep; [|reflexivity].
  assert (existsb p (seq 0 ny) = true).
  { apply existsb_exists. exists y. split; [apply in_seq; lia|exact Ep]. }
  congruence.
Qed.

Definition delta (g g' : graph) (u x' : nat) : Prop :=
  forall a x'', out_count (nodes g') (edges g') a x'' =
    out_count (nodes g) (edges g) a x'' +
    (if Nat.eqb a u && Nat.eqb x'' x' then 1 else 0).

Definition extends (g g' : graph) : Prop :=
  (exists extra, nodes g' = nodes g ++ extra) /\
  (forall a, In a (queue g) -> In a (queue g')) /\
  (forall a, In a (queue g') -> In a (queue g) \/ length (nodes g) <= a) /\
  (forall a, length (nodes g) <= a < length (nodes g') -> In a (queue g')).

Lemma process_env_inv g g' u s x' :
  WF g -> nth_error (nodes g) u = Some s -> ~ In u (queue g) ->
  E (fst s) (snd s) x' = true -> x' < nx ->
  process_env s u g x' = Some g' ->
  WF g' /\ delta g g' u x' /\ extends g g'.
Proof.
  intros Hwf Hu Hnq He Hx'. unfold EnumModel.process_env.
  set (cand := fun y' => S (fst s) (snd s) x' y').
  set (cand_vis := fun y' => cand y' && visited g (x', y')).
  destruct (nonempty ny cand_vis) eqn:Env.
  - (* remain among visited nodes *)
    destruct (pick cand_vis) as [y'|] eqn:Ep; [|discriminate].
    destruct (find_node (nodes g) (x', y') 0) as [w|] eqn:Ef; [|discriminate].
    intros H. inversion H. subst g'. clear H.
    apply pick_sound in Ep. destruct Ep as [Hy' Hc].
    unfold cand_vis in Hc. apply andb_true_iff in Hc. destruct Hc as [Hc _].
    apply find_node_some in Ef. destruct Ef as [_ Hw]. rewrite Nat.sub_0_r in Hw.
    split; [|split].
    + constructor; cbn [nodes queue edges].
      * apply (wf_nodup g Hwf).
      * apply (wf_range g Hwf).
      * intros e [<-|Hin]; [|apply (wf_edges g Hwf e Hin)].
        unfold EnumModel.edge_ok. cbn [fst snd]. rewrite Hu, Hw. cbn [fst snd].
        rewrite He. exact Hc.
      * apply (wf_queue g Hwf).
      * apply (wf_qnodup g Hwf).
      * intros u0 e Hu0 [<-|Hin]; [cbn [fst]; congruence|].
        apply (wf_qfresh g Hwf u0 e Hu0 Hin).
    + intros a x''. cbn [nodes edges]. rewrite out_count_cons, Hw. cbn [fst].
      rewrite (Nat.eqb_sym x' x''), (Nat.eqb_sym u a). lia.
    + split; [exists []; cbn [nodes]; rewrite app_nil_r; reflexivity|].
      cbn [queue nodes]. split; [auto|]. split; [auto|]. intros a Ha. lia.
  - destruct (nonempty ny cand) eqn:Enc; [|discriminate].
    destruct (pick cand) as [y'|] eqn:Ep; [|discriminate].
    intros H. inversion H. subst g'. clear H.
    apply pick_sound in Ep. destruct Ep as [Hy' Hc].
    pose proof (nonempty_false _ Env y' Hy') as Hnv. unfold cand_vis in Hnv.
    rewrite Hc in Hnv. cbn [andb] in Hnv.
    assert (Hfresh : ~ In (x', y') (nodes g)).
    { apply (find_node_none _ _ 0). unfold visited in Hnv.
      destruct (find_node (nodes g) (x', y') 0); [discriminate|reflexivity]. }
    assert (Hul : u < length (nodes g)) by (apply nth_error_Some; congruence).
    set (w := length (nodes g)).
    assert (Hw : nth_error (nodes g ++ [(x', y')]) w = Some (x', y')).
    { unfold w. rewrite nth_error_app2 by lia. rewrite Nat.sub_diag. reflexivity. }
    split; [|split].
    + constructor; cbn [nodes queue edges].
      * apply NoDup_app_snoc; [apply (wf_nodup g Hwf)|exact Hfresh].
      * intros t Ht. apply in_app_iff in Ht. destruct Ht as [Ht|[<-|[]]];
          [apply (wf_range g Hwf t Ht)|split; cbn [fst snd]; assumption].
      * intros e [<-|Hin].
        -- unfold EnumModel.edge_ok. cbn [fst snd].
           rewrite (nth_error_app1 _ _ Hul), Hu, Hw. cbn [fst snd]. rewrite He. exact Hc.
        -- apply edge_ok_app, (wf_edges g Hwf e Hin).
      * intros u0 [<-|Hin]; rewrite app_length; cbn [length]; [unfold w; lia|].
        pose proof (wf_queue g Hwf u0 Hin). lia.
      * constructor; [|apply (wf_qnodup g Hwf)].
        intros Hin. pose proof (wf_queue g Hwf w Hin). unfold w in *. lia.
      * intros u0 e [<-|Hu0] [<-|Hin]; cbn [fst].
        -- unfold w. lia.
        -- pose proof (edges_source_lt g Hwf e Hin). unfold w. lia.
        -- congruence.
        -- apply (wf_qfresh g Hwf u0 e Hu0 Hin).
    + intros a x''. cbn [nodes edges]. rewrite out_count_cons, Hw. cbn [fst].
      rewrite out_count_app by (apply edges_target_lt, Hwf).
      rewrite (Nat.eqb_sym x' x''), (Nat.eqb_sym u a). lia.
    + split; [exists [(x', y')]; reflexivity|]. cbn [queue nodes]. split.
      * intros a Ha. right. exact Ha.
      * split.
        -- intros a [<-|Ha]; [right; unfold w; lia|left; exact Ha].
        -- intros a Ha. rewrite app_length in Ha. cbn [length] in Ha.
           left. unfold w. lia.
Qed.


Definition mem (x : nat) (l : list nat) : bool := existsb (Nat.eqb x) l.

Lemma mem_In x l : mem x l = true <-> In x l.
Proof.
  unfold mem. rewrite existsb_exists. split.
  - intros [y [Hy He]]. apply Nat.eqb_eq in He. subst. exact Hy.
  - intros H. exists x. split; [exact H|apply Nat.eqb_refl].
Qed.

Lemma extends_refl g : extends g g.
Proof.
  split; [exists []; rewrite app_nil_r; reflexivity|]. split; [auto|].
  split; [auto|]. intros a Ha. lia.
Qed.

Lemma extends_trans g1 g2 g3 : extends g1 g2 -> extends g2 g3 -> extends g1 g3.
Proof.
  intros [[e1 H1] [Q1 [R1 N1]]] [[e2 H2] [Q2 [R2 N2]]]. split; [|split; [|split]].
  - exists (e1 ++ e2). rewrite H2, H1, app_assoc. reflexivity.
  - auto.
  - intros a Ha. destruct (R2 a Ha) as [H|H].
    + destruct (R1 a H); auto.
    + right. rewrite H1, app_length in H. lia.
  - intros a Ha. destruct (Nat.lt_ge_cases a (length (nodes g2))) as [H|H].
    + apply Q2, N1. lia.
    + apply N2. lia.
Qed.

Lemma extends_nth g g' u s :
  extends g g' -> nth_error (nodes g) u = Some s -> nth_error (nodes g') u = Some s.
Proof.
  intros [[e H] _] Hu. rewrite H, nth_error_app1; [exact Hu|].
  apply nth_error_Some. congruence.
Qed.

Lemma extends_notin g g' u :
  extends g g' -> u < length (nodes g) -> ~ In u (queue g) -> ~ In u (queue g').
Proof. intros [_ [_ [R _]]] Hu Hn Hin. destruct (R u Hin); [contradiction|lia]. Qed.

Lemma process_all_inv xs : forall g g' u s,
  WF g -> nth_error (nodes g) u = Some s -> ~ In u (queue g) ->
  (forall x', In x' xs -> x' < nx) -> NoDup xs ->
  process_all s u g xs = Some g' ->
  WF g' /\ extends g g' /\
  (forall a x'', out_count (nodes g') (edges g') a x'' =
     out_count (nodes g) (edges g) a x'' +
     (if Nat.eqb a u && mem x'' xs && E (fst s) (snd s) x'' then 1 else 0)).
Proof.
  induction xs as [|x' xs IH]; intros g g' u s Hwf Hu Hnq Hlt Hnd; cbn [EnumModel.process_all].
  - intros H. inversion H. subst. split; [exact Hwf|]. split; [apply extends_refl|].
    intros a x''. cbn [mem existsb]. rewrite andb_false_r. cbn. lia.
  - inversion Hnd as [|? ? Hnin Hnd']. subst.
    destruct (E (fst s) (snd s) x') eqn:He.
    + destruct (process_env s u g x') as [g1|] eqn:Ep; [|discriminate].
      intros Hall.
      destruct (process_env_inv g g1 u s x' Hwf Hu Hnq He (Hlt x' (or_introl eq_refl)) Ep)
        as [Hwf1 [Hd1 Hext1]].
      assert (Hul : u < length (nodes g)) by (apply nth_error_Some; congruence).
      destruct (IH g1 g' u s Hwf1 (extends_nth _ _ _ _ Hext1 Hu)
                  (extends_notin _ _ _ Hext1 Hul Hnq)
                  (fun y Hy => Hlt y (or_intror Hy)) Hnd' Hall) as [Hwf' [Hext' Hc']].
      split; [exact Hwf'|]. split; [apply (extends_trans _ _ _ Hext1 Hext')|].
      intros a x''. rewrite Hc', Hd1. unfold mem. cbn [existsb].
      destruct (Nat.eqb a u) eqn:Ea; cbn [andb]; [|lia].
      destruct (Nat.eqb x'' x') eqn:Ex; cbn [orb].
      * apply Nat.eqb_eq in Ex. subst x''. rewrite He.
        assert (Hm : existsb (Nat.eqb x') xs = false).
        { destruct (existsb (Nat.eqb x') xs) eqn:Em; [|reflexivity].
          apply (mem_In x' xs) in Em. contradiction. }
        rewrite Hm. cbn. lia.
      * lia.
    + intros Hall.
      destruct (IH g g' u s Hwf Hu Hnq (fun y Hy => Hlt y (or_intror Hy)) Hnd' Hall)
        as [Hwf' [Hext' Hc']].
      split; [exact Hwf'|]. split; [exact Hext'|].
      intros a x''. rewrite Hc'. unfold mem. cbn [existsb].
      destruct (Nat.eqb a u) eqn:Ea; cbn [andb]; [|lia].
      destruct (Nat.eqb x'' x') eqn:Ex; cbn [orb]; [|lia].
      apply Nat.eqb_eq in Ex. subst x''. rewrite He.
      rewrite !andb_false_r. lia.
Qed.

(* the invariant of the worklist *)
Definition Inv (g : graph) : Prop :=
  WF g /\
  forall a t, nth_error (nodes g) a = Some t -> ~ In a (queue g) -> complete g a t.

Lemma queued_no_edges g u x' :
  WF g -> In u (queue g) -> out_count (nodes g) (edges g) u x' = 0.
Proof.
  intros Hwf Hu. unfold EnumModel.out_count.
  pose proof (wf_qfresh g Hwf u) as Hf. generalize (edges g) Hf. clear Hf.
  intros es Hf. induction es as [|e es IH]; cbn [filter]; [reflexivity|].
  destruct (Nat.eqb (fst e) u) eqn:Ee.
  - apply Nat.eqb_eq in Ee. exfalso. apply (Hf e Hu (or_introl eq_refl) Ee).
  - cbn [andb]. apply IH. intros e' Hu' He'. apply Hf; [exact Hu'|right; exact He'].
Qed.

Lemma step_inv g g' : Inv g -> step g = Some g' -> Inv g'.
Proof.
  intros [Hwf Hc]. unfold EnumModel.step.
  destruct (queue g) as [|u q] eqn:Eq;
    [intros H; inversion H; subst; split; [exact Hwf|rewrite Eq; exact Hc]|].
  destruct (nth_error (nodes g) u) as [s|] eqn:Eu; [|discriminate].
  set (g0 := mkG (nodes g) q (edges g)). intros Hall.
  assert (Hq : NoDup (u :: q)) by (rewrite <- Eq; apply (wf_qnodup g Hwf)).
  inversion Hq as [|? ? Hnin Hq']. subst.
  assert (Hwf0 : WF g0).
  { constructor; cbn [nodes queue edges].
    - apply (wf_nodup g Hwf).
    - apply (wf_range g Hwf).
    - apply (wf_edges g Hwf).
    - intros a Ha. apply (wf_queue g Hwf). rewrite Eq. right. exact Ha.
    - exact Hq'.
    - intros a e Ha. apply (wf_qfresh g Hwf). rewrite Eq. right. exact Ha. }
  destruct (process_all_inv (seq 0 nx) g0 g' u s Hwf0 Eu Hnin
              (fun x' Hx' => proj2 (proj1 (in_seq _ _ _) Hx')) (seq_NoDup _ _) Hall)
    as [Hwf' [Hext Hcnt]].
  split; [exact Hwf'|]. intros a t Ha Hna x'' Hx''. rewrite Hcnt. unfold g0. cbn [nodes edges].
  destruct (Nat.eqb a u) eqn:Ea.
  - apply Nat.eqb_eq in Ea. subst a.
    rewrite (extends_nth g0 g' u s Hext Eu) in Ha. inversion Ha. subst t.
    rewrite (queued_no_edges g u x'' Hwf) by (rewrite Eq; left; reflexivity).
    assert (Hm : mem x'' (seq 0 nx) = true) by (apply mem_In, in_seq; lia).
    rewrite Hm. cbn [andb]. destruct (E (fst s) (snd s) x''); reflexivity.
  - cbn [andb]. rewrite Nat.add_0_r.
    apply Nat.eqb_neq in Ea.
    destruct Hext as [[extra Hn] [Hq1 [Hq2 Hq3]]]. unfold g0 in *. cbn [nodes queue] in *.
    assert (Hal' : a < length (nodes g')) by (apply nth_error_Some; congruence).
    assert (Hal : a < length (nodes g)).
    { destruct (Nat.lt_ge_cases a (length (nodes g))) as [H|H]; [exact H|exfalso].
      apply Hna, Hq3. lia. }
    assert (Hat : nth_error (nodes g) a = Some t).
    { rewrite Hn, nth_error_app1 in Ha by exact Hal. exact Ha. }
    apply (Hc a t Hat); [|exact Hx''].
    intros [H|H]; [congruence|]. apply Hna, Hq1, H.
Qed.

Lemma run_inv fuel : forall g g', Inv g -> run fuel g = Some g' -> Inv g' /\ queue g' = [].
Proof.
  induction fuel as [|k IH]; intros g g' Hi; cbn [EnumModel.run].
  - destruct (queue g) eqn:Eq; [|discriminate].
    intros H. inversion H. subst. auto.
  - destruct (queue g) eqn:Eq.
    + intros H. inversion H. subst. auto.
    + destruct (step g) as [g1|] eqn:Es; [|discriminate].
      intros H. apply (IH g1 g'); [|exact H]. apply (step_inv g g1 Hi Es).
Qed.

Lemma all_complete_iff ns es l i :
  all_complete nx E ns es i l = true <->
  (forall k s, nth_error l k = Some s -> node_complete ns es (i + k) s = true).
Proof.
  revert i. induction l as [|s l IH]; intros i; cbn [EnumModel.all_complete].
  - split; [intros _ k s H; destruct k; discriminate|reflexivity].
  - rewrite andb_true_iff, IH. split.
    + intros [H1 H2] k t Hk. destruct k as [|k]; cbn [nth_error] in Hk.
      * inversion Hk. subst. rewrite Nat.add_0_r. exact H1.
      * rewrite <- Nat.add_succ_comm. apply H2, Hk.
    + intros H. split.
      * specialize (H 0 s eq_refl). rewrite Nat.add_0_r in H. exact H.
      * intros k t Hk. specialize (H (Datatypes.S k) t Hk).
        rewrite <- Nat.add_succ_comm in H. exact H.
Qed.

(* what the invariant means once the queue is empty *)
Lemma inv_check g : Inv g -> queue g = [] -> check_graph nx ny E S g = true.
Proof.
  intros [Hwf Hc] Hq. unfold EnumModel.check_graph. repeat rewrite andb_true_iff.
  repeat split.
  - apply nodup_b_iff, (wf_nodup g Hwf).
  - apply forallb_forall. intros s Hs. destruct (wf_range g Hwf s Hs) as [H1 H2].
    rewrite andb_true_iff, !Nat.ltb_lt. auto.
  - apply forallb_forall. apply (wf_edges g Hwf).
  - apply all_complete_iff. intros k s Hk. cbn [Nat.add].
    unfold EnumModel.node_complete. apply forallb_forall. intros x' Hx'.
    apply in_seq in Hx'. apply Nat.eqb_eq. apply (Hc k s Hk).
    + rewrite Hq. intros Hin. destruct Hin.
    + lia.
Qed.

(* a graph made of distinct in-range initial nodes, all queued, no edges *)
Lemma init_inv l q :
  NoDup l -> (forall s, In s l -> in_range s) ->
  NoDup q -> (forall u, In u q <-> u < length l) ->
  Inv (mkG l q []).
Proof.
  intros Hl Hr Hq Hall. split.
  - constructor; cbn [nodes queue edges].
    + exact Hl.
    + exact Hr.
    + intros e He. destruct He.
    + intros u Hu. apply Hall, Hu.
    + exact Hq.
    + intros u e _ He. destruct He.
  - intros a t Ha Hna. exfalso. apply Hna. cbn [queue]. apply Hall.
    apply nth_error_Some. cbn [nodes] in Ha. congruence.
Qed.

Lemma step_prefix g g' : Inv g -> step g = Some g' -> exists extra, nodes g' = nodes g ++ extra.
Proof.
  intros [Hwf Hc]. unfold EnumModel.step.
  destruct (queue g) as [|u q] eqn:Eq;
    [intros H; inversion H; subst; exists []; rewrite app_nil_r; reflexivity|].
  destruct (nth_error (nodes g) u) as [s|] eqn:Eu; [|discriminate].
  set (g0 := mkG (nodes g) q (edges g)). intros Hall.
  assert (Hq : NoDup (u :: q)) by (rewrite <- Eq; apply (wf_qnodup g Hwf)).
  inversion Hq as [|? ? Hnin Hq']. subst.
  assert (Hwf0 : WF g0).
  { constructor; cbn [nodes queue edges].
    - apply (wf_nodup g Hwf).
    - apply (wf_range g Hwf).
    - apply (wf_edges g Hwf).
    - intros a Ha. apply (wf_queue g Hwf). rewrite Eq. right. exact Ha.
    - exact Hq'.
    - intros a e Ha. apply (wf_qfresh g Hwf). rewrite Eq. right. exact Ha. }
  destruct (process_all_inv (seq 0 nx) g0 g' u s Hwf0 Eu Hnin
              (fun x' Hx' => proj2 (proj1 (in_seq _ _ _) Hx')) (seq_NoDup _ _) Hall)
    as [_ [[Hext _] _]].
  exact Hext.
Qed.

Lemma run_prefix fuel : forall g g', Inv g -> run fuel g = Some g' ->
  exists extra, nodes g' = nodes g ++ extra.
Proof.
  induction fuel as [|k IH]; intros g g' Hi; cbn [EnumModel.run].
  - destruct (queue g); [|discriminate]. intros H. inversion H. subst.
    exists []. rewrite app_nil_r. reflexivity.
  - destruct (queue g) eqn:Eq.
    + intros H. inversion H. subst. exists []. rewrite app_nil_r. reflexivity.
    + destruct (step g) as [g1|] eqn:Es; [|discriminate]. intros H.
      destruct (step_prefix g g1 Hi Es) as [e1 H1].
      destruct (IH g1 g' (step_inv g g1 Hi Es) H) as [e2 H2].
      exists (e1 ++ e2). rewrite H2, H1, app_assoc. reflexivity.
Qed.

(* C12, worklist part: whatever graph the enumeration returns, from any list
   of distinct in-range initial nodes, for any pick, after any number of
   steps: nodes are distinct valuations, every edge is a step allowed by both
   actions, every node has exactly one out-edge per next environment value
   the environment's action allows there and none for the others; the
   initial nodes are the first nodes of the graph *)
Theorem enum_sound fuel l q g :
  NoDup l -> (forall s, In s l -> in_range s) ->
  NoDup q -> (forall u, In u q <-> u < length l) ->
  run fuel (mkG l q []) = Some g ->
  check_graph nx ny E S g = true /\ (exists extra, nodes g = l ++ extra).
Proof.
  intros Hl Hr Hq Hall Hrun.
  pose proof (init_inv l q Hl Hr Hq Hall) as Hi0.
  destruct (run_inv fuel _ _ Hi0 Hrun) as [Hi Hqe].
  split; [apply inv_check; assumption|].
  apply (run_prefix fuel _ _ Hi0 Hrun).
Qed.

(* every infinite path of a checked graph is a behaviour of the two actions *)
Lemma paths_are_behaviours g (path : nat -> nat) :
  check_graph nx ny E S g = true ->
  (forall i, In (path i, path (Datatypes.S i)) (edges g)) ->
  let sigma := fun i => nth (path i) (nodes g) (0, 0) in
  (forall i, nth_error (nodes g) (path i) = Some (sigma i)) /\
  (forall i, E (fst (sigma i)) (snd (sigma i)) (fst (sigma (Datatypes.S i))) = true /\
             S (fst (sigma i)) (snd (sigma i)) (fst (sigma (Datatypes.S i)))
               (snd (sigma (Datatypes.S i))) = true).
Proof.
  intros H Hp. cbv zeta.
  assert (Hedge : forall i, exists s t,
            nth_error (nodes g) (path i) = Some s /\
            nth_error (nodes g) (path (Datatypes.S i)) = Some t /\
            E (fst s) (snd s) (fst t) = true /\ S (fst s) (snd s) (fst t) (snd t) = true).
  { intros i. specialize (Hp i).
    unfold check_graph in H. repeat rewrite andb_true_iff in H.
    destruct H as [[[_ _] Hed] _]. rewrite forallb_forall in Hed. specialize (Hed _ Hp).
    unfold edge_ok in Hed. cbn [fst snd] in Hed.
    destruct (nth_error (nodes g) (path i)) as [s|]; [|discriminate].
    destruct (nth_error (nodes g) (path (Datatypes.S i))) as [t|]; [|discriminate].
    apply andb_true_iff in Hed. exists s, t. tauto. }
  assert (Hn : forall i, nth_error (nodes g) (path i) = Some (nth (path i) (nodes g) (0, 0))).
  { intros i. destruct (Hedge i) as [s [t [Hs _]]]. rewrite Hs. f_equal.
    symmetry. apply nth_error_nth. exact Hs. }
  split; [exact Hn|]. intros i.
  destruct (Hedge i) as [s [t [Hs [Ht [He HS]]]]].
  rewrite Hn in Hs, Ht. injection Hs as Es. injection Ht as Et. rewrite Es, Et.
  split; assumption.
Qed.

End EnumP.

(* ---- initial nodes ------------------------------------------------------ *)
Section InitP.
Variables nx ny : nat.
Variable EI : nat -> bool.
Variable SI : nat -> nat -> bool.
Variable pick pickx : (nat -> bool) -> option nat.
Hypothesis pick_sound : forall p y, pick p = Some y -> y < ny /\ p y = true.
Hypothesis pickx_sound : forall p x, pickx p = Some x -> x < nx /\ p x = true.

Lemma in_all_states s : In s (all_states nx ny) <-> fst s < nx /\ snd s < ny.
Proof.
  unfold all_states. rewrite in_flat_map. split.
  - intros [x [Hx Hs]]. apply in_map_iff in Hs. destruct Hs as [y [<- Hy]].
    apply in_seq in Hx, Hy. cbn. lia.
  - intros [H1 H2]. exists (fst s). split; [apply in_seq; lia|].
    apply in_map_iff. exists (snd s). split; [destruct s; reflexivity|apply in_seq; lia].
Qed.

Lemma NoDup_rows (xs : list nat) :
  NoDup xs -> NoDup (flat_map (fun x => map (fun y => (x, y)) (seq 0 ny)) xs).
Proof.
  induction 1 as [|x xs Hx Hnd IH]; cbn [flat_map]; [constructor|].
  apply NoDup_app_intro; [| exact IH |].
  - apply Injective_map_NoDup; [intros a b H; inversion H; reflexivity|apply seq_NoDup].
  - intros s Hs Hs'. apply in_map_iff in Hs. destruct Hs as [y [<- _]].
    apply in_flat_map in Hs'. destruct Hs' as [x' [Hx' Hs']].
    apply in_map_iff in Hs'. destruct Hs' as [y' [Heq _]]. inversion Heq. subst. contradiction.
Qed.

Lemma NoDup_all_states : NoDup (all_states nx ny).
Proof. apply NoDup_rows, seq_NoDup. Qed.

(* \A \A *)
Theorem init_AA_spec l :
  init_AA nx ny EI SI = Some l ->
  NoDup l /\ forall s, In s l <-> (fst s < nx /\ snd s < ny) /\ EI (fst s) = true /\ SI (fst s) (snd s) = true.
Proof.
  unfold init_AA. intros H. inversion H. subst. split.
  - apply NoDup_filter, NoDup_all_states.
  - intros s. rewrite filter_In, in_all_states, andb_true_iff. reflexivity.
Qed.

(* \E \E *)
Theorem init_EE_spec l :
  init_EE ny SI pick pickx = Some l ->
  exists x y, l = [(x, y)] /\ x < nx /\ y < ny /\ SI x y = true.
Proof.
  unfold init_EE. destruct (pickx _) as [x|] eqn:Ex; [|discriminate].
  destruct (pick (SI x)) as [y|] eqn:Ey; [|discriminate].
  intros H. inversion H. subst. exists x, y.
  apply pickx_sound in Ex. apply pick_sound in Ey. intuition.
Qed.

(* \A \E *)
Lemma init_AE_from_spec xs : forall l,
  init_AE_from EI SI pick xs = Some l ->
  map fst l = filter EI xs /\
  forall s, In s l -> snd s < ny /\ EI (fst s) = true /\ SI (fst s) (snd s) = true.
Proof.
  induction xs as [|x r IH]; intros l; cbn [init_AE_from filter].
  - intros H. inversion H. subst. split; [reflexivity|intros s []].
  - destruct (EI x) eqn:Ex.
    + destruct (pick (SI x)) as [y|] eqn:Ey; [|discriminate].
      destruct (init_AE_from EI SI pick r) as [l'|] eqn:El; [|discriminate].
      intros H. inversion H. subst. destruct (IH l' eq_refl) as [H1 H2].
      split; [cbn [map fst]; rewrite H1; reflexivity|].
      intros s [<-|Hs]; [|apply H2, Hs]. apply pick_sound in Ey. cbn [fst snd]. intuition.
    + apply IH.
Qed.

Theorem init_AE_spec l :
  init_AE nx EI SI pick = Some l ->
  NoDup l /\
  (* exactly one initial node for each environment value with EnvInit *)
  map fst l = filter EI (seq 0 nx) /\
  forall s, In s l -> snd s < ny /\ EI (fst s) = true /\ SI (fst s) (snd s) = true.
Proof.
  unfold init_AE. intros H. destruct (init_AE_from_spec _ _ H) as [H1 H2].
  split; [|split; assumption].
  apply (NoDup_map_inv fst). rewrite H1. apply NoDup_filter, seq_NoDup.
Qed.

(* \E \A *)
Theorem init_EA_spec l :
  init_EA nx EI SI pick = Some l ->
  exists y, y < ny /\ (forall x, x < nx -> SI x y = true) /\
            l = map (fun x => (x, y)) (filter EI (seq 0 nx)) /\ NoDup l.
Proof.
  unfold init_EA. destruct (pick _) as [y|] eqn:Ey; [|discriminate].
  intros H. inversion H. subst. apply pick_sound in Ey. destruct Ey as [Hy Hall].
  exists y. split; [exact Hy|]. split; [|split; [reflexivity|]].
  - intros x Hx. rewrite forallb_forall in Hall. apply Hall, in_seq. lia.
  - apply Injective_map_NoDup; [intros a b Hab; inversion Hab; reflexivity|].
    apply NoDup_filter, seq_NoDup.
Qed.

End InitP.

(* ---- termination: fuel is never what stops the enumeration ------------- *)
Section EnumT.
Variables nx ny : nat.
Variable E : nat -> nat -> nat -> bool.
Variable S : nat -> nat -> nat -> nat -> bool.
Variable pick : (nat -> bool) -> option nat.
Hypothesis pick_sound : forall p y, pick p = Some y -> y < ny /\ p y = true.

Local Notation step := (step nx ny E S pick).
Local Notation run := (run nx ny E S pick).
Local Notation Inv := (Inv nx ny E S).
Local Notation WF := (WF nx ny E S).

Lemma nodes_bound g : WF g -> length (nodes g) <= nx * ny.
Proof.
  intros Hwf.
  assert (Hrows : forall l : list nat,
            length (flat_map (fun x => map (fun y => (x, y)) (seq 0 ny)) l) = length l * ny).
  { induction l as [|a l IH]; [reflexivity|].
    cbn [flat_map length]. rewrite app_length, map_length, seq_length, IH. lia. }
  assert (Hlen : length (all_states nx ny) = nx * ny).
  { unfold all_states. rewrite Hrows, seq_length. reflexivity. }
  rewrite <- Hlen. apply NoDup_incl_length; [apply (wf_nodup _ _ _ _ g Hwf)|].
  intros s Hs. apply in_all_states. apply (wf_range _ _ _ _ g Hwf s Hs).
Qed.

(* the measure: room left for new nodes + queued nodes *)
Definition mu (g : graph) : nat := (nx * ny - length (nodes g)) + length (queue g).

Lemma process_env_mu g g' u s x' :
  WF g -> process_env ny S pick s u g x' = Some g' -> WF g' ->
  length (nodes g') - length (nodes g) = length (queue g') - length (queue g) /\
  length (nodes g) <= length (nodes g') /\ length (queue g) <= length (queue g').
Proof.
  intros Hwf. unfold process_env.
  destruct (nonempty ny _).
  - destruct (pick _); [|discriminate]. destruct (find_node _ _ _); [|discriminate].
    intros H _. inversion H. subst. cbn [nodes queue]. lia.
  - destruct (nonempty ny _); [|discriminate]. destruct (pick _); [|discriminate].
    intros H _. inversion H. subst. cbn [nodes queue]. rewrite app_length. cbn [length]. lia.
Qed.


Local Notation process_all := (process_all ny E S pick).
Local Notation process_env := (process_env ny S pick).

Lemma process_all_mu xs : forall g g' u s,
  WF g -> nth_error (nodes g) u = Some s -> ~ In u (queue g) ->
  (forall x', In x' xs -> x' < nx) -> NoDup xs ->
  process_all s u g xs = Some g' ->
  length (nodes g') + length (queue g) = length (nodes g) + length (queue g').
Proof.
  induction xs as [|x' xs IH]; intros g g' u s Hwf Hu Hnq Hlt Hnd; cbn [EnumModel.process_all].
  - intros H. inversion H. subst. lia.
  - inversion Hnd as [|? ? Hnin Hnd']. subst.
    destruct (E (fst s) (snd s) x') eqn:He.
    + destruct (process_env s u g x') as [g1|] eqn:Ep; [|discriminate]. intros Hall.
      destruct (process_env_inv nx ny E S pick pick_sound g g1 u s x' Hwf Hu Hnq He
                  (Hlt x' (or_introl eq_refl)) Ep) as [Hwf1 [_ Hext1]].
      destruct (process_env_mu g g1 u s x' Hwf Ep Hwf1) as [H1 [H2 H3]].
      assert (Hul : u < length (nodes g)) by (apply nth_error_Some; congruence).
      pose proof (IH g1 g' u s Hwf1 (extends_nth _ _ _ _ Hext1 Hu)
                    (extends_notin _ _ _ Hext1 Hul Hnq)
                    (fun y Hy => Hlt y (or_intror Hy)) Hnd' Hall). lia.
    + intros Hall. apply (IH g g' u s Hwf Hu Hnq (fun y Hy => Hlt y (or_intror Hy)) Hnd' Hall).
Qed.

Lemma step_mu g g' :
  Inv g -> queue g <> [] -> step g = Some g' -> mu g' + 1 = mu g.
Proof.
  intros [Hwf Hc] Hne. unfold EnumModel.step.
  destruct (queue g) as [|u q] eqn:Eq; [congruence|].
  destruct (nth_error (nodes g) u) as [s|] eqn:Eu; [|discriminate].
  set (g0 := mkG (nodes g) q (edges g)). intros Hall.
  assert (Hq : NoDup (u :: q)) by (rewrite <- Eq; apply (wf_qnodup _ _ _ _ g Hwf)).
  inversion Hq as [|? ? Hnin Hq']. subst.
  assert (Hwf0 : WF g0).
  { constructor; cbn [nodes queue edges].
    - apply (wf_nodup _ _ _ _ g Hwf).
    - apply (wf_range _ _ _ _ g Hwf).
    - apply (wf_edges _ _ _ _ g Hwf).
    - intros a Ha. apply (wf_queue _ _ _ _ g Hwf). rewrite Eq. right. exact Ha.
    - exact Hq'.
    - intros a e Ha. apply (wf_qfresh _ _ _ _ g Hwf). rewrite Eq. right. exact Ha. }
  pose proof (process_all_mu (seq 0 nx) g0 g' u s Hwf0 Eu Hnin
                (fun x' Hx' => proj2 (proj1 (in_seq _ _ _) Hx')) (seq_NoDup _ _) Hall) as Hm.
  destruct (process_all_inv nx ny E S pick pick_sound (seq 0 nx) g0 g' u s Hwf0 Eu Hnin
              (fun x' Hx' => proj2 (proj1 (in_seq _ _ _) Hx')) (seq_NoDup _ _) Hall)
    as [Hwf' _].
  pose proof (nodes_bound g' Hwf') as Hb. pose proof (nodes_bound g Hwf) as Hb0.
  unfold mu, g0 in *. cbn [nodes queue] in *. rewrite Eq. cbn [length]. lia.
Qed.

(* once the fuel covers the measure, more fuel changes nothing: [run] never
   returns None for lack of fuel, only where the code asserts *)
Theorem run_fuel_irrelevant fuel : forall g k,
  Inv g -> mu g <= fuel -> run (fuel + k) g = run fuel g.
Proof.
  induction fuel as [|f IH]; intros g k Hi Hm.
  - destruct (queue g) as [|u q] eqn:Eq.
    + destruct k; cbn [Nat.add EnumModel.run]; rewrite Eq; reflexivity.
    + exfalso. unfold mu in Hm. rewrite Eq in Hm. cbn [length] in Hm. lia.
  - cbn [Nat.add EnumModel.run]. destruct (queue g) as [|u q] eqn:Eq; [reflexivity|].
    destruct (step g) as [g1|] eqn:Es; [|reflexivity].
    apply IH; [apply (step_inv nx ny E S pick pick_sound g g1 Hi Es)|].
    assert (Hne : queue g <> []) by (rewrite Eq; discriminate).
    pose proof (step_mu g g1 Hi Hne Es). lia.
Qed.

Corollary run_enough_fuel l q fuel k :
  NoDup l -> (forall s, In s l -> in_range nx ny s) ->
  NoDup q -> (forall u, In u q <-> u < length l) ->
  nx * ny <= fuel ->
  run (fuel + k) (mkG l q []) = run fuel (mkG l q []).
Proof.
  intros Hl Hr Hq Hall Hf. apply run_fuel_irrelevant.
  - apply init_inv; assumption.
  - unfold mu. cbn [nodes queue].
    assert (length q = length l).
    { apply Nat.le_antisymm.
      - rewrite <- (seq_length (length l) 0). apply NoDup_incl_length; [exact Hq|].
        intros u Hu. apply in_seq. apply Hall in Hu. lia.
      - rewrite <- (seq_length (length l) 0) at 1. apply NoDup_incl_length; [apply seq_NoDup|].
        intros u Hu. apply in_seq in Hu. apply Hall. lia. }
    pose proof (nodes_bound (mkG l q []) (proj1 (init_inv nx ny E S l q Hl Hr Hq Hall))) as Hb.
    cbn [nodes] in Hb. lia.
Qed.

End EnumT.
