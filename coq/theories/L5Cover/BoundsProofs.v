(* L5Cover / BoundsProofs: the bounds that steer the branch and bound of
   cover.minimize are valid for every covering problem and every pick:
   - the size of the greedy independent set (_lower_bound/_independent_set)
     is a lower bound on the size of every cover of X by elements of Y;
   - the greedy cover (_upper_bound/_some_cover) is a cover, so its size is an
     upper bound on the minimum.
   These are two of the ingredients of the exactness theorem [C09_full]
   (MinCoverFull.v). *)
From Coq Require Import List ZArith Bool Lia Arith.
Import ListNotations.
From Omega Require Import L5Cover.Boxes L5Cover.BoxesProofs L5Cover.MinCover
  L5Cover.MinCoverProofs.
Open Scope Z_scope.

Section Bounds.
Variable pick : list box -> option box.
Hypothesis pick_ok : forall s b, pick s = Some b -> In b s.

Definition covs (C X : list box) : Prop :=
  forall x, In x X -> exists c, In c C /\ box_le x c.

Lemma indep_size_lower_bound fuel : forall rem Y C,
  incl C Y -> covs C rem -> (indep_size pick fuel rem Y <= length C)%nat.
Proof.
  induction fuel as [|n IH]; intros rem Y C HC Hcov.
  - destruct rem; cbn; lia.
  - destruct rem as [|r0 rem']; [cbn; lia|].
    remember (r0 :: rem') as rem eqn:Er.
    assert (E : indep_size pick (S n) rem Y =
      match pick rem with
      | None => O
      | Some x0 =>
          S (indep_size pick n
               (filter (fun p => negb (anyb (fun q => if box_leb x0 q then box_leb p q else false) Y)) rem) Y)
      end).
    { rewrite Er. reflexivity. }
    rewrite E. clear E.
    destruct (pick rem) as [x0|] eqn:Ep; [|lia].
    apply pick_ok in Ep.
    destruct (Hcov x0 Ep) as [c0 [Hc0 Hle0]].
    set (rem2 := filter _ rem).
    assert (H2 : (indep_size pick n rem2 Y <= length (remove box_eq_dec c0 C))%nat).
    { apply IH.
      - intros c Hc. apply in_remove in Hc. apply HC, Hc.
      - intros x Hx. unfold rem2 in Hx. apply filter_In in Hx. destruct Hx as [Hx Hn].
        destruct (Hcov x Hx) as [c [Hc Hle]]. exists c. split; [|exact Hle].
        apply in_in_remove; [|exact Hc]. intros ->.
        apply negb_true_iff in Hn.
        assert (T : anyb (fun q => if box_leb x0 q then box_leb x q else false) Y = true).
        { rewrite anyb_existsb. apply existsb_exists. exists c0. split; [apply HC, Hc0|].
          apply box_leb_true in Hle0. apply box_leb_true in Hle. rewrite Hle0. exact Hle. }
        congruence. }
    pose proof (remove_length_lt box_eq_dec C c0 Hc0). lia.
Qed.
End Bounds.

(* stated on the covering problem of an instance *)
Theorem lower_bound_valid rs pick f care K :
  (forall s b, pick s = Some b -> In b s) ->
  prime_cover rs f care K ->
  forall fuel,
  (indep_size pick fuel (embed rs f) (primes rs f care) <= length K)%nat.
Proof.
  intros Hpick [HK Hcov] fuel. apply (indep_size_lower_bound pick Hpick).
  - intros b Hb. apply primes_In, HK, Hb.
  - intros x Hx. apply embed_In in Hx. destruct Hx as [p [Hp [Hf ->]]].
    destruct (Hcov p Hp Hf) as [b [Hb Hc]]. exists b. split; [exact Hb|].
    destruct (HK b Hb) as [[Hbin _] _].
    (* a singleton inside b is below b *)
    unfold contains in Hc. unfold box_le.
    clear -Hc. induction Hc as [|i x b p Hi Hc IH]; cbn; constructor; [|exact IH].
    unfold ival_le, in_ival in *. cbn. lia.
Qed.

Theorem upper_bound_valid rs pick f care c0 fuel :
  (forall s b, pick s = Some b -> In b s) ->
  some_cover pick fuel (embed rs f) (primes rs f care) = Some c0 ->
  prime_cover rs f care c0.
Proof.
  intros Hpick H. apply (some_cover_sound pick Hpick) in H. destruct H as [A B].
  split.
  - intros b Hb. apply primes_In, A, Hb.
  - intros p Hr Hf.
    destruct (B (map (fun x => (x, x)) p)) as [k [Hk1 Hk2]].
    { apply embed_In. exists p. tauto. }
    exists k. split; [exact Hk1 | apply singleton_le_contains, Hk2].
Qed.
