(* L6 Syntax — precedence-climbing (Pratt) model of omega.logic.lexyacc.Parser.
   The LALR(1) tables PLY derives are not modelled; what is modelled is the
   way yacc resolves every shift/reduce conflict of this grammar from the
   precedence tuple: with a rule R on top of the stack and lookahead a,
   shift iff level a > level R, or the levels are equal and R is
   right-associative (PLY gives tokens and rules without a precedence the
   entry ('right', 0)).  The parser is parametric in the (assoc, level)
   table and in the operator sets, all derived from generated tables.
   Model file: no proofs. *)
From Coq Require Import List String NArith Bool.
From Omega Require Import L6Syntax.Tokens.
Import ListNotations.
Local Open Scope string_scope.
Local Open Scope N_scope.

(* ---- operator tables ---- *)
Record ptable := mkPT {
  pt_bin : string -> option (bclass * assoc * N);   (* binary infix: class, assoc, level *)
  pt_pre : string -> option (assoc * N);            (* prefix operator *)
  pt_post : string -> option (assoc * N * string);  (* postfix operator and the operator name of its node *)
  pt_rule : string -> assoc * N                     (* (assoc, level) of a (pseudo-)token *)
}.

(* "minimum binding" passed down: the operators a sub-expression may absorb.
   2*level+1 = strictly above level (reduce on equal: left/nonassoc rule),
   2*level   = level or above (shift on equal: right-assoc rule). *)
Definition bind_of (al : assoc * N) : N :=
  match fst al with
  | RightA => 2 * snd al
  | _ => 2 * snd al + 1
  end.
(* may an operator of level lv be shifted under minimum binding m ? *)
Definition can_shift (m lv : N) : bool := m <=? 2 * lv.

Fixpoint prec_lookup (name : string) (tbl : list (assoc * list string)) (i : N)
  : option (assoc * N) :=
  match tbl with
  | [] => None
  | (a, names) :: r =>
      if mem_str name names then Some (a, i) else prec_lookup name r (i + 1)
  end.

(* PLY: Precedence.get(name, ('right', 0)) *)
Definition prec_of (tbl : list (assoc * list string)) (name : string) : assoc * N :=
  match prec_lookup name tbl 1 with
  | Some x => x
  | None => (RightA, 0)
  end.

Definition class_of_node (s : string) : option bclass :=
  if String.eqb s "Binary" then Some CBinary
  else if String.eqb s "Comparator" then Some CComparator
  else if String.eqb s "Arithmetic" then Some CArithmetic
  else None.

Definition prod_prec_name (p : production) (dflt : string) : string :=
  match pr_prec p with Some x => x | None => dflt end.

(* operator tables as association lists keyed by token type, computed once
   from the productions `expr : expr T expr`, `expr : T expr`,
   `expr : expr T` of the grammar *)
Fixpoint bin_list (prods : list production) (tbl : list (assoc * list string))
  : list (string * (bclass * assoc * N)) :=
  match prods with
  | [] => []
  | p :: r =>
      match pr_rhs p with
      | [a; t; b] =>
          if String.eqb (pr_lhs p) "expr" && String.eqb a "expr"
             && String.eqb b "expr"
          then match class_of_node (pr_node p) with
               | Some c => let al := prec_of tbl (prod_prec_name p t) in
                           (t, (c, fst al, snd al)) :: bin_list r tbl
               | None => bin_list r tbl
               end
          else bin_list r tbl
      | _ => bin_list r tbl
      end
  end.

Fixpoint pre_list (prods : list production) (tbl : list (assoc * list string))
  : list (string * (assoc * N)) :=
  match prods with
  | [] => []
  | p :: r =>
      match pr_rhs p with
      | [t; b] =>
          if String.eqb (pr_lhs p) "expr" && String.eqb b "expr"
             && negb (String.eqb t "expr") && String.eqb (pr_node p) "Unary"
          then (t, prec_of tbl (prod_prec_name p t)) :: pre_list r tbl
          else pre_list r tbl
      | _ => pre_list r tbl
      end
  end.

Fixpoint post_list (prods : list production) (tbl : list (assoc * list string))
  : list (string * (assoc * N * string)) :=
  match prods with
  | [] => []
  | p :: r =>
      match pr_rhs p with
      | [a; t] =>
          if String.eqb (pr_lhs p) "expr" && String.eqb a "expr"
             && negb (String.eqb t "expr") && String.eqb (pr_node p) "Unary"
          then let al := prec_of tbl (prod_prec_name p t) in
               (t, (fst al, snd al, pr_const p)) :: post_list r tbl
          else post_list r tbl
      | _ => post_list r tbl
      end
  end.

Definition mk_ptable (tbl : list (assoc * list string)) (prods : list production)
  : ptable :=
  let bl := bin_list prods tbl in
  let pl := pre_list prods tbl in
  let ql := post_list prods tbl in
  mkPT (fun ty => assoc_str ty bl) (fun ty => assoc_str ty pl)
       (fun ty => assoc_str ty ql) (prec_of tbl).

(* ---- the parser ---- *)
Section Parse.
Variable T : ptable.

Definition is_ty (t : token) (s : string) : bool := String.eqb (tty t) s.

Definition expect (ty : string) (ts : list token) : option (list token) :=
  match ts with
  | t :: r => if is_ty t ty then Some r else None
  | [] => None
  end.

(* number : NUMBER | MINUS NUMBER %prec UMINUS *)
Definition p_number (ts : list token) : option (tree * list token) :=
  match ts with
  | t :: r =>
      if is_ty t "NUMBER" then Some (Term KNum (tval t), r)
      else if is_ty t "MINUS" then
        match r with
        | n :: r' => if is_ty n "NUMBER"
                     then Some (Term KNum ("-" ++ tval n), r') else None
        | [] => None
        end
      else None
  | [] => None
  end.

(* after a number: expr : number | number DOTS number *)
Definition p_number_tail (n : tree) (ts : list token) : option (tree * list token) :=
  match ts with
  | t :: r =>
      if is_ty t "DOTS" then
        match p_number r with
        | Some (n2, r') => Some (Bin CBinary (tval t) n n2, r')
        | None => None
        end
      else Some (n, ts)
  | [] => Some (n, ts)
  end.

Definition rule_bind (name : string) : N := bind_of (pt_rule T name).

Definition is_decl (t : token) : bool :=
  is_ty t "VARIABLE" || is_ty t "VARIABLES"
  || is_ty t "CONSTANT" || is_ty t "CONSTANTS".

Fixpoint p_expr (fuel : nat) (m : N) (ts : list token) {struct fuel}
  : option (tree * list token) :=
  match fuel with
  | O => None
  | S f =>
      match p_nud f ts with
      | Some (l, r) => p_led f m l r
      | None => None
      end
  end

(* a complete operand: terminal, parenthesis, prefix operator with its
   operand, or one of the special forms *)
with p_nud (fuel : nat) (ts : list token) {struct fuel}
  : option (tree * list token) :=
  match fuel with
  | O => None
  | S f =>
      match ts with
      | [] => None
      | t :: r =>
          if is_ty t "NAME" then Some (Term KVar (tval t), r)
          else if is_ty t "TRUE" || is_ty t "FALSE" then Some (Term KBool (tval t), r)
          else if is_ty t "NUMBER" then p_number_tail (Term KNum (tval t)) r
          else if is_ty t "LPAREN" then
            match p_expr f 0 r with
            | Some (e, r1) =>
                match expect "RPAREN" r1 with
                | Some r2 => Some (e, r2)
                | None => None
                end
            | None => None
            end
          else if is_ty t "DQUOTES" then
            match r with
            | n :: q :: r' =>
                if is_ty n "NAME" && is_ty q "DQUOTES"
                then Some (Term KStr ("""" ++ tval n ++ """"), r') else None
            | _ => None
            end
          else if is_ty t "ITE" then
            match expect "LPAREN" r with
            | Some r1 =>
              match p_expr f 0 r1 with
              | Some (a, r2) =>
                match expect "COMMA" r2 with
                | Some r3 =>
                  match p_expr f 0 r3 with
                  | Some (b, r4) =>
                    match expect "COMMA" r4 with
                    | Some r5 =>
                      match p_expr f 0 r5 with
                      | Some (c, r6) =>
                        match expect "RPAREN" r6 with
                        | Some r7 => Some (Opr (tval t) [a; b; c], r7)
                        | None => None
                        end
                      | None => None
                      end
                    | None => None
                    end
                  | None => None
                  end
                | None => None
                end
              | None => None
              end
            | None => None
            end
          else if is_ty t "IF" then
            match p_expr f 0 r with
            | Some (a, r1) =>
              match expect "THEN" r1 with
              | Some r2 =>
                match p_expr f 0 r2 with
                | Some (b, r3) =>
                  match expect "ELSE" r3 with
                  | Some r4 =>
                    match p_expr f (rule_bind "IF_THEN_ELSE") r4 with
                    | Some (c, r5) => Some (Opr "ite" [a; b; c], r5)
                    | None => None
                    end
                  | None => None
                  end
                | None => None
                end
              | None => None
              end
            | None => None
            end
          else if is_ty t "LET" then
            match p_defs f r with
            | Some (ds, r1) =>
              match expect "IN_EXPR" r1 with
              | Some r2 =>
                match p_expr f (rule_bind "LET_IN") r2 with
                | Some (b, r3) => Some (Opr (tval t) [Lst ds; b], r3)
                | None => None
                end
              | None => None
              end
            | None => None
            end
          else if is_ty t "FORALL" || is_ty t "EXISTS" then
            match p_list f r with
            | Some (vs, r1) =>
              match expect "COLON" r1 with
              | Some r2 =>
                match p_expr f (rule_bind "COLON") r2 with
                | Some (b, r3) => Some (Opr (tval t) [Opr "params" vs; b], r3)
                | None => None
                end
              | None => None
              end
            | None => None
            end
          else if is_ty t "AT" then
            match p_number r with
            | Some (n, r1) => Some (Opr (tval t) [n], r1)
            | None => None
            end
          else
          match pt_pre T (tty t) with
          | Some al =>
              match p_expr f (bind_of al) r with
              | Some (x, r1) => Some (Un (tval t) x, r1)
              | None => None
              end
          | None =>
              if is_ty t "MINUS" then
                match p_number ts with
                | Some (n, r1) => p_number_tail n r1
                | None => None
                end
              else if is_ty t "AND" then
                (* junc_list : AND expr   (rule precedence: AND) *)
                match p_expr f (rule_bind "AND") r with
                | Some (x, r1) => p_junc f x r1
                | None => None
                end
              else if is_ty t "OR" then
                (* junc_list : OR expr %prec CONJ_LIST *)
                match p_expr f (rule_bind "CONJ_LIST") r with
                | Some (x, r1) => p_junc f x r1
                | None => None
                end
              else None
          end
      end
  end

(* the operator loop: absorb infix/postfix operators that may be shifted
   under minimum binding m *)
with p_led (fuel : nat) (m : N) (l : tree) (ts : list token) {struct fuel}
  : option (tree * list token) :=
  match fuel with
  | O => None
  | S f =>
      match ts with
      | [] => Some (l, ts)
      | t :: r =>
          match pt_bin T (tty t) with
          | Some (c, a, lv) =>
              if can_shift m lv then
                match p_expr f (bind_of (a, lv)) r with
                | Some (x, r1) => p_led f m (Bin c (tval t) l x) r1
                | None => None
                end
              else Some (l, ts)
          | None =>
              match pt_post T (tty t) with
              | Some (a, lv, name) =>
                  if can_shift m lv then p_led f m (Un name l) r
                  else Some (l, ts)
              | None =>
                  if is_ty t "TRUNCATE" then
                    (* expr : expr TRUNCATE number *)
                    if can_shift m (snd (pt_rule T "TRUNCATE")) then
                      match p_number r with
                      | Some (n, r1) => p_led f m (Bin CArithmetic (tval t) l n) r1
                      | None => None
                      end
                    else Some (l, ts)
                  else Some (l, ts)
              end
          end
      end
  end

(* junc_list : junc_list AND expr | junc_list OR expr ;
   expr : junc_list %prec REDUCE_LIST  (lowest: AND/OR are always shifted) *)
with p_junc (fuel : nat) (j : tree) (ts : list token) {struct fuel}
  : option (tree * list token) :=
  match fuel with
  | O => None
  | S f =>
      match ts with
      | t :: r =>
          if is_ty t "AND" || is_ty t "OR" then
            match p_expr f (rule_bind (tty t)) r with
            | Some (x, r1) => p_junc f (Bin CBinary (tval t) j x) r1
            | None => None
            end
          else Some (j, ts)
      | [] => Some (j, ts)
      end
  end

(* defs : defs def | def ;  def : NAME DEF expr *)
with p_defs (fuel : nat) (ts : list token) {struct fuel}
  : option (list tree * list token) :=
  match fuel with
  | O => None
  | S f =>
      match ts with
      | n :: d :: r =>
          if is_ty n "NAME" && is_ty d "DEF" then
            match p_expr f (rule_bind "DEF") r with
            | Some (e, r1) =>
                let def := Bin CBinary "==" (Term KOpname (tval n)) e in
                match r1 with
                | n' :: _ =>
                    if is_ty n' "NAME" then
                      match p_defs f r1 with
                      | Some (ds, r2) => Some (def :: ds, r2)
                      | None => None
                      end
                    else Some ([def], r1)
                | [] => Some ([def], r1)
                end
            | None => None
            end
          else None
      | _ => None
      end
  end

(* list : list COMMA expr | expr *)
with p_list (fuel : nat) (ts : list token) {struct fuel}
  : option (list tree * list token) :=
  match fuel with
  | O => None
  | S f =>
      match p_expr f 0 ts with
      | Some (e, r1) =>
          match r1 with
          | c :: r2 =>
              if is_ty c "COMMA" then
                match p_list f r2 with
                | Some (es, r3) => Some (e :: es, r3)
                | None => None
                end
              else Some ([e], r1)
          | [] => Some ([e], r1)
          end
      | None => None
      end
  end.

(* module : units ; unit : def | var_decl | const_decl *)
Fixpoint p_units (fuel : nat) (ts : list token) {struct fuel}
  : option (list tree * list token) :=
  match fuel with
  | O => None
  | S f =>
      match ts with
      | [] => None
      | t :: r =>
          match
            (if is_decl t then
               match p_list f r with
               | Some (vs, r1) => Some (Opr (tval t) [Lst vs], r1)
               | None => None
               end
             else
               match r with
               | d :: r' =>
                   if is_ty t "NAME" && is_ty d "DEF" then
                     match p_expr f (rule_bind "DEF") r' with
                     | Some (e, r1) =>
                         Some (Bin CBinary "==" (Term KOpname (tval t)) e, r1)
                     | None => None
                     end
                   else None
               | [] => None
               end)
          with
          | Some (u, r1) =>
              match r1 with
              | [] => Some ([u], r1)
              | _ :: _ =>
                  match p_units f r1 with
                  | Some (us, r2) => Some (u :: us, r2)
                  | None => None
                  end
              end
          | None => None
          end
      end
  end.

Definition parse_fuel (ts : list token) : nat := 4 * List.length ts + 8.

(* start : module | expr.  One token of lookahead after the first decides:
   a declaration keyword, or NAME followed by DEF, begins a module. *)
Definition is_module_start (ts : list token) : bool :=
  match ts with
  | t :: r =>
      is_decl t ||
      match r with
      | d :: _ => is_ty t "NAME" && is_ty d "DEF"
      | [] => false
      end
  | [] => false
  end.

Definition parse (ts : list token) : option tree :=
  if is_module_start ts then
    match p_units (parse_fuel ts) ts with
    | Some (us, []) => Some (Lst us)
    | _ => None
    end
  else
    match p_expr (parse_fuel ts) 0 ts with
    | Some (t, []) => Some t
    | _ => None
    end.

End Parse.
