(* Proofs about the GENERATED definitions of coq/gen/BitsGen.v
   (bitvector.dom_to_width and _type_hints._bitfield_limits, translated from
   the omega sources on every run; tie T of C18).  Re-checked on every run.

   The proofs go through unfolding + case analysis + lia, and through the
   bit_length bounds of L0Bits/BitsFacts.v; they do not depend on the syntactic
   shape of the generated code beyond its name and argument order. *)
From Coq Require Import ZArith List Bool Lia.
From Omega Require Import L0Bits.Bits L0Bits.BitsFacts.
From OmegaGen Require Import BitsGen.
Import ListNotations.
Open Scope Z_scope.

Definition absval (lo hi : Z) := Z.max (Z.abs lo) (Z.abs hi).

(* Tactics that do not depend on the syntactic shape of the generated code:
   every argument of bit_length is replaced by the canonical |lo| max |hi|
   (by lia), every integer comparison is split, and what remains is linear
   arithmetic.  They survive reorderings of operands, inlined temporaries,
   augmented assignments and early returns in the Python source. *)
Ltac split_cmp :=
  repeat match goal with
  | |- context [Z.ltb ?x ?y] => destruct (Z.ltb_spec x y)
  | |- context [Z.leb ?x ?y] => destruct (Z.leb_spec x y)
  | |- context [Z.geb ?x ?y] => destruct (Z.geb_spec x y)
  | |- context [Z.gtb ?x ?y] => destruct (Z.gtb_spec x y)
  | |- context [Z.eqb ?x ?y] => destruct (Z.eqb_spec x y)
  end.

Ltac canon_bit_length A :=
  repeat match goal with
  | |- context [bit_length ?e] =>
    tryif constr_eq e A then fail
    else (replace e with A by (subst A; lia))
  end.

(* what dom_to_width computes, as a closed formula *)
Lemma dom_to_width_spec lo hi : lo <= hi ->
  dom_to_width (lo, hi) =
  Some ((lo <? 0) && (hi >=? 0),
        Z.max 1 (bit_length (absval lo hi)) +
        (if (lo <? 0) && (hi >=? 0) then 1 else 0)).
Proof.
  intro Hle. unfold dom_to_width, absval.
  set (A := Z.max (Z.abs lo) (Z.abs hi)).
  canon_bit_length A.
  pose proof (bit_length_nonneg A) as Hn.
  pose proof (bit_length_zero A) as Hz.
  assert (HA : A = 0 <-> lo = 0 /\ hi = 0) by (subst A; lia).
  generalize dependent (bit_length A). intros B Hn Hz.
  cbv zeta. split_cmp; cbn [andb orb negb]; cbv zeta beta iota;
    try (exfalso; lia); repeat f_equal; lia.
Qed.

Theorem dom_to_width_total lo hi : lo <= hi ->
  exists s w, dom_to_width (lo, hi) = Some (s, w).
Proof. intro H. rewrite dom_to_width_spec by auto. eauto. Qed.

Theorem dom_to_width_wf lo hi s w : lo <= hi ->
  dom_to_width (lo, hi) = Some (s, w) -> wf_hint (mkHint w s (lo, hi)).
Proof.
  intros Hle H. rewrite dom_to_width_spec in H by auto. inversion H; subst; clear H.
  pose proof (bit_length_nonneg (absval lo hi)).
  unfold wf_hint; cbn [h_width h_signed h_dom fst snd].
  destruct (Z.ltb_spec lo 0), (Z.geb_spec hi 0); cbn [andb];
    repeat split; intros; try discriminate; try lia.
Qed.

Theorem bitfield_limits_spec h : wf_hint h ->
  bitfield_limits h = Some (limits_of h).
Proof.
  intros (Hw & Hs & Hd & Hle). unfold bitfield_limits, limits_of.
  destruct (h_signed h).
  - cbv zeta. repeat f_equal; lia.
  - specialize (Hd eq_refl). destruct (h_dom h) as [mn mx]. cbn [fst snd] in *.
    cbv zeta. split_cmp; cbn [andb orb negb]; cbv zeta beta iota;
      try (exfalso; lia); repeat f_equal; lia.
Qed.

Lemma declared_hint_some lo hi : lo <= hi ->
  exists h, declared_hint lo hi = Some h /\ wf_hint h /\ h_dom h = (lo, hi).
Proof.
  intro Hle. unfold declared_hint.
  destruct (dom_to_width_total lo hi Hle) as (s & w & E). rewrite E.
  eexists; split; [reflexivity|]. split; [eapply dom_to_width_wf; eauto|reflexivity].
Qed.

(* ---- hint_representable --------------------------------------------------- *)
(* every value of the declared range lies within the reported limits *)
Theorem hint_representable lo hi h L H : lo <= hi ->
  declared_hint lo hi = Some h -> bitfield_limits h = Some (L, H) ->
  forall v, lo <= v <= hi -> L <= v <= H.
Proof.
  intros Hle Hd Hl v Hv.
  destruct (declared_hint_some lo hi Hle) as (h' & E & Hwf & _).
  rewrite E in Hd. inversion Hd; subst h'; clear Hd.
  rewrite bitfield_limits_spec in Hl by auto.
  unfold declared_hint in E. rewrite dom_to_width_spec in E by auto.
  inversion E as [Eh]; clear E.
  pose proof (bit_length_nonneg (absval lo hi)) as Hn.
  pose proof (bit_length_upper (absval lo hi)) as Hu.
  assert (Ha : Z.abs (absval lo hi) = absval lo hi) by (unfold absval; lia).
  rewrite Ha in Hu.
  assert (Hp : 2 ^ bit_length (absval lo hi) <= 2 ^ Z.max 1 (bit_length (absval lo hi)))
    by (apply Z.pow_le_mono_r; lia).
  unfold limits_of in Hl. subst h. cbn [h_width h_signed h_dom fst snd] in Hl.
  unfold absval in *.
  destruct (Z.ltb_spec lo 0), (Z.geb_spec hi 0); cbn [andb] in Hl.
  - replace (Z.max 1 (bit_length (Z.max (Z.abs lo) (Z.abs hi))) + 1 - 1)
      with (Z.max 1 (bit_length (Z.max (Z.abs lo) (Z.abs hi)))) in Hl by lia.
    inversion Hl; subst; clear Hl. lia.
  - destruct (Z.geb_spec lo 0); [lia|].
    rewrite Z.add_0_r in Hl. inversion Hl; subst; clear Hl. lia.
  - destruct (Z.geb_spec lo 0); [|lia].
    rewrite Z.add_0_r in Hl. inversion Hl; subst; clear Hl. lia.
  - lia.
Qed.

(* ---- limits_exact ---------------------------------------------------------- *)
(* The value map (the bit field of the declared width, completed with the
   constant sign bit that _append_sign_bit adds for sign-definite hints, read
   as two's complement) is a bijection from all bit fields of the declared
   width onto the interval of reported limits. *)
Theorem limits_exact lo hi h L H : lo <= hi ->
  declared_hint lo hi = Some h -> bitfield_limits h = Some (L, H) ->
  (forall bits, length bits = wnat h ->
     exists v, decode_val h bits = Some v /\ L <= v <= H) /\
  (forall v, L <= v <= H ->
     exists bits, length bits = wnat h /\ decode_val h bits = Some v) /\
  (forall b1 b2, length b1 = wnat h -> length b2 = wnat h ->
     decode_val h b1 = decode_val h b2 -> b1 = b2).
Proof.
  intros Hle Hd Hl.
  destruct (declared_hint_some lo hi Hle) as (h' & E & Hwf & _).
  rewrite E in Hd. inversion Hd; subst h'; clear Hd E.
  rewrite bitfield_limits_spec in Hl by auto.
  assert (Hin : forall v, in_limits h v = true <-> L <= v <= H).
  { intro v. unfold in_limits. inversion Hl as [Hl']. rewrite Hl'. cbn [fst snd].
    rewrite andb_true_iff, !Z.leb_le. reflexivity. }
  split; [|split].
  - intros bits Hlen.
    destruct (decode_in_limits h bits Hwf Hlen) as (z & D & I & _).
    exists z. split; auto. apply Hin; auto.
  - intros v Hv. exists (encode_val h v). split; [apply encode_val_length|].
    apply decode_encode; auto. apply Hin; auto.
  - intros b1 b2 H1 H2 D.
    destruct (decode_in_limits h b1 Hwf H1) as (z1 & D1 & _ & E1).
    destruct (decode_in_limits h b2 Hwf H2) as (z2 & D2 & _ & E2).
    rewrite D1, D2 in D. inversion D; subst. congruence.
Qed.

(* the reported limits are the least and the greatest representable values *)
Corollary limits_least_greatest lo hi h L H : lo <= hi ->
  declared_hint lo hi = Some h -> bitfield_limits h = Some (L, H) ->
  let representable v :=
    exists bits, length bits = wnat h /\ decode_val h bits = Some v in
  representable L /\ representable H /\
  (forall v, representable v -> L <= v <= H).
Proof.
  intros Hle Hd Hl representable.
  destruct (limits_exact lo hi h L H Hle Hd Hl) as (A & B & _).
  assert (L <= H).
  { destruct (A (repeat false (wnat h))) as (v & _ & ?); [apply repeat_length|lia]. }
  split; [apply B; lia|]. split; [apply B; lia|].
  intros v (bits & Hlen & D). destruct (A bits Hlen) as (v' & D' & ?). congruence.
Qed.

(* ---- width_minimal_shape --------------------------------------------------- *)
(* the sign bit is stored exactly when the range crosses zero (lo < 0 <= hi);
   for sign-definite hints it is omitted from the bit field and re-added as a
   constant by _append_sign_bit; the hint 0..0 gets width 1; and the magnitude
   part of the width is exactly bit_length of the largest absolute value
   (so one bit fewer could not hold that value) *)
Theorem width_minimal_shape lo hi h : lo <= hi ->
  declared_hint lo hi = Some h ->
  (h_signed h = true <-> lo < 0 <= hi) /\
  (forall (A : Type) (z o : A) bits, length bits = wnat h ->
     exists l, append_sign_bit z o bits h = Some l /\
       length l = (length bits + (if h_signed h then 0 else 1))%nat /\
       (h_signed h = false -> l = bits ++ [if lo >=? 0 then z else o])) /\
  (lo = 0 -> hi = 0 -> h_width h = 1 /\ h_signed h = false) /\
  (absval lo hi <> 0 ->
     let m := h_width h - (if h_signed h then 1 else 0) in
     2 ^ (m - 1) <= absval lo hi < 2 ^ m).
Proof.
  intros Hle Hd.
  destruct (declared_hint_some lo hi Hle) as (h' & E & Hwf & Hdom).
  rewrite E in Hd. inversion Hd; subst h'; clear Hd.
  unfold declared_hint in E. rewrite dom_to_width_spec in E by auto.
  assert (Eh : h = mkHint (Z.max 1 (bit_length (absval lo hi)) +
                 (if (lo <? 0) && (hi >=? 0) then 1 else 0))
                 ((lo <? 0) && (hi >=? 0)) (lo, hi)) by congruence.
  clear E.
  assert (Hs : h_signed h = (lo <? 0) && (hi >=? 0)) by (rewrite Eh; reflexivity).
  assert (Hw : h_width h = Z.max 1 (bit_length (absval lo hi)) +
                 (if (lo <? 0) && (hi >=? 0) then 1 else 0)) by (rewrite Eh; reflexivity).
  clear Eh. split; [|split; [|split]].
  - rewrite Hs, andb_true_iff, Z.ltb_lt, Z.geb_le. lia.
  - intros A z o bits Hlen. destruct (h_signed h) eqn:Hsg.
    + exists bits. split; [|split; [lia|discriminate]].
      apply append_sign_bit_signed; auto.
      destruct Hwf as (_ & H2 & _). specialize (H2 Hsg). unfold wnat in Hlen. lia.
    + rewrite append_sign_bit_unsigned by auto. rewrite Hdom. cbn [fst].
      eexists; split; [reflexivity|]. split; [rewrite app_length; simpl; lia|auto].
  - intros -> ->. rewrite Hw, Hs. vm_compute. auto.
  - intros Hnz m.
    assert (Hm : m = bit_length (absval lo hi)).
    { unfold m. rewrite Hw, Hs.
      pose proof (bit_length_zero (absval lo hi)).
      pose proof (bit_length_nonneg (absval lo hi)).
      destruct ((lo <? 0) && (hi >=? 0)); lia. }
    rewrite Hm.
    pose proof (bit_length_upper (absval lo hi)).
    pose proof (bit_length_lower (absval lo hi) Hnz).
    assert (Z.abs (absval lo hi) = absval lo hi) by (unfold absval; lia).
    lia.
Qed.

(* non-vacuity: the hypotheses are satisfiable, in each of the three shapes *)
Example declared_hint_examples :
  declared_hint (-3) 2 = Some (mkHint 3 true (-3, 2)) /\
  declared_hint 0 5 = Some (mkHint 3 false (0, 5)) /\
  declared_hint (-4) (-2) = Some (mkHint 3 false (-4, -2)) /\
  declared_hint 0 0 = Some (mkHint 1 false (0, 0)) /\
  bitfield_limits (mkHint 3 true (-3, 2)) = Some (-4, 3) /\
  bitfield_limits (mkHint 3 false (0, 5)) = Some (0, 7) /\
  bitfield_limits (mkHint 3 false (-4, -2)) = Some (-8, -1).
Proof. vm_compute. repeat split. Qed.
