(* Proofs about `steps.Assembly` (model: Assembly.v), for the repaired
   `_omit_prefix` ([omit1]); the unrepaired one is refuted at the end. *)
From Coq Require Import List Bool String Ascii ZArith Lia.
From Omega Require Import L4Steps.Mangle L4Steps.MangleProofs
  L4Steps.Stepper L4Steps.StepperProofs L4Steps.Assembly.
Import ListNotations.
Open Scope string_scope.

(* what one machine contributes to a step from [state]: its local view, the
   values [r] its `step` returned and their mangled form [g] *)
Definition contrib (state : dict) (nm : string * machine) (rg : dict * dict) : Prop :=
  exists local,
    to_local state (fst nm) (m_vars (snd nm)) = Ok local /\
    m_step (snd nm) local = Ok (fst rg) /\
    to_global (fst rg) (fst nm) = Ok (snd rg).

Definition contrib_init (nm : string * machine) (rg : dict * dict) : Prop :=
  m_init (snd nm) = Ok (fst rg) /\ to_global (fst rg) (fst nm) = Ok (snd rg).

Lemma update_state_inv : forall s g s',
  update_state s g = Ok s' -> s' = (s ++ g)%list /\ overlap g s = false.
Proof.
  intros s g s' H. unfold update_state in H.
  destruct (overlap g s) eqn:O; [discriminate|]. injection H as <-. auto.
Qed.

Lemma NoDup_app_disjoint : forall (a b : list string),
  NoDup a -> NoDup b -> (forall k, In k b -> ~ In k a) -> NoDup (a ++ b)%list.
Proof.
  induction a as [|x a IH]; simpl; intros b Na Nb D; [exact Nb|].
  inversion Na as [|? ? Hn Na']; subst. constructor.
  - intros H. apply in_app_or in H. destruct H as [H|H]; [auto|].
    apply (D x H). left. reflexivity.
  - apply IH; [exact Na'|exact Nb|]. intros k Hk F. apply (D k Hk). right. exact F.
Qed.

Lemma NoDup_app_r : forall (A : Type) (a b : list A), NoDup (a ++ b)%list -> NoDup b.
Proof.
  induction a as [|x a IH]; simpl; intros b H; [exact H|].
  inversion H; subst. apply IH. assumption.
Qed.

Lemma NoDup_app_both : forall (A : Type) (a b : list A) k,
  NoDup (a ++ b)%list -> In k a -> In k b -> False.
Proof.
  induction a as [|x a IH]; simpl; intros b k H Ha Hb; [contradiction|].
  inversion H as [|? ? Hn H']; subst. destruct Ha as [->|Ha].
  - apply Hn, in_or_app. right. exact Hb.
  - eapply IH; eauto.
Qed.

Lemma asm_step_acc_inv : forall ms state acc next,
  asm_step_acc omit1 ms state acc = Ok next ->
  exists parts,
    Forall2 (contrib state) ms parts /\
    next = (acc ++ List.concat (map snd parts))%list /\
    (NoDup (keys acc) ->
     (forall rg, In rg parts -> NoDup (keys (snd rg))) -> NoDup (keys next)).
Proof.
  induction ms as [|[name m] ms IH]; intros state acc next H; simpl in H.
  - injection H as <-. exists []. split; [constructor|]. split.
    + simpl. rewrite app_nil_r. reflexivity.
    + intros ND _. exact ND.
  - destruct (to_local_with omit1 state name (m_vars m)) as [local|] eqn:L; [|discriminate].
    simpl in H. destruct (m_step m local) as [r|] eqn:S; [|discriminate].
    simpl in H. destruct (to_global r name) as [g|] eqn:G; [|discriminate].
    simpl in H. destruct (update_state acc g) as [acc'|] eqn:U; [|discriminate].
    simpl in H. apply update_state_inv in U. destruct U as [-> OV].
    destruct (IH _ _ _ H) as [parts [F [E ND]]].
    exists ((r, g) :: parts). split; [|split].
    + constructor; [|exact F]. exists local. simpl. auto.
    + simpl. rewrite E, <- app_assoc. reflexivity.
    + intros NA NG. apply ND.
      * rewrite keys_app. apply NoDup_app_disjoint.
        -- exact NA.
        -- apply (NG (r, g)). left. reflexivity.
        -- apply overlap_false, OV.
      * intros rg Hrg. apply NG. right. exact Hrg.
Qed.

Lemma asm_init_acc_inv : forall ms acc s,
  asm_init_acc ms acc = Ok s ->
  exists parts,
    Forall2 contrib_init ms parts /\
    s = (acc ++ List.concat (map snd parts))%list /\
    (NoDup (keys acc) ->
     (forall rg, In rg parts -> NoDup (keys (snd rg))) -> NoDup (keys s)).
Proof.
  induction ms as [|[name m] ms IH]; intros acc s H; simpl in H.
  - injection H as <-. exists []. split; [constructor|]. split.
    + simpl. rewrite app_nil_r. reflexivity.
    + intros ND _. exact ND.
  - destruct (m_init m) as [r|] eqn:S; [|discriminate].
    simpl in H. destruct (to_global r name) as [g|] eqn:G; [|discriminate].
    simpl in H. destruct (update_state acc g) as [acc'|] eqn:U; [|discriminate].
    simpl in H. apply update_state_inv in U. destruct U as [-> OV].
    destruct (IH _ _ H) as [parts [F [E ND]]].
    exists ((r, g) :: parts). split; [|split].
    + constructor; [|exact F]. split; simpl; auto.
    + simpl. rewrite E, <- app_assoc. reflexivity.
    + intros NA NG. apply ND.
      * rewrite keys_app. apply NoDup_app_disjoint.
        -- exact NA.
        -- apply (NG (r, g)). left. reflexivity.
        -- apply overlap_false, OV.
      * intros rg Hrg. apply NG. right. exact Hrg.
Qed.

(* --------------------------------------------------------- global names *)
Definition gname (name k : string) : string :=
  if is_hidden k then name ++ k else k.

Lemma to_global_entries : forall r name g,
  NoDup (keys r) -> to_global r name = Ok g ->
  g = (visible_vars r ++ mangle name (hidden_vars r))%list /\
  NoDup (keys g) /\
  (forall k z, In (k, z) r -> In (gname name k, z) g).
Proof.
  intros r name g ND H. rewrite to_global_exact in H by exact ND.
  destruct (overlap _ _) eqn:O; [discriminate|]. injection H as <-.
  split; [reflexivity|]. split.
  - rewrite keys_app. apply NoDup_app_disjoint.
    + apply NoDup_keys_filter, ND.
    + apply NoDup_keys_mangle, NoDup_keys_filter, ND.
    + intros k Hk F. exact (proj1 (overlap_false _ _) O k F Hk).
  - intros k z Hk. unfold gname. apply in_or_app.
    destruct (is_hidden k) eqn:HK.
    + right. unfold mangle.
      apply in_map_iff. exists (k, z). split; [reflexivity|].
      apply filter_In. split; [exact Hk|exact HK].
    + left. apply filter_In. split; [exact Hk|]. simpl. rewrite HK. reflexivity.
Qed.

(* machines return Python dictionaries (distinct keys) whose keys they
   declare *)
Definition machine_ok (m : machine) : Prop :=
  (forall r, m_init m = Ok r ->
     NoDup (keys r) /\ forall k, In k (keys r) -> In k (m_vars m)) /\
  (forall l r, m_step m l = Ok r ->
     NoDup (keys r) /\ forall k, In k (keys r) -> In k (m_vars m)).

Definition machines_ok (ms : machines) : Prop :=
  forall nm, In nm ms -> machine_ok (snd nm).

Lemma Forall2_In_l : forall (A B : Type) (R : A -> B -> Prop) l1 l2 a,
  Forall2 R l1 l2 -> In a l1 -> exists b, In b l2 /\ R a b.
Proof.
  induction 1; simpl; intros Ha; [contradiction|].
  destruct Ha as [<-|Ha]; [eauto|].
  destruct (IHForall2 Ha) as [b [Hb Rb]]. eauto.
Qed.

Lemma Forall2_In_r : forall (A B : Type) (R : A -> B -> Prop) l1 l2 b,
  Forall2 R l1 l2 -> In b l2 -> exists a, In a l1 /\ R a b.
Proof.
  induction 1; simpl; intros Hb; [contradiction|].
  destruct Hb as [<-|Hb]; [eauto|].
  destruct (IHForall2 Hb) as [a [Ha Ra]]. eauto.
Qed.

(* ------------------------------------------------- one step of an assembly *)
(* [step_rel ms G G']: for every machine, G' holds, under the machine's
   global names, exactly the values its `step` returned for its local view
   of G *)
Definition step_rel (ms : machines) (G G' : dict) : Prop :=
  forall name m, In (name, m) ms ->
    exists local r,
      to_local G name (m_vars m) = Ok local /\
      m_step m local = Ok r /\
      forall k z, In (k, z) r -> lookup (gname name k) G' = Some z.

Definition init_rel (ms : machines) (G : dict) : Prop :=
  forall name m, In (name, m) ms ->
    exists r, m_init m = Ok r /\
      forall k z, In (k, z) r -> lookup (gname name k) G = Some z.

Lemma In_concat_snd : forall (parts : list (dict * dict)) rg e,
  In rg parts -> In e (snd rg) -> In e (List.concat (map snd parts)).
Proof.
  intros parts rg e H He. apply in_concat. exists (snd rg). split; [|exact He].
  apply in_map, H.
Qed.

Theorem asm_step_sound : forall ms G G',
  machines_ok ms -> asm_step omit1 ms G = Ok G' ->
  NoDup (keys G') /\ step_rel ms G G'.
Proof.
  intros ms G G' MOK H. unfold asm_step in H.
  destruct (asm_step_acc_inv _ _ _ _ H) as [parts [F [E ND]]]. simpl in E.
  assert (NG : forall rg, In rg parts -> NoDup (keys (snd rg))).
  { intros rg Hrg. destruct (Forall2_In_r _ _ _ _ _ _ F Hrg) as [nm [Hnm [local [_ [S TG]]]]].
    destruct (MOK nm Hnm) as [_ MS]. destruct (MS _ _ S) as [NDr _].
    destruct (to_global_entries _ _ _ NDr TG) as [_ [N _]]. exact N. }
  assert (NDG : NoDup (keys G')) by (apply ND; [constructor|exact NG]).
  split; [exact NDG|].
  intros name m Hm.
  destruct (Forall2_In_l _ _ _ _ _ _ F Hm) as [rg [Hrg [local [L [S TG]]]]].
  simpl in *. exists local, (fst rg). split; [exact L|]. split; [exact S|].
  intros k z Hk.
  destruct (MOK _ Hm) as [_ MS]. destruct (MS _ _ S) as [NDr _].
  destruct (to_global_entries _ _ _ NDr TG) as [_ [_ EN]].
  apply In_lookup; [exact NDG|]. rewrite E.
  eapply In_concat_snd; [exact Hrg|]. apply EN, Hk.
Qed.

Theorem asm_init_sound : forall ms G,
  machines_ok ms -> asm_init ms = Ok G -> NoDup (keys G) /\ init_rel ms G.
Proof.
  intros ms G MOK H. unfold asm_init in H.
  destruct (asm_init_acc_inv _ _ _ H) as [parts [F [E ND]]]. simpl in E.
  assert (NG : forall rg, In rg parts -> NoDup (keys (snd rg))).
  { intros rg Hrg. destruct (Forall2_In_r _ _ _ _ _ _ F Hrg) as [nm [Hnm [S TG]]].
    destruct (MOK nm Hnm) as [MI _]. destruct (MI _ S) as [NDr _].
    destruct (to_global_entries _ _ _ NDr TG) as [_ [N _]]. exact N. }
  assert (NDG : NoDup (keys G)) by (apply ND; [constructor|exact NG]).
  split; [exact NDG|].
  intros name m Hm.
  destruct (Forall2_In_l _ _ _ _ _ _ F Hm) as [rg [Hrg [S TG]]].
  simpl in *. exists (fst rg). split; [exact S|].
  intros k z Hk.
  destruct (MOK _ Hm) as [MI _]. destruct (MI _ S) as [NDr _].
  destruct (to_global_entries _ _ _ NDr TG) as [_ [_ EN]].
  apply In_lookup; [exact NDG|]. rewrite E.
  eapply In_concat_snd; [exact Hrg|]. apply EN, Hk.
Qed.

(* --------------------------------------------------------------- histories *)
Inductive chain (R : dict -> dict -> Prop) : list dict -> Prop :=
| chain_nil : chain R []
| chain_one : forall x, chain R [x]
| chain_cons : forall x y l, R x y -> chain R (y :: l) -> chain R (x :: y :: l).

Lemma chain_snoc : forall R l x y,
  chain R (l ++ [x])%list -> R x y -> chain R (l ++ [x; y])%list.
Proof.
  induction l as [|a l IH]; simpl; intros x y C Rxy.
  - constructor; [exact Rxy|constructor].
  - destruct l as [|b l]; simpl in *.
    + inversion C; subst. constructor; [assumption|].
      constructor; [exact Rxy|constructor].
    + inversion C; subst. constructor; [assumption|]. apply IH; assumption.
Qed.

Definition inv (ms : machines) (a : assembly) : Prop :=
  exists s, s_state a = Some s /\ chain (step_rel ms) (s_past a ++ [s])%list /\
            init_rel ms (hd s (s_past a)).

Lemma do_step_inv : forall ms a a',
  machines_ok ms -> inv ms a -> do_step omit1 ms a = Ok a' -> inv ms a'.
Proof.
  intros ms a a' MOK [s [Hs [C I]]] H. unfold do_step in H. rewrite Hs in H.
  destruct (asm_step omit1 ms s) as [n|] eqn:S; [|discriminate].
  simpl in H. injection H as <-. simpl.
  exists n. split; [reflexivity|]. split.
  - cbn [s_past s_state]. rewrite <- app_assoc. simpl. apply chain_snoc; [exact C|].
    apply asm_step_sound; assumption.
  - destruct (s_past a); simpl in *; exact I.
Qed.

Lemma do_steps_inv : forall ms n a a',
  machines_ok ms -> inv ms a -> do_steps omit1 ms n a = Ok a' -> inv ms a'.
Proof.
  induction n as [|n IH]; simpl; intros a a' MOK I H.
  - injection H as <-. exact I.
  - destruct (do_step omit1 ms a) as [a1|] eqn:S; [|discriminate].
    simpl in H. eapply IH; [exact MOK| |exact H].
    eapply do_step_inv; eauto.
Qed.

(* assembly_step_sound: every recorded step of a run (init + n steps, any n)
   satisfies every component: the next recorded state holds the values the
   component's `step` returned for its view of the previous recorded state;
   the first recorded state holds every component's initial values *)
Theorem assembly_step_sound : forall ms n a,
  machines_ok ms -> run omit1 ms n = Ok a ->
  chain (step_rel ms) (trace a) /\
  match trace a with G0 :: _ => init_rel ms G0 | [] => False end.
Proof.
  intros ms n a MOK H. unfold run in H.
  destruct (do_init ms asm_new) as [a0|] eqn:I0; [|discriminate]. simpl in H.
  assert (I : inv ms a0).
  { unfold do_init in I0. destruct (asm_init ms) as [s|] eqn:S; [|discriminate].
    simpl in I0. injection I0 as <-. exists s. simpl.
    split; [reflexivity|]. split; [constructor|].
    apply asm_init_sound; assumption. }
  destruct (do_steps_inv _ _ _ _ MOK I H) as [s [Hs [C IR]]].
  unfold trace. rewrite Hs. split; [exact C|].
  destruct (s_past a); simpl in *; exact IR.
Qed.

(* consecutive recorded states *)
Definition consecutive (l : list dict) (G G' : dict) : Prop :=
  exists l1 l2, l = (l1 ++ G :: G' :: l2)%list.

Lemma chain_consecutive : forall R l G G',
  chain R l -> consecutive l G G' -> R G G'.
Proof.
  intros R l G G' C [l1 [l2 ->]]. induction l1 as [|a l1 IH]; simpl in C.
  - inversion C; subst. assumption.
  - apply IH. destruct l1; simpl in *; inversion C; subst; assumption.
Qed.

(* ------------------------------------- AutomatonStepper inside an assembly *)
Lemma dset_keys : forall k z d s, In s (keys (dset k z d)) -> s = k \/ In s (keys d).
Proof.
  induction d as [|[k' v'] d IH]; simpl; intros s H.
  - destruct H as [<-|[]]. auto.
  - destruct (String.eqb k k') eqn:E; simpl in H.
    + apply String.eqb_eq in E. subst k'. destruct H as [<-|H]; auto.
    + destruct H as [<-|H]; [auto|]. destruct (IH _ H); auto.
Qed.

Lemma dset_NoDup : forall k z d, NoDup (keys d) -> NoDup (keys (dset k z d)).
Proof.
  induction d as [|[k' v'] d IH]; simpl; intros ND.
  - constructor; [intros []|constructor].
  - inversion ND as [|? ? Hn ND']; subst.
    destruct (String.eqb k k') eqn:E; simpl.
    + apply String.eqb_eq in E. subst k'. constructor; assumption.
    + constructor; [|apply IH, ND'].
      intros H. apply dset_keys in H. destruct H as [->|H]; [|auto].
      rewrite String.eqb_refl in E. discriminate.
Qed.

Lemma unprime_acc_shape : forall p acc r,
  unprime_acc p acc = Ok r -> NoDup (keys acc) ->
  NoDup (keys r) /\
  forall s, In s (keys r) ->
    In s (keys acc) \/ exists k, In k (keys p) /\ unprime k = Some s.
Proof.
  induction p as [|[k z] p IH]; simpl; intros acc r H ND.
  - injection H as <-. split; [exact ND|]. auto.
  - destruct (unprime k) as [s0|] eqn:U; [|discriminate].
    destruct (IH _ _ H (dset_NoDup s0 z acc ND)) as [N K]. split; [exact N|].
    intros s Hs. destruct (K s Hs) as [Ha|[k' [Hk' U']]].
    + apply dset_keys in Ha. destruct Ha as [->|Ha]; [|auto].
      right. exists k. auto.
    + right. exists k'. auto.
Qed.

Section StepperMachine.
Variables pick_i pick_s : list dict -> option dict.
Hypothesis pick_i_in : forall l a, pick_i l = Some a -> In a l.
Hypothesis pick_s_in : forall l a, pick_s l = Some a -> In a l.
Variable A : automaton.
Hypothesis WF : wf_decls (a_decls A).
(* both x and x' are declared for a flexible variable *)
Hypothesis UNP : forall x, In (prime x) (names (a_decls A)) -> In x (names (a_decls A)).

Lemma stepper_machine_ok : machine_ok (stepper_machine pick_i pick_s A).
Proof.
  split; simpl.
  - intros r H. unfold init, init_core in H.
    destruct (pick_i _) as [p|] eqn:P; [|discriminate]. injection H as <-.
    apply pick_i_in in P. unfold candidates in P. apply filter_In in P.
    destruct P as [Hp _].
    assert (K := dicts_keys _ _ Hp). split.
    + apply NoDup_keys_filter. rewrite K. apply NoDup_names_filter, WF.
    + intros k Hk. apply keys_filter_incl in Hk. rewrite K in Hk.
      apply names_In in Hk. destruct Hk as [dom Hk]. apply restrict_In in Hk.
      eapply In_names, (proj1 Hk).
  - intros l r H. unfold step, step_core in H.
    destruct (negb (forallb _ (support _ _))); [discriminate|].
    destruct (negb (forallb _ (keys l))); [discriminate|].
    destruct (pick_s _) as [p|] eqn:P; [|discriminate].
    apply pick_s_in in P. unfold candidates in P. apply filter_In in P.
    destruct P as [Hp _]. assert (K := dicts_keys _ _ Hp).
    destruct (unprime_acc_shape _ _ _ H (NoDup_nil _)) as [N KS].
    split; [exact N|]. intros s Hs. destruct (KS s Hs) as [[]|[k [Hk U]]].
    apply unprime_prime in U. subst k. apply UNP.
    rewrite K in Hk. apply names_In in Hk. destruct Hk as [dom Hk].
    apply restrict_In in Hk. eapply In_names, (proj1 Hk).
Qed.
End StepperMachine.

(* --------------------------------------------------------------- isolation *)
(* naming hygiene of an assembly *)
Fixpoint no_underscore (s : string) : bool :=
  match s with
  | EmptyString => true
  | String c s' => negb (Ascii.eqb c "_"%char) && no_underscore s'
  end.

Definition names_plain (ms : machines) : Prop :=
  NoDup (map fst ms) /\
  forall nm, In nm ms -> fst nm <> "" /\ no_underscore (fst nm) = true.

(* no declared visible variable is named like a mangled hidden variable of
   any component of the assembly *)
Definition visible_clean (ms : machines) : Prop :=
  forall c d, In c ms -> In d ms ->
    forall k, In k (m_vars (snd c)) -> is_hidden k = false ->
      strip (fst d ++ "_") k = None.

Lemma mangle_names_inj : forall n1 n2 k h,
  no_underscore n1 = true -> no_underscore n2 = true ->
  is_hidden k = true -> is_hidden h = true ->
  n1 ++ k = n2 ++ h -> n1 = n2 /\ k = h.
Proof.
  induction n1 as [|c n1 IH]; intros n2 k h U1 U2 Hk Hh E.
  - destruct n2 as [|d n2]; simpl in *; [auto|].
    exfalso. destruct k as [|ck k]; simpl in Hk; [discriminate|].
    injection E as -> _. rewrite Hk in U2. discriminate.
  - destruct n2 as [|d n2]; simpl in *.
    + exfalso. destruct h as [|ch h]; simpl in Hh; [discriminate|].
      injection E as -> _. rewrite Hh in U1. discriminate.
    + injection E as -> E. apply andb_true_iff in U1, U2.
      destruct (IH n2 k h (proj2 U1) (proj2 U2) Hk Hh E) as [-> ->]. auto.
Qed.

Lemma plain_name_not_hidden : forall n k,
  n <> "" -> no_underscore n = true -> is_hidden (n ++ k) = false.
Proof.
  intros [|c n] k NE U; [congruence|]. simpl in *.
  apply andb_true_iff in U. destruct U as [U _].
  destruct (Ascii.eqb c "_"%char); [discriminate|reflexivity].
Qed.

Lemma strip_mangled : forall n h, is_hidden h = true -> strip (n ++ "_") (n ++ h) <> None.
Proof. exact strip_mangled_hidden. Qed.

(* origin of the entries of a recorded state *)
Definition from_outputs (ms : machines) (outs : list (dict * dict)) (G : dict) : Prop :=
  Forall2 (fun nm rg => NoDup (keys (fst rg)) /\
                        (forall k, In k (keys (fst rg)) -> In k (m_vars (snd nm))) /\
                        to_global (fst rg) (fst nm) = Ok (snd rg)) ms outs /\
  G = List.concat (map snd outs) /\ NoDup (keys G).

Lemma from_outputs_no_hidden : forall ms outs G,
  names_plain ms -> from_outputs ms outs G -> no_hidden_keys G.
Proof.
  intros ms outs G [_ NP] [F [-> _]] g Hg.
  unfold keys in Hg. apply in_map_iff in Hg. destruct Hg as [[g' z] [E Hg]].
  simpl in E. subst g'. apply in_concat in Hg. destruct Hg as [gd [Hgd Hin]].
  apply in_map_iff in Hgd. destruct Hgd as [rg [<- Hrg]].
  destruct (Forall2_In_r _ _ _ _ _ _ F Hrg) as [nm [Hnm [NDr [_ TG]]]].
  destruct (to_global_entries _ _ _ NDr TG) as [E0 _]. rewrite E0 in Hin.
  apply in_app_or in Hin. destruct Hin as [Hin|Hin].
  - apply filter_In in Hin. destruct Hin as [_ Hv]. simpl in Hv.
    destruct (is_hidden g); [discriminate|reflexivity].
  - unfold mangle in Hin. apply in_map_iff in Hin.
    destruct Hin as [[h z'] [E _]]. simpl in E. injection E as <- _.
    destruct (NP nm Hnm) as [NE NU]. apply plain_name_not_hidden; assumption.
Qed.

(* assembly_isolation.  In an assembly with plain component names and clean
   visible names, whose recorded state G consists of the mangled outputs of
   its components: the local view of a component [c]
   - exists (no spurious collision) and contains only variables c declares;
   - every hidden entry of it is c's own output of that name;
   - every visible entry of it is a visible output, of the same name, of
     some component;
   so no value of another component's hidden variable reaches c. *)
Theorem assembly_isolation : forall ms outs G c,
  names_plain ms -> visible_clean ms -> from_outputs ms outs G -> In c ms ->
  exists L, to_local G (fst c) (m_vars (snd c)) = Ok L /\
    forall k z, In (k, z) L ->
      In k (m_vars (snd c)) /\
      if is_hidden k
      then exists rg, In rg outs /\ to_global (fst rg) (fst c) = Ok (snd rg) /\
                      In (k, z) (fst rg)
      else exists rg, In rg outs /\ In (k, z) (visible_vars (fst rg)).
Proof.
  intros ms outs G c NP VC FO Hc.
  assert (NH := from_outputs_no_hidden _ _ _ NP FO).
  destruct FO as [F [EG NDG]].
  destruct (to_local_exact G (fst c) (m_vars (snd c)) NDG NH) as [L [HL [NDL LK]]].
  exists L. split; [exact HL|].
  intros k z Hk. apply (In_lookup _ _ _ NDL) in Hk. rewrite LK in Hk.
  destruct (mem k (m_vars (snd c))) eqn:M; [|discriminate].
  apply mem_In in M. split; [exact M|].
  unfold spec_local in Hk.
  (* where does a global entry come from? *)
  assert (ORIGIN : forall g, In (g, z) G ->
    exists nm rg, In nm ms /\ In rg outs /\
      NoDup (keys (fst rg)) /\
      (forall k0, In k0 (keys (fst rg)) -> In k0 (m_vars (snd nm))) /\
      to_global (fst rg) (fst nm) = Ok (snd rg) /\
      (In (g, z) (visible_vars (fst rg)) \/
       exists h, g = fst nm ++ h /\ is_hidden h = true /\ In (h, z) (fst rg))).
  { intros g Hg. rewrite EG in Hg. apply in_concat in Hg.
    destruct Hg as [gd [Hgd Hin]]. apply in_map_iff in Hgd.
    destruct Hgd as [rg [<- Hrg]].
    destruct (Forall2_In_r _ _ _ _ _ _ F Hrg) as [nm [Hnm [NDr [DECL TG]]]].
    exists nm, rg. repeat split; try assumption.
    destruct (to_global_entries _ _ _ NDr TG) as [E _]. rewrite E in Hin.
    apply in_app_or in Hin. destruct Hin as [Hin|Hin]; [left; exact Hin|right].
    unfold mangle in Hin. apply in_map_iff in Hin.
    destruct Hin as [[h z'] [E2 Hh]]. simpl in E2. injection E2 as <- <-.
    apply filter_In in Hh. destruct Hh as [Hh1 Hh2]. exists h. auto. }
  destruct (is_hidden k) eqn:HK.
  - apply lookup_In in Hk.
    destruct (ORIGIN _ Hk) as [nm [rg [Hnm [Hrg [NDr [DECL [TG [V|[h [E [Hh Hin]]]]]]]]]]].
    + (* a visible output named like c's mangled variable: excluded *)
      exfalso. apply filter_In in V. destruct V as [V1 V2]. simpl in V2.
      assert (D : In (fst c ++ k) (m_vars (snd nm))).
      { apply DECL. change (fst c ++ k) with (fst (fst c ++ k, z)). apply in_map, V1. }
      assert (S := VC nm c Hnm Hc _ D).
      destruct (is_hidden (fst c ++ k)); [discriminate|].
      apply (strip_mangled (fst c) k HK). apply S. reflexivity.
    + destruct NP as [NDn NP].
      destruct (NP c Hc) as [_ U1]. destruct (NP nm Hnm) as [_ U2].
      destruct (mangle_names_inj _ _ _ _ U1 U2 HK Hh E) as [EN ->].
      exists rg. split; [exact Hrg|]. split; [|exact Hin].
      rewrite EN. exact TG.
  - destruct (strip (fst c ++ "_") k) eqn:S; [discriminate|].
    apply lookup_In in Hk.
    destruct (ORIGIN _ Hk) as [nm [rg [Hnm [Hrg [NDr [DECL [TG [V|[h [E [Hh Hin]]]]]]]]]]].
    + exists rg. auto.
    + (* a visible variable of c named like nm's mangled variable: excluded *)
      exfalso. assert (S2 := VC c nm Hc Hnm k M HK). rewrite E in S2.
      apply (strip_mangled (fst nm) h Hh). exact S2.
Qed.

(* the recorded states of a run do consist of mangled outputs *)
Lemma asm_step_from_outputs : forall ms G G',
  machines_ok ms -> asm_step omit1 ms G = Ok G' ->
  exists outs, from_outputs ms outs G'.
Proof.
  intros ms G G' MOK H.
  destruct (asm_step_sound _ _ _ MOK H) as [ND _].
  unfold asm_step in H. destruct (asm_step_acc_inv _ _ _ _ H) as [parts [F [E _]]].
  exists parts. split; [|split; [exact E|exact ND]].
  clear E H ND. induction F as [|nm rg ms' parts' C F IH]; [constructor|].
  constructor.
  - destruct C as [local [_ [S TG]]].
    destruct (MOK nm (or_introl eq_refl)) as [_ MS]. destruct (MS _ _ S) as [A B]. auto.
  - apply IH. intros x Hx. apply MOK. right. exact Hx.
Qed.

(* collisions are signalled: a step that succeeds has merged pairwise
   disjoint sets of global names; two outputs with the same global name make
   the step fail *)
Theorem collision_signalled : forall ms G c d kc kd,
  machines_ok ms ->
  (exists pre mid post, ms = (pre ++ c :: mid ++ d :: post)%list) ->
  (forall lc rc, to_local G (fst c) (m_vars (snd c)) = Ok lc ->
     m_step (snd c) lc = Ok rc -> In kc (keys rc)) ->
  (forall ld rd, to_local G (fst d) (m_vars (snd d)) = Ok ld ->
     m_step (snd d) ld = Ok rd -> In kd (keys rd)) ->
  gname (fst c) kc = gname (fst d) kd ->
  forall G', asm_step omit1 ms G <> Ok G'.
Proof.
  intros ms G c d kc kd MOK [pre [mid [post EM]]] OC OD EQ G' H.
  destruct (asm_step_sound _ _ _ MOK H) as [ND _].
  unfold asm_step in H. destruct (asm_step_acc_inv _ _ _ _ H) as [parts [F [E _]]].
  simpl in E. subst ms.
  apply Forall2_app_inv_l in F. destruct F as [p1 [p2 [F1 [F2 ->]]]].
  inversion F2 as [|? rgc ? p3 Cc F3]; subst.
  apply Forall2_app_inv_l in F3. destruct F3 as [p4 [p5 [F4 [F5 ->]]]].
  inversion F5 as [|? rgd ? p6 Cd F6]; subst.
  destruct Cc as [lc [Lc [Sc TGc]]]. destruct Cd as [ld [Ld [Sd TGd]]].
  assert (Mc : machine_ok (snd c)) by (apply MOK, in_or_app; right; left; reflexivity).
  assert (Md : machine_ok (snd d)).
  { apply MOK, in_or_app. right. right. apply in_or_app. right. left. reflexivity. }
  destruct (proj2 Mc _ _ Sc) as [NDc _]. destruct (proj2 Md _ _ Sd) as [NDd _].
  destruct (to_global_entries _ _ _ NDc TGc) as [_ [_ ENc]].
  destruct (to_global_entries _ _ _ NDd TGd) as [_ [_ ENd]].
  assert (Kc := OC _ _ Lc Sc). assert (Kd := OD _ _ Ld Sd).
  unfold keys in Kc, Kd. apply in_map_iff in Kc, Kd.
  destruct Kc as [[kc' zc] [E1 Kc]]. destruct Kd as [[kd' zd] [E2 Kd]].
  simpl in E1, E2. subst kc' kd'.
  apply ENc in Kc. apply ENd in Kd.
  (* the same key occurs twice in keys G' *)
  rewrite map_app, concat_app in ND. simpl in ND.
  rewrite keys_app in ND. apply NoDup_app_r in ND.
  rewrite keys_app in ND.
  assert (A : In (gname (fst c) kc) (keys (snd rgc))).
  { change (gname (fst c) kc) with (fst (gname (fst c) kc, zc)). apply in_map, Kc. }
  assert (B : In (gname (fst c) kc) (keys (List.concat (map snd (p4 ++ rgd :: p6))))).
  { rewrite map_app, concat_app. simpl. rewrite !keys_app.
    apply in_or_app. right. apply in_or_app. left.
    rewrite EQ. change (gname (fst d) kd) with (fst (gname (fst d) kd, zd)). apply in_map, Kd. }
  eapply NoDup_app_both; eauto.
Qed.

(* ------------------------------------------------------- the old function *)
(* F9: under the unrepaired `_omit_prefix` component "a" (which declares a
   visible "b_y") computes its output from the hidden "_y" of "ab"; names
   are plain and visible names are clean, so the isolation theorem's
   hypotheses hold and its conclusion fails for [omit1_old] *)
Definition f9_ab : machine := {|
  m_vars := ["_y"]; m_init := Ok [("_y", 7%Z)];
  m_step := fun _ => Ok [("_y", 7%Z)] |}.
Definition f9_a : machine := {|
  m_vars := ["b_y"; "u"]; m_init := Ok [("u", 0%Z)];
  m_step := fun l => Ok [("u", match lookup "b_y" l with Some z => z | None => 0%Z end)] |}.
Definition f9_ms : machines := [("ab", f9_ab); ("a", f9_a)].

Example mangle_refuted_old :
  names_plain f9_ms /\ visible_clean f9_ms /\ machines_ok f9_ms /\
  (exists a, run omit1_old f9_ms 1 = Ok a /\
             s_state a = Some [("ab_y", 7%Z); ("u", 7%Z)]) /\
  (exists a, run omit1 f9_ms 1 = Ok a /\
             s_state a = Some [("ab_y", 7%Z); ("u", 0%Z)]).
Proof.
  split; [|split; [|split; [|split]]].
  - split.
    + repeat constructor; simpl; intuition discriminate.
    + intros nm [<-|[<-|[]]]; simpl; split; (discriminate || reflexivity).
  - intros c d [<-|[<-|[]]] [<-|[<-|[]]] k; simpl;
      intros [<-|H]; try (intros; reflexivity); try contradiction;
      try (destruct H as [<-|[]]; intros; reflexivity); intros; discriminate.
  - intros nm [<-|[<-|[]]]; split; simpl.
    + intros r E. injection E as <-. split; [repeat constructor; simpl; tauto|].
      simpl. tauto.
    + intros l r E. injection E as <-. split; [repeat constructor; simpl; tauto|].
      simpl. tauto.
    + intros r E. injection E as <-. split; [repeat constructor; simpl; tauto|].
      simpl. tauto.
    + intros l r E. injection E as <-. split; [repeat constructor; simpl; tauto|].
      simpl. tauto.
  - eexists. split; reflexivity.
  - eexists. split; reflexivity.
Qed.
