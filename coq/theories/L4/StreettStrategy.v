(* L4 / StreettStrategy: a strategy for the component from the Streett(1)
   fixpoint  Z = nu Z. /\_j mu Y. \/_k nu X. (P_k /\ cpre X) \/ cpre Y \/ (R_j /\ cpre Z),
   with its invariant.

   Memory: the index j of the recurrence goal being pursued.  At a state s of
   the region, with r the rank of s in the attractor mu Y of goal j and k the
   first persistence index whose trap X_{j,r,k} contains s, the component
   forces the next state into
     Z                 if R_j holds at s and it can (the goal index advances);
     Y^r_j             else if it can (the rank drops);
     X_{j,r,k}         else (then P_k holds at s; the rank does not grow). *)
From Coq Require Import List Bool Arith Lia.
Import ListNotations.
From Omega Require Import L4.Arena L4.ArenaFacts L4.Kleene L4.AlgOrder L4.GameSpec L4.Mu
  L4.GR1Spec L4.GR1Closure L4.Ranks L4.Plays L4.RabinStrategy.

Section StreettStrategy.
Variables nc nx ny : nat.
Variables moore plus_one : bool.
Variables E S : bdd.
Variables holds goals : list bdd.
Variable c : nat.
Hypothesis Hc : c < nc.
Hypothesis HnR : 0 < length goals.

Local Notation le := (le nc nx ny).
Local Notation eqv := (eqv nc nx ny).
Local Notation inr := (inr nc nx ny).
Local Notation band := (band nc nx ny).
Local Notation bor := (bor nc nx ny).
Local Notation NV := (NV nc nx ny).
Local Notation B := (Datatypes.S NV).
Local Notation cpre := (cpre nx ny moore plus_one E S).
Local Notation sX := (sX nc nx ny moore plus_one E S).
Local Notation sX_op := (sX_op nc nx ny moore plus_one E S).
Local Notation sY := (sY nc nx ny moore plus_one E S holds).
Local Notation sY_op := (sY_op nc nx ny moore plus_one E S holds).
Local Notation Z := (streett_spec nc nx ny moore plus_one E S holds goals).
Local Notation stv := (stv c).
Local Notation stepv := (stepv c).
Local Notation sinr := (sinr nx ny).
Local Notation mv := (mv nx ny moore plus_one E S c).
Local Notation Pk := (Pk holds).
Local Notation Rj := (Rj goals).
Local Notation nP := (nP holds).
Local Notation nR := (nR goals).

Definition gj (R : bdd) : bdd := band R (cpre Z).
Definition Yr (R : bdd) (r : nat) : bdd := it (sY_op (gj R)) r.
Definition Xt (R : bdd) (r : nat) (P : bdd) : bdd := sX P (bor (cpre (Yr R r)) (gj R)).

Lemma Yr_succ R r v :
  Yr R (Datatypes.S r) v = true <-> exists P, In P holds /\ Xt R r P v = true.
Proof.
  unfold Yr. cbn [it]. unfold GR1Spec.sY_op at 1, big_or. rewrite existsb_exists. split.
  - intros [f [Hf Hv]]. apply in_map_iff in Hf. destruct Hf as [P [<- HP]].
    exists P. split; [exact HP|exact Hv].
  - intros [P [HP Hv]]. exists (Xt R r P). split; [|exact Hv].
    apply in_map_iff. exists P. split; [reflexivity|exact HP].
Qed.

Lemma Xt_unfold R r P v :
  inr v -> Xt R r P v = true ->
  (P v = true /\ cpre (Xt R r P) v = true) \/ cpre (Yr R r) v = true \/
  (R v = true /\ cpre Z v = true).
Proof.
  intros Hv H. unfold Xt in H.
  destruct (sX_is_gfp nc nx ny moore plus_one E S P (bor (cpre (Yr R r)) (gj R))) as [Heq _].
  rewrite <- (Heq v Hv) in H. unfold GR1Spec.sX_op, gj in H.
  rewrite !bor_spec, !band_spec in H.
  rewrite !orb_true_iff, !andb_true_iff in H. unfold Xt, gj. tauto.
Qed.

Lemma Yr_in_Z R r : In R goals -> le (Yr R r) Z.
Proof.
  intros HR. apply le_trans with (sY (gj R)).
  - apply it_below; [apply sY_op_mono|apply sY_is_lfp].
  - apply eqv_le. apply (sY_goal_eq_Z nc nx ny moore plus_one E S holds goals R HR).
Qed.

Lemma Xt_in_Yr R r P : In P holds -> le (Xt R r P) (Yr R (Datatypes.S r)).
Proof. intros HP v _ Hv. apply Yr_succ. exists P. split; assumption. Qed.

Lemma Z_rank R v :
  In R goals -> inr v -> Z v = true -> exists r, r <= NV /\ Yr R (Datatypes.S r) v = true.
Proof.
  intros HR Hv Hz.
  apply (lfp_in_iterate nc nx ny (sY_op (gj R)) (sY (gj R)) v).
  - apply sY_op_mono.
  - apply sY_is_lfp.
  - exact Hv.
  - apply (Z_le_sY nc nx ny moore plus_one E S holds goals R HR v Hv Hz).
Qed.

(* ------------------------------------------------------ the strategy *)
Definition yrank (j : nat) (s : st) : nat := rank (sY_op (gj (Rj j))) B (stv s).
Definition kfirst (j r : nat) (s : st) : nat :=
  first_from (fun k => Xt (Rj j) r (Pk k) (stv s)) 0 nP.

Definition switch (j : nat) (s : st) : bool := Rj j (stv s) && cpre Z (stv s).

Definition target (j : nat) (s : st) : bdd :=
  let r := yrank j s in
  if switch j s then Z
  else if cpre (Yr (Rj j) r) (stv s) then Yr (Rj j) r
  else Xt (Rj j) r (Pk (kfirst j r s)).

Definition upd (j : nat) (sp : st) : nat := if switch j sp then (j + 1) mod nR else j.

Fixpoint memof (h : list st) : nat :=
  match h with
  | [] => 0
  | s :: h' => match h' with [] => 0 | sp :: _ => upd (memof h') sp end
  end.

Definition strategy : strat :=
  fun h x' => let s := hd (0, 0) h in clampy ny (mv (target (memof h) s) s x').

Definition Inv (j : nat) (s : st) : Prop := j < nR /\ Z (stv s) = true.

Lemma Rj_in j : j < nR -> In (Rj j) goals.
Proof. intros H. apply nth_In. exact H. Qed.

(* rank and trap index of a state of the region *)
Lemma Inv_facts j s :
  Inv j s -> sinr s ->
  let r := yrank j s in let k := kfirst j r s in
  r <= NV /\ k < nP /\ Xt (Rj j) r (Pk k) (stv s) = true /\
  (forall i, i < k -> Xt (Rj j) r (Pk i) (stv s) = false).
Proof.
  intros [Hj Hz] Hs. cbv zeta.
  pose proof (stv_inr nc nx ny goals c Hc HnR s Hs) as Hv.
  destruct (Z_rank (Rj j) (stv s) (Rj_in j Hj) Hv Hz) as [r0 [Hr0 Hy]].
  unfold Yr in Hy.
  destruct (rank_spec (sY_op (gj (Rj j))) B (stv s) r0 ltac:(lia) Hy) as [Hle [Hr _]].
  fold (yrank j s) in Hle, Hr.
  change (it (sY_op (gj (Rj j))) (Datatypes.S (yrank j s)) (stv s) = true)
    with (Yr (Rj j) (Datatypes.S (yrank j s)) (stv s) = true) in Hr.
  apply Yr_succ in Hr. destruct Hr as [P [HP HX]].
  destruct (In_nth _ _ bfalse HP) as [k [Hk Hnth]].
  pose proof (first_from_spec (fun k => Xt (Rj j) (yrank j s) (Pk k) (stv s)) nP 0 k
    (Nat.le_0_l _) ltac:(unfold RabinStrategy.nP; lia)) as Hf.
  cbv beta zeta in Hf. unfold RabinStrategy.Pk at 1 in Hf. rewrite Hnth in Hf. specialize (Hf HX).
  fold (kfirst j (yrank j s) s) in Hf. destruct Hf as [_ [Hle2 [HXk Hbefore]]].
  split; [lia|]. split; [unfold RabinStrategy.nP; lia|]. split; [exact HXk|].
  intros i Hi. apply Hbefore; lia.
Qed.

Lemma target_cpre j s : Inv j s -> sinr s -> cpre (target j s) (stv s) = true.
Proof.
  intros HI Hs. destruct (Inv_facts j s HI Hs) as [_ [_ [HX _]]].
  pose proof (stv_inr nc nx ny goals c Hc HnR s Hs) as Hv.
  unfold target, switch. destruct (Rj j (stv s) && cpre Z (stv s)) eqn:Esw.
  - apply andb_true_iff in Esw. apply Esw.
  - destruct (cpre (Yr (Rj j) (yrank j s)) (stv s)) eqn:Ey; [exact Ey|].
    destruct (Xt_unfold _ _ _ _ Hv HX) as [[_ H]|[H|[H1 H2]]].
    + exact H.
    + congruence.
    + rewrite H1, H2 in Esw. discriminate.
Qed.

Lemma move_spec j s x' :
  Inv j s -> sinr s -> x' < nx ->
  let y' := mv (target j s) s x' in
  y' < ny /\
  (plus_one = true -> S (stepv s (x', y')) = true) /\
  (E (stepv s (x', y')) = true ->
     S (stepv s (x', y')) = true /\ target j s (stv (x', y')) = true).
Proof.
  intros HI Hs Hx. cbv zeta.
  destruct (mv_spec nc nx ny moore plus_one E S goals c Hc HnR (target j s) s x' (target_cpre j s HI Hs) Hx)
    as [Hy Hp].
  split; [exact Hy|]. apply (phi_facts plus_one E S c). exact Hp.
Qed.

(* kinds of steps and their effect on goal index, rank, trap index *)
Lemma inv_next j s s' :
  Inv j s -> sinr s -> sinr s' -> target j s (stv s') = true ->
  let j' := upd j s in
  Inv j' s' /\
  ((switch j s = true /\ Rj j (stv s) = true /\ j' = (j + 1) mod nR) \/
   (switch j s = false /\ j' = j /\ yrank j s' < yrank j s) \/
   (switch j s = false /\ j' = j /\ yrank j s' <= yrank j s /\
    Pk (kfirst j (yrank j s) s) (stv s) = true /\
    (yrank j s' = yrank j s -> kfirst j (yrank j s) s' <= kfirst j (yrank j s) s))).
Proof.
  intros HI Hs Hs' Ht. cbv zeta.
  pose proof HI as [Hj Hz].
  pose proof (stv_inr nc nx ny goals c Hc HnR s Hs) as Hv.
  pose proof (stv_inr nc nx ny goals c Hc HnR s' Hs') as Hv'.
  destruct (Inv_facts j s HI Hs) as [Hr [Hk [HX Hbefore]]].
  unfold upd. unfold target in Ht. destruct (switch j s) eqn:Esw.
  - (* switch *)
    assert (Hj' : (j + 1) mod nR < nR)
      by (apply Nat.mod_upper_bound; unfold RabinStrategy.nR; lia).
    split; [split; [exact Hj'|exact Ht]|].
    left. unfold switch in Esw. apply andb_true_iff in Esw. tauto.
  - destruct (cpre (Yr (Rj j) (yrank j s)) (stv s)) eqn:Ey.
    + (* descend *)
      split; [split; [exact Hj|apply (Yr_in_Z (Rj j) (yrank j s) (Rj_in j Hj) _ Hv' Ht)]|].
      right. left. split; [reflexivity|]. split; [reflexivity|].
      destruct (yrank j s) as [|r'] eqn:Er; [discriminate|].
      unfold Yr in Ht.
      pose proof (rank_lt (sY_op (gj (Rj j))) B (stv s') r' ltac:(lia) Ht) as Hlt.
      fold (yrank j s') in Hlt. lia.
    + (* stay *)
      assert (HPk : In (Pk (kfirst j (yrank j s) s)) holds) by (apply nth_In; exact Hk).
      pose proof (Xt_in_Yr (Rj j) (yrank j s) _ HPk _ Hv' Ht) as HY'.
      split; [split; [exact Hj|apply (Yr_in_Z (Rj j) _ (Rj_in j Hj) _ Hv' HY')]|].
      right. right. split; [reflexivity|]. split; [reflexivity|].
      unfold Yr in HY'.
      pose proof (rank_lt (sY_op (gj (Rj j))) B (stv s') (yrank j s) ltac:(lia) HY') as Hle.
      fold (yrank j s') in Hle. split; [exact Hle|]. split.
      * destruct (Xt_unfold _ _ _ _ Hv HX) as [[H _]|[H|[H1 H2]]].
        -- exact H.
        -- congruence.
        -- unfold switch in Esw. rewrite H1, H2 in Esw. discriminate.
      * intros Heq.
        pose proof (first_from_spec (fun k => Xt (Rj j) (yrank j s) (Pk k) (stv s')) nP 0
          (kfirst j (yrank j s) s) (Nat.le_0_l _) ltac:(lia) Ht) as Hf.
        cbv zeta in Hf. fold (kfirst j (yrank j s) s') in Hf. lia.
Qed.

End StreettStrategy.
