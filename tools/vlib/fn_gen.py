"""Regenerate coq/gen/FunctionsGen.v from omega/symbolic/functions.py
(tie T for C14; translator tools/py2coq_fn.py)."""
import os
import sys

sys.path.insert(0, os.path.join(os.path.dirname(__file__), '..'))
import py2coq  # noqa: E402
import py2coq_fn  # noqa: E402
from vlib.core import Broken, REPO  # noqa: E402

SRC = py2coq_fn.SRC


def functions_text():
    """(text of gen/FunctionsGen.v, translator notes)."""
    path = os.path.join(REPO, SRC)
    text, notes = py2coq_fn.translate(path)
    body = py2coq_fn.HEADER % dict(src=SRC) + text + py2coq_fn.FOOTER
    body += ''.join(f'(* note: {n} *)\n' for n in notes)
    return body, notes


def ensure_functions(ctx):
    try:
        t, notes = functions_text()
    except py2coq.Refuse as e:
        raise Broken('translator', f'{SRC}: {e}')
    except (SyntaxError, OSError) as e:
        raise Broken('translator', f'{SRC}: {e}')
    ctx.write_gen('gen/FunctionsGen.v', t)
    return notes


if __name__ == '__main__':
    print(functions_text()[0])
