(* L6 Syntax — data types shared by the lexer, parser, flattener and GR(1)
   splitter models of omega.logic.lexyacc / omega.logic.ast / omega.gr1.
   Model file: definitions only, no proofs. *)
From Coq Require Import List String Ascii NArith Bool.
Import ListNotations.
Local Open Scope string_scope.

(* ---- tables generated from lexyacc.py / doc.md (tie G) ---- *)
Inductive assoc := LeftA | RightA | NonA.

Definition assoc_eqb (a b : assoc) : bool :=
  match a, b with
  | LeftA, LeftA | RightA, RightA | NonA, NonA => true
  | _, _ => false
  end.

(* kind of a token rule of the lexer: a plain alternation of literal
   spellings (tried in order, as a regex alternation is), or one of the five
   rules whose regex is not a set of literals *)
Inductive rule_kind := RLit | RName | RNumber | RLineComment | RMlComment | RNewline.

Record lexrule := mkRule {
  lr_type : string;            (* PLY token type, e.g. "AND" *)
  lr_kind : rule_kind;
  lr_alts : list string;       (* spellings, in regex order (RLit) *)
  lr_norm : option string;     (* value the rule function assigns, if any *)
  lr_emit : bool               (* false: the rule discards the lexeme *)
}.

Record production := mkProd {
  pr_lhs : string;
  pr_rhs : list string;
  pr_prec : option string;     (* %prec *)
  pr_node : string;            (* node class built by the action *)
  pr_const : string            (* constant operator name in the action *)
}.

(* ---- tokens ---- *)
Record token := Tok { tty : string; tval : string }.

Definition token_eqb (a b : token) : bool :=
  String.eqb (tty a) (tty b) && String.eqb (tval a) (tval b).

(* ---- syntax trees (omega.logic.ast.Nodes) ---- *)
Inductive tkind := KVar | KNum | KBool | KStr | KOpname.
Inductive bclass := CBinary | CComparator | CArithmetic.

Inductive tree :=
| Term (k : tkind) (v : string)              (* Var / Num / Bool / Str / Terminal(opname) *)
| Un (op : string) (x : tree)                (* Nodes.Unary *)
| Bin (c : bclass) (op : string) (l r : tree) (* Nodes.Binary / Comparator / Arithmetic *)
| Opr (op : string) (args : list tree)       (* Nodes.Operator: ite, \A, \E, params, LET, @ *)
| Lst (xs : list tree).                      (* a Python list (definitions of LET) *)

Definition tkind_eqb (a b : tkind) : bool :=
  match a, b with
  | KVar, KVar | KNum, KNum | KBool, KBool | KStr, KStr | KOpname, KOpname => true
  | _, _ => false
  end.

Definition bclass_eqb (a b : bclass) : bool :=
  match a, b with
  | CBinary, CBinary | CComparator, CComparator | CArithmetic, CArithmetic => true
  | _, _ => false
  end.

Fixpoint tree_eqb (a b : tree) {struct a} : bool :=
  let fix list_eqb (xs ys : list tree) {struct xs} : bool :=
    match xs, ys with
    | [], [] => true
    | x :: xs', y :: ys' => tree_eqb x y && list_eqb xs' ys'
    | _, _ => false
    end in
  match a, b with
  | Term k v, Term k' v' => tkind_eqb k k' && String.eqb v v'
  | Un o x, Un o' x' => String.eqb o o' && tree_eqb x x'
  | Bin c o l r, Bin c' o' l' r' =>
      bclass_eqb c c' && String.eqb o o' && tree_eqb l l' && tree_eqb r r'
  | Opr o xs, Opr o' ys => String.eqb o o' && list_eqb xs ys
  | Lst xs, Lst ys => list_eqb xs ys
  | _, _ => false
  end.

Definition otree_eqb (a b : option tree) : bool :=
  match a, b with
  | Some x, Some y => tree_eqb x y
  | None, None => true
  | _, _ => false
  end.

Fixpoint trees_eqb (xs ys : list tree) : bool :=
  match xs, ys with
  | [], [] => true
  | x :: xs', y :: ys' => tree_eqb x y && trees_eqb xs' ys'
  | _, _ => false
  end.

(* ---- small string helpers ---- *)
Fixpoint string_of_codes (l : list N) : string :=
  match l with
  | [] => EmptyString
  | n :: r => String (ascii_of_N n) (string_of_codes r)
  end.

Fixpoint assoc_str {A} (k : string) (l : list (string * A)) : option A :=
  match l with
  | [] => None
  | (k', v) :: r => if String.eqb k k' then Some v else assoc_str k r
  end.

Fixpoint mem_str (k : string) (l : list string) : bool :=
  match l with
  | [] => false
  | k' :: r => String.eqb k k' || mem_str k r
  end.
