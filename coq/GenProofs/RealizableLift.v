(* The verdict of the GENERATED is_realizable does not depend on the memory:
   evaluated on the arena extended with M memory values, for the LIFTED
   initial conditions and winning region, it is the verdict on the BASE arena
   (all four qinit forms, both causality modes).

   Why it matters: gr1.make_streett_transducer / make_rabin_transducer run
   `assert is_realizable(winning, aut)` BEFORE they declare the memory
   variables - on the base arena, which is also where a user calls
   gr1.is_realizable - whereas the translated constructions
   (gen/TransducerGen.v) are laid out over the extended arena throughout.
   With this lemma "the construction succeeds" (C03) is stated from the
   verdict the user sees. *)
From Coq Require Import List Bool Arith Lia.
Import ListNotations.
From Omega Require Import L4.Arena L4.ArenaFacts L4.Kleene L4.InitSpec.
From OmegaGen Require Import FixpointGen Gr1Gen TransducerGen.
From OmegaGP Require Import InitProofs TransducerModel StreettNB2 RabinLive1
  ConstructionSucceeds RabinSucceeds.

Section Lift.
Variables nc nx ny M : nat.
Hypothesis HM : 0 < M.
Local Notation L := (lift nc nx ny M).
Local Notation nyE := (ny * M).
Local Notation bv := (bv M).

Lemma bv_inr v : inr nc nx nyE v -> inr nc nx ny (bv v).
Proof.
  unfold Kleene.inr, in_range, StreettNB2.bv. cbn [vc vx vy vxp vyp].
  repeat rewrite andb_true_iff. repeat rewrite Nat.ltb_lt. intros Hv.
  assert (vy v / M < ny) by (apply Nat.div_lt_upper_bound; lia).
  assert (vyp v / M < ny) by (apply Nat.div_lt_upper_bound; lia). lia.
Qed.

(* every base valuation is the base part of an extended one *)
Lemma bv_onto v : inr nc nx ny v ->
  exists w, inr nc nx nyE w /\ bv w = v.
Proof.
  intros Hv. exists (mkV (vc v) (vx v) (vy v * M) (vxp v) (vyp v * M)). split.
  - revert Hv. unfold Kleene.inr, in_range. cbn [vc vx vy vxp vyp].
    repeat rewrite andb_true_iff. repeat rewrite Nat.ltb_lt. intros Hv.
    assert (vy v * M < ny * M) by nia. assert (vyp v * M < ny * M) by nia. lia.
  - unfold StreettNB2.bv. cbn [vc vx vy vxp vyp].
    rewrite !Nat.div_mul by lia. destruct v; reflexivity.
Qed.

Lemma valid_ext_eq n a b : (forall v, a v = b v) -> valid nc nx n a = valid nc nx n b.
Proof. intros Hab. unfold valid. apply beq_ext; [exact Hab|reflexivity]. Qed.

Lemma valid_lift u : valid nc nx nyE (L u) = valid nc nx ny u.
Proof.
  apply Bool.eq_true_iff_eq. rewrite !valid_iff. split.
  - intros Hl v Hv. destruct (bv_onto v Hv) as [w [Hw <-]].
    rewrite <- (lift_spec nc nx ny M). apply Hl, Hw.
  - intros Hb v Hv. rewrite (lift_spec nc nx ny M). apply Hb, bv_inr, Hv.
Qed.

(* the quantifiers over the component's / the environment's values *)
Lemma ex_sys_lift u v : ex_sys nyE (L u) v = ex_sys ny u (bv v).
Proof.
  unfold ex_sys. apply Bool.eq_true_iff_eq. rewrite !existsb_exists. split.
  - intros [y [Hy Hu]]. apply in_seq in Hy. exists (y / M). split.
    + apply in_seq. split; [lia|]. cbn [Nat.add]. apply Nat.div_lt_upper_bound; lia.
    + exact Hu.
  - intros [yb [Hy Hu]]. apply in_seq in Hy. exists (yb * M). split.
    + apply in_seq. split; [lia|]. cbn [Nat.add]. nia.
    + rewrite (lift_spec nc nx ny M). unfold StreettNB2.bv, setg in *.
      cbn [vc vx vy vxp vyp] in *. rewrite Nat.div_mul by lia. exact Hu.
Qed.

Lemma all_env_lift u v : all_env nx (L u) v = all_env nx u (bv v).
Proof. unfold all_env. apply forallb_ext'. intros x. reflexivity. Qed.

Lemma ex_env_sys_lift u v : ex_env_sys nx nyE (L u) v = ex_env_sys nx ny u (bv v).
Proof.
  unfold ex_env_sys. apply existsb_ext'. intros x.
  exact (ex_sys_lift u (setg Env v x)).
Qed.

Lemma ex_sys_ext_eq n a b v : (forall w, a w = b w) -> ex_sys n a v = ex_sys n b v.
Proof. intros Hab. unfold ex_sys. apply existsb_ext'. intros y. apply Hab. Qed.
Lemma all_env_ext_eq a b v : (forall w, a w = b w) -> all_env nx a v = all_env nx b v.
Proof. intros Hab. unfold all_env. apply forallb_ext'. intros x. apply Hab. Qed.

Section Verdict.
Variables EI SI : bdd.
Variable plus_one : bool.

Lemma init_form_lift win v :
  init_form (L EI) (L SI) plus_one (L win) v = L (init_form EI SI plus_one win) v.
Proof. reflexivity. Qed.

Theorem realizable_spec_lift q win :
  realizable_spec nc nx nyE (L EI) (L SI) plus_one q (L win) =
  realizable_spec nc nx ny EI SI plus_one q win.
Proof.
  unfold realizable_spec. destruct q.
  - rewrite (valid_lift SI).
    change (fun v => L win v || negb (L EI v)) with (L (fun v => win v || negb (EI v))).
    rewrite valid_lift. reflexivity.
  - rewrite (valid_lift EI).
    rewrite (valid_ext_eq nyE _ (L (ex_env_sys nx ny (fun v => win v && SI v)))).
    + rewrite valid_lift. reflexivity.
    + intros v. change (fun v0 => L win v0 && L SI v0) with (L (fun v0 => win v0 && SI v0)).
      apply ex_env_sys_lift.
  - f_equal.
    rewrite (valid_ext_eq nyE _ (L (all_env nx (ex_sys ny (init_form EI SI plus_one win))))).
    + apply valid_lift.
    + intros v. rewrite (lift_spec nc nx ny M), <- all_env_lift.
      apply all_env_ext_eq. intros w.
      rewrite (ex_sys_ext_eq nyE _ (L (init_form EI SI plus_one win)) w (init_form_lift win)).
      apply ex_sys_lift.
  - f_equal.
    rewrite (valid_ext_eq nyE _ (L (ex_sys ny (all_env nx (init_form EI SI plus_one win))))).
    + apply valid_lift.
    + intros v. rewrite (lift_spec nc nx ny M), <- ex_sys_lift.
      apply ex_sys_ext_eq. intros w.
      rewrite (all_env_ext_eq _ (L (init_form EI SI plus_one win)) w (init_form_lift win)).
      apply all_env_lift.
Qed.

(* the generated is_realizable: same verdict with and without the memory *)
Theorem is_realizable_lift q fuel fuel' win :
  Gr1Gen.is_realizable nc nx nyE (L EI) (L SI) plus_one q fuel (L win) =
  Gr1Gen.is_realizable nc nx ny EI SI plus_one q fuel' win.
Proof. rewrite !is_realizable_spec. apply realizable_spec_lift. Qed.

End Verdict.
End Lift.

(* ---- "the construction succeeds", from the verdict on the BASE arena ------- *)
Section Base.
Variables nc nx ny : nat.
Variables E S EI SI : bdd.
Variables holds goals : list bdd.
Variables moore plus_one : bool.
Variable qinit : qinit_t.
Variable fuel : nat.
Hypothesis Hf : NV nc nx ny <= fuel.
Hypothesis Sh : Forall spred holds.
Hypothesis Sg : Forall spred goals.
Hypothesis Hgoals : 0 < length goals.

Theorem streett_construction_succeeds_base G :
  0 < G -> length goals <= G ->
  let sol := Gr1Gen.solve_streett_game nc nx ny E S holds goals moore plus_one fuel in
  let z := fst (fst sol) in
  let L := lift nc nx ny G in
  Gr1Gen.is_realizable nc nx ny EI SI plus_one qinit fuel z = Some true ->
  (exists c x yb, c < nc /\ x < nx /\ yb < ny /\ z (sv c x yb) = true) ->
  StreettGen.make_streett_transducer nc nx ny G (L E) (L S) (L EI) (L SI)
    (map L holds) (map L goals) moore plus_one qinit fuel
    (L z) (map (map L) (snd (fst sol))) (map (map (map L)) (snd sol)) <> None.
Proof.
  intros HG HnG sol z L Hreal Hne.
  apply (streett_construction_succeeds nc nx ny E S EI SI holds goals moore plus_one qinit
           fuel G Hf Sh Sg HG HnG Hgoals); [|exact Hne].
  rewrite (is_realizable_lift nc nx ny G HG EI SI plus_one qinit fuel fuel). exact Hreal.
Qed.

Theorem rabin_construction_succeeds_base H G :
  length goals <= G -> length holds < H -> 0 < length holds ->
  let sol := Gr1Gen.solve_rabin_game nc nx ny E S holds goals moore plus_one fuel in
  let zk := fst (fst sol) in
  let L := lift nc nx ny (H * G) in
  Gr1Gen.is_realizable nc nx ny EI SI plus_one qinit fuel (last zk bfalse) = Some true ->
  (exists c x yb, c < nc /\ x < nx /\ yb < ny /\ last zk bfalse (sv c x yb) = true) ->
  RabinGen.make_rabin_transducer nc nx ny H G (L E) (L S) (L EI) (L SI)
    (map L holds) (map L goals) moore plus_one qinit fuel
    (map L zk) (map (map L) (snd (fst sol))) (map (map (map (map L))) (snd sol)) <> None.
Proof.
  intros HnG HnH Hholds sol zk L Hreal Hne.
  assert (HM : 0 < H * G) by nia.
  apply (rabin_construction_succeeds nc nx ny E S EI SI holds goals moore plus_one qinit
           fuel H G Hf Sh Sg HnG HnH Hgoals Hholds); [|exact Hne].
  rewrite (last_map_lift nc nx ny (H * G)).
  rewrite (is_realizable_lift nc nx ny (H * G) HM EI SI plus_one qinit fuel fuel). exact Hreal.
Qed.

End Base.
