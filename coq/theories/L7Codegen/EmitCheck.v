(* L7 / EmitCheck: comparison evaluated inside Coq for tie H of C13 (raw
   dumps_bdd_as_code).  No proofs here. *)
From Coq Require Import List Bool Arith ZArith NArith.
Import ListNotations.
From Omega Require Import L7Codegen.Pred L7Codegen.SynthCheck L7Codegen.Dag.

Fixpoint nodup_z (l : list Z) : bool :=
  match l with
  | [] => true
  | x :: r => negb (mem_z x r) && nodup_z r
  end.

Definition root_ok (d : dag) (nlev : nat) (u : Z) : bool :=
  match find_info d u with
  | Some i => i_term i || Nat.ltb (i_level i) nlev
  | None => false
  end.

(* impl: truth table of each out_bits[name] obtained by exec-uting the REAL
   generated code on every input; truth: truth table of each root BDD obtained
   with bdd.let on every input (independent of the DAG accessors) *)
Definition check_emit (n nlev : nat) (d : dag) (roots : list (nat * Z))
    (impl truth : list N) : list bool :=
  let prog := dumps_bdd_as_code nlev d roots in
  [ (* the DAG read from the manager is well-formed *)
    wf_dag d nlev && forallb (fun r => root_ok d nlev (snd r)) roots;
    (* the model's program computes what the real program computes *)
    forallb (fun a =>
      match run a prog with
      | Some outs =>
          forallb2 (fun o r => Nat.eqb (fst o) (fst r)) outs roots &&
          forallb2 (fun o t => eqb (snd o) (N.testbit t (idx a))) outs impl
      | None => false
      end) (all_asg n);
    (* the meaning given to the DAG is the BDD's value *)
    forallb (fun a =>
      forallb2 (fun r t => eqb (ref_val (S nlev) d a (snd r)) (N.testbit t (idx a)))
               roots truth) (all_asg n);
    (* each latch is assigned once *)
    nodup_z (assigned prog) ].
