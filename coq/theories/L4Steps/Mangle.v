(* L4Steps / Mangle: the name mangling of omega/steps.py, on Coq strings.

   Python dictionaries str -> value are association lists in insertion
   order (keys of a dictionary that comes from Python are distinct; the
   theorems assume [NoDup (keys d)]).  Values are integers (Python's
   False/True are 0/1, as in Python's own dictionary equality).

   Modelled functions (same control flow as the code):
     visible_vars hidden_vars add_prefix omit_prefix _omit_prefix
     _assert_disjoint Assembly._to_local_state Assembly._to_global_state
     Assembly._update_state
   [omit1_old] is `_omit_prefix` of the unrepaired tree (defect F9);
   [omit1] is the repaired function (fixes/F9.patch): the component name
   is stripped only when it is followed by the underscore that starts a
   hidden variable's name.

   No proofs here (see MangleProofs.v). *)
From Coq Require Import List Bool String Ascii ZArith.
Import ListNotations.
Open Scope string_scope.

Definition dict := list (string * Z).

(* errors a step can signal instead of returning values *)
Inductive err := Collision | Missing | Disabled | Uninit | BadKey.

Inductive res (A : Type) := Ok (a : A) | Err (e : err).
Arguments Ok {A} a.
Arguments Err {A} e.

Definition bind {A B} (r : res A) (f : A -> res B) : res B :=
  match r with Ok a => f a | Err e => Err e end.

Definition err_eqb (a b : err) : bool :=
  match a, b with
  | Collision, Collision | Missing, Missing | Disabled, Disabled
  | Uninit, Uninit | BadKey, BadKey => true
  | _, _ => false
  end.

Definition keys (d : dict) : list string := map fst d.

Definition mem (k : string) (ks : list string) : bool :=
  existsb (String.eqb k) ks.

Fixpoint lookup (k : string) (d : dict) : option Z :=
  match d with
  | [] => None
  | (k', v) :: d' => if String.eqb k k' then Some v else lookup k d'
  end.

(* `d[k] = v` *)
Fixpoint dset (k : string) (v : Z) (d : dict) : dict :=
  match d with
  | [] => [(k, v)]
  | (k', v') :: d' =>
      if String.eqb k k' then (k, v) :: d' else (k', v') :: dset k v d'
  end.

(* `k.startswith('_')` *)
Definition is_hidden (k : string) : bool :=
  match k with
  | String c _ => Ascii.eqb c "_"%char
  | EmptyString => false
  end.

Definition visible_vars (d : dict) : dict :=
  filter (fun kv => negb (is_hidden (fst kv))) d.

Definition hidden_vars (d : dict) : dict :=
  filter (fun kv => is_hidden (fst kv)) d.

(* [strip p s = Some r] iff s = p ++ r, i.e. `s.startswith(p)` and
   r = s[len(p):] *)
Fixpoint strip (p s : string) : option string :=
  match p with
  | EmptyString => Some s
  | String a p' =>
      match s with
      | EmptyString => None
      | String b s' => if Ascii.eqb a b then strip p' s' else None
      end
  end.

(* unrepaired `_omit_prefix`:
     if s.startswith(prefix): return s.replace(prefix, '', 1) *)
Definition omit1_old (s p : string) : string :=
  match strip p s with Some r => r | None => s end.

(* repaired `_omit_prefix`:
     if s.startswith(prefix + '_'): return s[len(prefix):] *)
Definition omit1 (s p : string) : string :=
  match strip (p ++ "_") s with Some r => "_" ++ r | None => s end.

(* `add_prefix(vrs, prefix)`; the assertion guards only the hidden branch,
   a visible key is stored with plain `d[name] = v` *)
Fixpoint add_prefix_acc (d : dict) (p : string) (acc : dict) : res dict :=
  match d with
  | [] => Ok acc
  | (k, v) :: d' =>
      if is_hidden k then
        let name := p ++ k in
        if mem name (keys acc) then Err Collision
        else add_prefix_acc d' p (acc ++ [(name, v)])%list
      else add_prefix_acc d' p (dset k v acc)
  end.

Definition add_prefix (d : dict) (p : string) : res dict :=
  add_prefix_acc d p [].

(* `omit_prefix(vrs, prefix)`, parametric in the single-key function *)
Fixpoint omit_prefix_acc (om : string -> string -> string)
    (d : dict) (p : string) (acc : dict) : res dict :=
  match d with
  | [] => Ok acc
  | (k, v) :: d' =>
      let t := om k p in
      if mem t (keys acc) then Err Collision
      else omit_prefix_acc om d' p (acc ++ [(t, v)])%list
  end.

Definition omit_prefix_with om (d : dict) (p : string) : res dict :=
  omit_prefix_acc om d p [].

Definition omit_prefix := omit_prefix_with omit1.
Definition omit_prefix_old := omit_prefix_with omit1_old.

(* `_assert_disjoint(a, b)` *)
Definition overlap (a b : dict) : bool :=
  existsb (fun k => mem k (keys b)) (keys a).

(* `Assembly._to_global_state(local_state, name)` *)
Definition to_global (local : dict) (name : string) : res dict :=
  let vis := visible_vars local in
  let hid := hidden_vars local in
  bind (add_prefix hid name) (fun glob_hid =>
  if overlap vis glob_hid then Err Collision
  else Ok (vis ++ glob_hid)%list).

(* `Assembly._to_local_state(global_state, name, machine)`;
   [mvars] = keys of `machine.vars` *)
Definition to_local_with om (glob : dict) (name : string)
    (mvars : list string) : res dict :=
  bind (omit_prefix_with om glob name) (fun unmangled =>
  Ok (filter (fun kv => mem (fst kv) mvars) unmangled)).

Definition to_local := to_local_with omit1.
Definition to_local_old := to_local_with omit1_old.

(* `Assembly._update_state(state, partial)` *)
Definition update_state (state partial : dict) : res dict :=
  if overlap partial state then Err Collision else Ok (state ++ partial)%list.

(* comparison of dictionaries as finite maps (order-insensitive) *)
Definition sub_dict (a b : dict) : bool :=
  forallb (fun kv => match lookup (fst kv) b with
                     | Some v => Z.eqb v (snd kv)
                     | None => false
                     end) a.

Definition dict_eqb (a b : dict) : bool :=
  sub_dict a b && sub_dict b a && Nat.eqb (List.length a) (List.length b).

Definition res_dict_eqb (a b : res dict) : bool :=
  match a, b with
  | Ok x, Ok y => dict_eqb x y
  | Err e, Err f => err_eqb e f
  | _, _ => false
  end.
