(* L4Enum / EnumCodeProofs: the code-level model EnumCode.v (the twin of the
   translated omega/games/enumeration.py) is simulated by the abstract
   worklist model EnumModel.v (with the enumeration order of EnumOrder.v), for
   every `pick` / `pick_iter` meeting the contracts of EnumContracts.v.
   Consequences: whatever graph c_action_to_steps_ returns passes the verified
   checker check_graph, its initial nodes follow the requested qinit pattern,
   and the fuel of the `while` loop is never what stops it. *)
From Coq Require Import List Bool Arith Lia String.
Import ListNotations.
From Omega Require Import L4Enum.EnumModel L4Enum.EnumProofs L4Enum.EnumOrder
  L4Enum.EnumOrderProofs L4Enum.EnumArena L4Enum.EnumArenaProofs
  L4Enum.EnumContracts L4Enum.EnumCode.

Local Notation SS := Datatypes.S.

(* ---- the model's find_node on an extended list ------------------------------ *)
Lemma state_eqb_refl s : state_eqb s s = true.
Proof. apply state_eqb_eq. reflexivity. Qed.

Lemma find_node_app l s t i :
  EnumModel.find_node (l ++ [s]) t i =
  match EnumModel.find_node l t i with
  | Some w => Some w
  | None => if state_eqb s t then Some (i + List.length l) else None
  end.
Proof.
  revert i. induction l as [|a l IH]; intros i; cbn [app EnumModel.find_node List.length].
  - rewrite Nat.add_0_r. reflexivity.
  - destruct (state_eqb a t); [reflexivity|]. rewrite IH.
    replace (SS i + List.length l) with (i + SS (List.length l)) by lia. reflexivity.
Qed.

Lemma find_node_lt l s w : EnumModel.find_node l s 0 = Some w -> nth_error l w = Some s.
Proof. intros H. apply find_node_some in H. rewrite Nat.sub_0_r in H. tauto. Qed.

(* the abstract graph a networkx graph stands for: node attribute dicts read as
   states, edges in the order the model keeps them *)
Definition state_of (d : asg) : state :=
  (match dict_get var_eqb (U Env) d with Some i => i | None => 0 end,
   match dict_get var_eqb (U Sys) d with Some i => i | None => 0 end).
Definition graph_of (g : nxgraph) : graph :=
  mkG (map (fun nd => state_of (snd nd)) (g_nodes g)) [] (rev (g_edges g)).

(* `g.initial_nodes` is set once and never touched by the translated loops *)
Ltac crunch H :=
  repeat match type of H with
  | m_bind _ _ = Some _ => apply m_bind_some in H; destruct H as [? [? H]]
  | m_assert _ _ = Some _ => apply m_assert_some in H; destruct H as [_ H]
  | (let '(_, _) := ?x in _) = Some _ => destruct x
  | (if ?b then _ else _) = Some _ => destruct b
  end.

Lemma add_new_node_ini d g q um keys u g' q' um' :
  c_add_new_node d g q um keys = Some (u, g', q', um') -> g_initial g' = g_initial g.
Proof. unfold c_add_new_node. intros H. crunch H. inversion H. reflexivity. Qed.

Lemma m_for_pres {A St B} (body : St -> A -> option St) (P : St -> B) l :
  (forall st x st', body st x = Some st' -> P st' = P st) ->
  forall st st', m_for body l st = Some st' -> P st' = P st.
Proof.
  intros Hb. induction l as [|x l IH]; intros st st'; cbn [m_for].
  - intros H. inversion H. reflexivity.
  - destruct (body st x) as [st1|] eqn:E1; [|discriminate]. intros H.
    rewrite (IH st1 st' H). apply (Hb st x st1 E1).
Qed.

Lemma m_while_pres {St B} (cond : St -> bool) (body : St -> option St) (P : St -> B) :
  (forall st st', body st = Some st' -> P st' = P st) ->
  forall fuel st st', m_while fuel cond body st = Some st' -> P st' = P st.
Proof.
  intros Hb. induction fuel as [|k IH]; intros st st'; cbn [m_while]; destruct (cond st);
    try discriminate; try (intros H; inversion H; reflexivity).
  destruct (body st) as [st1|] eqn:E1; [|discriminate]. intros H.
  rewrite (IH st1 st' H). apply (Hb st st1 E1).
Qed.

Lemma forallb_ext_in {A} (f g : A -> bool) l :
  (forall x, In x l -> f x = g x) -> forallb f l = forallb g l.
Proof.
  induction l as [|a l IH]; intros H; cbn; [reflexivity|].
  rewrite (H a (or_introl eq_refl)), IH; [reflexivity|].
  intros x Hx. apply H. right. exact Hx.
Qed.

Section Sim.
Variables nx ny : nat.
Hypothesis nx_pos : 0 < nx.
Hypothesis ny_pos : 0 < ny.
Variable pick : bdd -> list var -> option asg.
Variable pick_iter : bdd -> list var -> list asg.
Hypothesis pick_ok : pick_contract nx ny pick.
Hypothesis pick_iter_ok : pick_iter_contract nx ny pick_iter.

Local Notation inr := (inr nx ny).
Local Notation mkv := (mkv nx ny).
Local Notation indep := (indep nx ny).

Definition r0 : val := mkV 0 0 0 0.
Lemma inr_r0 : inr r0.
Proof. unfold EnumArenaProofs.inr, r0. cbn. lia. Qed.

(* ---- pick / pick_iter at the shapes the code uses --------------------------- *)
Lemma pick_y (p : nat -> bool) d :
  pick (mkv (fun r => p (vy r))) [U Sys] = Some d ->
  exists j, d = [(U Sys, j)] /\ j < ny /\ p j = true.
Proof.
  intros H. apply pick_ok in H.
  - destruct H as [Hk [Hr Hs]]. destruct (asg1_case d (U Sys) Hk) as [j ->].
    exists j. split; [reflexivity|]. split; [apply (Hr (U Sys) j); left; reflexivity|].
    specialize (Hs r0 inr_r0). rewrite evv_mkv in Hs; [exact Hs|].
    unfold EnumArenaProofs.inr. cbn. pose proof (Hr (U Sys) j (or_introl eq_refl)). cbn in *. lia.
  - intros w Hw. assert (w <> U Sys) by (intros ->; apply Hw; left; reflexivity).
    intros r i Hr Hi. rewrite !evv_mkv by (auto using inr_upd).
    destruct w as [[|]|[|]]; cbn; congruence.
Qed.

Lemma pick_xy (f : nat -> nat -> bool) d :
  pick (mkv (fun r => f (vx r) (vy r))) [U Env; U Sys] = Some d ->
  exists x y, (d = [(U Env, x); (U Sys, y)] \/ d = [(U Sys, y); (U Env, x)]) /\
              x < nx /\ y < ny /\ f x y = true.
Proof.
  intros H. apply pick_ok in H.
  - destruct H as [Hk [Hr Hs]].
    destruct (asg2_case d (U Env) (U Sys) ltac:(discriminate) Hk) as [x [y Hd]].
    exists x, y. split; [exact Hd|].
    assert (Hx : x < nx) by (apply (Hr (U Env) x); destruct Hd as [-> | ->]; cbn; auto).
    assert (Hy : y < ny) by (apply (Hr (U Sys) y); destruct Hd as [-> | ->]; cbn; auto).
    split; [exact Hx|]. split; [exact Hy|].
    specialize (Hs r0 inr_r0).
    rewrite evv_mkv in Hs.
    + destruct Hd as [-> | ->]; exact Hs.
    + destruct Hd as [-> | ->]; unfold EnumArenaProofs.inr; cbn; lia.
  - intros w Hw. assert (w <> U Env /\ w <> U Sys) by (split; intros ->; apply Hw; cbn; auto).
    intros r i Hr Hi. rewrite !evv_mkv by (auto using inr_upd).
    destruct w as [[|]|[|]]; cbn; tauto.
Qed.

(* the list of the singletons {w: i} *)
Definition single (w : var) (i : nat) : asg := [(w, i)].

Lemma pick_iter_single (u : bdd) (w : var) (q : nat -> bool) :
  (forall w', w' <> w -> indep u w') ->
  (forall r, inr r -> evv u r = q (get r w)) ->
  exists xs, pick_iter u [w] = map (single w) xs /\ NoDup xs /\
             forall i, In i xs <-> i < rng nx ny w /\ q i = true.
Proof.
  intros Hind Hu.
  destruct (pick_iter_ok u [w]) as [Hs [Hc Hn]].
  { intros w' Hw'. apply Hind. intros ->. apply Hw'. left. reflexivity. }
  set (l := pick_iter u [w]) in *.
  set (xs := map (fun d : asg => match d with [(_, i)] => i | _ => 0 end) l).
  assert (Hl : l = map (single w) xs).
  { unfold xs. rewrite map_map. rewrite <- (map_id l) at 1. apply map_ext_in.
    intros d Hd. destruct (Hs d Hd) as [Hk _]. destruct (asg1_case d w Hk) as [i ->].
    reflexivity. }
  exists xs. split; [exact Hl|]. split.
  - rewrite Hl, map_map in Hn. cbn in Hn. rewrite var_eqb_refl in Hn.
    apply (NoDup_map_inv (fun i => [Some i])). exact Hn.
  - intros i. split.
    + intros Hi. assert (Hd : In (single w i) l) by (rewrite Hl; apply in_map; exact Hi).
      destruct (Hs _ Hd) as [_ [Hr Hsat]].
      assert (Hi' : i < rng nx ny w) by (apply (Hr w i); left; reflexivity).
      split; [exact Hi'|].
      specialize (Hsat (upd r0 w i) (inr_upd nx ny r0 w i inr_r0 Hi')).
      rewrite Hu in Hsat.
      * revert Hsat. unfold single, subst_val, sub. destruct w as [[|]|[|]]; cbn; auto.
      * unfold single, subst_val, sub.
        destruct w as [[|]|[|]]; cbn in *; unfold EnumArenaProofs.inr; cbn; lia.
    + intros [Hi Hq].
      destruct (Hc (upd r0 w i) (inr_upd nx ny r0 w i inr_r0 Hi)) as [d [Hd Ha]].
      { rewrite Hu by (apply inr_upd; [exact inr_r0|exact Hi]). rewrite get_upd_same. exact Hq. }
      rewrite Hl in Hd. apply in_map_iff in Hd. destruct Hd as [i' [<- Hi']].
      specialize (Ha w i' (or_introl eq_refl)). rewrite get_upd_same in Ha. subst. exact Hi'.
Qed.

(* ---- the simulation relation ------------------------------------------------ *)
(* a node's attribute dict and the state (x, y) it stands for *)
Definition node_ok (d : asg) (s : state) : Prop :=
  d = [(U Env, fst s); (U Sys, snd s)] \/ d = [(U Sys, snd s); (U Env, fst s)].

Definition keys0 : list var := [U Env; U Sys].

(* code-level state (umap, g, queue, visited) ~ abstract graph mg *)
Record R (um : list (key * nat)) (g : nxgraph) (q : list nat) (vis : bdd)
    (mg : graph) : Prop := mkR {
  r_ids : map fst (g_nodes g) = seq 0 (List.length (nodes mg));
  r_nodes : Forall2 node_ok (map snd (g_nodes g)) (nodes mg);
  r_edges : g_edges g = rev (edges mg);
  r_queue : q = rev (queue mg);
  r_umap : forall x y,
    dict_get key_eqb [x; y] um = EnumModel.find_node (nodes mg) (x, y) 0;
  r_vis : forall r, inr r -> evv vis r = visited mg (vx r, vy r) }.

Lemma node_tuple_ok d s : node_ok d s -> c_node_tuple d keys0 = Some [fst s; snd s].
Proof. intros [-> | ->]; reflexivity. Qed.

Lemma add_to_visited_ev d s vis a r :
  node_ok d s -> inr r ->
  evv (add_to_visited nx ny d vis a) r = evv vis r || state_eqb s (vx r, vy r).
Proof.
  intros Hd Hr. unfold add_to_visited, bor, cube. rewrite evv_mkv by exact Hr.
  rewrite evv_mkv by exact Hr. f_equal. unfold state_eqb. cbn [fst snd].
  destruct Hd as [-> | ->]; cbn; rewrite andb_true_r;
    rewrite (Nat.eqb_sym (vx r)), (Nat.eqb_sym (vy r)); [reflexivity|apply andb_comm].
Qed.

Lemma visited_app l q e q' e' s t :
  visited (mkG (l ++ [s]) q e) t = visited (mkG l q' e') t || state_eqb s t.
Proof.
  unfold visited. cbn [nodes]. rewrite find_node_app.
  destruct (EnumModel.find_node l t 0); [reflexivity|].
  destruct (state_eqb s t); reflexivity.
Qed.

Lemma length_g_nodes um g q vis mg :
  R um g q vis mg -> List.length (g_nodes g) = List.length (nodes mg).
Proof.
  intros HR. rewrite <- (map_length fst), (r_ids _ _ _ _ _ HR), seq_length. reflexivity.
Qed.

(* g.nodes[u] for a node of the abstract graph *)
Lemma node_attrs_ok um g q vis mg u d :
  R um g q vis mg -> nx_node_attrs g u = Some d ->
  exists s, nth_error (nodes mg) u = Some s /\ node_ok d s.
Proof.
  intros HR. unfold nx_node_attrs.
  pose proof (length_g_nodes _ _ _ _ _ HR) as Hlen.
  rewrite (ids_get (g_nodes g) 0) by (rewrite Hlen; apply (r_ids _ _ _ _ _ HR)).
  cbn. rewrite Nat.sub_0_r.
  destruct (nth_error (g_nodes g) u) as [[k d']|] eqn:En; [|discriminate].
  cbn. intros H. inversion H. subst d'.
  pose proof (r_nodes _ _ _ _ _ HR) as Hf.
  assert (Hd : nth_error (map snd (g_nodes g)) u = Some d)
    by (rewrite nth_error_map, En; reflexivity).
  clear - Hf Hd. revert u Hd. induction Hf as [|a s la ls Has _ IH]; intros u Hd.
  - destruct u; discriminate.
  - destruct u as [|u]; cbn in *.
    + inversion Hd. subst. exists s. auto.
    + apply IH, Hd.
Qed.

(* _find_node *)
Lemma find_node_sim um g q vis mg d s w :
  R um g q vis mg -> node_ok d s -> c_find_node d um keys0 = Some w ->
  EnumModel.find_node (nodes mg) s 0 = Some w.
Proof.
  intros HR Hd. unfold c_find_node. rewrite (node_tuple_ok d s Hd). cbn [m_bind].
  intros H. apply m_assert_some in H. destruct H as [_ H].
  apply m_bind_some in H. destruct H as [u [Hu H]]. inversion H. subst u.
  rewrite (r_umap _ _ _ _ _ HR) in Hu. destruct s. exact Hu.
Qed.

(* _add_new_node *)
Lemma add_new_node_sim um g q vis mg d s a u g' q' um' :
  R um g q vis mg -> node_ok d s ->
  c_add_new_node d g q um keys0 = Some (u, g', q', um') ->
  u = List.length (nodes mg) /\ ~ In s (nodes mg) /\
  R um' g' q' (add_to_visited nx ny d vis a)
    (mkG (nodes mg ++ [s]) (u :: queue mg) (edges mg)).
Proof.
  intros HR Hd. unfold c_add_new_node.
  pose proof (length_g_nodes _ _ _ _ _ HR) as Hlen.
  intros H. apply m_assert_some in H. destruct H as [_ H].
  rewrite (node_tuple_ok d s Hd) in H. cbn [m_bind] in H.
  apply m_assert_some in H. destruct H as [Hnew H]. inversion H. subst u g' q' um'. clear H.
  apply negb_true_iff, (dict_has_false key_eqb) in Hnew.
  rewrite (r_umap _ _ _ _ _ HR) in Hnew.
  assert (Hs : ~ In s (nodes mg)) by (apply (find_node_none _ _ 0); destruct s; exact Hnew).
  unfold nx_len. rewrite Hlen. split; [reflexivity|]. split; [exact Hs|].
  assert (Hids : map fst (g_nodes g) = seq 0 (List.length (g_nodes g)))
    by (rewrite Hlen; apply (r_ids _ _ _ _ _ HR)).
  assert (Hnot : ~ In (List.length (nodes mg)) (map fst (g_nodes g)))
    by (rewrite <- Hlen; apply ids_notin, Hids).
  assert (Hg : g_nodes (nx_add_node g (List.length (nodes mg)) d) =
               g_nodes g ++ [(List.length (nodes mg), d)]).
  { unfold nx_add_node. cbn [g_nodes].
    rewrite (dict_get_notin Nat.eqb Nat.eqb_eq) by exact Hnot.
    rewrite (dict_set_notin Nat.eqb Nat.eqb_eq) by exact Hnot.
    destruct Hd as [-> | ->]; reflexivity. }
  constructor; cbn [nodes queue edges].
  - rewrite Hg, map_app, (r_ids _ _ _ _ _ HR), app_length. cbn [map fst List.length].
    rewrite Nat.add_1_r, seq_S. reflexivity.
  - rewrite Hg, map_app. cbn [map snd]. apply Forall2_app; [apply (r_nodes _ _ _ _ _ HR)|].
    constructor; [exact Hd|constructor].
  - apply (r_edges _ _ _ _ _ HR).
  - cbn [rev]. rewrite (r_queue _ _ _ _ _ HR). reflexivity.
  - intros x y. rewrite find_node_app.
    destruct (key_eqb [fst s; snd s] [x; y]) eqn:Ek.
    + apply key_eqb_eq in Ek. inversion Ek. subst x y.
      rewrite (dict_get_set_eq key_eqb key_eqb_eq).
      destruct s as [sx sy]. cbn [fst snd] in *. rewrite Hnew, state_eqb_refl. reflexivity.
    + assert (Hne : [fst s; snd s] <> [x; y])
        by (intros He; apply key_eqb_eq in He; congruence).
      rewrite (dict_get_set_neq key_eqb key_eqb_eq) by exact Hne.
      rewrite (r_umap _ _ _ _ _ HR).
      destruct (EnumModel.find_node (nodes mg) (x, y) 0); [reflexivity|].
      destruct (state_eqb s (x, y)) eqn:Es; [|reflexivity].
      apply state_eqb_eq in Es. subst s. cbn in Hne. congruence.
  - intros r Hr. rewrite (add_to_visited_ev d s vis a r Hd Hr), (r_vis _ _ _ _ _ HR r Hr).
    rewrite (visited_app _ _ _ (queue mg) (edges mg)). destruct mg; reflexivity.
Qed.

(* g.add_edge(a, b) between two existing nodes, for an edge not yet there *)
Lemma ensure_present um g q vis mg k :
  R um g q vis mg -> k < List.length (nodes mg) ->
  nx_ensure_node k (g_nodes g) = g_nodes g.
Proof.
  intros HR Hk. unfold nx_ensure_node.
  pose proof (length_g_nodes _ _ _ _ _ HR) as Hlen.
  assert (Hh : dict_has Nat.eqb k (g_nodes g) = true).
  { unfold dict_has.
    rewrite (ids_get (g_nodes g) 0) by (rewrite Hlen; apply (r_ids _ _ _ _ _ HR)).
    cbn. rewrite Nat.sub_0_r.
    destruct (nth_error (g_nodes g) k) eqn:En; [reflexivity|].
    apply nth_error_None in En. lia. }
  rewrite Hh. reflexivity.
Qed.

Lemma add_edge_R um g q vis mg a b :
  R um g q vis mg -> a < List.length (nodes mg) -> b < List.length (nodes mg) ->
  ~ In (a, b) (edges mg) ->
  R um (nx_add_edge g a b) q vis (mkG (nodes mg) (queue mg) ((a, b) :: edges mg)).
Proof.
  intros HR Ha Hb Hn.
  assert (Hg : g_nodes (nx_add_edge g a b) = g_nodes g).
  { unfold nx_add_edge. cbn [g_nodes].
    rewrite (ensure_present _ _ _ _ _ a HR Ha). apply (ensure_present _ _ _ _ _ b HR Hb). }
  constructor; cbn [nodes queue edges].
  - rewrite Hg. apply (r_ids _ _ _ _ _ HR).
  - rewrite Hg. apply (r_nodes _ _ _ _ _ HR).
  - unfold nx_add_edge. cbn [g_edges rev]. rewrite (r_edges _ _ _ _ _ HR).
    destruct (existsb (edge_eqb (a, b)) (rev (edges mg))) eqn:Ex; [exfalso|reflexivity].
    apply existsb_exists in Ex. destruct Ex as [e [He Hee]].
    apply edge_eqb_eq in Hee. subst e. apply Hn, in_rev, He.
  - apply (r_queue _ _ _ _ _ HR).
  - apply (r_umap _ _ _ _ _ HR).
  - intros r Hr. rewrite (r_vis _ _ _ _ _ HR r Hr). reflexivity.
Qed.

Lemma out_count_zero_notin ns es u x' w t :
  out_count ns es u x' = 0 -> nth_error ns w = Some t -> fst t = x' -> ~ In (u, w) es.
Proof.
  unfold out_count. intros H Hw Ht Hin.
  assert (Hf : In (u, w) (filter (fun e => Nat.eqb (fst e) u &&
              match nth_error ns (snd e) with
              | Some t => Nat.eqb (fst t) x' | None => false end) es)).
  { apply filter_In. split; [exact Hin|]. cbn [fst snd]. rewrite Hw, Nat.eqb_refl.
    cbn. apply Nat.eqb_eq, Ht. }
  destruct (filter _ es); [destruct Hf|discriminate].
Qed.

(* emptiness of a set of component values, as a BDD test *)
Lemma nonempty_lift (p : nat -> bool) :
  bdd_eqb (mkv (fun r => p (vy r))) (bfalse nx ny) = negb (nonempty ny p).
Proof.
  destruct (nonempty ny p) eqn:En; cbn [negb].
  - destruct (bdd_eqb _ _) eqn:Eb; [exfalso|reflexivity].
    rewrite mkv_false in Eb. unfold nonempty in En. apply existsb_exists in En.
    destruct En as [y [Hy Hp]]. apply in_seq in Hy.
    specialize (Eb (mkV 0 y 0 0)). cbn in Eb. rewrite Eb in Hp; [discriminate|].
    unfold EnumArenaProofs.inr. cbn. lia.
  - apply mkv_false. intros r Hr. apply (nonempty_false ny p En). apply Hr.
Qed.

(* the abstract model's pick, made of the code's pick *)
Definition mpick (p : nat -> bool) : option nat :=
  match pick (mkv (fun r => p (vy r))) [U Sys] with
  | Some d => dict_get var_eqb (U Sys) d
  | None => None
  end.

Lemma mpick_sound p y : mpick p = Some y -> y < ny /\ p y = true.
Proof.
  unfold mpick. destruct (pick _ _) as [d|] eqn:Ep; [|discriminate].
  destruct (pick_y p d Ep) as [j [-> [Hj Hp]]]. cbn. intros H. inversion H. subst. auto.
Qed.

Section Worklist.
Variable E : nat -> nat -> nat -> bool.
Variable S : nat -> nat -> nat -> nat -> bool.
Variable a : automaton.
Hypothesis a_vl_env : dict_get String.eqb "env"%string (a_varlist a) = Some [U Env].
Hypothesis a_vl_sys : dict_get String.eqb "sys"%string (a_varlist a) = Some [U Sys].
Hypothesis a_act_env : dict_get String.eqb "env"%string (a_action a) =
  Some (mkv (fun r => E (vx r) (vy r) (vxp r))).
Hypothesis a_act_sys : dict_get String.eqb "sys"%string (a_action a) =
  Some (mkv (fun r => S (vx r) (vy r) (vxp r) (vyp r))).

Definition unprime0 : list (var * var) := [(P Env, U Env); (P Sys, U Sys)].
Definition sysn (s : state) : bdd := mkv (fun r => S (fst s) (snd s) (vxp r) (vyp r)).
Definition envn (s : state) : bdd := mkv (fun r => E (fst s) (snd s) (vxp r)).

Local Notation WF := (WF nx ny E S).

(* the body of `for next_env in env_iter` *)
Lemma env_body_sim um g q vis mg u s x' um' g' q' vis' :
  R um g q vis mg -> WF mg -> nth_error (nodes mg) u = Some s ->
  x' < nx -> out_count (nodes mg) (edges mg) u x' = 0 ->
  c_env_body nx ny pick a keys0 unprime0 u (sysn s) (um, g, q, vis) (single (P Env) x')
    = Some (um', g', q', vis') ->
  exists mg', process_env ny S mpick s u mg x' = Some mg' /\ R um' g' q' vis' mg'.
Proof.
  intros HR Hwf Hu Hx' Hcnt.
  assert (Hul : u < List.length (nodes mg)) by (apply nth_error_Some; congruence).
  unfold c_env_body, process_env.
  set (cand := fun y' => S (fst s) (snd s) x' y').
  set (cand_vis := fun y' => cand y' && visited mg (x', y')).
  cbn [single unprime0 m_map m_bind dict_get var_eqb player_eqb dict_of_items
       dict_update fold_left dict_set fst snd].
  (* the candidate successors, as BDDs over the component's variables *)
  assert (Hcand : brename nx ny unprime0
                    (blet nx ny (single (P Env) x') (sysn s)) = mkv (fun r => cand (vy r))).
  { unfold brename, blet, sysn, unprime0, single. apply mkv_ext. intros r Hr.
    rewrite evv_mkv by (destruct Hr as [? [? [? ?]]]; unfold EnumArenaProofs.inr; cbn; lia).
    rewrite evv_mkv by (destruct Hr as [? [? [? ?]]]; unfold EnumArenaProofs.inr; cbn; lia).
    reflexivity. }
  assert (Hvis : forall r, inr r -> evv (blet nx ny [(U Env, x')] vis) r = visited mg (x', vy r)).
  { intros r Hr. unfold blet. rewrite evv_mkv by exact Hr.
    rewrite (r_vis _ _ _ _ _ HR) by (destruct Hr as [? [? [? ?]]]; unfold EnumArenaProofs.inr; cbn; lia).
    reflexivity. }
  assert (Hband : band nx ny (blet nx ny [(U Env, x')] vis) (mkv (fun r => cand (vy r)))
                  = mkv (fun r => cand_vis (vy r))).
  { unfold band. apply mkv_ext. intros r Hr. rewrite Hvis by exact Hr.
    rewrite evv_mkv by exact Hr. unfold cand_vis. apply andb_comm. }
  rewrite Hcand. unfold c_select_candidate_nodes. rewrite Hband.
  rewrite !nonempty_lift. rewrite a_vl_sys. cbn [m_bind].
  destruct (nonempty ny cand_vis) eqn:Env; cbn [negb m_assert m_bind].
  - (* remain among visited nodes *)
    intros H. apply m_bind_some in H. destruct H as [d [Hp H]].
    destruct (pick_y cand_vis d Hp) as [j [-> [Hj Hc]]].
    unfold mpick. rewrite Hp. cbn [dict_get var_eqb player_eqb].
    cbn [dict_update fold_left dict_set fst snd var_eqb player_eqb] in H.
    apply m_assert_some in H. destruct H as [_ H].
    apply m_assert_some in H. destruct H as [_ H].
    apply m_bind_some in H. destruct H as [w [Hf H]]. inversion H. subst um' g' q' vis'. clear H.
    pose proof (find_node_sim um g q vis mg _ (x', j) w HR (or_introl eq_refl) Hf) as Hfm.
    rewrite Hfm. eexists. split; [reflexivity|].
    pose proof (find_node_lt _ _ _ Hfm) as Hw.
    apply add_edge_R; [exact HR|exact Hul|apply nth_error_Some; congruence|].
    apply (out_count_zero_notin _ _ _ x' _ (x', j) Hcnt Hw eq_refl).
  - (* a new node *)
    destruct (nonempty ny cand) eqn:Enc; cbn [negb m_assert m_bind]; [|discriminate].
    intros H. apply m_bind_some in H. destruct H as [d [Hp H]].
    destruct (pick_y cand d Hp) as [j [-> [Hj Hc]]].
    unfold mpick. rewrite Hp. cbn [dict_get var_eqb player_eqb].
    cbn [dict_update fold_left dict_set fst snd var_eqb player_eqb] in H.
    apply m_assert_some in H. destruct H as [_ H].
    apply m_assert_some in H. destruct H as [_ H].
    apply m_bind_some in H. destruct H as [[[[n g1] q1] um1] [Ha H]].
    inversion H. subst um' g' q' vis'. clear H.
    destruct (add_new_node_sim um g q vis mg _ (x', j) a n g1 q1 um1 HR (or_introl eq_refl) Ha)
      as [Hn [Hfresh HR1]].
    subst n. eexists. split; [reflexivity|].
    set (mg1 := mkG (nodes mg ++ [(x', j)]) (List.length (nodes mg) :: queue mg) (edges mg)) in *.
    change (mkG (nodes mg ++ [(x', j)]) (List.length (nodes mg) :: queue mg)
                ((u, List.length (nodes mg)) :: edges mg))
      with (mkG (nodes mg1) (queue mg1) ((u, List.length (nodes mg)) :: edges mg1)).
    apply add_edge_R; [exact HR1| | |]; cbn [mg1 nodes edges].
    + rewrite app_length. lia.
    + rewrite app_length. cbn. lia.
    + intros Hin. pose proof (edges_target_lt nx ny E S mg Hwf _ Hin) as Hlt. cbn in Hlt. lia.
Qed.

(* the loop `for next_env in env_iter` *)
Lemma env_loop_sim xs : forall um g q vis mg u s um' g' q' vis',
  R um g q vis mg -> WF mg -> nth_error (nodes mg) u = Some s -> ~ In u (queue mg) ->
  NoDup xs -> (forall x', In x' xs -> x' < nx /\ E (fst s) (snd s) x' = true) ->
  (forall x', In x' xs -> out_count (nodes mg) (edges mg) u x' = 0) ->
  m_for (c_env_body nx ny pick a keys0 unprime0 u (sysn s)) (map (single (P Env)) xs)
    (um, g, q, vis) = Some (um', g', q', vis') ->
  exists mg', process_all ny E S mpick s u mg xs = Some mg' /\ R um' g' q' vis' mg'.
Proof.
  induction xs as [|x' xs IH]; intros um g q vis mg u s um' g' q' vis' HR Hwf Hu Hnq Hnd Hxs Hcnt;
    cbn [map m_for process_all].
  - intros H. inversion H. subst. exists mg. auto.
  - destruct (c_env_body _ _ _ _ _ _ _ _ _ _) as [[[[um1 g1] q1] vis1]|] eqn:Eb; [|discriminate].
    intros Hfor. inversion Hnd as [|? ? Hnin Hnd']. subst.
    destruct (Hxs x' (or_introl eq_refl)) as [Hx' He].
    destruct (env_body_sim um g q vis mg u s x' um1 g1 q1 vis1 HR Hwf Hu Hx'
                (Hcnt x' (or_introl eq_refl)) Eb) as [mg1 [Hpe HR1]].
    rewrite He, Hpe.
    destruct (process_env_inv nx ny E S mpick mpick_sound mg mg1 u s x' Hwf Hu Hnq He Hx' Hpe)
      as [Hwf1 [Hd1 Hext1]].
    assert (Hul : u < List.length (nodes mg)) by (apply nth_error_Some; congruence).
    apply (IH um1 g1 q1 vis1 mg1 u s um' g' q' vis' HR1 Hwf1
             (extends_nth _ _ _ _ Hext1 Hu) (extends_notin _ _ _ Hext1 Hul Hnq) Hnd'
             (fun y Hy => Hxs y (or_intror Hy))); [|exact Hfor].
    intros x'' Hx''. rewrite Hd1, (Hcnt x'' (or_intror Hx'')).
    rewrite Nat.eqb_refl. cbn [andb].
    destruct (Nat.eqb x'' x') eqn:Ex; [|reflexivity].
    apply Nat.eqb_eq in Ex. subst. contradiction.
Qed.

(* the order in which the code enumerates the next environment values *)
Definition enum (s : state) : list nat :=
  map (fun d : asg => match d with [(_, i)] => i | _ => 0 end) (pick_iter (envn s) [P Env]).

Lemma enum_spec s :
  pick_iter (envn s) [P Env] = map (single (P Env)) (enum s) /\ NoDup (enum s) /\
  forall i, In i (enum s) <-> i < nx /\ E (fst s) (snd s) i = true.
Proof.
  destruct (pick_iter_single (envn s) (P Env) (fun i => E (fst s) (snd s) i)) as [xs [Hl [Hn Hi]]].
  - intros w Hw r i Hr Hi. unfold envn. rewrite !evv_mkv by (auto using inr_upd).
    destruct w as [[|]|[|]]; cbn; congruence.
  - intros r Hr. unfold envn. rewrite evv_mkv by exact Hr. reflexivity.
  - assert (He : enum s = xs).
    { unfold enum. rewrite Hl, map_map. cbn. apply map_id. }
    rewrite He. auto.
Qed.

Lemma enum_nodup s : NoDup (enum s).
Proof. apply enum_spec. Qed.
Lemma enum_range s x' : In x' (enum s) -> x' < nx.
Proof. intros H. apply (proj2 (proj2 (enum_spec s))) in H. tauto. Qed.
Lemma enum_complete s x' :
  in_range nx ny s -> x' < nx -> E (fst s) (snd s) x' = true -> In x' (enum s).
Proof. intros _ Hx He. apply (proj2 (proj2 (enum_spec s))). auto. Qed.

Lemma subst_val_node d s r :
  node_ok d s -> subst_val d r = mkV (fst s) (snd s) (vxp r) (vyp r).
Proof. intros [-> | ->]; reflexivity. Qed.

Definition primed0 : list (string * list var) :=
  [("env"%string, [P Env]); ("sys"%string, [P Sys])].

Local Notation Inv := (Inv nx ny E S).

(* one turn of `while queue:` is one step of the abstract worklist *)
Lemma while_body_sim um g q vis mg um' g' q' vis' :
  R um g q vis mg -> Inv mg ->
  c_while_body nx ny pick pick_iter a keys0 keys0 unprime0 primed0 (um, g, q, vis)
    = Some (um', g', q', vis') ->
  exists mg', step_o ny E S mpick enum mg = Some mg' /\ R um' g' q' vis' mg'.
Proof.
  intros HR [Hwf Hc]. unfold c_while_body, step_o.
  rewrite (r_queue _ _ _ _ _ HR).
  destruct (queue mg) as [|u qm] eqn:Eq; [discriminate|].
  cbn [rev]. rewrite py_pop_snoc. cbn [m_bind].
  intros H. apply m_bind_some in H. destruct H as [values [Hv H]].
  destruct (node_attrs_ok _ _ _ _ _ _ _ HR Hv) as [s [Hu Hok]]. rewrite Hu.
  apply m_assert_some in H. destruct H as [_ H].
  rewrite a_act_env, a_act_sys in H. cbn [m_bind primed0 dict_get String.eqb Ascii.eqb Bool.eqb] in H.
  assert (Hs_range : in_range nx ny s) by (apply (wf_range _ _ _ _ mg Hwf), (nth_error_In _ _ Hu)).
  assert (Henv : blet nx ny values (mkv (fun r => E (vx r) (vy r) (vxp r))) = envn s).
  { unfold blet, envn. apply mkv_ext. intros r Hr. rewrite (subst_val_node _ _ r Hok).
    rewrite evv_mkv; [reflexivity|].
    destruct Hr as [? [? [? ?]]], Hs_range. unfold EnumArenaProofs.inr. cbn. lia. }
  assert (Hsys : blet nx ny values (mkv (fun r => S (vx r) (vy r) (vxp r) (vyp r))) = sysn s).
  { unfold blet, sysn. apply mkv_ext. intros r Hr. rewrite (subst_val_node _ _ r Hok).
    rewrite evv_mkv; [reflexivity|].
    destruct Hr as [? [? [? ?]]], Hs_range. unfold EnumArenaProofs.inr. cbn. lia. }
  rewrite Henv, Hsys in H.
  apply m_assert_some in H. destruct H as [_ H].
  apply m_assert_some in H. destruct H as [_ H].
  apply m_bind_some in H. destruct H as [[[[um1 g1] q1] vis1] [Hfor H]].
  inversion H. subst um' g' q' vis'. clear H.
  destruct (enum_spec s) as [Hl [Hnd Hin]]. rewrite Hl in Hfor.
  destruct (pop_wf nx ny E S mg u qm Hwf Eq) as [Hwf0 Hnq].
  apply (env_loop_sim (enum s) um g (rev qm) vis (mkG (nodes mg) qm (edges mg)) u s
           um1 g1 q1 vis1); cbn [nodes queue edges]; try assumption.
  - destruct HR as [H1 H2 H3 H4 H5 H6].
    constructor; cbn [nodes queue edges];
      [exact H1|exact H2|exact H3|reflexivity|exact H5|exact H6].
  - intros x' Hx'. apply Hin, Hx'.
  - intros x' _. apply (queued_no_edges nx ny E S mg u x' Hwf). rewrite Eq. left. reflexivity.
Qed.

Definition work_R (st : work_state) (mg : graph) : Prop :=
  let '(um, g, q, vis) := st in R um g q vis mg.

(* the loop `while queue:` is the abstract run, for every fuel *)
Lemma while_sim fuel : forall st mg st',
  work_R st mg -> Inv mg ->
  m_while fuel c_while_cond
    (c_while_body nx ny pick pick_iter a keys0 keys0 unprime0 primed0) st = Some st' ->
  exists mg', run_o ny E S mpick enum fuel mg = Some mg' /\ work_R st' mg'.
Proof.
  induction fuel as [|k IH]; intros [[[um g] q] vis] mg st' HR Hi; cbn [m_while run_o];
    unfold c_while_cond; cbn [work_R] in HR;
    assert (Hnil : is_nil q = is_nil (queue mg))
      by (rewrite (r_queue _ _ _ _ _ HR); apply is_nil_rev); rewrite Hnil.
  - destruct (queue mg); cbn [is_nil negb]; [|discriminate].
    intros H. inversion H. subst. exists mg. auto.
  - destruct (queue mg) eqn:Eq; cbn [is_nil negb].
    + intros H. inversion H. subst. exists mg. auto.
    + destruct (c_while_body _ _ _ _ _ _ _ _ _ _) as [[[[um1 g1] q1] vis1]|] eqn:Eb; [|discriminate].
      destruct (while_body_sim _ _ _ _ _ _ _ _ _ HR Hi Eb) as [mg1 [Hst HR1]].
      rewrite Hst. intros H. apply (IH (um1, g1, q1, vis1) mg1 st' HR1); [|exact H].
      apply (step_o_inv nx ny E S mpick mpick_sound enum enum_nodup enum_range enum_complete
               mg mg1 Hi Hst).
Qed.

(* ---- the initial searches ---------------------------------------------------- *)
Variable EI : nat -> bool.
Variable SI : nat -> nat -> bool.
Hypothesis a_init_env : dict_get String.eqb "env"%string (a_init a) =
  Some (mkv (fun r => EI (vx r))).
Hypothesis a_init_sys : dict_get String.eqb "sys"%string (a_init a) =
  Some (mkv (fun r => SI (vx r) (vy r))).

(* the abstract graph made of the initial nodes l, all queued, no edge *)
Definition initg (l : list state) : graph := mkG l (rev (seq 0 (List.length l))) [].
Definition init_R (st : init_state) (l : list state) : Prop :=
  let '(g, um, vis, q) := st in R um g q vis (initg l).

Lemma init_R_empty : init_R (nx_empty, [], bfalse nx ny, []) [].
Proof.
  cbn [init_R]. constructor; cbn; try reflexivity; [constructor|].
  intros r Hr. unfold bfalse. rewrite evv_mkv by exact Hr. reflexivity.
Qed.

Lemma initg_snoc l s :
  mkG (l ++ [s]) (List.length l :: rev (seq 0 (List.length l))) [] = initg (l ++ [s]).
Proof.
  unfold initg. f_equal. rewrite app_length. cbn [List.length]. rewrite Nat.add_1_r, seq_S.
  rewrite rev_app_distr. reflexivity.
Qed.

(* "add a node for d, mark it visited": the tail of every initial search *)
Lemma add_tail um g q vis l d s st' :
  R um g q vis (initg l) -> node_ok d s ->
  m_bind (c_add_new_node d g q um keys0)
    (fun '(t, g', q', um') => Some (g', um', add_to_visited nx ny d vis a, q')) = Some st' ->
  ~ In s l /\ init_R st' (l ++ [s]).
Proof.
  intros HR Hd H. apply m_bind_some in H. destruct H as [[[[n g1] q1] um1] [Ha H]].
  inversion H. subst st'. clear H.
  destruct (add_new_node_sim um g q vis (initg l) d s a n g1 q1 um1 HR Hd Ha) as [Hn [Hf HR1]].
  cbn [initg nodes queue edges] in *. subst n. split; [exact Hf|].
  cbn [init_R]. rewrite <- initg_snoc. exact HR1.
Qed.

Lemma init_add_sim st l d s st' :
  init_R st l -> node_ok d s -> c_init_add nx ny a keys0 st d = Some st' ->
  ~ In s l /\ init_R st' (l ++ [s]).
Proof.
  destruct st as [[[g um] vis] q]. cbn [init_R]. intros HR Hd. unfold c_init_add.
  apply add_tail; assumption.
Qed.

Lemma init_loop ds : forall ss st l st',
  Forall2 node_ok ds ss -> init_R st l ->
  m_for (c_init_add nx ny a keys0) ds st = Some st' ->
  init_R st' (l ++ ss) /\ (NoDup l -> NoDup (l ++ ss)).
Proof.
  induction ds as [|d ds IH]; intros ss st l st' Hf HR; inversion Hf as [|? s ? ss' Hd Hf']; subst;
    cbn [m_for].
  - intros H. inversion H. subst. rewrite app_nil_r. auto.
  - destruct (c_init_add nx ny a keys0 st d) as [st1|] eqn:E1; [|discriminate].
    destruct (init_add_sim st l d s st1 HR Hd E1) as [Hn HR1]. intros H.
    destruct (IH ss' st1 (l ++ [s]) st' Hf' HR1 H) as [HR' Hnd].
    rewrite <- app_assoc in HR', Hnd. cbn [app] in HR', Hnd. split; [exact HR'|].
    intros Hl. apply Hnd, NoDup_app_snoc; assumption.
Qed.

Lemma Forall2_map_r {A B} (P : A -> B -> Prop) (f : A -> B) l :
  (forall x, In x l -> P x (f x)) -> Forall2 P l (map f l).
Proof.
  induction l as [|x l IH]; intros H; cbn [map]; constructor.
  - apply H. left. reflexivity.
  - apply IH. intros y Hy. apply H. right. exact Hy.
Qed.

(* pick_iter over both players' variables: a list of distinct states *)
Lemma pick_iter_xy (f : nat -> nat -> bool) :
  exists ss,
    Forall2 node_ok (pick_iter (mkv (fun r => f (vx r) (vy r))) [U Env; U Sys]) ss /\
    NoDup ss /\ forall s, In s ss <-> in_range nx ny s /\ f (fst s) (snd s) = true.
Proof.
  set (u := mkv (fun r => f (vx r) (vy r))).
  destruct (pick_iter_ok u [U Env; U Sys]) as [Hs [Hc Hn]].
  { intros w Hw. assert (w <> U Env /\ w <> U Sys) by (split; intros ->; apply Hw; cbn; auto).
    intros r i Hr Hi. unfold u. rewrite !evv_mkv by (auto using inr_upd).
    destruct w as [[|]|[|]]; cbn; tauto. }
  set (l := pick_iter u [U Env; U Sys]) in *.
  set (st := fun d : asg => (sub d r0 (U Env), sub d r0 (U Sys))).
  assert (Hshape : forall d, In d l -> node_ok d (st d)).
  { intros d Hd. destruct (Hs d Hd) as [Hk _].
    destruct (asg2_case d (U Env) (U Sys) ltac:(discriminate) Hk) as [x [y [-> | ->]]];
      [left|right]; reflexivity. }
  assert (Hcases : forall d, In d l -> exists x y, st d = (x, y) /\
            (d = [(U Env, x); (U Sys, y)] \/ d = [(U Sys, y); (U Env, x)])).
  { intros d Hd. destruct (Hs d Hd) as [Hk _].
    destruct (asg2_case d (U Env) (U Sys) ltac:(discriminate) Hk) as [x [y [-> | ->]]];
      exists x, y; split; auto. }
  exists (map st l). split; [apply Forall2_map_r, Hshape|]. split.
  - apply (NoDup_map_inv (fun s : state => [Some (fst s); Some (snd s)])).
    rewrite map_map.
    rewrite (map_ext_in _ (fun d : asg => map (fun w => dict_get var_eqb w d) [U Env; U Sys]));
      [exact Hn|].
    intros d Hd. destruct (Hcases d Hd) as [x [y [-> [-> | ->]]]]; reflexivity.
  - intros s. rewrite in_map_iff. split.
    + intros [d [<- Hd]]. destruct (Hs d Hd) as [_ [Hr Hsat]].
      destruct (Hcases d Hd) as [x [y [Est Hdd]]]. rewrite Est. cbn [fst snd].
      assert (Hx : x < nx) by (apply (Hr (U Env) x); destruct Hdd as [-> | ->]; cbn; auto).
      assert (Hy : y < ny) by (apply (Hr (U Sys) y); destruct Hdd as [-> | ->]; cbn; auto).
      split; [split; assumption|].
      specialize (Hsat r0 inr_r0). unfold u in Hsat. rewrite evv_mkv in Hsat.
      * destruct Hdd as [-> | ->]; exact Hsat.
      * destruct Hdd as [-> | ->]; unfold EnumArenaProofs.inr; cbn; lia.
    + intros [[Hx Hy] Hf].
      destruct (Hc (mkV (fst s) (snd s) 0 0)) as [d [Hd Ha]].
      { unfold EnumArenaProofs.inr. cbn. lia. }
      { unfold u. rewrite evv_mkv by (unfold EnumArenaProofs.inr; cbn; lia). exact Hf. }
      exists d. split; [|exact Hd]. destruct s as [sx sy]. cbn [fst snd] in *.
      destruct (Hcases d Hd) as [x [y [Est Hdd]]]. rewrite Est.
      destruct Hdd as [-> | ->];
        pose proof (Ha (U Env) _ ltac:(cbn; auto)) as H1;
        pose proof (Ha (U Sys) _ ltac:(cbn; auto)) as H2; cbn in H1, H2; congruence.
Qed.

Definition pattern_AA (l : list state) : Prop :=
  forall s, In s l <-> in_range nx ny s /\ EI (fst s) = true /\ SI (fst s) (snd s) = true.
Definition pattern_EE (l : list state) : Prop :=
  exists x y, l = [(x, y)] /\ x < nx /\ y < ny /\ SI x y = true.
Definition pattern_AE (l : list state) : Prop :=
  NoDup (map fst l) /\ (forall x, In x (map fst l) <-> x < nx /\ EI x = true) /\
  forall s, In s l -> snd s < ny /\ EI (fst s) = true /\ SI (fst s) (snd s) = true.
Definition pattern_EA (l : list state) : Prop :=
  exists y, y < ny /\ (forall x, x < nx -> SI x y = true) /\
    (forall s, In s l -> snd s = y) /\
    NoDup (map fst l) /\ (forall x, In x (map fst l) <-> x < nx /\ EI x = true).

Local Notation init_out q vis g um l :=
  (R um g q vis (initg l) /\ NoDup l /\ (forall s, In s l -> in_range nx ny s)).

(* \A \A *)
Lemma forall_init_sim q vis g um :
  c_forall_init nx ny pick_iter nx_empty a [] keys0 = Some ((q, vis), g, um) ->
  exists l, init_out q vis g um l /\ pattern_AA l.
Proof.
  unfold c_forall_init. rewrite a_init_env, a_init_sys, a_vl_env, a_vl_sys. cbn [m_bind app].
  intros H. apply m_assert_some in H. destruct H as [_ H].
  apply m_bind_some in H. destruct H as [[[[g1 um1] vis1] q1] [Hfor H]].
  inversion H. subst q1 vis1 g1 um1. clear H.
  assert (Hb : band nx ny (mkv (fun r => EI (vx r))) (mkv (fun r => SI (vx r) (vy r))) =
               mkv (fun r => EI (vx r) && SI (vx r) (vy r))).
  { unfold band. apply mkv_ext. intros r Hr. rewrite !evv_mkv by exact Hr. reflexivity. }
  rewrite Hb in Hfor.
  destruct (pick_iter_xy (fun x y => EI x && SI x y)) as [ss [Hf [Hnd Hin]]].
  destruct (init_loop _ ss _ [] _ Hf init_R_empty Hfor) as [HR Hn]. cbn [app init_R] in HR, Hn.
  exists ss. split; [split; [exact HR|split; [exact Hnd|]]|].
  - intros s Hs. apply Hin, Hs.
  - intros s. rewrite Hin, andb_true_iff. reflexivity.
Qed.

(* \E \E *)
Lemma exist_init_sim q vis g um :
  c_exist_init nx ny pick nx_empty a [] keys0 = Some ((q, vis), g, um) ->
  exists l, init_out q vis g um l /\ pattern_EE l.
Proof.
  unfold c_exist_init. rewrite a_init_sys, a_vl_env, a_vl_sys. cbn [m_bind app].
  intros H. apply m_assert_some in H. destruct H as [_ H].
  apply m_bind_some in H. destruct H as [d [Hp H]].
  destruct (pick_xy (fun x y => SI x y) d Hp) as [x [y [Hd [Hx [Hy Hs]]]]].
  assert (Hok : node_ok d (x, y)) by exact Hd.
  pose proof init_R_empty as H0. cbn [init_R] in H0.
  destruct (add_tail [] nx_empty [] (bfalse nx ny) [] d (x, y) (g, um, vis, q) H0 Hok) as [_ HR].
  { apply m_bind_some in H. destruct H as [[[[n g1] q1] um1] [Ha H]]. rewrite Ha. cbn [m_bind].
    inversion H. reflexivity. }
  cbn [app init_R] in HR. exists [(x, y)]. split; [split; [exact HR|split]|].
  - constructor; [intros []|constructor].
  - intros s [<-|[]]. split; assumption.
  - exists x, y. auto.
Qed.

(* \A \E *)
Lemma forall_exist_loop xs : forall st l st',
  init_R st l ->
  m_for (c_forall_exist_body nx ny pick a keys0 (mkv (fun r => EI (vx r)))
           (mkv (fun r => SI (vx r) (vy r)))) (map (single (U Env)) xs) st = Some st' ->
  (forall x, In x xs -> x < nx) ->
  exists ss, init_R st' (l ++ ss) /\ (NoDup l -> NoDup (l ++ ss)) /\ map fst ss = xs /\
    forall s, In s ss -> snd s < ny /\ SI (fst s) (snd s) = true.
Proof.
  induction xs as [|x xs IH]; intros st l st' HR; cbn [map m_for].
  - intros H _. inversion H. subst. exists []. rewrite app_nil_r.
    split; [exact HR|]. split; [auto|]. split; [reflexivity|intros s []].
  - destruct (c_forall_exist_body _ _ _ _ _ _ _ st (single (U Env) x)) as [st1|] eqn:Eb;
      [|discriminate].
    intros Hfor Hxs. destruct st as [[[g um] vis] q]. cbn [init_R] in HR.
    unfold c_forall_exist_body in Eb. rewrite a_vl_sys in Eb. cbn [m_bind] in Eb.
    assert (Hx : x < nx) by (apply Hxs; left; reflexivity).
    assert (Hu : blet nx ny (single (U Env) x) (mkv (fun r => SI (vx r) (vy r))) =
                 mkv (fun r => SI x (vy r))).
    { unfold blet, single. apply mkv_ext. intros r Hr. rewrite evv_mkv; [reflexivity|].
      destruct Hr as [? [? [? ?]]]. unfold EnumArenaProofs.inr. cbn. lia. }
    rewrite Hu in Eb. apply m_bind_some in Eb. destruct Eb as [d [Hp Eb]].
    destruct (pick_y (SI x) d Hp) as [j [-> [Hj Hs]]].
    cbn [single dict_update fold_left dict_set fst snd var_eqb player_eqb] in Eb.
    apply m_assert_some in Eb. destruct Eb as [_ Eb].
    destruct (add_tail um g q vis l _ (x, j) st1 HR (or_introl eq_refl) Eb) as [Hn HR1].
    destruct (IH st1 (l ++ [(x, j)]) st' HR1 Hfor (fun y Hy => Hxs y (or_intror Hy)))
      as [ss [HR' [Hnd [Hm Hss]]]].
    exists ((x, j) :: ss). rewrite <- app_assoc in HR', Hnd. cbn [app] in HR', Hnd.
    split; [exact HR'|]. split; [intros Hl; apply Hnd, NoDup_app_snoc; assumption|].
    split; [cbn [map fst]; rewrite Hm; reflexivity|].
    intros s [<-|Hs']; [cbn [fst snd]; auto|apply Hss, Hs'].
Qed.

Lemma pick_iter_x (q : nat -> bool) :
  exists xs, pick_iter (mkv (fun r => q (vx r))) [U Env] = map (single (U Env)) xs /\
             NoDup xs /\ forall i, In i xs <-> i < nx /\ q i = true.
Proof.
  apply (pick_iter_single (mkv (fun r => q (vx r))) (U Env) q).
  - intros w Hw r i Hr Hi. rewrite !evv_mkv by (auto using inr_upd).
    destruct w as [[|]|[|]]; cbn; congruence.
  - intros r Hr. rewrite evv_mkv by exact Hr. reflexivity.
Qed.

Lemma forall_exist_init_sim q vis g um :
  c_forall_exist_init nx ny pick pick_iter nx_empty a [] keys0 = Some ((q, vis), g, um) ->
  exists l, init_out q vis g um l /\ pattern_AE l.
Proof.
  unfold c_forall_exist_init. rewrite a_init_env, a_init_sys, a_vl_env, a_vl_sys. cbn [m_bind].
  intros H. apply m_assert_some in H. destruct H as [_ H].
  apply m_assert_some in H. destruct H as [_ H].
  apply m_bind_some in H. destruct H as [[[[g1 um1] vis1] q1] [Hfor H]].
  inversion H. subst q1 vis1 g1 um1. clear H.
  assert (Hex : bexist nx ny [U Sys] (mkv (fun r => EI (vx r))) = mkv (fun r => EI (vx r))).
  { cbn [bexist fold_right]. unfold bexist1. apply mkv_ext. intros r Hr. cbn [rng].
    destruct (EI (vx r)) eqn:Ee.
    - apply existsb_exists. exists 0. split; [apply in_seq; lia|].
      rewrite evv_mkv by (apply inr_upd; [exact Hr|exact ny_pos]).
      destruct r; cbn in *. exact Ee.
    - destruct (existsb _ _) eqn:Ex; [|reflexivity]. apply existsb_exists in Ex.
      destruct Ex as [i [Hi Hev]]. apply in_seq in Hi.
      rewrite evv_mkv in Hev by (apply inr_upd; [exact Hr|cbn; lia]).
      destruct r; cbn in *. congruence. }
  rewrite Hex in Hfor.
  destruct (pick_iter_x EI) as [xs [Hl [Hnd Hin]]]. rewrite Hl in Hfor.
  destruct (forall_exist_loop xs _ [] _ init_R_empty Hfor (fun x Hx => proj1 (proj1 (Hin x) Hx)))
    as [ss [HR [Hn [Hm Hss]]]].
  cbn [app init_R] in HR, Hn. exists ss.
  assert (Hnds : NoDup ss) by (apply Hn; constructor).
  split; [split; [exact HR|split; [exact Hnds|]]|].
  - intros s Hs. destruct (Hss s Hs) as [Hy _]. split; [|exact Hy].
    apply (Hin (fst s)). rewrite <- Hm. apply in_map, Hs.
  - split; [rewrite Hm; exact Hnd|]. split; [rewrite Hm; exact Hin|].
    intros s Hs. destruct (Hss s Hs) as [Hy HS]. split; [exact Hy|]. split; [|exact HS].
    apply (Hin (fst s)). rewrite <- Hm. apply in_map, Hs.
Qed.

(* \E \A *)
Lemma exist_forall_loop y xs : forall st l st',
  init_R st l ->
  m_for (c_exist_forall_body nx ny a keys0 (mkv (fun r => EI (vx r))) (single (U Sys) y))
    (map (single (U Env)) xs) st = Some st' ->
  init_R st' (l ++ map (fun x => (x, y)) xs) /\
  (NoDup l -> NoDup (l ++ map (fun x => (x, y)) xs)).
Proof.
  induction xs as [|x xs IH]; intros st l st' HR; cbn [map m_for].
  - intros H. inversion H. subst. rewrite app_nil_r. auto.
  - destruct (c_exist_forall_body _ _ _ _ _ _ st (single (U Env) x)) as [st1|] eqn:Eb;
      [|discriminate].
    intros Hfor. destruct st as [[[g um] vis] q]. cbn [init_R] in HR.
    unfold c_exist_forall_body in Eb.
    cbn [single dict_update fold_left dict_set fst snd var_eqb player_eqb] in Eb.
    apply m_assert_some in Eb. destruct Eb as [_ Eb].
    destruct (add_tail um g q vis l _ (x, y) st1 HR (or_introl eq_refl) Eb) as [Hn HR1].
    destruct (IH st1 (l ++ [(x, y)]) st' HR1 Hfor) as [HR' Hnd].
    rewrite <- app_assoc in HR', Hnd. cbn [app] in HR', Hnd.
    split; [exact HR'|]. intros Hl. apply Hnd, NoDup_app_snoc; assumption.
Qed.

Lemma exist_forall_init_sim q vis g um :
  c_exist_forall_init nx ny pick pick_iter nx_empty a [] keys0 = Some ((q, vis), g, um) ->
  exists l, init_out q vis g um l /\ pattern_EA l.
Proof.
  unfold c_exist_forall_init. rewrite a_init_env, a_init_sys, a_vl_env, a_vl_sys. cbn [m_bind].
  intros H. apply m_assert_some in H. destruct H as [_ H].
  apply m_assert_some in H. destruct H as [_ H].
  assert (Hall : bforall nx ny [U Env] (mkv (fun r => SI (vx r) (vy r))) =
                 mkv (fun r => forallb (fun x => SI x (vy r)) (seq 0 nx))).
  { cbn [bforall fold_right]. unfold bforall1. apply mkv_ext. intros r Hr. cbn [rng].
    apply forallb_ext_in. intros i Hi. apply in_seq in Hi.
    rewrite evv_mkv by (apply inr_upd; [exact Hr|cbn; lia]). destruct r; reflexivity. }
  rewrite Hall in H. apply m_assert_some in H. destruct H as [_ H].
  apply m_bind_some in H. destruct H as [d [Hp H]].
  destruct (pick_y (fun y => forallb (fun x => SI x y) (seq 0 nx)) d Hp) as [y [-> [Hy Hs]]].
  apply m_bind_some in H. destruct H as [[[[g1 um1] vis1] q1] [Hfor H]].
  inversion H. subst q1 vis1 g1 um1. clear H.
  destruct (pick_iter_x EI) as [xs [Hl [Hnd Hin]]]. rewrite Hl in Hfor.
  destruct (exist_forall_loop y xs _ [] _ init_R_empty Hfor) as [HR Hn].
  cbn [app init_R] in HR, Hn. exists (map (fun x => (x, y)) xs).
  assert (Hfst : map fst (map (fun x => (x, y)) xs) = xs)
    by (rewrite map_map; cbn [fst]; apply map_id).
  split; [split; [exact HR|split; [apply Hn; constructor|]]|].
  - intros s Hs0. apply in_map_iff in Hs0. destruct Hs0 as [x [<- Hx]]. split; cbn [fst snd];
      [apply Hin, Hx|exact Hy].
  - exists y. split; [exact Hy|]. split.
    + intros x Hx. rewrite forallb_forall in Hs. apply Hs, in_seq. lia.
    + split; [intros s Hs'; apply in_map_iff in Hs'; destruct Hs' as [x [<- _]]; reflexivity|].
      rewrite Hfst. auto.
Qed.

Definition init_pattern (qinit : string) (l : list state) : Prop :=
  if String.eqb qinit "\A \E" then pattern_AE l
  else if String.eqb qinit "\A \A" then pattern_AA l
  else if String.eqb qinit "\E \E" then pattern_EE l
  else if String.eqb qinit "\E \A" then pattern_EA l
  else False.

Lemma init_search_sim qinit q vis g um :
  c_init_search nx ny pick pick_iter nx_empty a [] keys0 qinit = Some ((q, vis), g, um) ->
  exists l, init_out q vis g um l /\ init_pattern qinit l.
Proof.
  unfold c_init_search, init_pattern.
  destruct (String.eqb qinit "\A \E");
    [|destruct (String.eqb qinit "\A \A");
      [|destruct (String.eqb qinit "\E \E");
        [|destruct (String.eqb qinit "\E \A"); [|discriminate]]]];
    intros H; apply m_bind_some in H; destruct H as [[[[q1 vis1] g1] um1] [Hi H]];
    inversion H; subst q1 vis1 g1 um1.
  - apply forall_exist_init_sim, Hi.
  - apply forall_init_sim, Hi.
  - apply exist_init_sim, Hi.
  - apply exist_forall_init_sim, Hi.
Qed.

(* the function up to its loops, with the bookkeeping values computed *)
Lemma action_to_steps_unfold fuel qinit :
  c_action_to_steps_ nx ny pick pick_iter fuel a qinit =
  m_assert (negb (bdd_eqb (mkv (fun r => S (vx r) (vy r) (vxp r) (vyp r))) (bfalse nx ny))) (
  m_bind (c_init_search nx ny pick pick_iter nx_empty a [] keys0 qinit) (fun '(t7, v_g, v_umap) =>
  let '(v_queue, v_visited) := t7 in
  m_bind (m_while fuel c_while_cond
            (c_while_body nx ny pick pick_iter a keys0 keys0 unprime0 primed0)
            (v_umap, nx_set_initial v_g v_queue, v_queue, v_visited))
    (fun '(v_umap, v_g, v_queue, v_visited) => Some v_g))).
Proof.
  unfold c_action_to_steps_, c_primed_vars_per_quantifier, dict_has.
  rewrite a_act_sys, a_vl_env, a_vl_sys. reflexivity.
Qed.

Lemma set_initial_R um g q vis mg l :
  R um g q vis mg -> R um (nx_set_initial g l) q vis mg.
Proof. intros [H1 H2 H3 H4 H5 H6]. constructor; assumption. Qed.

Lemma graph_of_R um g q vis mg :
  R um g q vis mg -> nodes (graph_of g) = nodes mg /\ edges (graph_of g) = edges mg.
Proof.
  intros HR. unfold graph_of. cbn [nodes edges]. split.
  - pose proof (r_nodes _ _ _ _ _ HR) as Hf. rewrite <- (map_map snd state_of).
    induction Hf as [|d s ds ss Hd _ IH]; [reflexivity|]. cbn [map]. rewrite IH. f_equal.
    destruct s as [x y]. destruct Hd as [-> | ->]; reflexivity.
  - rewrite (r_edges _ _ _ _ _ HR). apply rev_involutive.
Qed.

Lemma initg_inv l :
  NoDup l -> (forall s, In s l -> in_range nx ny s) -> Inv (initg l).
Proof.
  intros Hl Hr. apply init_inv; [exact Hl|exact Hr| |].
  - apply NoDup_rev, seq_NoDup.
  - intros u. rewrite <- in_rev, in_seq. lia.
Qed.

Lemma env_body_ini u sy um g q vis d um' g' q' vis' :
  c_env_body nx ny pick a keys0 unprime0 u sy (um, g, q, vis) d = Some (um', g', q', vis') ->
  g_initial g' = g_initial g.
Proof.
  unfold c_env_body. intros H. crunch H.
  - inversion H. reflexivity.
  - match goal with Ha : c_add_new_node _ _ _ _ _ = Some _ |- _ =>
      apply add_new_node_ini in Ha; inversion H; subst; exact Ha end.
Qed.

Lemma while_body_ini st st' :
  c_while_body nx ny pick pick_iter a keys0 keys0 unprime0 primed0 st = Some st' ->
  g_initial (snd (fst (fst st'))) = g_initial (snd (fst (fst st))).
Proof.
  destruct st as [[[um g] q] vis]. unfold c_while_body. intros H. crunch H.
  inversion H. subst st'. clear H. cbn [fst snd].
  match goal with Hf : m_for _ _ _ = Some _ |- _ =>
    apply (m_for_pres _ (fun st : work_state => g_initial (snd (fst (fst st)))) _) in Hf;
      [exact Hf|] end.
  intros [[[um1 g1] q1] vis1] d [[[um2 g2] q2] vis2] Hb. cbn [fst snd].
  apply (env_body_ini _ _ _ _ _ _ _ _ _ _ _ Hb).
Qed.

(* ---- the main theorems about the code-level model ---------------------------- *)
(* whatever graph _action_to_steps returns: it passes the verified checker of
   C12's statement, its first nodes are the initial nodes, they are the ones
   recorded in g.initial_nodes and follow the requested qinit pattern *)
Theorem code_enumeration_sound fuel qinit gf :
  c_action_to_steps_ nx ny pick pick_iter fuel a qinit = Some gf ->
  check_graph nx ny E S (graph_of gf) = true /\
  exists l extra, nodes (graph_of gf) = l ++ extra /\
    g_initial gf = Some (seq 0 (List.length l)) /\
    NoDup l /\ (forall s, In s l -> in_range nx ny s) /\ init_pattern qinit l.
Proof.
  rewrite action_to_steps_unfold. intros H. apply m_assert_some in H. destruct H as [_ H].
  apply m_bind_some in H. destruct H as [[[[q vis] g] um] [Hi H]].
  destruct (init_search_sim qinit q vis g um Hi) as [l [[HR [Hnd Hrange]] Hpat]].
  apply m_bind_some in H. destruct H as [[[[um' g'] q'] vis'] [Hw H]]. inversion H. subst g'. clear H.
  pose proof (initg_inv l Hnd Hrange) as Hinv.
  destruct (while_sim fuel (um, nx_set_initial g q, q, vis) (initg l) _
              (set_initial_R _ _ _ _ _ q HR) Hinv Hw) as [mg' [Hrun HR']].
  cbn [work_R] in HR'.
  destruct (graph_of_R _ _ _ _ _ HR') as [Hn He].
  split.
  - pose proof (run_o_check nx ny E S mpick mpick_sound enum enum_nodup enum_range enum_complete
                  fuel _ _ Hinv Hrun) as Hc.
    unfold check_graph in *. rewrite Hn, He. exact Hc.
  - destruct (run_o_prefix nx ny E S mpick mpick_sound enum enum_nodup enum_range enum_complete
                fuel _ _ Hinv Hrun) as [extra Hex].
    exists l, extra. split; [rewrite Hn; exact Hex|]. split; [|auto].
    apply (m_while_pres _ _ (fun st : work_state => g_initial (snd (fst (fst st))))) in Hw.
    + cbn [fst snd nx_set_initial g_initial] in Hw. rewrite Hw.
      rewrite (r_queue _ _ _ _ _ HR). cbn [initg queue]. rewrite rev_involutive. reflexivity.
    + intros st st'. apply while_body_ini.
Qed.

(* termination: once the fuel covers the number of valuations it is never
   what stops the enumeration *)
Lemma while_fuel fuel : forall k st mg,
  work_R st mg -> Inv mg -> mu nx ny mg <= fuel ->
  m_while (fuel + k) c_while_cond
    (c_while_body nx ny pick pick_iter a keys0 keys0 unprime0 primed0) st =
  m_while fuel c_while_cond
    (c_while_body nx ny pick pick_iter a keys0 keys0 unprime0 primed0) st.
Proof.
  induction fuel as [|f IH]; intros k [[[um g] q] vis] mg HR Hi Hm; cbn [work_R] in HR;
    assert (Hnil : is_nil q = is_nil (queue mg))
      by (rewrite (r_queue _ _ _ _ _ HR); apply is_nil_rev).
  - destruct k; cbn [Nat.add m_while]; unfold c_while_cond; rewrite Hnil;
      destruct (queue mg) eqn:Eq; cbn [is_nil negb]; try reflexivity.
    exfalso. unfold mu in Hm. rewrite Eq in Hm. cbn [List.length] in Hm. lia.
  - cbn [Nat.add m_while]. unfold c_while_cond. rewrite Hnil.
    destruct (queue mg) eqn:Eq; cbn [is_nil negb]; [reflexivity|].
    destruct (c_while_body _ _ _ _ _ _ _ _ _ _) as [[[[um1 g1] q1] vis1]|] eqn:Eb; [|reflexivity].
    destruct (while_body_sim _ _ _ _ _ _ _ _ _ HR Hi Eb) as [mg1 [Hst HR1]].
    apply (IH k (um1, g1, q1, vis1) mg1 HR1).
    + apply (step_o_inv nx ny E S mpick mpick_sound enum enum_nodup enum_range enum_complete
               mg mg1 Hi Hst).
    + assert (Hne : queue mg <> []) by (rewrite Eq; discriminate).
      pose proof (step_o_mu nx ny E S mpick mpick_sound enum enum_nodup enum_range
                    mg mg1 Hi Hne Hst). lia.
Qed.

Theorem code_fuel_never_exhausted fuel k qinit :
  nx * ny <= fuel ->
  c_action_to_steps_ nx ny pick pick_iter (fuel + k) a qinit =
  c_action_to_steps_ nx ny pick pick_iter fuel a qinit.
Proof.
  intros Hf. rewrite !action_to_steps_unfold.
  destruct (negb _); cbn [m_assert]; [|reflexivity].
  destruct (c_init_search nx ny pick pick_iter nx_empty a [] keys0 qinit)
    as [[[[q vis] g] um]|] eqn:Hi; cbn [m_bind]; [|reflexivity].
  destruct (init_search_sim qinit q vis g um Hi) as [l [[HR [Hnd Hrange]] _]].
  pose proof (initg_inv l Hnd Hrange) as Hinv.
  rewrite (while_fuel fuel k (um, nx_set_initial g q, q, vis) (initg l)
             (set_initial_R _ _ _ _ _ q HR) Hinv); [reflexivity|].
  pose proof (nodes_bound nx ny E S _ (proj1 Hinv)) as Hb.
  unfold mu, initg in *. cbn [nodes queue] in *. rewrite rev_length, seq_length. lia.
Qed.

End Worklist.

(* ---- action_to_steps: the automaton re-keyed by "env" / "sys" -------------- *)
Lemma list_ascii_app k1 k2 :
  list_ascii_of_string (k1 ++ k2) = list_ascii_of_string k1 ++ list_ascii_of_string k2.
Proof. induction k1 as [|c k1 IH]; cbn; [reflexivity|]. rewrite IH. reflexivity. Qed.

Lemma key_isprimed_app k : key_isprimed (k ++ "'") = true.
Proof.
  unfold key_isprimed. rewrite list_ascii_app, rev_app_distr. reflexivity.
Qed.

Lemma prime_loop_keeps k l :
  key_isprimed k = false -> forall acc v,
  m_for (fun (acc : list (string * list var)) (kv : string * list var) =>
           if key_isprimed (fst kv) then Some acc
           else m_bind (m_map stx_prime (snd kv)) (fun pv =>
                Some (dict_set String.eqb (fst kv ++ "'")%string pv acc))) l acc = Some v ->
  dict_get String.eqb k v = dict_get String.eqb k acc.
Proof.
  intros Hk. induction l as [|[k1 vs] l IH]; intros acc v; cbn [m_for].
  - intros H0. inversion H0. reflexivity.
  - cbn [fst snd]. destruct (key_isprimed k1); [apply IH|].
    destruct (m_map stx_prime vs) as [pv|]; cbn [m_bind]; [|discriminate].
    intros H0. rewrite (IH _ _ H0). apply (dict_get_set_neq String.eqb String.eqb_eq).
    intros He. subst k. rewrite key_isprimed_app in Hk. discriminate.
Qed.

Lemma prime_varlists_keeps a1 a2 k :
  key_isprimed k = false -> prime_varlists a1 = Some a2 ->
  a_init a2 = a_init a1 /\ a_action a2 = a_action a1 /\
  dict_get String.eqb k (a_varlist a2) = dict_get String.eqb k (a_varlist a1).
Proof.
  intros Hk. unfold prime_varlists. intros H. apply m_bind_some in H.
  destruct H as [v [Hfor H]]. inversion H. subst a2. cbn [set_varlist a_init a_action a_varlist].
  split; [reflexivity|]. split; [reflexivity|]. apply (prime_loop_keeps k _ Hk _ _ Hfor).
Qed.

Lemma rekey_get {V} (d : list (string * V)) v1 v2 :
  dict_get String.eqb "env"%string
    (dict_update String.eqb d [("env"%string, v1); ("sys"%string, v2)]) = Some v1 /\
  dict_get String.eqb "sys"%string
    (dict_update String.eqb d [("env"%string, v1); ("sys"%string, v2)]) = Some v2.
Proof.
  cbn [dict_update fold_left fst snd]. split.
  - rewrite (dict_get_set_neq String.eqb String.eqb_eq) by discriminate.
    apply (dict_get_set_eq String.eqb String.eqb_eq).
  - apply (dict_get_set_eq String.eqb String.eqb_eq).
Qed.

Section Rekey.
Variable E : nat -> nat -> nat -> bool.
Variable S : nat -> nat -> nat -> nat -> bool.
Variable EI : nat -> bool.
Variable SI : nat -> nat -> bool.
Variable a0 : automaton.
Variables env sys : string.
Hypothesis vl_env : dict_get String.eqb env (a_varlist a0) = Some [U Env].
Hypothesis vl_sys : dict_get String.eqb sys (a_varlist a0) = Some [U Sys].
Hypothesis act_env : dict_get String.eqb env (a_action a0) =
  Some (mkv (fun r => E (vx r) (vy r) (vxp r))).
Hypothesis act_sys : dict_get String.eqb sys (a_action a0) =
  Some (mkv (fun r => S (vx r) (vy r) (vxp r) (vyp r))).
Hypothesis init_env : dict_get String.eqb env (a_init a0) = Some (mkv (fun r => EI (vx r))).
Hypothesis init_sys : dict_get String.eqb sys (a_init a0) =
  Some (mkv (fun r => SI (vx r) (vy r))).

(* the automaton _action_to_steps receives *)
Definition rekeyed : automaton :=
  set_action
    (set_init
       (set_varlist (set_moore a0 (a_moore a0))
          (dict_update String.eqb (a_varlist (set_moore a0 (a_moore a0)))
             [("env"%string, [U Env]); ("sys"%string, [U Sys])]))
       (dict_update String.eqb (a_init a0)
          [("env"%string, mkv (fun r => EI (vx r)));
           ("sys"%string, mkv (fun r => SI (vx r) (vy r)))]))
    (dict_update String.eqb (a_action a0)
       [("env"%string, mkv (fun r => E (vx r) (vy r) (vxp r)));
        ("sys"%string, mkv (fun r => S (vx r) (vy r) (vxp r) (vyp r)))]).

Lemma rekey_unfold fuel qinit :
  c_action_to_steps nx ny pick pick_iter fuel a0 env sys qinit =
  m_bind (prime_varlists rekeyed) (fun a2 =>
  m_bind (c_action_to_steps_ nx ny pick pick_iter fuel a2 qinit) (fun t8 => Some t8)).
Proof.
  unfold c_action_to_steps. rewrite vl_env, vl_sys, act_env, act_sys, init_env, init_sys.
  reflexivity.
Qed.

Lemma rekeyed_ok a2 : prime_varlists rekeyed = Some a2 ->
  dict_get String.eqb "env"%string (a_varlist a2) = Some [U Env] /\
  dict_get String.eqb "sys"%string (a_varlist a2) = Some [U Sys] /\
  dict_get String.eqb "env"%string (a_action a2) = Some (mkv (fun r => E (vx r) (vy r) (vxp r))) /\
  dict_get String.eqb "sys"%string (a_action a2) =
    Some (mkv (fun r => S (vx r) (vy r) (vxp r) (vyp r))) /\
  dict_get String.eqb "env"%string (a_init a2) = Some (mkv (fun r => EI (vx r))) /\
  dict_get String.eqb "sys"%string (a_init a2) = Some (mkv (fun r => SI (vx r) (vy r))).
Proof.
  intros Ep.
  destruct (prime_varlists_keeps _ a2 "env" eq_refl Ep) as [Hi [Ha Hve]].
  destruct (prime_varlists_keeps _ a2 "sys" eq_refl Ep) as [_ [_ Hvs]].
  rewrite Hve, Hvs, Hi, Ha. unfold rekeyed.
  cbn [set_action set_init set_varlist set_moore a_varlist a_init a_action].
  repeat split; apply rekey_get.
Qed.

Theorem code_action_to_steps_sound fuel qinit gf :
  c_action_to_steps nx ny pick pick_iter fuel a0 env sys qinit = Some gf ->
  check_graph nx ny E S (graph_of gf) = true /\
  exists l extra, nodes (graph_of gf) = l ++ extra /\
    g_initial gf = Some (seq 0 (List.length l)) /\
    NoDup l /\ (forall s, In s l -> in_range nx ny s) /\ init_pattern EI SI qinit l.
Proof.
  rewrite rekey_unfold. intros H. apply m_bind_some in H. destruct H as [a2 [Ep H]].
  apply m_bind_some in H. destruct H as [g [Hg H]]. inversion H. subst g.
  destruct (rekeyed_ok a2 Ep) as [H1 [H2 [H3 [H4 [H5 H6]]]]].
  apply (code_enumeration_sound E S a2 H1 H2 H3 H4 EI SI H5 H6 fuel qinit gf Hg).
Qed.

Theorem code_action_to_steps_fuel fuel k qinit :
  nx * ny <= fuel ->
  c_action_to_steps nx ny pick pick_iter (fuel + k) a0 env sys qinit =
  c_action_to_steps nx ny pick pick_iter fuel a0 env sys qinit.
Proof.
  intros Hf. rewrite !rekey_unfold.
  destruct (prime_varlists rekeyed) as [a2|] eqn:Ep; cbn [m_bind]; [|reflexivity].
  destruct (rekeyed_ok a2 Ep) as [H1 [H2 [H3 [H4 [H5 H6]]]]].
  rewrite (code_fuel_never_exhausted E S a2 H1 H2 H3 H4 EI SI H5 H6 fuel k qinit Hf).
  reflexivity.
Qed.

End Rekey.

End Sim.
