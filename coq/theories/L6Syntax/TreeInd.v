(* L6 Syntax — induction principle for the nested inductive `tree`. *)
From Coq Require Import List String.
From Omega Require Import L6Syntax.Tokens.
Import ListNotations.

Section TreeInd.
Variable P : tree -> Prop.
Hypothesis HT : forall k v, P (Term k v).
Hypothesis HU : forall op x, P x -> P (Un op x).
Hypothesis HB : forall c op l r, P l -> P r -> P (Bin c op l r).
Hypothesis HO : forall op args, Forall P args -> P (Opr op args).
Hypothesis HL : forall xs, Forall P xs -> P (Lst xs).

Fixpoint tree_ind' (t : tree) : P t :=
  match t with
  | Term k v => HT k v
  | Un op x => HU op x (tree_ind' x)
  | Bin c op l r => HB c op l r (tree_ind' l) (tree_ind' r)
  | Opr op args =>
      HO op args
        ((fix go (l : list tree) : Forall P l :=
            match l with
            | [] => Forall_nil P
            | x :: r => Forall_cons x (tree_ind' x) (go r)
            end) args)
  | Lst xs =>
      HL xs
        ((fix go (l : list tree) : Forall P l :=
            match l with
            | [] => Forall_nil P
            | x :: r => Forall_cons x (tree_ind' x) (go r)
            end) xs)
  end.
End TreeInd.
