(* L4 / StreettPlays: every play consistent with the strategy of
   StreettStrategy.v that starts in the Streett(1) region is won by the
   component: it keeps its action for as long as the mode obliges it to and,
   if the environment keeps its action forever, some persistence predicate
   holds from some point on or every recurrence predicate holds infinitely
   often.  (Soundness of the Streett(1) fixpoint in game terms.)

   Uses excluded middle through L4/LiveLemma.v (Classical_Prop.classic). *)
From Coq Require Import List Bool Arith Lia.
Import ListNotations.
From Omega Require Import L4.Arena L4.ArenaFacts L4.Kleene L4.AlgOrder L4.GameSpec L4.Mu
  L4.GR1Spec L4.Ranks L4.Plays L4.RabinStrategy L4.StreettStrategy L4.LiveLemma.

Section StreettPlays.
Variables nc nx ny : nat.
Variables moore plus_one : bool.
Variables E S : bdd.
Variables holds goals : list bdd.
Variable c : nat.
Hypothesis Hc : c < nc.
Hypothesis HnR : 0 < length goals.

Local Notation Z := (streett_spec nc nx ny moore plus_one E S holds goals).
Local Notation stv := (stv c).
Local Notation strategy := (strategy nc nx ny moore plus_one E S holds goals c).
Local Notation memof := (memof nc nx ny moore plus_one E S holds goals c).
Local Notation upd := (upd nc nx ny moore plus_one E S holds goals c).
Local Notation target := (target nc nx ny moore plus_one E S holds goals c).
Local Notation switch := (switch nc nx ny moore plus_one E S holds goals c).
Local Notation yrank := (yrank nc nx ny moore plus_one E S holds goals c).
Local Notation kfirst := (kfirst nc nx ny moore plus_one E S holds goals c).
Local Notation mv := (mv nx ny moore plus_one E S c).
Local Notation Inv := (Inv nc nx ny moore plus_one E S holds goals c).
Local Notation sinr := (sinr nx ny).
Local Notation Pk := (Pk holds).
Local Notation Rj := (Rj goals).
Local Notation nP := (nP holds).
Local Notation nR := (nR goals).
Local Notation Eat := (Eat c E).
Local Notation Sat := (Sat c S).

Lemma strategy_valid : 0 < ny -> cvalid ny moore strategy.
Proof.
  intros Hny. split.
  - intros h x'. unfold StreettStrategy.strategy, clampy.
    destruct (_ <? ny) eqn:El; [apply Nat.ltb_lt, El|exact Hny].
  - intros Hm h x1 x2. unfold StreettStrategy.strategy. f_equal. apply mv_moore, Hm.
Qed.

Section OnePlay.
Variable p : play.
Hypothesis Hr : inrange nx ny p.
Hypothesis Hcons : cconsistent strategy p.
Hypothesis H0 : Z (stv (p 0)) = true.

Definition jseq (i : nat) := memof (hist p i).

Lemma jseq_0 : jseq 0 = 0.
Proof. reflexivity. Qed.

Lemma hist_cons i : exists t, hist p i = p i :: t.
Proof. destruct i; cbn [hist]; eexists; reflexivity. Qed.

Lemma jseq_S i : jseq (Datatypes.S i) = upd (jseq i) (p i).
Proof.
  unfold jseq. cbn [hist StreettStrategy.memof].
  destruct (hist_cons i) as [t Ht]. rewrite Ht. reflexivity.
Qed.

Lemma psinr i : sinr (p i).
Proof. apply Hr. Qed.

Lemma play_move n :
  Inv (jseq n) (p n) ->
  p (Datatypes.S n) =
    (fst (p (Datatypes.S n)), mv (target (jseq n) (p n)) (p n) (fst (p (Datatypes.S n)))).
Proof.
  intros HI. rewrite (surjective_pairing (p (Datatypes.S n))) at 1. f_equal.
  rewrite (Hcons n). unfold StreettStrategy.strategy. rewrite hist_hd. fold (jseq n).
  destruct (move_spec nc nx ny moore plus_one E S holds goals c Hc HnR (jseq n) (p n)
              (fst (p (Datatypes.S n))) HI (psinr n) (proj1 (psinr (Datatypes.S n)))) as [Hy _].
  unfold clampy. apply Nat.ltb_lt in Hy. rewrite Hy. reflexivity.
Qed.

Lemma step_facts n :
  Inv (jseq n) (p n) ->
  (plus_one = true -> Sat p n) /\
  (Eat p n -> Sat p n /\ target (jseq n) (p n) (stv (p (Datatypes.S n))) = true).
Proof.
  intros HI.
  destruct (move_spec nc nx ny moore plus_one E S holds goals c Hc HnR (jseq n) (p n)
              (fst (p (Datatypes.S n))) HI (psinr n) (proj1 (psinr (Datatypes.S n))))
    as [_ [H1 H2]].
  rewrite <- (play_move n HI) in H1, H2. split; [exact H1|exact H2].
Qed.

Lemma inv_all n : (forall i, i < n -> Eat p i) -> Inv (jseq n) (p n).
Proof.
  induction n as [|n IH]; intros He.
  - rewrite jseq_0. split; [exact HnR|exact H0].
  - assert (HI : Inv (jseq n) (p n)) by (apply IH; intros i Hi; apply He; lia).
    destruct (step_facts n HI) as [_ H2]. destruct (H2 (He n ltac:(lia))) as [_ Ht].
    rewrite jseq_S.
    apply (inv_next nc nx ny moore plus_one E S holds goals c Hc HnR (jseq n) (p n)
             (p (Datatypes.S n)) HI (psinr n) (psinr (Datatypes.S n)) Ht).
Qed.

Theorem play_safe : safe_comp c E S plus_one p.
Proof.
  intros n He Hns.
  destruct (step_facts n (inv_all n He)) as [H1 H2].
  destruct plus_one; [apply H1; reflexivity|apply H2, Hns; reflexivity].
Qed.

Section Live.
Hypothesis HE : forall i, Eat p i.

Lemma inv_i i : Inv (jseq i) (p i).
Proof. apply inv_all. intros t _. apply HE. Qed.

Lemma next_facts i :
  (switch (jseq i) (p i) = true /\ Rj (jseq i) (stv (p i)) = true /\
   jseq (Datatypes.S i) = (jseq i + 1) mod nR) \/
  (switch (jseq i) (p i) = false /\ jseq (Datatypes.S i) = jseq i /\
   yrank (jseq i) (p (Datatypes.S i)) < yrank (jseq i) (p i)) \/
  (switch (jseq i) (p i) = false /\ jseq (Datatypes.S i) = jseq i /\
   yrank (jseq i) (p (Datatypes.S i)) <= yrank (jseq i) (p i) /\
   Pk (kfirst (jseq i) (yrank (jseq i) (p i)) (p i)) (stv (p i)) = true /\
   (yrank (jseq i) (p (Datatypes.S i)) = yrank (jseq i) (p i) ->
    kfirst (jseq i) (yrank (jseq i) (p i)) (p (Datatypes.S i)) <=
    kfirst (jseq i) (yrank (jseq i) (p i)) (p i))).
Proof.
  pose proof (inv_i i) as HI.
  assert (Ht : target (jseq i) (p i) (stv (p (Datatypes.S i))) = true)
    by (apply step_facts; [exact HI|apply HE]).
  pose proof (inv_next nc nx ny moore plus_one E S holds goals c Hc HnR (jseq i) (p i)
                (p (Datatypes.S i)) HI (psinr i) (psinr (Datatypes.S i)) Ht) as H.
  cbv zeta in H. rewrite <- jseq_S in H. destruct H as [_ H]. exact H.
Qed.

Theorem play_live : persist c holds p \/ recur c goals p.
Proof.
  assert (HjR : forall i, jseq i < nR) by (intros i; apply inv_i).
  pose (Sw := fun i => switch (jseq i) (p i) = true).
  pose (Ds := fun i => switch (jseq i) (p i) = false /\
                       yrank (jseq i) (p (Datatypes.S i)) < yrank (jseq i) (p i)).
  pose (St := fun i => switch (jseq i) (p i) = false /\
                       yrank (jseq i) (p (Datatypes.S i)) <= yrank (jseq i) (p i)).
  pose (mm := fun j i => yrank j (p i)).
  destruct (live_dichotomy nR HnR jseq HjR Sw Ds St) with (m := mm) as [Hl|Hrr].
  - intros i. destruct (next_facts i) as [[H _]|[[H1 [_ H2]]|[H1 [_ [H2 _]]]]].
    + left. exact H.
    + right. left. split; assumption.
    + right. right. split; assumption.
  - intros i Hsw. destruct (next_facts i) as [[_ [_ H]]|[[H _]|[H _]]];
      [exact H|unfold Sw in Hsw; congruence|unfold Sw in Hsw; congruence].
  - intros i [Hd _]. destruct (next_facts i) as [[H _]|[[_ [H _]]|[_ [H _]]]];
      [congruence|exact H|exact H].
  - intros i [Hd _]. destruct (next_facts i) as [[H _]|[[_ [H _]]|[_ [H _]]]];
      [congruence|exact H|exact H].
  - intros i [_ Hd]. exact Hd.
  - intros i [_ Hd]. exact Hd.
  - (* finitely many switches: eventually stays at constant goal and rank *)
    left. destruct Hl as [N [N1 [HN Hst]]].
    set (j := jseq N) in *. set (r := mm j N1) in *.
    assert (Hjr : forall i, N1 <= i -> jseq i = j /\ yrank j (p i) = r).
    { intros i Hi. destruct (Hst i Hi) as [_ [H1 H2]]. split; [exact H1|exact H2]. }
    pose (kk := fun i => kfirst j r (p i)).
    assert (Hstay : forall i, N1 <= i ->
              Pk (kk i) (stv (p i)) = true /\ kk (Datatypes.S i) <= kk i).
    { intros i Hi. destruct (Hjr i Hi) as [Hj1 Hr1].
      destruct (Hjr (Datatypes.S i) ltac:(lia)) as [_ Hr2].
      destruct (Hst i Hi) as [[Hsw _] _].
      destruct (next_facts i) as [[H _]|[[_ [_ H]]|[_ [_ [_ [HP Hk]]]]]].
      - congruence.
      - rewrite Hj1, Hr1, Hr2 in H. lia.
      - rewrite Hj1, Hr1 in HP, Hk. rewrite Hr2 in Hk. split; [exact HP|].
        apply Hk. reflexivity. }
    destruct (eventually_constant 1 Nat.lt_0_1 kk N1) as [N2 [HN2 Hconst]].
    { intros i Hi. apply Hstay, Hi. }
    exists (Pk (kk N2)). split.
    + apply nth_In.
      destruct (Hjr N2 HN2) as [Hj1 Hr1].
      pose proof (inv_i N2) as HI. rewrite Hj1 in HI.
      destruct (Inv_facts nc nx ny moore plus_one E S holds goals c Hc HnR j (p N2) HI (psinr N2))
        as [_ [Hk _]]. rewrite Hr1 in Hk. exact Hk.
    + exists N2. intros i Hi. rewrite <- (Hconst i Hi). apply Hstay. lia.
  - (* infinitely many switches *)
    right. intros R HR N.
    destruct (In_nth _ _ bfalse HR) as [j [Hj Hnth]].
    destruct (Hrr j Hj N) as [i [Hi [Hsw Hci]]].
    exists i. split; [exact Hi|].
    destruct (next_facts i) as [[_ [H _]]|[[H _]|[H _]]];
      [|unfold Sw in Hsw; congruence|unfold Sw in Hsw; congruence].
    rewrite Hci in H. unfold RabinStrategy.Rj in H. rewrite Hnth in H. exact H.
Qed.

End Live.

Theorem play_won : win_streett c E S holds goals plus_one p.
Proof. split; [exact play_safe|]. intros HE. apply play_live, HE. Qed.

End OnePlay.

(* Soundness of the Streett(1) region in game terms *)
Theorem streett_region_sound s :
  fst s < nx -> snd s < ny -> Z (stv s) = true ->
  comp_wins nx ny moore (win_streett c E S holds goals plus_one) s.
Proof.
  intros H1 H2 Hs. exists strategy. split; [apply strategy_valid; lia|].
  intros p Hr Hp0 Hcons. apply play_won; [exact Hr|exact Hcons|]. rewrite Hp0. exact Hs.
Qed.

End StreettPlays.
