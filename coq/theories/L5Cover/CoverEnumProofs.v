(* L5Cover / CoverEnumProofs: the model of cover_enum.minimize (as repaired
   by fixes/F2.patch).
   - enum_sound (all instances, all picks): whenever the model returns a set
     of covers, the set is non-empty, every member consists of primes and
     covers f, and all members have the same number of boxes.  (The code
     re-checks these facts with assertions before returning; the model
     contains those assertions, and the theorem extracts them.)
   - exactness on the finite domains of the property's quantifier by
     computation: the model returns exactly the set of all minimum covers. *)
From Coq Require Import List ZArith NArith Bool Lia Arith.
Import ListNotations.
From Omega Require Import L5Cover.Boxes L5Cover.BoxesProofs L5Cover.MinCover
  L5Cover.MinCoverProofs L5Cover.CoverEnum L5Cover.MinCoverBounded.
Open Scope Z_scope.

Lemma check_inl {A} (b : bool) (k : res A) a :
  check b k = inl a -> b = true /\ k = inl a.
Proof. unfold check. destruct b; [auto | discriminate]. Qed.

Lemma bind_inl {A B} (r : res A) (k : A -> res B) b :
  bind r k = inl b -> exists a, r = inl a /\ k a = inl b.
Proof. unfold bind. destruct r as [a|e]; [eauto | discriminate]. Qed.

Section EnumProofs.
Variable rs : ranges.
Variable pick : list box -> option box.

(* what the final assertions of _cyclic_core_fixpoint_recursive establish *)
Lemma ccfr_result fuel X Y pc ub F u :
  ccfr rs pick fuel X Y pc ub = inl (F, u) ->
  F = [] \/ (are_covers X F = true /\ covers_from F Y = true /\ uniform F = true).
Proof.
  destruct fuel as [|n]; [discriminate|]. cbn [ccfr]. intros H.
  apply check_inl in H. destruct H as [_ H].
  cbv zeta in H. apply bind_inl in H. destruct H as [cr [_ H]].
  destruct (fst cr) as [|c0 cs]; [inversion H; left; reflexivity|].
  right.
  repeat (apply check_inl in H; destruct H as [? H]).
  apply bind_inl in H. destruct H as [fl [_ H]].
  repeat (apply check_inl in H; destruct H as [? H]).
  apply bind_inl in H. destruct H as [mc [_ H]].
  repeat (apply check_inl in H; destruct H as [? H]).
  inversion H; subst. auto.
Qed.

Lemma cover_refines_cov X c : cover_refines X c = true -> cov c X.
Proof.
  unfold cover_refines, cov. rewrite allb_forallb, forallb_forall.
  intros H x Hx. specialize (H x Hx). rewrite anyb_existsb in H.
  apply existsb_exists in H. destruct H as [b [Hb Hle]].
  exists b. split; [exact Hb | apply box_leb_true, Hle].
Qed.

Theorem enum_xy_sound X Y R :
  enum_xy rs pick X Y = inl R ->
  R <> [] /\
  (forall K, In K R -> incl K Y /\ cov K X) /\
  (forall K K', In K R -> In K' R -> length K = length K').
Proof.
  unfold enum_xy. destruct (some_cover pick _ X Y) as [c0|]; [|discriminate].
  intros H. apply bind_inl in H. destruct H as [[F u] [Hc H]].
  apply check_inl in H. destruct H as [Hne H]. inversion H; subst R. cbn [fst] in *.
  apply ccfr_result in Hc. destruct Hc as [->|[A [B C]]]; [discriminate|].
  split; [intros ->; discriminate|]. split.
  - intros K HK. split.
    + unfold covers_from in B. rewrite allb_forallb, forallb_forall in B.
      apply inclb_true, B, HK.
    + unfold are_covers in A. rewrite allb_forallb, forallb_forall in A.
      apply cover_refines_cov, A, HK.
  - intros K K' HK HK'. unfold uniform in C. destruct F as [|c F']; [destruct HK|].
    rewrite allb_forallb, forallb_forall in C.
    pose proof (C K HK) as E1. pose proof (C K' HK') as E2.
    apply Nat.eqb_eq in E1. apply Nat.eqb_eq in E2. congruence.
Qed.
End EnumProofs.

(* for every instance and every pick: a returned set of covers is non-empty;
   each member is a cover of f by primes; all have the same size *)
Theorem enum_sound rs pick f care R :
  enum_minimize rs pick f care = inl R ->
  R <> [] /\
  (forall K, In K R -> prime_cover rs f care K) /\
  (forall K K', In K R -> In K' R -> length K = length K').
Proof.
  unfold enum_minimize. intros H. apply enum_xy_sound in H.
  destruct H as [A [B C]]. split; [exact A|]. split; [|exact C].
  intros K HK. destruct (B K HK) as [B1 B2]. split.
  - intros b Hb. apply primes_In, B1, Hb.
  - intros p Hr Hf.
    destruct (B2 (map (fun x => (x, x)) p)) as [k [Hk1 Hk2]].
    { apply embed_In. exists p. tauto. }
    exists k. split; [exact Hk1 | apply singleton_le_contains, Hk2].
Qed.

(* ------------------------------------------------------------ bounded exactness *)
Definition ok_enum (rs : ranges) (pick : list box -> option box)
  (f care : point -> bool) : bool :=
  match enum_minimize rs pick f care with
  | inl R => is_all_min_covers_b rs f care R
  | inr _ => false
  end.

Lemma ok_enum_correct rs pick f care :
  ok_enum rs pick f care = true ->
  exists R, enum_minimize rs pick f care = inl R /\
            all_min_prime_covers rs f care R.
Proof.
  unfold ok_enum. destruct (enum_minimize rs pick f care) as [R|]; [|discriminate].
  intros H. exists R. split; [reflexivity|].
  apply is_all_min_covers_b_correct, H.
Qed.

(* all pairs (f, care) over three two-valued variables, f not empty *)
Definition enum_all3 (pick : list box -> option box) : bool :=
  allb (fun cm => allb (fun fm =>
          ok_enum rs3 pick (fun_of_mask fm) (fun_of_mask cm))
        (nrange 255 1%N)) (nrange 256 0%N).

Lemma enum_all3_correct pick : enum_all3 pick = true ->
  forall fm cm, (1 <= fm < 256)%N -> (cm < 256)%N ->
  exists R, enum_minimize rs3 pick (fun_of_mask fm) (fun_of_mask cm) = inl R /\
            all_min_prime_covers rs3 (fun_of_mask fm) (fun_of_mask cm) R.
Proof.
  unfold enum_all3. rewrite allb_forallb, forallb_forall. intros H fm cm Hf Hc.
  specialize (H cm (nrange_In 256 0%N cm ltac:(cbn; lia))).
  rewrite allb_forallb, forallb_forall in H.
  apply ok_enum_correct, H, nrange_In. cbn. lia.
Qed.

Lemma enum_all3_first : enum_all3 pick_first = true.
Proof. vm_compute. reflexivity. Qed.
Lemma enum_all3_last : enum_all3 pick_last = true.
Proof. vm_compute. reflexivity. Qed.

Theorem enum_exact_bounded_3_first :
  forall fm cm, (1 <= fm < 256)%N -> (cm < 256)%N ->
  exists R, enum_minimize rs3 pick_first (fun_of_mask fm) (fun_of_mask cm) = inl R /\
            all_min_prime_covers rs3 (fun_of_mask fm) (fun_of_mask cm) R.
Proof. exact (enum_all3_correct pick_first enum_all3_first). Qed.

Theorem enum_exact_bounded_3_last :
  forall fm cm, (1 <= fm < 256)%N -> (cm < 256)%N ->
  exists R, enum_minimize rs3 pick_last (fun_of_mask fm) (fun_of_mask cm) = inl R /\
            all_min_prime_covers rs3 (fun_of_mask fm) (fun_of_mask cm) R.
Proof. exact (enum_all3_correct pick_last enum_all3_last). Qed.
