"""Gallina literals for covering instances (C08/C09/C10).

All literals are written for `Open Scope Z_scope`.
"""
from vlib import cover_inst as ci

HEADER = '''From Coq Require Import List ZArith Bool.
Import ListNotations.
From Omega Require Import L5Cover.Boxes.
Open Scope Z_scope.
'''


def z(n):
    return f'({n})' if n < 0 else str(n)


def point(p):
    return '[' + ';'.join(z(v) for v in p) + ']'


def points(ps):
    return '[' + ';'.join(point(p) for p in ps) + ']'


def box(b):
    return '[' + ';'.join(f'({z(a)},{z(c)})' for a, c in b) + ']'


def boxes(bs):
    return '[' + ';'.join(box(b) for b in bs) + ']'


def families(fs):
    return '[' + ';'.join(boxes(k) for k in fs) + ']'


def project(pts, idx):
    """Project points to the coordinates idx, removing duplicates."""
    seen, out = set(), []
    for p in pts:
        q = tuple(p[i] for i in idx)
        if q not in seen:
            seen.add(q)
            out.append(q)
    return out


def instance_defs(prefix, inst, limits, idx=None):
    """Definitions <prefix>rs, <prefix>f, <prefix>care.

    idx: coordinates kept (the lattice variables); f and care must not depend
    on the dropped ones."""
    n = len(limits)
    idx = list(range(n)) if idx is None else idx
    rs = [limits[i] for i in idx]
    f = project(inst['f'], idx)
    lines = [
        f'Definition {prefix}rs : ranges := {box(rs)}.',
        f'Definition {prefix}f : point -> bool := mem_pt {points(f)}.']
    if inst['care'] is None:
        lines.append(
            f'Definition {prefix}care : point -> bool := fun _ => true.')
    else:
        c = project(inst['care'], idx)
        lines.append(
            f'Definition {prefix}care : point -> bool := mem_pt {points(c)}.')
    return '\n'.join(lines)
