"""Fail-closed translator from a small Python subset to Gallina (tie T).

Two dialects, chosen per function:

  'bdd'  functions over the BDD algebra of `omega` (fixpoint.py, games/gr1.py
         solvers).  The automaton `aut` is implicit: its fields become the
         Section variables of coq/theories/L4 (env_action, sys_action,
         env_init, sys_init, holds = win['<>[]'], goals = win['[]<>'],
         moore, plus_one, qinit).  BDD operators map to the algebra of
         L4/Arena.v (`&` band, `|` bor, `~` bnot, aut.forall/exist,
         prm.prime/unprime, ==/!= on BDDs beq).
  'int'  integer helpers (dom_to_width, _bitfield_limits, _clip_subrange):
         Python ints are Z, tuples are pairs, `assert`/`raise` make the
         function partial (option).

Statements are compiled in continuation style into nested `let`s:
assignments, augmented assignments, tuple unpacking, `if/else`, `assert`,
`return`, `for x in L` (fold_left over the carried variables),
`while q != qold: qold = q; BODY` (do_while on the carried variables),
`L = list()`, `L.append(e)`.  Anything else raises `Refuse`, and the check
that called the translator reports a broken tie.

The translator reads source text with `ast`; it never imports `omega`.
"""
import ast
import textwrap


class Refuse(Exception):
    """The source left the supported subset."""


SKIP_CALL_PREFIXES = ('logger.', 'log.', 'logging.')
QINIT = {r'\A \A': 'QAA', r'\E \E': 'QEE', r'\A \E': 'QAE', r'\E \A': 'QEA'}
VARLIST = {"env'": '[Envp]', "sys'": '[Sysp]', 'env': '[Env]', 'sys': '[Sys]'}
AUT_FIELDS = {
    ('action', 'env'): 'env_action', ('action', 'sys'): 'sys_action',
    ('init', 'env'): 'env_init', ('init', 'sys'): 'sys_init',
    ('win', '<>[]'): 'holds', ('win', '[]<>'): 'goals'}
AUT_ATTRS = {'true': 'btrue', 'false': 'bfalse', 'moore': 'moore',
             'plus_one': 'plus_one', 'qinit': 'qinit'}
HINT_FIELDS = {'width': 'h_width', 'signed': 'h_signed', 'dom': 'h_dom'}
# preconditions of the library that the arena model satisfies by construction
# (state predicates, built automaton, non-empty liveness lists are hypotheses
# of the theorems instead)
IGNORED_ASSERT_CALLS = ('is_state_predicate',)
IGNORED_ASSERT_SRC = (
    "rank == 1", "aut.bdd.vars or not aut.vars",
    "len(aut.win['<>[]']) > 0", "len(aut.win['[]<>']) > 0")


def _src(node):
    return ast.unparse(node)


def _dotted(node):
    if isinstance(node, ast.Name):
        return node.id
    if isinstance(node, ast.Attribute):
        b = _dotted(node.value)
        return None if b is None else b + '.' + node.attr
    return None


class FuncInfo:
    def __init__(self, name, dialect, node, coq_name=None):
        self.name = name
        self.dialect = dialect
        self.node = node
        self.coq_name = coq_name or name.lstrip('_')
        a = node.args
        if a.vararg or a.kwarg or a.kwonlyargs or a.posonlyargs:
            raise Refuse(f'{name}: unsupported signature')
        names = [x.arg for x in a.args]
        ndef = len(a.defaults)
        self.optional = set()
        self.bool_default = {}
        self.dropped = set()
        for x, d in zip(names[len(names) - ndef:], a.defaults):
            if isinstance(d, ast.Constant) and isinstance(d.value, bool):
                self.bool_default[x] = 'true' if d.value else 'false'
                continue
            if isinstance(d, ast.Constant) and isinstance(d.value, int):
                # e.g. `rank=1`: only legal use is an ignored precondition
                self.dropped.add(x)
                continue
            if not (isinstance(d, ast.Constant) and d.value is None):
                raise Refuse(f'{name}: default of {x} is not None')
            self.optional.add(x)
        self.all_params = names
        self.params = [x for x in names
                       if x != 'aut' and x not in self.dropped]
        self.partial = _is_partial(node, dialect)


def _is_partial(fn, dialect):
    for n in ast.walk(fn):
        if isinstance(n, ast.Raise):
            return True
        if isinstance(n, ast.Assert) and not _ignored_assert(n):
            return True
    return False


def _ignored_assert(n):
    t = n.test
    if isinstance(t, ast.Call) and _dotted(t.func) in IGNORED_ASSERT_CALLS:
        return True
    return _src(t) in IGNORED_ASSERT_SRC


class Translator:
    def __init__(self):
        self.funcs = {}
        self.notes = []
        self.modconsts = {}

    def add_source(self, path, names, dialect, rename=None):
        with open(path) as f:
            tree = ast.parse(f.read())
        found = {n.name: n for n in tree.body
                 if isinstance(n, ast.FunctionDef)}
        # module-level string constants (e.g. SYS = 'sys')
        for n in tree.body:
            if (isinstance(n, ast.Assign) and len(n.targets) == 1
                    and isinstance(n.targets[0], ast.Name)
                    and isinstance(n.value, ast.Constant)
                    and isinstance(n.value.value, str)):
                self.modconsts[n.targets[0].id] = n.value.value
        for name in names:
            if name not in found:
                raise Refuse(f'{path}: function {name} not found')
            cn = (rename or {}).get(name)
            self.funcs[name] = FuncInfo(name, dialect, found[name], cn)

    # ------------------------------------------------------------------
    def emit(self, order):
        out = []
        for name in order:
            out.append(self.emit_function(self.funcs[name]))
        return '\n\n'.join(out)

    def emit_function(self, fi):
        self.fi = fi
        self.strvars = set()
        self.lists_frozen = set()
        self.reads = set()
        defined = set(fi.params)
        body = self.block(fi.node.body, defined, tail=None)
        params = ' '.join(
            (f'({p} : option bdd)' if p in fi.optional
             else f'({p} : bool)' if p in fi.bool_default else p)
            for p in fi.params)
        if fi.dialect == 'bdd':
            params = ('(fuel : nat) ' + params).strip()
        head = f'Definition {fi.coq_name} {params} :='
        text = head + '\n' + textwrap.indent(body, '  ') + '.'
        if fi.dialect == 'bdd':
            # which fields of the automaton the function reads, by name: the
            # proofs pin this list, so that reading another flag or action
            # under the same type cannot go unnoticed
            reads = '; '.join(f'"{r}"' for r in sorted(self.reads))
            text += (f'\n\nDefinition {fi.coq_name}_reads : list string := '
                     f'[{reads}]%string.')
        return text

    # ------------------------------------------------------------------
    # statements
    def ret(self, e):
        return f'Some ({e})' if self.fi.partial else e

    def fail(self):
        if not self.fi.partial:
            raise Refuse('failure in total function')
        return 'None'

    def block(self, stmts, defined, tail):
        """Translate `stmts`; `tail` is the Gallina text of the value of
        the block when control falls off its end (None = must return)."""
        if not stmts:
            if tail is None:
                raise Refuse(f'{self.fi.name}: control reaches end of '
                             'function without return')
            return tail
        s, rest = stmts[0], stmts[1:]
        defined = set(defined)
        k = lambda d=defined: self.block(rest, d, tail)
        # docstrings, logging, print, pass
        if isinstance(s, ast.Expr):
            v = s.value
            if isinstance(v, ast.Constant) and isinstance(v.value, str):
                return k()
            if isinstance(v, ast.Call):
                f = _dotted(v.func) or ''
                if f.startswith(SKIP_CALL_PREFIXES) or f == 'print':
                    return k()
                if f == 'aut.build' and not v.args:
                    self.notes.append('aut.build() skipped')
                    return k()
                # L.append(e)
                if (isinstance(v.func, ast.Attribute)
                        and v.func.attr == 'append'
                        and isinstance(v.func.value, ast.Name)
                        and len(v.args) == 1):
                    L = v.func.value.id
                    if L not in defined:
                        raise Refuse(f'append to unknown list {L}')
                    if L in self.lists_frozen:
                        raise Refuse(f'list {L} mutated after being shared')
                    a = v.args[0]
                    if isinstance(a, ast.Name):
                        self.lists_frozen.add(a.id)
                    e = self.expr(a, defined)
                    return f'let {L} := {L} ++ [{e}] in\n' + k()
            if isinstance(v, ast.Subscript) and _src(v) in (
                    "aut.varlist['sys']",):
                return k()
            raise Refuse(f'statement: {_src(s)}')
        if isinstance(s, ast.Pass):
            return k()
        if isinstance(s, ast.Return):
            if rest:
                raise Refuse('code after return')
            if s.value is None:
                raise Refuse('bare return')
            return self.ret(self.expr(s.value, defined))
        if isinstance(s, ast.Raise):
            return self.fail()
        if isinstance(s, ast.Assert):
            if _ignored_assert(s):
                self.notes.append(f'precondition dropped: {_src(s.test)}')
                return k()
            c = self.cond(s.test, defined)
            return f'if {c} then\n{k()}\nelse None'
        if isinstance(s, ast.Assign):
            if len(s.targets) != 1:
                raise Refuse('chained assignment')
            t = s.targets[0]
            # strings (messages) are dropped, and may not be used elsewhere
            if self.is_string(s.value):
                if not isinstance(t, ast.Name):
                    raise Refuse('string to non-name')
                self.strvars.add(t.id)
                return k()
            if isinstance(t, ast.Name):
                self.lists_frozen.discard(t.id)
                e = self.expr(s.value, defined)
                defined.add(t.id)
                return f'let {t.id} := {e} in\n' + k(defined)
            if isinstance(t, ast.Tuple) and all(
                    isinstance(x, ast.Name) for x in t.elts):
                names = [x.id for x in t.elts]
                # `a, b = None, None`
                e = self.expr(s.value, defined)
                defined.update(names)
                pat = self.tup(names)
                return f"let '{pat} := {e} in\n" + k(defined)
            if (_src(t) in ("aut.init['impl']",) and not rest
                    and tail is None):
                # the function's result is what it stores in the automaton
                self.notes.append(
                    f'{self.fi.name}: result is the value stored in {_src(t)}')
                return self.ret(self.expr(s.value, defined))
            raise Refuse(f'assignment target: {_src(t)}')
        if isinstance(s, ast.AugAssign):
            if not isinstance(s.target, ast.Name):
                raise Refuse('augmented assignment to non-name')
            x = s.target.id
            if x not in defined:
                raise Refuse(f'augmented assignment to unknown {x}')
            e = self.binop(s.op, x, self.expr(s.value, defined))
            return f'let {x} := {e} in\n' + k()
        if isinstance(s, ast.If):
            return self.if_stmt(s, rest, defined, tail)
        if isinstance(s, ast.While):
            return self.while_stmt(s, rest, defined, tail)
        if isinstance(s, ast.For):
            return self.for_stmt(s, rest, defined, tail)
        raise Refuse(f'statement kind {type(s).__name__}: {_src(s)}')

    @staticmethod
    def tup(names):
        if not names:
            return 'tt'
        if len(names) == 1:
            return names[0]
        return '(' + ', '.join(names) + ')'

    def is_string(self, e):
        if isinstance(e, ast.JoinedStr):
            return True
        if isinstance(e, ast.Constant) and isinstance(e.value, str):
            return True
        return False

    def assigned(self, stmts):
        """Names (re)bound by statements (not descending into defs)."""
        out = []

        def add(n):
            if n not in out:
                out.append(n)
        for s in stmts:
            for n in ast.walk(s):
                if isinstance(n, (ast.Assign,)):
                    for t in n.targets:
                        for m in ast.walk(t):
                            if isinstance(m, ast.Name):
                                add(m.id)
                elif isinstance(n, ast.AugAssign):
                    if isinstance(n.target, ast.Name):
                        add(n.target.id)
                elif isinstance(n, ast.For):
                    for m in ast.walk(n.target):
                        if isinstance(m, ast.Name):
                            add(m.id)
                elif (isinstance(n, ast.Call)
                      and isinstance(n.func, ast.Attribute)
                      and n.func.attr == 'append'
                      and isinstance(n.func.value, ast.Name)):
                    add(n.func.value.id)
        return out

    def used(self, stmts):
        out = set()
        for s in stmts:
            for n in ast.walk(s):
                if isinstance(n, ast.Name):
                    out.add(n.id)
        return out

    def ends_in_return(self, stmts):
        if not stmts:
            return False
        last = stmts[-1]
        if isinstance(last, (ast.Return, ast.Raise)):
            return True
        if isinstance(last, ast.If):
            return (self.ends_in_return(last.body)
                    and self.ends_in_return(last.orelse))
        return False

    def if_stmt(self, s, rest, defined, tail):
        # `if not r: print(msg)` and friends: body is only output
        if not s.orelse and all(self.is_output(b) for b in s.body):
            return self.block(rest, defined, tail)
        opt = self.none_test(s.test)
        if opt is not None:
            name, positive = opt
            cond_open = f'match {name} with Some {name} =>'
        body_ret = self.ends_in_return(s.body)
        else_ret = self.ends_in_return(s.orelse)
        if body_ret or else_ret:
            # the rest of the block belongs to the branch(es) that fall through
            b = self.block(list(s.body) + ([] if body_ret else list(rest)),
                           defined, tail)
            e = self.block(list(s.orelse) + ([] if else_ret else list(rest)),
                           defined, tail)
            return self.ite(s.test, opt, b, e, defined)
        # both fall through: thread the variables they assign
        names = [n for n in self.assigned(s.body + s.orelse)
                 if n not in self.strvars and not self.only_string_assigned(
                     n, s.body + s.orelse)]
        live = [n for n in names
                if n in self.used(rest) or n in defined or tail and n in tail]
        # a name assigned in only one branch must already be defined
        for n in live:
            for br in (s.body, s.orelse):
                if n not in self.assigned(br) and n not in defined:
                    raise Refuse(f'{n} defined on one branch only')
        pat = self.tup(live)
        inner_tail = self.ret_raw(pat)
        saved = self.fi.partial
        # branches are total blocks producing the tuple; failure inside a
        # branch needs the option monad
        need_opt = saved and any(
            isinstance(n, (ast.Assert, ast.Raise)) and not (
                isinstance(n, ast.Assert) and _ignored_assert(n))
            for st in s.body + s.orelse for n in ast.walk(st))
        if need_opt:
            b = self.block(s.body, defined, f'Some {inner_tail}')
            e = self.block(s.orelse, defined, f'Some {inner_tail}')
            d2 = set(defined) | set(live)
            restc = self.block(rest, d2, tail)
            return (f'match ({self.ite(s.test, opt, b, e, defined)}) with\n'
                    f"| Some {('' if len(live)!=1 else '')}{pat} =>\n{restc}\n"
                    f'| None => None end')
        self.fi.partial = False
        try:
            b = self.block(s.body, defined, inner_tail)
            e = self.block(s.orelse, defined, inner_tail)
        finally:
            self.fi.partial = saved
        d2 = set(defined) | set(live)
        restc = self.block(rest, d2, tail)
        q = "'" if len(live) != 1 else ''
        return (f'let {q}{pat} :=\n'
                + textwrap.indent(self.ite(s.test, opt, b, e, defined), '  ')
                + f'\nin\n{restc}')

    def only_string_assigned(self, n, stmts):
        for s in stmts:
            for a in ast.walk(s):
                if isinstance(a, ast.Assign):
                    for t in a.targets:
                        if isinstance(t, ast.Name) and t.id == n:
                            if not self.is_string(a.value):
                                return False
                elif isinstance(a, ast.AugAssign):
                    if isinstance(a.target, ast.Name) and a.target.id == n:
                        return False
        # also appended lists are not strings
        for s in stmts:
            for a in ast.walk(s):
                if (isinstance(a, ast.Call)
                        and isinstance(a.func, ast.Attribute)
                        and a.func.attr == 'append'
                        and isinstance(a.func.value, ast.Name)
                        and a.func.value.id == n):
                    return False
        return True

    def ret_raw(self, pat):
        return pat

    def is_output(self, s):
        return (isinstance(s, ast.Expr) and isinstance(s.value, ast.Call)
                and ((_dotted(s.value.func) or '').startswith(
                    SKIP_CALL_PREFIXES)
                     or _dotted(s.value.func) == 'print'))

    def none_test(self, t):
        """`x is not None` / `x is None` on an optional parameter."""
        if (isinstance(t, ast.Compare) and len(t.ops) == 1
                and isinstance(t.left, ast.Name)
                and isinstance(t.comparators[0], ast.Constant)
                and t.comparators[0].value is None):
            if t.left.id not in self.fi.optional:
                raise Refuse(f'None test on non-optional {t.left.id}')
            if isinstance(t.ops[0], ast.IsNot):
                return t.left.id, True
            if isinstance(t.ops[0], ast.Is):
                return t.left.id, False
        return None

    def ite(self, test, opt, b, e, defined):
        ind = lambda x: textwrap.indent(x, '  ')
        if opt is not None:
            name, positive = opt
            some, none = (b, e) if positive else (e, b)
            # inside the Some branch the name denotes the BDD itself
            return (f'match {name} with\n| Some {name} =>\n{ind(some)}\n'
                    f'| None =>\n{ind(none)}\nend')
        c = self.cond(test, defined)
        return f'if {c} then\n{ind(b)}\nelse\n{ind(e)}'

    def while_stmt(self, s, rest, defined, tail):
        if s.orelse:
            raise Refuse('while-else')
        t = s.test
        if not (isinstance(t, ast.Compare) and len(t.ops) == 1
                and isinstance(t.ops[0], ast.NotEq)
                and isinstance(t.left, ast.Name)
                and isinstance(t.comparators[0], ast.Name)):
            raise Refuse(f'while test: {_src(t)}')
        if self.fi.dialect != 'bdd':
            raise Refuse('while in int dialect')
        q, qold = t.left.id, t.comparators[0].id
        # find `qold = q` in the body before q is assigned
        body = list(s.body)
        idx = None
        for i, st in enumerate(body):
            if (isinstance(st, ast.Assign) and len(st.targets) == 1
                    and isinstance(st.targets[0], ast.Name)
                    and st.targets[0].id == qold
                    and isinstance(st.value, ast.Name)
                    and st.value.id == q):
                idx = i
                break
            if q in self.assigned([st]) or qold in self.used([st]):
                break
        if idx is None:
            raise Refuse(f'while: `{qold} = {q}` must precede changes of {q}')
        for st in body[idx + 1:]:
            if qold in self.assigned([st]):
                raise Refuse(f'{qold} reassigned in loop body')
        # qold must be None before the loop and unused after it
        if qold in self.used(rest):
            raise Refuse(f'{qold} used after loop')
        if self.pending_none.get(qold) is not True:
            raise Refuse(f'{qold} must be None before the loop')
        asg = [n for n in self.assigned(body) if n != qold
               and n not in self.strvars]
        carried = [n for n in asg if n in defined]
        extras = [n for n in asg if n not in defined and n in self.used(rest)]
        if q not in carried:
            raise Refuse(f'loop variable {q} not defined before loop')
        cpat, epat = self.tup(carried), self.tup(extras)
        inner_defined = set(defined) | {qold}
        saved = self.fi.partial
        self.fi.partial = False
        try:
            b = self.block(body[:idx] + body[idx + 1:], inner_defined,
                           f'({cpat}, {epat})')
        finally:
            self.fi.partial = saved
        key = (f"(fun {self.pat_arg(carried)} => {q})")
        d2 = set(defined) | set(extras)
        restc = self.block(rest, d2, tail)
        return (f"let '({cpat}, {epat}) :=\n"
                f"  do_while fuel (fun {self.pat_arg(carried)} =>\n"
                f"    let {qold} := {q} in\n"
                + textwrap.indent(b, '    ') + ')\n'
                f"    {key} {cpat}\nin\n{restc}")

    def pat_arg(self, names):
        if len(names) == 1:
            return names[0]
        return "'" + self.tup(names)

    def for_stmt(self, s, rest, defined, tail):
        if s.orelse:
            raise Refuse('for-else')
        if not isinstance(s.target, ast.Name):
            raise Refuse(f'for target: {_src(s.target)}')
        x = s.target.id
        L = self.expr(s.iter, defined)
        asg = [n for n in self.assigned(s.body) if n != x
               and n not in self.strvars]
        carried = [n for n in asg if n in defined]
        leaked = [n for n in asg if n not in defined and n in self.used(rest)]
        if leaked:
            raise Refuse(f'for body defines {leaked} used after the loop')
        if x in self.used(rest):
            raise Refuse(f'loop variable {x} used after loop')
        cpat = self.tup(carried)
        saved = self.fi.partial
        self.fi.partial = False
        try:
            b = self.block(s.body, set(defined) | {x}, cpat)
        finally:
            self.fi.partial = saved
        restc = self.block(rest, defined, tail)
        q = "'" if len(carried) != 1 else ''
        return (f"let {q}{cpat} :=\n"
                f"  fold_left (fun {self.pat_arg(carried)} {x} =>\n"
                + textwrap.indent(b, '    ') + ')\n'
                f"    {L} {cpat}\nin\n{restc}")

    # ------------------------------------------------------------------
    # expressions
    def cond(self, e, defined):
        """Boolean expression used as a test."""
        return self.expr(e, defined)

    def binop(self, op, a, b):
        d = self.fi.dialect
        if d == 'bdd':
            if isinstance(op, ast.BitAnd):
                return f'band {a} {b}'
            if isinstance(op, ast.BitOr):
                return f'bor {a} {b}'
            if isinstance(op, ast.Add):
                return f'({a} ++ {b})'
        else:
            m = {ast.Add: '+', ast.Sub: '-', ast.Mult: '*', ast.Pow: '^'}
            for k, v in m.items():
                if isinstance(op, k):
                    return f'({a} {v} {b})'
        raise Refuse(f'operator {type(op).__name__} in dialect {d}')

    def expr(self, e, defined):
        d = self.fi.dialect
        if isinstance(e, ast.Name):
            if e.id in self.strvars:
                raise Refuse(f'string variable {e.id} used as a value')
            if e.id not in defined:
                raise Refuse(f'{self.fi.name}: unknown name {e.id}')
            return e.id
        if isinstance(e, ast.Constant):
            if e.value is None:
                raise Refuse('None as a value')
            if isinstance(e.value, bool):
                return 'true' if e.value else 'false'
            if isinstance(e.value, int) and d == 'int':
                return str(e.value) if e.value >= 0 else f'({e.value})'
            raise Refuse(f'constant {e.value!r}')
        if isinstance(e, ast.Tuple):
            return '(' + ', '.join(self.expr(x, defined) for x in e.elts) + ')'
        if isinstance(e, ast.UnaryOp):
            a = self.expr(e.operand, defined)
            if isinstance(e.op, ast.Invert) and d == 'bdd':
                return f'(bnot {a})'
            if isinstance(e.op, ast.Not):
                return f'(negb {a})'
            if isinstance(e.op, ast.USub) and d == 'int':
                return f'(- {a})'
            raise Refuse(f'unary {_src(e)}')
        if isinstance(e, ast.BinOp):
            a = self.expr(e.left, defined)
            b = self.expr(e.right, defined)
            return '(' + self.binop(e.op, a, b) + ')'
        if isinstance(e, ast.BoolOp):
            op = 'andb' if isinstance(e.op, ast.And) else 'orb'
            xs = [self.expr(x, defined) for x in e.values]
            r = xs[0]
            for x in xs[1:]:
                r = f'({op} {r} {x})'
            return r
        if isinstance(e, ast.Compare):
            return self.compare(e, defined)
        if isinstance(e, ast.Attribute):
            dn = _dotted(e)
            if d == 'bdd' and dn and dn.startswith('aut.'):
                f = dn[4:]
                if f in AUT_ATTRS:
                    if f not in ('true', 'false'):
                        self.reads.add(f)
                    return AUT_ATTRS[f]
            raise Refuse(f'attribute {_src(e)}')
        if isinstance(e, ast.Subscript):
            return self.subscript(e, defined)
        if isinstance(e, ast.Call):
            return self.call(e, defined)
        raise Refuse(f'expression {type(e).__name__}: {_src(e)}')

    def compare(self, e, defined):
        if len(e.ops) != 1:
            raise Refuse(f'chained comparison {_src(e)}')
        op, l, r = e.ops[0], e.left, e.comparators[0]
        d = self.fi.dialect
        # string comparison with a literal qinit form
        if isinstance(r, ast.Constant) and isinstance(r.value, str):
            if r.value in QINIT and isinstance(op, ast.Eq):
                return f'(qinit_eqb {self.expr(l, defined)} {QINIT[r.value]})'
            raise Refuse(f'string comparison {_src(e)}')
        a, b = self.expr(l, defined), self.expr(r, defined)
        if d == 'bdd':
            if isinstance(op, ast.Eq):
                return f'(beq {a} {b})'
            if isinstance(op, ast.NotEq):
                return f'(negb (beq {a} {b}))'
            raise Refuse(f'comparison {_src(e)}')
        m = {ast.Lt: '<?', ast.LtE: '<=?', ast.Gt: '>?', ast.GtE: '>=?',
             ast.Eq: '=?'}
        for k, v in m.items():
            if isinstance(op, k):
                return f'({a} {v} {b})'
        if isinstance(op, ast.NotEq):
            return f'(negb ({a} =? {b}))'
        raise Refuse(f'comparison {_src(e)}')

    def subscript(self, e, defined):
        d = self.fi.dialect
        base = e.value
        key = e.slice
        if isinstance(key, ast.Name) and key.id in self.modconsts:
            key = ast.Constant(self.modconsts[key.id])
        if isinstance(key, ast.Constant) and isinstance(key.value, str):
            bn = _dotted(base)
            if d == 'bdd' and bn and bn.startswith('aut.'):
                f = bn[4:]
                if f == 'varlist' and key.value in VARLIST:
                    self.reads.add(f'varlist[{key.value}]')
                    return VARLIST[key.value]
                if (f, key.value) in AUT_FIELDS:
                    self.reads.add(f'{f}[{key.value}]')
                    return AUT_FIELDS[(f, key.value)]
            if d == 'int' and key.value in HINT_FIELDS:
                return f'({HINT_FIELDS[key.value]} {self.expr(base, defined)})'
        raise Refuse(f'subscript {_src(e)}')

    def call(self, e, defined):
        d = self.fi.dialect
        fn = _dotted(e.func)
        args = e.args
        if fn == 'list' and not args and not e.keywords:
            return '[]'
        if d == 'bdd':
            if fn in ('aut.forall', 'aut.exist') and len(args) == 2:
                g = 'forall_' if fn == 'aut.forall' else 'exist_'
                return (f'({g} {self.expr(args[0], defined)} '
                        f'{self.expr(args[1], defined)})')
            if fn in ('prm.prime', 'prm.unprime') and len(args) == 2:
                self.must_be_aut(args[1])
                g = fn.split('.')[1]
                return f'({g} {self.expr(args[0], defined)})'
            if fn in ('is_state_predicate', 'prm.is_state_predicate'):
                return f'(is_state_pred {self.expr(args[0], defined)})'
        if d == 'int':
            if fn in ('max', 'min') and len(args) == 2 and not e.keywords:
                g = 'Z.max' if fn == 'max' else 'Z.min'
                return (f'({g} {self.expr(args[0], defined)} '
                        f'{self.expr(args[1], defined)})')
            if fn == 'abs' and len(args) == 1:
                return f'(Z.abs {self.expr(args[0], defined)})'
            if (isinstance(e.func, ast.Attribute)
                    and e.func.attr == 'bit_length' and not args):
                return f'(bit_length {self.expr(e.func.value, defined)})'
        # calls to other translated functions (same module or `fx.`)
        short = fn.split('.')[-1] if fn else None
        if short in self.funcs and (fn == short or fn == 'fx.' + short):
            callee = self.funcs[short]
            if callee.partial:
                raise Refuse(f'call to partial function {short} '
                             'inside an expression')
            vals = {}
            if len(args) > len(callee.all_params):
                raise Refuse(f'too many arguments to {short}')
            for p, a in zip(callee.all_params, args):
                vals[p] = a
            for kw in e.keywords:
                if kw.arg is None or kw.arg in vals \
                        or kw.arg not in callee.all_params:
                    raise Refuse(f'keyword {kw.arg} in call to {short}')
                vals[kw.arg] = kw.value
            out = []
            for p in callee.all_params:
                if p in callee.dropped:
                    if p in vals:
                        raise Refuse(f'{short}: argument {p} is not modelled')
                    continue
                if p == 'aut':
                    if p not in vals:
                        raise Refuse(f'{short}: aut not passed')
                    self.must_be_aut(vals[p])
                    continue
                if p in vals:
                    v = self.expr_or_opt(vals[p], defined, p in callee.optional)
                    out.append(v)
                elif p in callee.optional:
                    out.append('None')
                elif p in callee.bool_default:
                    out.append(callee.bool_default[p])
                else:
                    raise Refuse(f'{short}: missing argument {p}')
            fuel = 'fuel ' if callee.dialect == 'bdd' else ''
            return f'({callee.coq_name} {fuel}' + ' '.join(out) + ')'
        raise Refuse(f'call {_src(e)}')

    def expr_or_opt(self, a, defined, optional):
        if not optional:
            return self.expr(a, defined)
        if isinstance(a, ast.Constant) and a.value is None:
            return 'None'
        # passing one's own optional parameter through
        if isinstance(a, ast.Name) and a.id in self.fi.optional \
                and a.id not in self.unwrapped:
            return a.id
        return f'(Some {self.expr(a, defined)})'

    def must_be_aut(self, a):
        if not (isinstance(a, ast.Name) and a.id == 'aut'):
            raise Refuse(f'automaton argument is not `aut`: {_src(a)}')

    # bookkeeping initialised per function
    pending_none = {}
    unwrapped = set()


class _Pre(ast.NodeTransformer):
    """Remove `x = None` initialisers of loop sentinels, recording them."""

    def __init__(self):
        self.none_vars = {}

    def visit_Assign(self, n):
        if (len(n.targets) == 1 and isinstance(n.targets[0], ast.Name)
                and isinstance(n.value, ast.Constant)
                and n.value.value is None):
            self.none_vars[n.targets[0].id] = True
            return None
        return n


def translate(specs, order=None):
    """specs: list of (path, [names], dialect).  Returns (text, notes)."""
    tr = Translator()
    for path, names, dialect in specs:
        tr.add_source(path, names, dialect)
    order = order or [n for _, names, _ in specs for n in names]
    out = []
    for name in order:
        fi = tr.funcs[name]
        pre = _Pre()
        fi.node = pre.visit(fi.node)
        ast.fix_missing_locations(fi.node)
        tr.pending_none = pre.none_vars
        tr.unwrapped = set()
        out.append(tr.emit_function(fi))
    return '\n\n'.join(out) + '\n', tr.notes


if __name__ == '__main__':
    import sys
    path, dialect = sys.argv[1], sys.argv[2]
    text, notes = translate([(path, sys.argv[3:], dialect)])
    print(text)
    for n in notes:
        print('(* note:', n, '*)')
