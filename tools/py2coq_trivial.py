"""Fail-closed translator for `gr1.trivial_winning_set` (tie T for C04).

The function builds a second automaton out of its argument and calls the two
solvers.  It is read from the CURRENT source text of omega/games/gr1.py
(and the defaults of `default_rabin_automaton` / `_default_safety_automaton`
from omega/symbolic/temporal.py) with `ast`; `omega` is never imported.

The body is interpreted symbolically, statement by statement.  Two automata
exist: A (the parameter) and B (bound by `B = <temporal>.default_rabin_
automaton()`).  Every value carries
  - a type: 'bdd' | 'bdds' (list of BDDs) | 'bool' | 'qinit'
  - a world: 'A' or 'B' -- by which automaton's variable lists the BDD is
    read.  BDDs are modelled by meaning over role-named coordinates (vx:
    environment, vy: component; coq/theories/L4/Arena.v), so a BDD built for
    one automaton and used by the other whose variable lists are the swapped
    ones is re-indexed with `dual` (= read through swapV) and lives in the
    arena (nc, ny, nx); if B's variable lists are A's own the coercion is the
    identity and the arena (nc, nx, ny).
  - a manager: a BDD made by B before `B.bdd = A.bdd` belongs to another BDD
    manager; using one in a solver call is refused.

Accepted statements (anything else raises `Refuse`):
  docstring
  B = <alias of omega.symbolic.temporal>.default_rabin_automaton()
  B.bdd = A.bdd
  B.vars = copy.deepcopy(A.vars)
  B.varlist[k] = list(A.varlist[k'])            k, k' in {'env', 'sys'}
  B.action[k] = e   B.init[k] = e   B.win[w] = e
  B.moore = e       B.plus_one = e
  x = e
  x, _, _ = solve_streett_game(A|B)     x, _, _ = solve_rabin_game(A|B)
  return e, A
Expressions: names; A.action[k], A.init[k], A.win[w], A.true, A.false,
  A.moore, A.plus_one, B.true, B.false, True, False; ~e, e & e, e | e;
  [e, ...]; [e for w in l]; l[-1].
The emitted Gallina has one `let` per assignment, in source order, and calls
the GENERATED solvers Gr1Gen.solve_streett_game / solve_rabin_game.
"""
import ast

from py2coq import Refuse

TEMPORAL = 'omega.symbolic.temporal'
QINIT = {r'\A \A': 'QAA', r'\E \E': 'QEE', r'\A \E': 'QAE', r'\E \A': 'QEA'}
FIELD = {('action', 'env'): 'env_action', ('action', 'sys'): 'sys_action',
         ('init', 'env'): 'env_init', ('init', 'sys'): 'sys_init',
         ('win', '<>[]'): 'holds', ('win', '[]<>'): 'goals'}
FIELD_TYPE = {'action': 'bdd', 'init': 'bdd', 'win': 'bdds'}
SOLVERS = {'solve_streett_game': 'bdd', 'solve_rabin_game': 'bdds'}
COQ_RESERVED = {
    'let', 'in', 'fun', 'match', 'end', 'with', 'if', 'then', 'else', 'return',
    'as', 'at', 'fix', 'cofix', 'forall', 'exists', 'Type', 'Set', 'Prop',
    'nc', 'nx', 'ny', 'fuel', 'holds', 'goals', 'moore', 'plus_one', 'dual',
    'env_action', 'sys_action', 'env_init', 'sys_init', 'map', 'last', 'fst',
    'snd', 'true', 'false', 'btrue', 'bfalse', 'band', 'bor', 'bnot', 'bdd'}


def _src(n):
    return ast.unparse(n)


def _cmt(n):
    """Source of a node, safe inside a Coq comment."""
    return _src(n).replace('(*', '( *').replace('*)', '* )').replace('"', "'")


class Val:
    def __init__(self, ty, world, coq, mgr='A'):
        self.ty, self.world, self.coq, self.mgr = ty, world, coq, mgr


def _key(node):
    """`obj.field['k']` -> (obj, field, 'k')."""
    if (isinstance(node, ast.Subscript) and isinstance(node.value, ast.Attribute)
            and isinstance(node.value.value, ast.Name)
            and isinstance(node.slice, ast.Constant)
            and isinstance(node.slice.value, str)):
        return node.value.value.id, node.value.attr, node.slice.value
    return None


def _attr(node):
    if isinstance(node, ast.Attribute) and isinstance(node.value, ast.Name):
        return node.value.id, node.attr
    return None


def _body(fn):
    b = list(fn.body)
    if (b and isinstance(b[0], ast.Expr) and isinstance(b[0].value, ast.Constant)
            and isinstance(b[0].value.value, str)):
        b = b[1:]
    return b


def _plain_def(tree, name, nargs, path):
    ds = [n for n in ast.walk(tree)
          if isinstance(n, (ast.FunctionDef, ast.AsyncFunctionDef, ast.ClassDef))
          and n.name == name]
    top = [n for n in tree.body if isinstance(n, ast.FunctionDef) and n.name == name]
    if len(ds) != 1 or len(top) != 1:
        raise Refuse(f'{path}: `{name}` is not defined exactly once at top level')
    fn = top[0]
    a = fn.args
    if (a.vararg or a.kwarg or a.kwonlyargs or a.posonlyargs or a.defaults
            or len(a.args) != nargs or fn.decorator_list):
        raise Refuse(f'{path}: {name}: unsupported signature')
    # no other binding of the name at module level
    for n in tree.body:
        if isinstance(n, (ast.Assign, ast.AugAssign, ast.AnnAssign)):
            for x in ast.walk(n):
                if isinstance(x, ast.Name) and x.id == name \
                        and isinstance(x.ctx, ast.Store):
                    raise Refuse(f'{path}: `{name}` is rebound')
    return fn


# ------------------------------------------------------------ temporal.py
def read_defaults(path):
    """Fields of the automaton returned by `default_rabin_automaton()`:
    dict with keys ('action','env'), ..., ('win','<>[]'), 'moore',
    'plus_one', 'qinit', ('varlist','env'|'sys')."""
    with open(path) as f:
        tree = ast.parse(f.read())
    d = {}

    def const_bdd(node, aut):
        at = _attr(node)
        if at and at[0] == aut and at[1] in ('true', 'false'):
            return 'b' + at[1]
        raise Refuse(f'{path}: unsupported default value `{_src(node)}`')

    def run(name, depth=0):
        if depth > 3:
            raise Refuse(f'{path}: default automaton: call chain too deep')
        fn = _plain_def(tree, name, 0, path)
        body = _body(fn)
        if not body:
            raise Refuse(f'{path}: {name}: empty body')
        s0 = body[0]
        if not (isinstance(s0, ast.Assign) and len(s0.targets) == 1
                and isinstance(s0.targets[0], ast.Name)
                and isinstance(s0.value, ast.Call)
                and isinstance(s0.value.func, ast.Name)
                and not s0.value.args and not s0.value.keywords):
            raise Refuse(f'{path}: {name}: first statement `{_src(s0)}`')
        aut = s0.targets[0].id
        callee = s0.value.func.id
        if callee == 'Automaton':
            pass
        else:
            run(callee, depth + 1)
        for s in body[1:-1]:
            ok = False
            if isinstance(s, ast.Assign) and len(s.targets) == 1:
                t, v = s.targets[0], s.value
                k = _key(t)
                at = _attr(t)
                if k and k[0] == aut and k[1] == 'win' and k[2] in ('<>[]', '[]<>') \
                        and isinstance(v, ast.List):
                    d[('win', k[2])] = [const_bdd(e, aut) for e in v.elts]
                    ok = True
                elif at and at[0] == aut and at[1] in ('moore', 'plus_one') \
                        and isinstance(v, ast.Constant) and isinstance(v.value, bool):
                    d[at[1]] = v.value
                    ok = True
                elif at and at[0] == aut and at[1] == 'qinit' \
                        and isinstance(v, ast.Constant) and v.value in QINIT:
                    d['qinit'] = QINIT[v.value]
                    ok = True
                elif at and at[0] == aut and at[1] == 'varlist' \
                        and _src(v) in ('dict(env=list(), sys=list())',
                                        'dict(sys=list(), env=list())'):
                    d[('varlist', 'env')] = d[('varlist', 'sys')] = 'empty'
                    ok = True
            elif isinstance(s, ast.Expr) and isinstance(s.value, ast.Call):
                c = s.value
                f = c.func
                if (isinstance(f, ast.Attribute) and f.attr == 'update'
                        and _attr(f.value) and _attr(f.value)[0] == aut
                        and _attr(f.value)[1] in ('init', 'action')
                        and not c.args
                        and sorted(k.arg or '' for k in c.keywords) == ['env', 'sys']):
                    for k in c.keywords:
                        d[(_attr(f.value)[1], k.arg)] = const_bdd(k.value, aut)
                    ok = True
            if not ok:
                raise Refuse(f'{path}: {name}: unsupported statement `{_src(s)}`')
        r = body[-1]
        if not (isinstance(r, ast.Return) and isinstance(r.value, ast.Name)
                and r.value.id == aut) or len(body) < 2:
            raise Refuse(f'{path}: {name}: must end with `return {aut}`')
    run('default_rabin_automaton')
    need = [('action', 'env'), ('action', 'sys'), ('init', 'env'), ('init', 'sys'),
            ('win', '<>[]'), ('win', '[]<>'), 'moore', 'plus_one', 'qinit',
            ('varlist', 'env'), ('varlist', 'sys')]
    for k in need:
        if k not in d:
            raise Refuse(f'{path}: default_rabin_automaton leaves {k} unset')
    return d


# ----------------------------------------------------------------- gr1.py
class Tr:
    def __init__(self, gr1_path, temporal_path):
        self.path = gr1_path
        with open(gr1_path) as f:
            self.tree = ast.parse(f.read())
        self.temporal_path = temporal_path
        self.aliases = {}     # local name -> module
        for n in self.tree.body:
            if isinstance(n, ast.ImportFrom) and n.level == 0:
                for a in n.names:
                    self.aliases[a.asname or a.name] = f'{n.module}.{a.name}'
            elif isinstance(n, ast.Import):
                for a in n.names:
                    self.aliases[a.asname or a.name.split('.')[0]] = \
                        a.name if a.asname else a.name.split('.')[0]
        self.lines = []
        self.env = {}         # Python local -> Val
        self.used = set()
        self.A = self.B = None
        self.Bf = {}          # B's fields -> Val
        self.Bvarlist = {}
        self.Bmgr = 'own'
        self.Bvars = 'own'
        self.notes = []

    def refuse(self, node, why):
        raise Refuse(f'{self.path}: trivial_winning_set: line '
                     f'{getattr(node, "lineno", "?")}: {why}: `{_src(node)}`')

    def fresh(self, base):
        base = ''.join(ch if ch.isalnum() or ch == '_' else '_' for ch in base)
        if base in COQ_RESERVED or base[0].isdigit():
            base = 'v_' + base
        n, i = base, 0
        while n in self.used or n in COQ_RESERVED:
            i += 1
            n = f'{base}{i}'
        self.used.add(n)
        return n

    # arena and algebra of a world
    def swapped(self, node):
        e, s = self.Bvarlist.get('env'), self.Bvarlist.get('sys')
        if (e, s) == ('sys', 'env'):
            return True
        if (e, s) == ('env', 'sys'):
            return False
        self.refuse(node, "the second automaton's variable lists are not a "
                    "permutation of the first one's (varlist['env'], "
                    f"varlist['sys'] = {e}, {s})")

    def arena(self, world, node):
        if world == 'B' and self.swapped(node):
            return 'nc ny nx'
        return 'nc nx ny'

    def coerce(self, v, world, node):
        if v.ty not in ('bdd', 'bdds') or v.world == world or v.world is None:
            return v.coq
        if not self.swapped(node):
            return v.coq
        return f'(dual {v.coq})' if v.ty == 'bdd' else f'(map dual {v.coq})'

    # ---------------------------------------------------------- expressions
    def expr(self, n, bound=None):
        bound = bound or {}
        if isinstance(n, ast.Name):
            if n.id in bound:
                return bound[n.id]
            if n.id in self.env:
                return self.env[n.id]
            self.refuse(n, 'unknown name')
        if isinstance(n, ast.Constant) and isinstance(n.value, bool):
            return Val('bool', None, 'true' if n.value else 'false')
        k = _key(n)
        if k:
            obj, field, key = k
            if obj == self.A and (field, key) in FIELD:
                return Val(FIELD_TYPE[field], 'A', FIELD[(field, key)])
            if obj == self.B and (field, key) in self.Bf:
                return self.Bf[(field, key)]
            self.refuse(n, 'unsupported field')
        at = _attr(n)
        if at:
            obj, a = at
            if a in ('true', 'false'):
                if obj == self.A:
                    return Val('bdd', 'A', 'b' + a)
                if obj == self.B:
                    return Val('bdd', 'B', 'b' + a, mgr=self.Bmgr)
            if obj == self.A and a in ('moore', 'plus_one'):
                return Val('bool', None, a)
            self.refuse(n, 'unsupported attribute')
        if isinstance(n, ast.UnaryOp) and isinstance(n.op, ast.Invert):
            v = self.expr(n.operand, bound)
            if v.ty != 'bdd':
                self.refuse(n, '`~` of a non-BDD')
            return Val('bdd', v.world,
                       f'(Arena.bnot {self.arena(v.world, n)} {v.coq})', v.mgr)
        if isinstance(n, ast.BinOp) and isinstance(n.op, (ast.BitAnd, ast.BitOr)):
            a, b = self.expr(n.left, bound), self.expr(n.right, bound)
            if a.ty != 'bdd' or b.ty != 'bdd':
                self.refuse(n, 'Boolean operator on a non-BDD')
            if a.mgr != b.mgr:
                self.refuse(n, 'operands from different BDD managers')
            w = 'B' if (a.world, b.world) == ('B', 'B') else 'A'
            op = 'band' if isinstance(n.op, ast.BitAnd) else 'bor'
            return Val('bdd', w, f'(Arena.{op} {self.arena(w, n)} '
                       f'{self.coerce(a, w, n)} {self.coerce(b, w, n)})', a.mgr)
        if isinstance(n, ast.List):
            vs = [self.expr(e, bound) for e in n.elts]
            if not vs or any(v.ty != 'bdd' for v in vs):
                self.refuse(n, 'list of non-BDDs (or empty)')
            if len({v.mgr for v in vs}) != 1:
                self.refuse(n, 'elements from different BDD managers')
            w = vs[0].world if len({v.world for v in vs}) == 1 else 'A'
            return Val('bdds', w, '[' + '; '.join(
                self.coerce(v, w, n) for v in vs) + ']', vs[0].mgr)
        if isinstance(n, ast.ListComp):
            if len(n.generators) != 1:
                self.refuse(n, 'comprehension with several clauses')
            g = n.generators[0]
            if g.ifs or g.is_async or not isinstance(g.target, ast.Name):
                self.refuse(n, 'unsupported comprehension clause')
            it = self.expr(g.iter, bound)
            if it.ty != 'bdds':
                self.refuse(n, 'comprehension over a non-list')
            x = self.fresh(g.target.id)
            b2 = dict(bound)
            b2[g.target.id] = Val('bdd', it.world, x, it.mgr)
            e = self.expr(n.elt, b2)
            if e.ty != 'bdd' or e.world != it.world or e.mgr != it.mgr:
                self.refuse(n, 'comprehension element')
            return Val('bdds', it.world, f'(map (fun {x} => {e.coq}) {it.coq})',
                       it.mgr)
        if (isinstance(n, ast.Subscript) and isinstance(n.slice, ast.UnaryOp)
                and isinstance(n.slice.op, ast.USub)
                and isinstance(n.slice.operand, ast.Constant)
                and n.slice.operand.value == 1):
            v = self.expr(n.value, bound)
            if v.ty != 'bdds':
                self.refuse(n, '[-1] of a non-list')
            self.notes.append(
                f'`{_src(n)}` is `last {v.coq} bfalse` (IndexError on an empty '
                'list is outside the model; the solver loop body runs at least '
                'once, so the list of iterates is never empty)')
            return Val('bdd', v.world, f'(last {v.coq} Arena.bfalse)', v.mgr)
        self.refuse(n, 'unsupported expression')

    def let(self, pyname, v, comment):
        c = self.fresh(pyname)
        self.lines.append(f'  let {c} := {v.coq} in  (* {comment} *)')
        return Val(v.ty, v.world, c, v.mgr)

    # ----------------------------------------------------------- statements
    def solver_call(self, s):
        """`x, _, _ = solve_*_game(aut)` -> (name, Val) or None."""
        if not (isinstance(s, ast.Assign) and len(s.targets) == 1
                and isinstance(s.targets[0], ast.Tuple)
                and isinstance(s.value, ast.Call)
                and isinstance(s.value.func, ast.Name)
                and s.value.func.id in SOLVERS):
            return None
        c = s.value
        tg = s.targets[0].elts
        if (len(tg) != 3 or not all(isinstance(t, ast.Name) for t in tg)
                or tg[1].id != '_' or tg[2].id != '_' or tg[0].id == '_'
                or c.keywords or len(c.args) != 1
                or not isinstance(c.args[0], ast.Name)):
            self.refuse(s, 'unsupported solver call')
        # the solvers must be the module's own top-level functions
        _plain_def_any(self.tree, c.func.id, self.path)
        who = c.args[0].id
        if who == self.A:
            world = 'A'
            args = 'env_action sys_action holds goals moore plus_one'
        elif who == self.B and self.B is not None:
            world = 'B'
            if self.Bmgr != 'A':
                self.refuse(s, 'the second automaton has its own BDD manager')
            if self.Bvars != 'A':
                self.refuse(s, 'the second automaton declares no variables')
            parts = []
            for k in (('action', 'env'), ('action', 'sys'), ('win', '<>[]'),
                      ('win', '[]<>')):
                v = self.Bf[k]
                if v.mgr != 'A':
                    self.refuse(s, f'{k[0]}[{k[1]!r}] of the second automaton '
                                'is a node of another BDD manager')
                parts.append(self.coerce(v, 'B', s))
            for k in ('moore', 'plus_one'):
                parts.append(self.Bf[k].coq)
            args = ' '.join(parts)
        else:
            self.refuse(s, 'solver called on an unknown automaton')
        ty = SOLVERS[c.func.id]
        call = (f'(fst (fst (Gr1Gen.{c.func.id} {self.arena(world, s)} '
                f'{args} fuel)))')
        return tg[0].id, Val(ty, world, call)

    def run(self):
        fn = _plain_def(self.tree, 'trivial_winning_set', 1, self.path)
        self.A = fn.args.args[0].arg
        # the module aliases the body relies on are bound by imports only
        for x in ast.walk(self.tree):
            if isinstance(x, ast.Name) and isinstance(x.ctx, (ast.Store, ast.Del)) \
                    and (x.id == 'copy' or self.aliases.get(x.id) == TEMPORAL):
                raise Refuse(f'{self.path}: module alias `{x.id}` is rebound')
            if isinstance(x, ast.arg) and (
                    x.arg == 'copy' or self.aliases.get(x.arg) == TEMPORAL) \
                    and x in fn.args.args:
                raise Refuse(f'{self.path}: parameter shadows a module alias')
        body = _body(fn)
        ret = None
        for s in body:
            if ret is not None:
                self.refuse(s, 'statement after return')
            for x in ast.walk(s):
                if isinstance(x, (ast.Lambda, ast.Yield, ast.YieldFrom, ast.Await,
                                  ast.NamedExpr, ast.Starred, ast.IfExp)):
                    self.refuse(s, 'unsupported construct')
            if isinstance(s, ast.Return):
                v = s.value
                if not (isinstance(v, ast.Tuple) and len(v.elts) == 2
                        and isinstance(v.elts[1], ast.Name)
                        and v.elts[1].id == self.A):
                    self.refuse(s, 'return value is not `(node, <argument>)`')
                r = self.expr(v.elts[0])
                if r.ty != 'bdd' or r.mgr != 'A':
                    self.refuse(s, 'returned node')
                ret = self.coerce(r, 'A', s)
                continue
            sc = self.solver_call(s)
            if sc:
                name, v = sc
                self.env[name] = self.let(name, v, _cmt(s))
                continue
            if not (isinstance(s, ast.Assign) and len(s.targets) == 1):
                self.refuse(s, 'unsupported statement')
            t, v = s.targets[0], s.value
            # B = trl.default_rabin_automaton()
            if (isinstance(t, ast.Name) and isinstance(v, ast.Call)):
                f = v.func
                if not (self.B is None and isinstance(f, ast.Attribute)
                        and isinstance(f.value, ast.Name)
                        and self.aliases.get(f.value.id) == TEMPORAL
                        and f.attr == 'default_rabin_automaton'
                        and not v.args and not v.keywords and t.id != self.A):
                    self.refuse(s, 'unsupported call')
                self.B = t.id
                d = read_defaults(self.temporal_path)
                for k, val in d.items():
                    if isinstance(k, tuple) and k[0] in ('action', 'init'):
                        self.Bf[k] = Val('bdd', 'B', val, mgr='own')
                    elif isinstance(k, tuple) and k[0] == 'win':
                        self.Bf[k] = Val('bdds', 'B', '[' + '; '.join(val) + ']',
                                         mgr='own')
                    elif k in ('moore', 'plus_one'):
                        self.Bf[k] = Val('bool', None, 'true' if val else 'false')
                    elif k == 'qinit':
                        self.Bf[k] = Val('qinit', None, val)
                self.lines.append(
                    f'  (* {_cmt(s)}: moore={d["moore"]}, plus_one='
                    f'{d["plus_one"]}, qinit={d["qinit"]} (read from '
                    'temporal.py); actions, inits, win lists: nodes of its own '
                    'manager *)')
                continue
            if isinstance(t, ast.Name):
                if t.id in (self.A, self.B) or t.id == '_':
                    self.refuse(s, 'rebinds an automaton')
                val = self.expr(v)
                self.env[t.id] = self.let(t.id, val, _cmt(s))
                continue
            at = _attr(t)
            if at and at[0] == self.B and self.B is not None:
                if at[1] == 'bdd' and _attr(v) == (self.A, 'bdd'):
                    self.Bmgr = 'A'
                    self.lines.append(f'  (* {_cmt(s)} *)')
                    continue
                if at[1] == 'vars' and _src(v) == f'copy.deepcopy({self.A}.vars)' \
                        and self.aliases.get('copy') == 'copy':
                    self.Bvars = 'A'
                    self.lines.append(f'  (* {_cmt(s)} *)')
                    continue
                if at[1] in ('moore', 'plus_one'):
                    val = self.expr(v)
                    if val.ty != 'bool':
                        self.refuse(s, 'mode is not a Boolean')
                    self.Bf[at[1]] = self.let('r_' + at[1], val, _cmt(s))
                    continue
                self.refuse(s, 'unsupported attribute assignment')
            k = _key(t)
            if k and k[0] == self.B and self.B is not None:
                _, field, key = k
                if field == 'varlist' and key in ('env', 'sys'):
                    ok = (isinstance(v, ast.Call) and isinstance(v.func, ast.Name)
                          and v.func.id == 'list' and len(v.args) == 1
                          and not v.keywords and _key(v.args[0])
                          and _key(v.args[0])[0] == self.A
                          and _key(v.args[0])[1] == 'varlist'
                          and _key(v.args[0])[2] in ('env', 'sys'))
                    if not ok:
                        self.refuse(s, 'unsupported variable list')
                    self.Bvarlist[key] = _key(v.args[0])[2]
                    self.lines.append(f'  (* {_cmt(s)} *)')
                    continue
                if (field, key) in FIELD:
                    val = self.expr(v)
                    if val.ty != FIELD_TYPE[field]:
                        self.refuse(s, 'value of the wrong type')
                    self.Bf[(field, key)] = self.let(
                        f'r_{FIELD[(field, key)]}', val, _cmt(s))
                    continue
            self.refuse(s, 'unsupported statement')
        if ret is None:
            raise Refuse(f'{self.path}: trivial_winning_set: no return')
        return ret


def _plain_def_any(tree, name, path):
    top = [n for n in tree.body if isinstance(n, ast.FunctionDef) and n.name == name]
    al = [n for n in ast.walk(tree)
          if isinstance(n, (ast.FunctionDef, ast.AsyncFunctionDef, ast.ClassDef))
          and n.name == name]
    if len(top) != 1 or len(al) != 1:
        raise Refuse(f'{path}: `{name}` is not defined exactly once at top level')
    for n in ast.walk(tree):
        if isinstance(n, ast.Name) and n.id == name and isinstance(n.ctx, ast.Store):
            raise Refuse(f'{path}: `{name}` is rebound')
        if isinstance(n, ast.Global) and name in n.names:
            raise Refuse(f'{path}: `{name}` is rebound')


HEADER = r'''(* GENERATED by tools/py2coq_trivial.py from omega/games/gr1.py
   (trivial_winning_set) and omega/symbolic/temporal.py
   (default_rabin_automaton) in the working tree of /repo.
   Do not edit; regenerated on every check run. *)
From Coq Require Import List Bool Arith.
Import ListNotations.
From Omega Require Import L4.Arena L4.Duality.
From OmegaGen Require Import FixpointGen Gr1Gen.

(* first component of the returned pair (the second is the argument) *)
Definition trivial_winning_set (nc nx ny : nat)
    (env_action sys_action env_init sys_init : bdd) (holds goals : list bdd)
    (moore plus_one : bool) (fuel : nat) : bdd :=
'''

FOOTER = ''


def translate(gr1_path, temporal_path):
    tr = Tr(gr1_path, temporal_path)
    ret = tr.run()
    text = HEADER + '\n'.join(tr.lines) + '\n  ' + ret + '.\n' + FOOTER
    text += ''.join(f'(* note: {n} *)\n' for n in dict.fromkeys(tr.notes))
    return text


if __name__ == '__main__':
    import sys
    repo = sys.argv[1] if len(sys.argv) > 1 else '/repo'
    print(translate(repo + '/omega/games/gr1.py',
                    repo + '/omega/symbolic/temporal.py'))
