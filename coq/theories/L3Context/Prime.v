(* L3 / Prime: model of omega/symbolic/prime.py, the identifier helpers of
   omega/logic/syntax.py and the priming / type-hint methods of
   omega/symbolic/temporal.Automaton (no proofs).

   An Automaton's table contains, for every flexible variable x, a second entry
   x' (x with a trailing apostrophe) with the same declaration
   (symbolic.add_primed_too); rigid constants have no primed twin.

   None models an AssertionError / KeyError of the code. *)
From Coq Require Import ZArith List Bool String Ascii.
From Omega Require Import L0Bits.Bits L3Context.Ctx.
Import ListNotations.
Open Scope Z_scope.

(* ---- omega.logic.syntax ------------------------------------------------------ *)
Definition PRIME : ascii := "'"%char.

Fixpoint str_last (s : string) : option ascii :=
  match s with
  | EmptyString => None
  | String c EmptyString => Some c
  | String _ r => str_last r
  end.

Fixpoint str_removelast (s : string) : string :=
  match s with
  | EmptyString => EmptyString
  | String c EmptyString => EmptyString
  | String c r => String c (str_removelast r)
  end.

(* stx.isprimed: var[-1] == "'" (IndexError on the empty string: false here) *)
Definition isprimed (x : ident) : bool :=
  match str_last x with
  | Some c => Ascii.eqb c PRIME
  | None => false
  end.

(* stx.prime: assert not isprimed(var); var + "'" *)
Definition sprime (x : ident) : option ident :=
  if isprimed x then None else Some (x ++ String PRIME EmptyString)%string.

(* stx.unprime: assert isprimed(var); s = var[:-1]; assert not isprimed(s) *)
Definition sunprime (x : ident) : option ident :=
  if isprimed x then
    let s := str_removelast x in
    if isprimed s then None else Some s
  else None.

Definition declared (t : tbl) (x : ident) : bool :=
  match tlookup x t with Some _ => true | None => false end.

(* prime.is_variable: stx.prime(name) in fol.vars *)
Definition is_variable (t : tbl) (x : ident) : option bool :=
  match sprime x with
  | Some xp => Some (declared t xp)
  | None => None
  end.
Definition is_constant (t : tbl) (x : ident) : option bool :=
  match is_variable t x with Some b => Some (negb b) | None => None end.

(* ---- support classification (prime.py) ---------------------------------------- *)
Definition unprimed_support (t : tbl) (u : pred) : option (list ident) :=
  match ctx_support t u with
  | Some s => Some (filter (fun k => negb (isprimed k)) s)
  | None => None
  end.

Definition primed_support (t : tbl) (u : pred) : option (list ident) :=
  match ctx_support t u with
  | Some s => Some (filter isprimed s)
  | None => None
  end.

(* split_support: (unprimed, primed) with one call of support *)
Definition split_support (t : tbl) (u : pred)
    : option (list ident * list ident) :=
  match ctx_support t u with
  | Some s =>
    let primed := filter isprimed s in
    Some (filter (fun k => negb (mem String.eqb k primed)) s, primed)
  | None => None
  end.

Fixpoint filter_opt {A} (f : A -> option bool) (l : list A) : option (list A) :=
  match l with
  | [] => Some []
  | x :: r =>
    match f x, filter_opt f r with
    | Some true, Some ys => Some (x :: ys)
    | Some false, Some ys => Some ys
    | _, _ => None
    end
  end.

Definition rigid_support (t : tbl) (u : pred) : option (list ident) :=
  match unprimed_support t u with
  | Some s => filter_opt (is_constant t) s
  | None => None
  end.

Definition flexible_support (t : tbl) (u : pred) : option (list ident) :=
  match unprimed_support t u with
  | Some s => filter_opt (is_variable t) s
  | None => None
  end.

(* vars_in_support, including its final assertion *)
Definition vars_in_support (t : tbl) (u : pred) : option (list ident) :=
  match ctx_support t u with
  | None => None
  | Some s =>
    let step := fun (acc : option (list ident)) k =>
      match acc with
      | None => None
      | Some vrs =>
        if isprimed k then
          match sunprime k with
          | Some k' => Some (set_add String.eqb k' vrs)
          | None => None
          end
        else
          match is_variable t k with
          | Some true => Some (set_add String.eqb k vrs)
          | Some false => Some vrs
          | None => None
          end
      end in
    match fold_left step s (Some []), flexible_support t u, primed_support t u with
    | Some vrs, Some fl, Some pr =>
      match map_opt sunprime pr with
      | Some upr =>
        if set_eqb String.eqb vrs (set_union String.eqb fl upr)
        then Some vrs else None
      | None => None
      end
    | _, _, _ => None
    end
  end.

Definition is_state_predicate (t : tbl) (u : pred) : option bool :=
  match ctx_support t u with
  | Some s => Some (negb (existsb isprimed s))
  | None => None
  end.

Definition is_proper_action (t : tbl) (u : pred) : option bool :=
  match ctx_support t u with
  | Some s => Some (existsb isprimed s && existsb (fun k => negb (isprimed k)) s)
  | None => None
  end.

Definition is_primed_state_predicate (t : tbl) (u : pred) : option bool :=
  match unprimed_support t u with
  | Some s =>
    match map_opt (is_variable t) s with
    | Some bs => Some (negb (existsb (fun b => b) bs))
    | None => None
    end
  | None => None
  end.

Definition support_issubset (t : tbl) (u : pred) (vrs : list ident)
    : option bool :=
  match ctx_support t u with
  | Some s => Some (subset String.eqb s vrs)
  | None => None
  end.

(* is_action_of_player, given the unprimed variables [vrs] of the player *)
Definition is_action_of_player (t : tbl) (action : pred) (vrs : list ident)
    : option bool :=
  match primed_support t action, map_opt sprime vrs with
  | Some primed, Some vrs_p => Some (subset String.eqb primed vrs_p)
  | _, _ => None
  end.

(* ---- prime / unprime ------------------------------------------------------------ *)
(* prime.prime *)
Definition prime_pred (t : tbl) (u : pred) : option pred :=
  match ctx_support t u with
  | None => None
  | Some support =>
    if existsb isprimed support then None          (* assert *)
    else
      match filter_opt (is_variable t) support with
      | None => None
      | Some vrs =>
        match map_opt (fun v => match sprime v with
                                | Some vp => Some (v, vp)
                                | None => None
                                end) vrs with
        | Some lt => ctx_let_vars t lt u
        | None => None
        end
      end
  end.

(* prime.unprime *)
Definition unprime_pred (t : tbl) (u : pred) : option pred :=
  match primed_support t u with
  | None => None
  | Some primed_vars =>
    match map_opt (fun s => match sunprime s with
                            | Some s' => Some (s, s')
                            | None => None
                            end) primed_vars with
    | Some lt => ctx_let_vars t lt u
    | None => None
    end
  end.

(* Automaton.replace_with_primed / replace_with_unprimed *)
Definition replace_with_primed (t : tbl) (vrs : list ident) (u : pred)
    : option pred :=
  match map_opt (fun k => match sprime k with
                          | Some kp => Some (k, kp)
                          | None => None
                          end) vrs with
  | Some lt => ctx_let_vars t lt u
  | None => None
  end.

Definition replace_with_unprimed (t : tbl) (vrs : list ident) (u : pred)
    : option pred :=
  match map_opt (fun k => match sprime k with
                          | Some kp => Some (kp, k)
                          | None => None
                          end) vrs with
  | Some lt => ctx_let_vars t lt u
  | None => None
  end.

(* prime.rename_variables: let.update(primed let); aut.let; assert the result's
   support does not meet the keys *)
Definition rename_variables (t : tbl) (lt : list (ident * ident)) (u : pred)
    : option pred :=
  match map_opt (fun kv => match sprime (fst kv), sprime (snd kv) with
                           | Some k, Some v => Some (k, v)
                           | _, _ => None
                           end) lt with
  | None => None
  | Some let_primed =>
    let lt' := dict_update String.eqb lt let_primed in
    match ctx_let_vars t lt' u with
    | None => None
    | Some r =>
      match ctx_support t r with
      | Some support =>
        if existsb (fun k => mem String.eqb k (map fst lt')) support
        then None else Some r
      | None => None
      end
    end
  end.

(* ---- type hints (temporal.py, _type_hints.py, bitvector.type_invariants) --------- *)
(* the meaning of the formula  (a <= x) /\ (x <= b)  for an integer x *)
Definition range_pred (x : ident) (h : hint) (dom : Z * Z) : pred :=
  fun a =>
    match decode_val h (map a (bitnames x (DInt h))) with
    | Some z => (fst dom <=? z) && (z <=? snd dom)
    | None => false
    end.

(* Automaton._type_hints_to_formulas, as the predicate the formula denotes;
   None = KeyError *)
Fixpoint type_hints_pred (t : tbl) (vrs : list ident) (action : bool)
    : option pred :=
  match vrs with
  | [] => Some btrue
  | x :: r =>
    match tlookup x t, type_hints_pred t r action with
    | Some DBool, Some rest => Some rest
    | Some (DInt h), Some rest =>
      if action then
        match sprime x with
        | Some xp =>
          match tlookup xp t with
          | Some (DInt hp) =>
            (* the primed conjunct uses the UNPRIMED variable's dom as bounds *)
            Some (band (range_pred x h (h_dom h))
                    (band (range_pred xp hp (h_dom h)) rest))
          | _ => None
          end
        | None => None
        end
      else Some (band (range_pred x h (h_dom h)) rest)
    | _, _ => None
    end
  end.

Definition type_hint_for t vrs := type_hints_pred t vrs false.
Definition type_action_for t vrs := type_hints_pred t vrs true.

(* _type_hints._conjoin_type_hints *)
Definition conjoin_type_hints t vrs := type_hints_pred t vrs false.

(* Automaton.implies_type_hints *)
Definition implies_type_hints (t : tbl) (u : pred) (vrs : option (list ident))
    : option bool :=
  let vrs := match vrs with
             | Some v => v
             | None => filter (fun x => negb (isprimed x)) (map fst t)
             end in
  match conjoin_type_hints t vrs with
  | Some th => Some (beq (all_bits t) (bor th (bnot u)) btrue)
  | None => None
  end.

(* Automaton tables: declare_variables adds x and x' with the same entry *)
Definition add_flexible (x : ident) (d : vdecl) (t : tbl) : tbl :=
  t ++ [(x, d); ((x ++ String PRIME EmptyString)%string, d)].
Definition add_rigid (x : ident) (d : vdecl) (t : tbl) : tbl := t ++ [(x, d)].
