(* L6 Syntax — prec_determines_tree for the whole expression grammar of the
   parser model (PrecFullSpec.v): LET, junction lists, `<<>>`, `@`,
   quantifiers over expression lists and the module level included. *)
From Coq Require Import List String Ascii NArith Bool Lia Arith.
From Omega Require Import L6Syntax.Tokens L6Syntax.Parser L6Syntax.ParserEqs
  L6Syntax.PrecSpec L6Syntax.ParserProofs L6Syntax.PrecFullSpec.
Import ListNotations.
Local Open Scope string_scope.
Local Open Scope list_scope.

Scheme xt_mind := Induction for xt Sort Prop
  with xdefs_mind := Induction for xdefs Sort Prop
  with xlist_mind := Induction for xlist Sort Prop
  with xjunc_mind := Induction for xjunc Sort Prop.
Combined Scheme x_mutind from xt_mind, xdefs_mind, xlist_mind, xjunc_mind.

Lemma is_ty_true : forall t s, is_ty t s = true <-> tty t = s.
Proof. intros. unfold is_ty. apply String.eqb_eq. Qed.

Lemma tok_eta : forall t, t = Tok (tty t) (tval t).
Proof. destruct t; reflexivity. Qed.

Section Full.
Variable T : ptable.
Hypothesis HokF : table_ok_full T = true.

Local Notation p_expr := (p_expr T).
Local Notation p_nud := (p_nud T).
Local Notation p_led := (p_led T).
Local Notation p_junc := (p_junc T).
Local Notation p_defs := (p_defs T).
Local Notation p_list := (p_list T).
Local Notation xerase := (xerase T).
Local Notation derase := (derase T).
Local Notation lerase := (lerase T).
Local Notation jerase := (jerase T).
Local Notation xwf := (xwf T).
Local Notation dwf := (dwf T).
Local Notation lwf := (lwf T).
Local Notation jwf := (jwf T).
Local Notation xrok := (xrok T).
Local Notation jrok := (jrok T).
Local Notation xfits := (xfits T).
Local Notation xrespects := (xrespects T).
Local Notation drespects := (drespects T).
Local Notation lrespects := (lrespects T).
Local Notation jrespects := (jrespects T).
Local Notation stops := (stops T).
Local Notation tok_stops := (tok_stops T).
Local Notation rule_bind := (rule_bind T).

Lemma Hok : table_ok T = true.
Proof.
  unfold table_ok_full in HokF.
  apply andb_prop in HokF. destruct HokF as [H _].
  apply andb_prop in H. destruct H as [H _].
  apply andb_prop in H. destruct H as [H _]. exact H.
Qed.

Lemma and_pre : pt_pre T "AND" = None.
Proof.
  unfold table_ok_full in HokF.
  apply andb_prop in HokF. destruct HokF as [H _].
  apply andb_prop in H. destruct H as [H _].
  apply andb_prop in H. destruct H as [_ H].
  destruct (pt_pre T "AND"); [discriminate | reflexivity].
Qed.

Lemma or_pre : pt_pre T "OR" = None.
Proof.
  unfold table_ok_full in HokF.
  apply andb_prop in HokF. destruct HokF as [H _].
  apply andb_prop in H. destruct H as [_ H].
  destruct (pt_pre T "OR"); [discriminate | reflexivity].
Qed.

Lemma nonop_full : forall k, In k ["NAME"; "IN_EXPR"] ->
  pt_bin T k = None /\ pt_post T k = None.
Proof.
  intros k Hk. unfold table_ok_full in HokF.
  apply andb_prop in HokF. destruct HokF as [_ H].
  rewrite forallb_forall in H. specialize (H k Hk). apply andb_prop in H.
  destruct H as [H1 H2].
  destruct (pt_bin T k); [discriminate|]. destruct (pt_post T k); [discriminate|]. auto.
Qed.

(* a token that is no operator stops every loop *)
Lemma stops_nonop : forall m t,
  pt_bin T (tty t) = None -> pt_post T (tty t) = None -> tty t <> "TRUNCATE" ->
  stops m (Some t).
Proof.
  intros m t H1 H2 H3. simpl. unfold PrecSpec.tok_stops. rewrite H1, H2.
  destruct (String.eqb_spec (tty t) "TRUNCATE"); [contradiction | reflexivity].
Qed.

Lemma stops_ty : forall m t k, tty t = k ->
  In k (non_operators ++ ["NAME"; "IN_EXPR"]) -> stops m (Some t).
Proof.
  intros m t k E Hk. apply in_app_or in Hk.
  assert (H : pt_bin T k = None /\ pt_post T k = None).
  { destruct Hk as [Hk|Hk]; [apply (Hok_nonop T Hok k Hk) | apply (nonop_full k Hk)]. }
  destruct H as [H1 H2]. apply stops_nonop; rewrite E; try assumption.
  intros ->. simpl in Hk. intuition discriminate.
Qed.

Lemma xfits0 : forall s, xfits 0 s.
Proof. induction s; cbn; auto using can_shift0. Qed.

(* after a closing token everything has finished *)
Lemma xrok_closer : forall o, (forall m, stops m o) -> not_dots o -> not_junc o ->
  (forall s, xrok o s) /\ (forall j, jrok o j).
Proof.
  intros o Hs Hd Hj.
  assert (H : (forall s, xrok o s) /\ (forall d : xdefs, True) /\ (forall l : xlist, True)
              /\ (forall j, jrok o j)).
  { apply x_mutind; cbn; auto. }
  tauto.
Qed.

Lemma xrok_ty : forall t k s, tty t = k ->
  In k (non_operators ++ ["NAME"; "IN_EXPR"]) -> k <> "DOTS" -> xrok (Some t) s.
Proof.
  intros t k s E Hk Hd.
  apply xrok_closer.
  - intros m. apply (stops_ty m t k E Hk).
  - simpl. rewrite E. destruct (String.eqb_spec k "DOTS"); [contradiction | reflexivity].
  - simpl. rewrite E. unfold non_operators in Hk. simpl in Hk.
    repeat (destruct Hk as [Hk|Hk]; [rewrite <- Hk; reflexivity|]). contradiction.
Qed.

(* ---- unfolding equations for the heads of operands ---- *)
Lemma nud_name : forall f t r, tty t = "NAME" ->
  p_nud (S f) (t :: r) = Some (Term KVar (tval t), r).
Proof. intros f [ty v] r H; simpl in H; subst ty; reflexivity. Qed.

Lemma nud_bool : forall f t r, tty t = "TRUE" \/ tty t = "FALSE" ->
  p_nud (S f) (t :: r) = Some (Term KBool (tval t), r).
Proof. intros f [ty v] r [H|H]; simpl in H; subst ty; reflexivity. Qed.

Lemma nud_number : forall f t r, tty t = "NUMBER" ->
  p_nud (S f) (t :: r) = p_number_tail (Term KNum (tval t)) r.
Proof. intros f [ty v] r H; simpl in H; subst ty; reflexivity. Qed.

Lemma nud_minus : forall f t r, tty t = "MINUS" ->
  p_nud (S f) (t :: r) =
  match p_number (t :: r) with
  | Some (n, r1) => p_number_tail n r1
  | None => None
  end.
Proof.
  intros f [ty v] r H; simpl in H; subst ty. rewrite p_nud_eq.
  cbn [is_ty tty String.eqb Ascii.eqb Bool.eqb orb]. cbv iota.
  rewrite (minus_pre T Hok). reflexivity.
Qed.

Lemma nud_str : forall f q1 n q2 r,
  tty q1 = "DQUOTES" -> tty n = "NAME" -> tty q2 = "DQUOTES" ->
  p_nud (S f) (q1 :: n :: q2 :: r) = Some (Term KStr ("""" ++ tval n ++ """"), r).
Proof.
  intros f [t1 v1] [t2 v2] [t3 v3] r H1 H2 H3; simpl in *; subst; reflexivity.
Qed.

Lemma nud_at : forall f t r, tty t = "AT" ->
  p_nud (S f) (t :: r) =
  match p_number r with
  | Some (n, r1) => Some (Opr (tval t) [n], r1)
  | None => None
  end.
Proof. intros f [ty v] r H; simpl in H; subst ty; reflexivity. Qed.

Lemma nud_paren : forall f t r, tty t = "LPAREN" ->
  p_nud (S f) (t :: r) =
  match p_expr f 0 r with
  | Some (e, r1) =>
      match expect "RPAREN" r1 with Some r2 => Some (e, r2) | None => None end
  | None => None
  end.
Proof. intros f [ty v] r H; simpl in H; subst ty; reflexivity. Qed.

Lemma nud_ite : forall f kw lp r, tty kw = "ITE" -> tty lp = "LPAREN" ->
  p_nud (S f) (kw :: lp :: r) =
  match p_expr f 0 r with
  | Some (a, r2) =>
    match expect "COMMA" r2 with
    | Some r3 =>
      match p_expr f 0 r3 with
      | Some (b, r4) =>
        match expect "COMMA" r4 with
        | Some r5 =>
          match p_expr f 0 r5 with
          | Some (c, r6) =>
            match expect "RPAREN" r6 with
            | Some r7 => Some (Opr (tval kw) [a; b; c], r7)
            | None => None
            end
          | None => None
          end
        | None => None
        end
      | None => None
      end
    | None => None
    end
  | None => None
  end.
Proof.
  intros f [ty v] [ty2 v2] r H H2; simpl in H, H2; subst ty ty2; reflexivity.
Qed.

Lemma nud_if : forall f t r, tty t = "IF" ->
  p_nud (S f) (t :: r) =
  match p_expr f 0 r with
  | Some (a, r1) =>
    match expect "THEN" r1 with
    | Some r2 =>
      match p_expr f 0 r2 with
      | Some (b, r3) =>
        match expect "ELSE" r3 with
        | Some r4 =>
          match p_expr f (rule_bind "IF_THEN_ELSE") r4 with
          | Some (c, r5) => Some (Opr "ite" [a; b; c], r5)
          | None => None
          end
        | None => None
        end
      | None => None
      end
    | None => None
    end
  | None => None
  end.
Proof. intros f [ty v] r H; simpl in H; subst ty; reflexivity. Qed.

Lemma nud_let : forall f t r, tty t = "LET" ->
  p_nud (S f) (t :: r) =
  match p_defs f r with
  | Some (ds, r1) =>
    match expect "IN_EXPR" r1 with
    | Some r2 =>
      match p_expr f (rule_bind "LET_IN") r2 with
      | Some (b, r3) => Some (Opr (tval t) [Lst ds; b], r3)
      | None => None
      end
    | None => None
    end
  | None => None
  end.
Proof. intros f [ty v] r H; simpl in H; subst ty; reflexivity. Qed.

Lemma nud_quant : forall f kw r,
  tty kw = "FORALL" \/ tty kw = "EXISTS" ->
  p_nud (S f) (kw :: r) =
  match p_list f r with
  | Some (vs, r1) =>
    match expect "COLON" r1 with
    | Some r2 =>
      match p_expr f (rule_bind "COLON") r2 with
      | Some (b, r3) => Some (Opr (tval kw) [Opr "params" vs; b], r3)
      | None => None
      end
    | None => None
    end
  | None => None
  end.
Proof. intros f [ty v] r [H|H]; simpl in H; subst ty; reflexivity. Qed.

Lemma nud_and : forall f t r, tty t = "AND" ->
  p_nud (S f) (t :: r) =
  match p_expr f (rule_bind "AND") r with
  | Some (x, r1) => p_junc f x r1
  | None => None
  end.
Proof.
  intros f [ty v] r H; simpl in H; subst ty. rewrite p_nud_eq.
  cbn [is_ty tty String.eqb Ascii.eqb Bool.eqb orb]. cbv iota.
  rewrite and_pre. reflexivity.
Qed.

Lemma nud_or : forall f t r, tty t = "OR" ->
  p_nud (S f) (t :: r) =
  match p_expr f (rule_bind "CONJ_LIST") r with
  | Some (x, r1) => p_junc f x r1
  | None => None
  end.
Proof.
  intros f [ty v] r H; simpl in H; subst ty. rewrite p_nud_eq.
  cbn [is_ty tty String.eqb Ascii.eqb Bool.eqb orb]. cbv iota.
  rewrite or_pre. reflexivity.
Qed.

Lemma nud_junc : forall f t r, is_junc_ty (tty t) ->
  p_nud (S f) (t :: r) =
  match p_expr f (jfirst_bind T t) r with
  | Some (x, r1) => p_junc f x r1
  | None => None
  end.
Proof.
  intros f t r [H|H]; unfold jfirst_bind; rewrite H; simpl String.eqb; cbv iota.
  - apply nud_and; assumption.
  - apply nud_or; assumption.
Qed.

Lemma junc_step : forall f j t r, is_junc_ty (tty t) ->
  p_junc (S f) j (t :: r) =
  match p_expr f (jitem_bind T t) r with
  | Some (x, r1) => p_junc f (Bin CBinary (tval t) j x) r1
  | None => None
  end.
Proof.
  intros f j t r H. rewrite p_junc_eq. unfold jitem_bind, is_ty.
  destruct H as [H|H]; rewrite H; reflexivity.
Qed.

Lemma junc_stop : forall f j r, not_junc (hd_error r) ->
  p_junc (S f) j r = Some (j, r).
Proof.
  intros f j [|t r] H; [reflexivity|]. rewrite p_junc_eq. simpl in H. unfold is_ty.
  rewrite H. reflexivity.
Qed.

Lemma led_trunc : forall f m l t r,
  tty t = "TRUNCATE" -> pt_bin T (tty t) = None -> pt_post T (tty t) = None ->
  can_shift m (snd (pt_rule T "TRUNCATE")) = true ->
  p_led (S f) m l (t :: r) =
  match p_number r with
  | Some (n, r1) => p_led f m (Bin CArithmetic (tval t) l n) r1
  | None => None
  end.
Proof.
  intros f m l t r H H1 H2 H3. rewrite p_led_eq, H1, H2. unfold is_ty. rewrite H.
  simpl String.eqb. cbv iota. rewrite H3. reflexivity.
Qed.

Lemma p_number_xnum : forall n rest, xnum_wf n ->
  p_number (xnum_toks n ++ rest) = Some (xnum_tree n, rest).
Proof.
  intros [[ty v]|[ty1 v1] [ty2 v2]] rest H; simpl in H.
  - subst ty. reflexivity.
  - destruct H; subst. reflexivity.
Qed.

Lemma nud_xnum : forall f n rest, xnum_wf n ->
  p_nud (S f) (xnum_toks n ++ rest) = p_number_tail (xnum_tree n) rest.
Proof.
  intros f [n|mi n] rest H; simpl in H.
  - apply nud_number. assumption.
  - destruct H as [H1 H2]. cbn [xnum_toks app]. rewrite (nud_minus _ _ _ H1).
    change (mi :: n :: rest) with (xnum_toks (XNeg mi n) ++ rest).
    rewrite p_number_xnum by (split; assumption). reflexivity.
Qed.

Lemma number_tail_dots : forall n d b rest, tty d = "DOTS" -> xnum_wf b ->
  p_number_tail n (d :: xnum_toks b ++ rest)
  = Some (Bin CBinary (tval d) n (xnum_tree b), rest).
Proof.
  intros n d b rest H Hb. unfold p_number_tail, is_ty. rewrite H. simpl String.eqb.
  cbv iota. rewrite (p_number_xnum b rest Hb). reflexivity.
Qed.

Lemma expect_ty : forall k t r, tty t = k -> expect k (t :: r) = Some r.
Proof. intros k t r H. unfold expect, is_ty. rewrite H, String.eqb_refl. reflexivity. Qed.

Local Notation junc_mono :=
  (fun n => proj1 (proj2 (proj2 (proj2 (mono_all T n))))).
Local Notation defs_mono :=
  (fun n => proj1 (proj2 (proj2 (proj2 (proj2 (mono_all T n)))))).
Local Notation list_mono :=
  (fun n => proj2 (proj2 (proj2 (proj2 (proj2 (mono_all T n)))))).

(* ---- the statements proved by mutual induction ---- *)
Definition P (s : xt) : Prop :=
  xwf s -> xrespects s ->
  forall m rest k res f,
    xfits m s -> xrok (hd_error rest) s ->
    p_led k m (xerase s) rest = Some res -> xcost s + k <= f ->
    p_expr f m (xyield s ++ rest) = Some res.

(* definitions of LET, closed by IN *)
Definition Pd (ds : xdefs) : Prop :=
  dwf ds -> drespects ds ->
  forall i rest f, tty i = "IN_EXPR" -> dcost ds <= f ->
    p_defs f (dyield ds ++ i :: rest) = Some (derase ds, i :: rest).

(* expression lists, closed by a token that ends the last item *)
Definition Pl (l : xlist) : Prop :=
  lwf l -> lrespects l ->
  forall rest f,
    stops 0 (hd_error rest) -> xrok (hd_error rest) (llast l) ->
    match hd_error rest with Some t => is_ty t "COMMA" = false | None => True end ->
    lcost l <= f ->
    p_list f (lyield l ++ rest) = Some (lerase l, rest).

Definition Pj (j : xjunc) : Prop :=
  jwf j -> jrespects j ->
  forall rest k res f,
    jrok (hd_error rest) j ->
    p_junc k (jerase j) rest = Some res -> jcost j + k <= f ->
    p_nud f (jyield j ++ rest) = Some res.

(* reading all of s when the loop stops after it *)
Lemma P_full : forall s, P s -> xwf s -> xrespects s ->
  forall m rest f, xfits m s -> xrok (hd_error rest) s -> stops m (hd_error rest) ->
    xcost s + 1 <= f -> p_expr f m (xyield s ++ rest) = Some (xerase s, rest).
Proof.
  intros s HP W R m rest f Hf Hr Hs Hc.
  apply (HP W R m rest 1 (xerase s, rest) f Hf Hr); [|assumption].
  apply led_stop. assumption.
Qed.

Lemma dyield_hd : forall ds, dwf ds -> exists n r, dyield ds = n :: r /\ tty n = "NAME".
Proof. intros [n d e|n d e r] H; simpl in *; destruct H as [H _]; eauto. Qed.

Lemma yield_all : (forall s, P s) /\ (forall d, Pd d) /\ (forall l, Pl l) /\ (forall j, Pj j).
Proof.
  apply x_mutind.
  - (* XName *)
    intros t W R m rest k res f Hf Hr Hled Hc. cbn in W, R, Hf, Hr, Hled, Hc |- *.
    destruct f as [|[|f]]; try lia. rewrite p_expr_eq, (nud_name _ _ _ W).
    eapply led_mono; [|exact Hled]. lia.
  - (* XBool *)
    intros t W R m rest k res f Hf Hr Hled Hc. cbn in W, R, Hf, Hr, Hled, Hc |- *.
    destruct f as [|[|f]]; try lia. rewrite p_expr_eq, (nud_bool _ _ _ W).
    eapply led_mono; [|exact Hled]. lia.
  - (* XNum *)
    intros n W R m rest k res f Hf Hr Hled Hc. cbn in W, R, Hf, Hr, Hled, Hc |- *.
    destruct f as [|[|f]]; try lia. rewrite p_expr_eq, (nud_xnum _ _ _ W).
    rewrite (number_tail_nodots _ _ Hr).
    eapply led_mono; [|exact Hled]. lia.
  - (* XStr *)
    intros q1 n q2 W R m rest k res f Hf Hr Hled Hc. cbn in W, R, Hf, Hr, Hled, Hc |- *.
    destruct W as [W1 [W2 W3]].
    destruct f as [|[|f]]; try lia. rewrite p_expr_eq, (nud_str _ _ _ _ _ W1 W2 W3).
    eapply led_mono; [|exact Hled]. lia.
  - (* XRange *)
    intros a d b W R m rest k res f Hf Hr Hled Hc. cbn in W, R, Hf, Hr, Hled, Hc |- *.
    destruct W as [W1 [W2 W3]].
    destruct f as [|[|f]]; try lia. rewrite p_expr_eq, <- app_assoc.
    rewrite (nud_xnum _ _ _ W1). cbn [app].
    rewrite (number_tail_dots _ _ _ _ W2 W3).
    eapply led_mono; [|exact Hled]. lia.
  - (* XAt *)
    intros kw n W R m rest k res f Hf Hr Hled Hc. cbn in W, R, Hf, Hr, Hled, Hc |- *.
    destruct W as [W1 W2].
    destruct f as [|[|f]]; try lia. rewrite p_expr_eq, (nud_at _ _ _ W1).
    rewrite (p_number_xnum _ _ W2).
    eapply led_mono; [|exact Hled]. lia.
  - (* XPre *)
    intros t x IHx W R m rest k res f Hf Hr Hled Hc. cbn in W, R, Hf, Hr, Hled, Hc |- *.
    destruct W as [Wp Wx]. destruct R as [Rx Fx]. destruct Hr as [Hst Hrx].
    destruct f as [|[|f]]; try lia. rewrite p_expr_eq.
    unfold pre_pbp in *.
    destruct (pt_pre T (tty t)) as [al|] eqn:Ep; [|congruence].
    rewrite (p_nud_pre T Hok _ _ _ _ Ep).
    rewrite (P_full x IHx Wx Rx (bind_of al) rest f Fx Hrx Hst) by lia.
    eapply led_mono; [|exact Hled]. lia.
  - (* XPost *)
    intros t x IHx W R m rest k res f Hf Hr Hled Hc. cbn in W, R, Hf, Hr, Hled, Hc |- *.
    destruct W as [Wb [Wp Wx]]. destruct R as [Rx Hrx]. destruct Hf as [Hsh Hfx].
    rewrite <- app_assoc. cbn [app].
    apply (IHx Wx Rx m (t :: rest) (S k) res f Hfx Hrx); [|lia].
    unfold post_lv in Hsh.
    destruct (pt_post T (tty t)) as [[[a lv] name]|] eqn:Eq; [|congruence].
    rewrite (p_led_post _ _ _ _ _ _ _ _ _ Wb Eq Hsh). exact Hled.
  - (* XBin *)
    intros t l IHl r IHr W R m rest k res f Hf Hr Hled Hc. cbn in W, R, Hf, Hr, Hled, Hc |- *.
    destruct W as [Wb [Wl Wr]]. destruct R as [Rl [Rr [Hrl Fr]]].
    destruct Hf as [Hsh Hfl]. destruct Hr as [Hst Hrr].
    rewrite <- app_assoc. cbn [app].
    apply (IHl Wl Rl m (t :: xyield r ++ rest) (S (xcost r + S k)) res f Hfl Hrl); [|lia].
    unfold bin_lv, bin_rbp in *.
    destruct (pt_bin T (tty t)) as [[[c a] lv]|] eqn:Eb; [|congruence].
    rewrite (p_led_bin _ _ _ _ _ _ _ _ _ Eb Hsh).
    rewrite (P_full r IHr Wr Rr (bind_of (a, lv)) rest _ Fr Hrr Hst) by lia.
    eapply led_mono; [|exact Hled]. lia.
  - (* XTrunc *)
    intros t x IHx n W R m rest k res f Hf Hr Hled Hc. cbn in W, R, Hf, Hr, Hled, Hc |- *.
    destruct W as [Wt [Wb [Wp [Wx Wn]]]]. destruct R as [Rx Hrx]. destruct Hf as [Hsh Hfx].
    rewrite <- app_assoc. cbn [app].
    apply (IHx Wx Rx m (t :: xnum_toks n ++ rest) (S k) res f Hfx Hrx); [|lia].
    rewrite (led_trunc _ _ _ _ _ Wt Wb Wp Hsh), (p_number_xnum _ _ Wn). exact Hled.
  - (* XParen *)
    intros lp x IHx rp W R m rest k res f Hf Hr Hled Hc. cbn in W, R, Hf, Hr, Hled, Hc |- *.
    destruct W as [Wl [Wx Wr]].
    destruct f as [|[|f]]; try lia. rewrite p_expr_eq, (nud_paren _ _ _ Wl).
    rewrite <- app_assoc. cbn [app].
    rewrite (P_full x IHx Wx R 0%N (rp :: rest) f (xfits0 x)
               (xrok_ty rp "RPAREN" x Wr ltac:(simpl; tauto) ltac:(discriminate))
               (stops_ty 0%N rp "RPAREN" Wr ltac:(simpl; tauto))) by lia.
    rewrite (expect_ty _ _ _ Wr).
    eapply led_mono; [|exact Hled]. lia.
  - (* XIte *)
    intros kw lp a IHa c1 b IHb c2 c IHc rp W R m rest k res f Hf Hr Hled Hc. cbn in W, R, Hf, Hr, Hled, Hc |- *.
    destruct W as [Wk [Wl [Wa [W1 [Wb [W2 [Wc Wr]]]]]]]. destruct R as [Ra [Rb Rc]].
    destruct f as [|[|f]]; try lia. rewrite p_expr_eq, (nud_ite _ _ _ _ Wk Wl).
    repeat (rewrite <- app_assoc; cbn [app]).
    rewrite (P_full a IHa Wa Ra 0%N (c1 :: _) f (xfits0 a)
               (xrok_ty c1 "COMMA" a W1 ltac:(simpl; tauto) ltac:(discriminate))
               (stops_ty 0%N c1 "COMMA" W1 ltac:(simpl; tauto))) by lia.
    rewrite (expect_ty _ _ _ W1).
    rewrite (P_full b IHb Wb Rb 0%N (c2 :: _) f (xfits0 b)
               (xrok_ty c2 "COMMA" b W2 ltac:(simpl; tauto) ltac:(discriminate))
               (stops_ty 0%N c2 "COMMA" W2 ltac:(simpl; tauto))) by lia.
    rewrite (expect_ty _ _ _ W2).
    rewrite (P_full c IHc Wc Rc 0%N (rp :: _) f (xfits0 c)
               (xrok_ty rp "RPAREN" c Wr ltac:(simpl; tauto) ltac:(discriminate))
               (stops_ty 0%N rp "RPAREN" Wr ltac:(simpl; tauto))) by lia.
    rewrite (expect_ty _ _ _ Wr).
    eapply led_mono; [|exact Hled]. lia.
  - (* XIf *)
    intros i a IHa th b IHb el c IHc W R m rest k res f Hf Hr Hled Hc. cbn in W, R, Hf, Hr, Hled, Hc |- *.
    destruct W as [Wi [Wa [Wt [Wb [We Wc]]]]]. destruct R as [Ra [Rb [Rc Fc]]].
    destruct Hr as [Hst Hrc].
    destruct f as [|[|f]]; try lia. rewrite p_expr_eq, (nud_if _ _ _ Wi).
    repeat (rewrite <- app_assoc; cbn [app]).
    rewrite (P_full a IHa Wa Ra 0%N (th :: _) f (xfits0 a)
               (xrok_ty th "THEN" a Wt ltac:(simpl; tauto) ltac:(discriminate))
               (stops_ty 0%N th "THEN" Wt ltac:(simpl; tauto))) by lia.
    rewrite (expect_ty _ _ _ Wt).
    rewrite (P_full b IHb Wb Rb 0%N (el :: _) f (xfits0 b)
               (xrok_ty el "ELSE" b We ltac:(simpl; tauto) ltac:(discriminate))
               (stops_ty 0%N el "ELSE" We ltac:(simpl; tauto))) by lia.
    rewrite (expect_ty _ _ _ We).
    rewrite (P_full c IHc Wc Rc _ rest f Fc Hrc Hst) by lia.
    eapply led_mono; [|exact Hled]. lia.
  - (* XLet *)
    intros kw ds IHd i b IHb W R m rest k res f Hf Hr Hled Hc. cbn in W, R, Hf, Hr, Hled, Hc |- *.
    destruct W as [Wk [Wd [Wi Wb]]]. destruct R as [Rd [Rb Fb]]. destruct Hr as [Hst Hrb].
    destruct f as [|[|f]]; try lia. rewrite p_expr_eq, (nud_let _ _ _ Wk).
    repeat (rewrite <- app_assoc; cbn [app]).
    rewrite (IHd Wd Rd i (xyield b ++ rest) f Wi) by lia.
    rewrite (expect_ty _ _ _ Wi).
    rewrite (P_full b IHb Wb Rb _ rest f Fb Hrb Hst) by lia.
    eapply led_mono; [|exact Hled]. lia.
  - (* XQuant *)
    intros kw vs IHv col b IHb W R m rest k res f Hf Hr Hled Hc. cbn in W, R, Hf, Hr, Hled, Hc |- *.
    destruct W as [Wk [Wv [Wc Wb]]]. destruct R as [Rv [Rb Fb]]. destruct Hr as [Hst Hrb].
    destruct f as [|[|f]]; try lia. rewrite p_expr_eq, (nud_quant _ _ _ Wk).
    repeat (rewrite <- app_assoc; cbn [app]).
    rewrite (IHv Wv Rv (col :: xyield b ++ rest) f
               (stops_ty 0%N col "COLON" Wc ltac:(simpl; tauto))
               (xrok_ty col "COLON" _ Wc ltac:(simpl; tauto) ltac:(discriminate))
               ltac:(simpl; unfold is_ty; rewrite Wc; reflexivity)) by lia.
    rewrite (expect_ty _ _ _ Wc).
    rewrite (P_full b IHb Wb Rb _ rest f Fb Hrb Hst) by lia.
    eapply led_mono; [|exact Hled]. lia.
  - (* XJunc *)
    intros j IHj W R m rest k res f Hf Hr Hled Hc. cbn in *.
    destruct Hr as [Hnj Hrj].
    destruct f as [|f]; try lia. rewrite p_expr_eq.
    rewrite (IHj W R rest 1 (jerase j, rest) f Hrj (junc_stop 0 _ _ Hnj)) by lia.
    eapply led_mono; [|exact Hled]. lia.
  - (* D1 *)
    intros n d e IHe W R i rest f Wi Hc. cbn in *.
    destruct W as [Wn [Wd We]]. destruct R as [Re Fe].
    destruct f as [|f]; try lia. rewrite p_defs_eq.
    unfold is_ty at 1 2. rewrite Wn, Wd. simpl String.eqb. cbn [andb]. cbv iota.
    
    rewrite (P_full e IHe We Re _ (i :: rest) f Fe
               (xrok_ty i "IN_EXPR" e Wi ltac:(simpl; tauto) ltac:(discriminate))
               (stops_ty _ i "IN_EXPR" Wi ltac:(simpl; tauto))) by lia.
    cbv zeta. unfold is_ty. rewrite Wi. reflexivity.
  - (* DS *)
    intros n d e IHe ds IHd W R i rest f Wi Hc. cbn in *.
    destruct W as [Wn [Wd [We Wds]]]. destruct R as [Re [Fe Rds]].
    destruct f as [|f]; try lia. rewrite p_defs_eq.
    unfold is_ty at 1 2. rewrite Wn, Wd. simpl String.eqb. cbn [andb]. cbv iota.
    rewrite <- app_assoc.
    destruct (dyield_hd ds Wds) as [n' [r' [Ey Wn']]].
    rewrite Ey. rewrite <- app_comm_cons.
    rewrite (P_full e IHe We Re _ (n' :: r' ++ i :: rest) f Fe
               (xrok_ty n' "NAME" e Wn' ltac:(simpl; tauto) ltac:(discriminate))
               (stops_ty _ n' "NAME" Wn' ltac:(simpl; tauto))) by lia.
    cbv zeta. unfold is_ty. rewrite Wn'. simpl String.eqb. cbv iota.
    rewrite app_comm_cons, <- Ey.
    rewrite (IHd Wds Rds i rest f Wi) by lia. reflexivity.
  - (* L1 *)
    intros e IHe W R rest f Hs Hr Hcm Hc. cbn in *.
    destruct f as [|f]; try lia. rewrite p_list_eq.
    rewrite (P_full e IHe W R 0%N rest f (xfits0 e) Hr Hs) by lia.
    destruct rest as [|c r]; [reflexivity|]. simpl in Hcm. rewrite Hcm. reflexivity.
  - (* LS *)
    intros e IHe c l IHl W R rest f Hs Hr Hcm Hc. cbn in *.
    destruct W as [We [Wc Wl]]. destruct R as [Re Rl].
    destruct f as [|f]; try lia. rewrite p_list_eq.
    rewrite <- app_assoc. cbn [app].
    rewrite (P_full e IHe We Re 0%N (c :: lyield l ++ rest) f (xfits0 e)
               (xrok_ty c "COMMA" e Wc ltac:(simpl; tauto) ltac:(discriminate))
               (stops_ty 0%N c "COMMA" Wc ltac:(simpl; tauto))) by lia.
    unfold is_ty. rewrite Wc. simpl String.eqb. cbv iota.
    rewrite (IHl Wl Rl rest f Hs Hr Hcm) by lia. reflexivity.
  - (* J1 *)
    intros t x IHx W R rest k res f Hr Hj Hc. cbn in *.
    destruct W as [Wt Wx]. destruct R as [Rx Fx]. destruct Hr as [Hst Hrx].
    destruct f as [|f]; try lia. rewrite (nud_junc _ _ _ Wt).
    rewrite (P_full x IHx Wx Rx _ rest f Fx Hrx Hst) by lia.
    eapply junc_mono; [|exact Hj]. lia.
  - (* JS *)
    intros j IHj t x IHx W R rest k res f Hr Hj Hc. cbn in *.
    destruct W as [Wj [Wt Wx]]. destruct R as [Rj [Hrj [Rx Fx]]]. destruct Hr as [Hst Hrx].
    rewrite <- app_assoc. cbn [app].
    apply (IHj Wj Rj (t :: xyield x ++ rest) (S (xcost x + S k)) res f Hrj); [|lia].
    rewrite (junc_step _ _ _ _ Wt).
    rewrite (P_full x IHx Wx Rx _ rest _ Fx Hrx Hst) by lia.
    eapply junc_mono; [|exact Hj]. lia.
Qed.


Lemma xnum_len : forall n, 1 <= List.length (xnum_toks n).
Proof. destruct n; simpl; lia. Qed.

Lemma cost_bounds :
  (forall s, xcost s + 2 <= 4 * List.length (xyield s)) /\
  (forall d, dcost d + 2 <= 4 * List.length (dyield d)) /\
  (forall l, lcost l <= 4 * List.length (lyield l) + 1) /\
  (forall j, jcost j + 4 <= 4 * List.length (jyield j)).
Proof.
  apply x_mutind; intros; cbn;
    fold xyield dyield lyield jyield xcost dcost lcost jcost;
    repeat (rewrite ?app_length; cbn [List.length]);
    repeat match goal with
           | |- context [xnum_toks ?n] =>
               lazymatch goal with
               | _ : 1 <= List.length (xnum_toks n) |- _ => fail
               | _ => pose proof (xnum_len n)
               end
           end;
    lia.
Qed.

Definition not_def (o : option token) : Prop :=
  match o with
  | Some t => is_ty t "DEF" = false
  | None => True
  end.

Lemma module_start_cons : forall t r,
  is_decl t = false -> is_ty t "NAME" = false -> is_module_start (t :: r) = false.
Proof. intros t r H1 H2. unfold is_module_start. rewrite H1, H2. destruct r; reflexivity. Qed.

Lemma first_tok :
  (forall s, xwf s -> forall rest, not_def (hd_error rest) ->
     is_module_start (xyield s ++ rest) = false) /\
  (forall d : xdefs, True) /\ (forall l : xlist, True) /\
  (forall j, jwf j -> exists t r, jyield j = t :: r /\ is_junc_ty (tty t)).
Proof.
  assert (K : forall t r k, tty t = k -> is_decl (Tok k "") = false ->
                String.eqb k "NAME" = false -> is_module_start (t :: r) = false).
  { intros t r k E H1 H2. apply module_start_cons.
    - unfold is_decl, is_ty in *. simpl in H1. rewrite E. exact H1.
    - unfold is_ty. rewrite E. exact H2. }
  apply x_mutind; try (intros; exact I).
  - intros t W rest Hd. cbn in W. cbn [xyield app].
    destruct rest as [|t' r]; unfold is_module_start, is_decl, is_ty; rewrite W.
    + reflexivity.
    + simpl in Hd. unfold is_ty in Hd. rewrite Hd. reflexivity.
  - intros t W rest Hd. cbn in W. cbn [xyield app].
    destruct W as [W|W]; apply (K _ _ _ W); reflexivity.
  - intros [t|t n] W rest Hd; cbn in W; cbn [xyield xnum_toks app]; [|destruct W as [W _]];
      apply (K _ _ _ W); reflexivity.
  - intros t n q2 [W _] rest Hd. cbn [xyield app]. apply (K _ _ _ W); reflexivity.
  - intros [t|t n] d b [W _] rest Hd; cbn in W; cbn [xyield xnum_toks app];
      [|destruct W as [W _]]; apply (K _ _ _ W); reflexivity.
  - intros t n [W _] rest Hd. cbn [xyield app]. apply (K _ _ _ W); reflexivity.
  - intros t x _ [Wp _] rest Hd. cbn [xyield app].
    apply module_start_cons.
    + apply (decl_false_pre T Hok t Wp).
    + apply (pre_not_kw T Hok t "NAME"); [simpl; tauto | assumption].
  - intros t x IHx [Wb [Wp Wx]] rest Hd. cbn [xyield]. rewrite <- app_assoc.
    apply (IHx Wx). simpl.
    apply (op_not_nonop T Hok t "DEF"); [simpl; tauto | right; assumption].
  - intros t l IHl r _ [Wb [Wl Wr]] rest Hd. cbn [xyield]. rewrite <- app_assoc.
    apply (IHl Wl). simpl.
    apply (op_not_nonop T Hok t "DEF"); [simpl; tauto | left; assumption].
  - intros t x IHx n [Wt [Wb [Wp [Wx Wn]]]] rest Hd. cbn [xyield]. rewrite <- app_assoc.
    apply (IHx Wx). simpl. unfold is_ty. rewrite Wt. reflexivity.
  - intros t x _ rp [W _] rest Hd. cbn [xyield app]. apply (K _ _ _ W); reflexivity.
  - intros t lp a _ c1 b _ c2 c _ rp [W _] rest Hd. cbn [xyield app].
    apply (K _ _ _ W); reflexivity.
  - intros t a _ th b _ el c _ [W _] rest Hd. cbn [xyield app]. apply (K _ _ _ W); reflexivity.
  - intros t ds _ i b _ [W _] rest Hd. cbn [xyield app]. apply (K _ _ _ W); reflexivity.
  - intros t vs _ col b _ [W _] rest Hd. cbn [xyield app].
    destruct W as [W|W]; apply (K _ _ _ W); reflexivity.
  - intros j IHj W rest Hd. cbn in W. cbn [xyield]. fold jyield.
    destruct (IHj W) as [t [r [E Ht]]]. rewrite E. cbn [app].
    destruct Ht as [Ht|Ht]; apply (K _ _ _ Ht); reflexivity.
  - intros t x _ [W _]. cbn. eauto.
  - intros j IHj t x _ [Wj _]. destruct (IHj Wj) as [t' [r [E Ht]]].
    cbn. fold jyield xyield. rewrite E. cbn [app]. eauto.
Qed.

Lemma xrok_None : forall s, xrok None s.
Proof. apply xrok_closer; simpl; auto. Qed.

(* prec_determines_tree, whole expression grammar: for every surface tree
   that groups its operators as the table demands, the parser applied to its
   token sequence returns exactly the tree it denotes. *)
Theorem prec_determines_tree_full : forall s,
  xwf s -> xrespects s -> parse T (xyield s) = Some (xerase s).
Proof.
  intros s W R. unfold parse.
  pose proof (proj1 first_tok s W [] I) as Hm. rewrite app_nil_r in Hm. rewrite Hm.
  assert (H : p_expr (parse_fuel (xyield s)) 0 (xyield s) = Some (xerase s, [])).
  { rewrite <- (app_nil_r (xyield s)) at 2.
    apply (P_full s (proj1 yield_all s) W R 0%N [] _ (xfits0 s) (xrok_None s) I).
    unfold parse_fuel. pose proof (proj1 cost_bounds s). lia. }
  rewrite H. reflexivity.
Qed.

Corollary respecting_tree_unique_full : forall s1 s2,
  xwf s1 -> xrespects s1 -> xwf s2 -> xrespects s2 ->
  xyield s1 = xyield s2 -> xerase s1 = xerase s2.
Proof.
  intros s1 s2 W1 R1 W2 R2 E.
  pose proof (prec_determines_tree_full s1 W1 R1) as H1.
  pose proof (prec_determines_tree_full s2 W2 R2) as H2.
  rewrite E in H1. rewrite H1 in H2. congruence.
Qed.

(* ---- the module level ---- *)
Lemma uyield_nonempty : forall u, exists t r, uyield u = t :: r.
Proof. destruct u; simpl; eauto. Qed.

Lemma units_yield : forall us, us <> [] -> Forall (uwf T) us -> mrespects T us ->
  forall f, mcost us <= f ->
  p_units T f (myield us) = Some (map (uerase T) us, []).
Proof.
  induction us as [|u us IH]; intros Hne W R f Hc; [congruence|].
  inversion W as [|? ? Wu Wus]; subst. destruct R as [Ru [Hrok Rus]].
  cbn [mcost] in Hc.
  assert (Hrest : forall f', mcost us <= f' ->
            match myield us with
            | [] => Some ([uerase T u], myield us)
            | _ :: _ =>
                match p_units T f' (myield us) with
                | Some (us', r2) => Some (uerase T u :: us', r2)
                | None => None
                end
            end = Some (map (uerase T) (u :: us), [])).
  { intros f' Hf'. destruct us as [|u2 us]; [reflexivity|].
    destruct (uyield_nonempty u2) as [t2 [r2 E2]].
    rewrite (IH ltac:(discriminate) Wus Rus f' Hf').
    unfold myield. cbn [flat_map]. rewrite E2. reflexivity. }
  destruct u as [kw vs|n d e].
  - destruct Wu as [Wk Wv]. destruct Hrok as [Hst [Hrl Hcm]]. cbn [urespects] in Ru.
    cbn [ucost] in Hc. destruct f as [|f]; [lia|].
    unfold myield. cbn [flat_map uyield app]. fold (myield us).
    rewrite p_units_eq.
    assert (Hd : is_decl kw = true).
    { unfold is_decl, is_ty. destruct Wk as [Wk|[Wk|[Wk|Wk]]]; rewrite Wk; reflexivity. }
    rewrite Hd.
    rewrite (proj1 (proj2 (proj2 yield_all)) vs Wv Ru (myield us) f Hst Hrl Hcm) by lia.
    apply Hrest. lia.
  - destruct Wu as [Wn [Wd We]]. destruct Hrok as [Hst Hre]. destruct Ru as [Re Fe].
    cbn [ucost] in Hc. destruct f as [|f]; [lia|].
    unfold myield. cbn [flat_map uyield app]. fold (myield us).
    rewrite p_units_eq.
    assert (Hd : is_decl n = false).
    { unfold is_decl, is_ty. rewrite Wn. reflexivity. }
    rewrite Hd. unfold is_ty at 1 2. rewrite Wn, Wd. simpl String.eqb. cbn [andb]. cbv iota.
    rewrite (P_full e (proj1 yield_all e) We Re _ (myield us) f Fe Hre Hst) by lia.
    apply Hrest. lia.
Qed.

Lemma ucost_bound : forall u, ucost u <= 4 * List.length (uyield u).
Proof.
  destruct u as [kw vs|n d e]; cbn [ucost uyield List.length].
  - pose proof (proj1 (proj2 (proj2 cost_bounds)) vs). lia.
  - pose proof (proj1 cost_bounds e). lia.
Qed.

Lemma mcost_bound : forall us, mcost us <= 4 * List.length (myield us).
Proof.
  induction us as [|u us IH]; [simpl; lia|].
  unfold myield in *. cbn [mcost flat_map]. rewrite app_length.
  pose proof (ucost_bound u). lia.
Qed.

Lemma module_start_units : forall us, mwf T us -> is_module_start (myield us) = true.
Proof.
  intros [|u us] [Hne W]; [congruence|]. inversion W as [|? ? Wu _]; subst.
  unfold myield. cbn [flat_map].
  destruct u as [kw vs|n d e]; cbn [uyield app].
  - destruct Wu as [Wk _]. unfold is_module_start, is_decl, is_ty.
    destruct Wk as [Wk|[Wk|[Wk|Wk]]]; rewrite Wk; reflexivity.
  - destruct Wu as [Wn [Wd _]]. unfold is_module_start, is_decl, is_ty.
    rewrite Wn, Wd. reflexivity.
Qed.

(* the module level: declarations and definitions *)
Theorem prec_determines_module : forall us,
  mwf T us -> mrespects T us -> parse T (myield us) = Some (merase T us).
Proof.
  intros us W R. unfold parse. rewrite (module_start_units us W).
  destruct W as [Hne W].
  rewrite (units_yield us Hne W R (parse_fuel (myield us))).
  - reflexivity.
  - unfold parse_fuel. pose proof (mcost_bound us). lia.
Qed.

End Full.
