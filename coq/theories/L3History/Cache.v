(* L3History / Cache: the expression cache of `temporal.Automaton`
   (`_bdd_to_expr`, `_cache_expr`, `_fetch_expr`, `_clear_invalid_cache`)
   over a BDD manager whose node identifiers can be re-bound after garbage
   collection.

   The manager is its set of live nodes, identifier -> denotation.  It is
   canonical: adding an expression returns the live node with that
   denotation if there is one, otherwise it binds an identifier chosen by an
   adversary among those not live (possibly one that was live, and cached,
   before a collection).  Collection drops any set of nodes.

   [X] = expressions, [Dn] = denotations, [sem] the meaning of an
   expression, [deq] semantic equality.  No proofs here (CacheProofs.v). *)
From Coq Require Import List Bool ZArith.
Import ListNotations.

Section Cache.
Variables X Dn : Type.
Variable sem : X -> Dn.
Variable deq : Dn -> Dn -> bool.

Definition uid := Z.

Record st := {
  live : list (uid * Dn);        (* the manager *)
  cache : list (uid * X)         (* `_bdd_to_expr` *)
}.

Definition empty : st := {| live := []; cache := [] |}.

Fixpoint lookup {A} (u : uid) (l : list (uid * A)) : option A :=
  match l with
  | [] => None
  | (k, a) :: l' => if Z.eqb u k then Some a else lookup u l'
  end.

Fixpoint remove_key {A} (u : uid) (l : list (uid * A)) : list (uid * A) :=
  match l with
  | [] => []
  | (k, a) :: l' => if Z.eqb u k then remove_key u l' else (k, a) :: remove_key u l'
  end.

Definition set_key {A} (u : uid) (a : A) (l : list (uid * A)) : list (uid * A) :=
  (u, a) :: remove_key u l.

Fixpoint find_den (d : Dn) (l : list (uid * Dn)) : option uid :=
  match l with
  | [] => None
  | (k, d') :: l' => if deq d d' then Some k else find_den d l'
  end.

(* `self._add_expr(expr)`: the node of the expression; [fresh] is used if a
   node has to be created (None: the adversary's identifier is live, not a
   possible behaviour of a manager) *)
Definition add (s : st) (e : X) (fresh : uid) : option (st * uid) :=
  match find_den (sem e) (live s) with
  | Some k => Some (s, k)
  | None =>
      match lookup fresh (live s) with
      | Some _ => None
      | None => Some ({| live := (fresh, sem e) :: live s; cache := cache s |}, fresh)
      end
  end.

(* `_cache_expr(expr)` *)
Definition cache_expr (s : st) (e : X) (fresh : uid) : option (st * uid) :=
  match add s e fresh with
  | None => None
  | Some (s', u) =>
      Some ({| live := live s'; cache := set_key u e (cache s') |}, u)
  end.

(* `_fetch_expr(u)`: with the re-validation by re-adding the expression *)
Definition fetch (s : st) (u : uid) (fresh : uid) : option (st * option X) :=
  match lookup u (cache s) with
  | None => Some (s, None)
  | Some e =>
      match add s e fresh with
      | None => None
      | Some (s', u') =>
          if Z.eqb u u' then Some (s', Some e)
          else Some ({| live := live s'; cache := remove_key u (cache s') |}, None)
      end
  end.

(* the same without re-validation *)
Definition fetch_unchecked (s : st) (u : uid) : option X := lookup u (cache s).

(* `_clear_invalid_cache()`: every entry is re-added; [freshes] supplies the
   identifiers for nodes that have to be re-created *)
Fixpoint clear_scan (s : st) (entries : list (uid * X)) (freshes : list uid)
    (invalid : list uid) : option (st * list uid) :=
  match entries with
  | [] => Some (s, invalid)
  | (k, e) :: entries' =>
      let fresh := hd 0%Z freshes in
      match add s e fresh with
      | None => None
      | Some (s', u) =>
          clear_scan s' entries'
            (match find_den (sem e) (live s) with Some _ => freshes | None => tl freshes end)
            (if Z.eqb k u then invalid else k :: invalid)
      end
  end.

Definition clear_invalid (s : st) (freshes : list uid) : option st :=
  match clear_scan s (cache s) freshes [] with
  | None => None
  | Some (s', invalid) =>
      Some {| live := live s';
              cache := fold_left (fun c k => remove_key k c) invalid (cache s') |}
  end.

(* garbage collection of the nodes [dead]; any other operation that creates
   a node with denotation d *)
Definition collect (s : st) (dead : list uid) : st :=
  {| live := fold_left (fun l k => remove_key k l) dead (live s); cache := cache s |}.

Definition alloc (s : st) (d : Dn) (fresh : uid) : option (st * uid) :=
  match find_den d (live s) with
  | Some k => Some (s, k)
  | None =>
      match lookup fresh (live s) with
      | Some _ => None
      | None => Some ({| live := (fresh, d) :: live s; cache := cache s |}, fresh)
      end
  end.

Inductive event :=
| ECache (e : X) (fresh : uid)
| EFetch (u : uid) (fresh : uid)
| EClear (freshes : list uid)
| ECollect (dead : list uid)
| EAlloc (d : Dn) (fresh : uid).

Definition estep (s : st) (ev : event) : option st :=
  match ev with
  | ECache e f => option_map fst (cache_expr s e f)
  | EFetch u f => option_map fst (fetch s u f)
  | EClear fs => clear_invalid s fs
  | ECollect dead => Some (collect s dead)
  | EAlloc d f => option_map fst (alloc s d f)
  end.

Fixpoint erun (s : st) (evs : list event) : option st :=
  match evs with
  | [] => Some s
  | ev :: evs' => match estep s ev with Some s' => erun s' evs' | None => None end
  end.

(* observations of a run, for the correspondence check: the result of every
   fetch and the cached identifiers after every event *)
Fixpoint eobserve (s : st) (evs : list event) : option (list (option X * list uid)) :=
  match evs with
  | [] => Some []
  | ev :: evs' =>
      let r := match ev with
               | EFetch u f => match fetch s u f with Some (_, r) => r | None => None end
               | _ => None
               end in
      match estep s ev with
      | None => None
      | Some s' =>
          match eobserve s' evs' with
          | None => None
          | Some l => Some ((r, map fst (cache s')) :: l)
          end
      end
  end.
End Cache.

Arguments ECache {X Dn} e fresh.
Arguments EFetch {X Dn} u fresh.
Arguments EClear {X Dn} freshes.
Arguments ECollect {X Dn} dead.
Arguments EAlloc {X Dn} d fresh.
