(* The generated Streett(1) solver on a game and the generated Rabin(1)
   solver on the opponent's dual game return complementary regions. *)
From Coq Require Import List Bool Arith Lia.
Import ListNotations.
From Omega Require Import L4.Arena L4.ArenaFacts L4.Kleene L4.AlgOrder L4.GameSpec L4.Mu L4.GR1Spec L4.Duality.
From OmegaGen Require Import FixpointGen Gr1Gen.
From OmegaGP Require Import FixpointProofs StreettProofs RabinProofs.

Section DualityGen.
Variables nc nx ny : nat.
Variables E S : bdd.
Variables holds goals : list bdd.
Variables moore plus_one : bool.
Variable fuel : nat.
Hypothesis HfA : NV nc nx ny <= fuel.
Hypothesis HfB : NV nc ny nx <= fuel.

Definition streett_region : bdd :=
  fst (fst (Gr1Gen.solve_streett_game nc nx ny E S holds goals moore plus_one fuel)).
Definition opponent_rabin_region : bdd :=
  last (fst (fst (Gr1Gen.solve_rabin_game nc ny nx (dual S) (dual E)
                    (map Phi goals) (map Phi holds) (negb moore) (negb plus_one) fuel)))
       bfalse.

Lemma solvers_dual : eqv nc ny nx (Phi streett_region) opponent_rabin_region.
Proof.
  unfold streett_region, opponent_rabin_region.
  apply eqv_trans with (Phi (streett_spec nc nx ny moore plus_one E S holds goals)).
  - apply Phi_eqv. apply streett_fixpoint, HfA.
  - apply eqv_trans with
      (rabin_spec nc ny nx (negb moore) (negb plus_one) (dual S) (dual E)
         (map Phi goals) (map Phi holds)).
    + apply streett_rabin_dual.
    + apply eqv_sym. apply rabin_fixpoint, HfB.
Qed.

Lemma solvers_partition v :
  inr nc nx ny v -> streett_region v = negb (opponent_rabin_region (swapV v)).
Proof.
  intros Hv. rewrite <- (solvers_dual (swapV v)).
  - unfold Phi. rewrite swapV_invol, negb_involutive. reflexivity.
  - apply inr_swap. rewrite swapV_invol. exact Hv.
Qed.
End DualityGen.
