(* L6 Syntax — the parser model is parametric in the spelling of operator
   tokens: it inspects token types only.  Hence two token sequences that
   agree in types, in the values of identifiers and numbers, and in the
   class of every other value, parse to trees that are equal up to the class
   of operator names (spellings, all token sequences). *)
From Coq Require Import List String Ascii NArith Bool Lia.
From Omega Require Import L6Syntax.Tokens L6Syntax.Parser L6Syntax.ParserEqs
  L6Syntax.ParserProofs.
Import ListNotations.
Local Open Scope string_scope.

Section Para.
Variable T : ptable.
Variable cls : string -> string.
Hypothesis cls_idem : forall v, cls (cls v) = cls v.

Definition is_termty (ty : string) : bool :=
  String.eqb ty "NAME" || String.eqb ty "NUMBER".

(* replace the value of every non-terminal token by its class *)
Definition g (t : token) : token :=
  Tok (tty t) (if is_termty (tty t) then tval t else cls (tval t)).

Local Notation strip := (strip cls).
Local Notation p_expr := (p_expr T).
Local Notation p_nud := (p_nud T).
Local Notation p_led := (p_led T).
Local Notation p_junc := (p_junc T).
Local Notation p_defs := (p_defs T).
Local Notation p_list := (p_list T).

Definition R2 (o o' : option (tree * list token)) : Prop :=
  match o, o' with
  | Some (t, r), Some (t', r') => strip t = strip t' /\ r' = map g r
  | None, None => True
  | _, _ => False
  end.
Definition RL (o o' : option (list tree * list token)) : Prop :=
  match o, o' with
  | Some (t, r), Some (t', r') => map strip t = map strip t' /\ r' = map g r
  | None, None => True
  | _, _ => False
  end.

Lemma tty_g : forall t, tty (g t) = tty t.
Proof. reflexivity. Qed.
Lemma is_ty_g : forall t s, is_ty (g t) s = is_ty t s.
Proof. reflexivity. Qed.
Lemma tval_g_name : forall t, is_ty t "NAME" = true -> tval (g t) = tval t.
Proof. intros t H. unfold g, is_termty. simpl. unfold is_ty in H. rewrite H. reflexivity. Qed.
Lemma tval_g_number : forall t, is_ty t "NUMBER" = true -> tval (g t) = tval t.
Proof.
  intros t H. unfold g, is_termty. simpl. unfold is_ty in H. rewrite H, orb_true_r. reflexivity.
Qed.
Lemma cls_tval_g : forall t, cls (tval (g t)) = cls (tval t).
Proof. intros t. unfold g. simpl. destruct (is_termty (tty t)); [reflexivity | apply cls_idem]. Qed.

Lemma p_number_g : forall ts,
  match p_number ts, p_number (map g ts) with
  | Some (t, r), Some (t', r') => t = t' /\ r' = map g r
  | None, None => True
  | _, _ => False
  end.
Proof.
  intros [|a r]; [exact I|]. cbn [map]. unfold p_number. rewrite !is_ty_g.
  destruct (is_ty a "NUMBER") eqn:E.
  - rewrite (tval_g_number a E). auto.
  - destruct (is_ty a "MINUS"); [|exact I].
    destruct r as [|n r']; [exact I|]. cbn [map]. rewrite is_ty_g.
    destruct (is_ty n "NUMBER") eqn:En; [|exact I].
    rewrite (tval_g_number n En). auto.
Qed.

Lemma p_number_tail_g : forall n ts,
  R2 (p_number_tail n ts) (p_number_tail n (map g ts)).
Proof.
  intros n [|a r]; [simpl; auto|]. cbn [map]. unfold p_number_tail. rewrite is_ty_g.
  destruct (is_ty a "DOTS"); [|unfold R2; cbn [map]; auto].
  pose proof (p_number_g r) as H.
  destruct (p_number r) as [[x q]|], (p_number (map g r)) as [[x' q']|]; try contradiction;
    [|exact I].
  destruct H; subst. unfold R2. cbn [ParserProofs.strip]. rewrite cls_tval_g. auto.
Qed.

Lemma expect_g : forall ty ts,
  match expect ty ts, expect ty (map g ts) with
  | Some r, Some r' => r' = map g r
  | None, None => True
  | _, _ => False
  end.
Proof.
  intros ty [|a r]; [exact I|]. cbn [map]. unfold expect. rewrite is_ty_g.
  destruct (is_ty a ty); auto.
Qed.

Definition para_at (n : nat) : Prop :=
  (forall m ts, R2 (p_expr n m ts) (p_expr n m (map g ts))) /\
  (forall ts, R2 (p_nud n ts) (p_nud n (map g ts))) /\
  (forall m l l' ts, strip l = strip l' -> R2 (p_led n m l ts) (p_led n m l' (map g ts))) /\
  (forall j j' ts, strip j = strip j' -> R2 (p_junc n j ts) (p_junc n j' (map g ts))) /\
  (forall ts, RL (p_defs n ts) (p_defs n (map g ts))) /\
  (forall ts, RL (p_list n ts) (p_list n (map g ts))).

(* one step of the parallel case analysis *)
Ltac rel_call H :=
  unfold R2, RL in H; cbn [map] in H;
  match type of H with
  | match ?a with _ => _ end =>
      destruct a as [[? ?]|];
      match type of H with
      | match ?b with _ => _ end => destruct b as [[? ?]|]
      end
  end;
  try contradiction; [destruct H as [? ?]; subst | clear H].

Ltac rel_call1 H :=
  cbn [map] in H;
  match type of H with
  | match ?a with _ => _ end =>
      destruct a as [?|];
      match type of H with
      | match ?b with _ => _ end => destruct b as [?|]
      end
  end;
  try contradiction; [subst | clear H].

Ltac scrut IH x :=
  lazymatch x with
  | Parser.p_expr T ?n ?m ?r =>
      let H := fresh "H" in pose proof (proj1 IH m r) as H; rel_call H
  | Parser.p_nud T ?n ?r =>
      let H := fresh "H" in pose proof (proj1 (proj2 IH) r) as H; rel_call H
  | Parser.p_defs T ?n ?r =>
      let H := fresh "H" in
      pose proof (proj1 (proj2 (proj2 (proj2 (proj2 IH)))) r) as H; rel_call H
  | Parser.p_list T ?n ?r =>
      let H := fresh "H" in
      pose proof (proj2 (proj2 (proj2 (proj2 (proj2 IH)))) r) as H; rel_call H
  | p_number ?r =>
      let H := fresh "H" in pose proof (p_number_g r) as H; rel_call H
  | expect ?ty ?r =>
      let H := fresh "H" in pose proof (expect_g ty r) as H; rel_call1 H
  | _ => let E := fresh "E" in destruct x eqn:E;
         try (apply andb_prop in E; destruct E)
  end.

Ltac leaf IH :=
  lazymatch goal with
  | |- R2 None None => exact I
  | |- RL None None => exact I
  | |- R2 (Some _) (Some _) =>
      split; [ cbn [ParserProofs.strip map];
               rewrite ?cls_tval_g, ?tval_g_name, ?tval_g_number by assumption;
               congruence
             | reflexivity ]
  | |- RL (Some _) (Some _) =>
      split; [ cbn [ParserProofs.strip map];
               rewrite ?cls_tval_g, ?tval_g_name, ?tval_g_number by assumption;
               congruence
             | reflexivity ]
  | |- R2 (Parser.p_led T _ _ _ _) (Parser.p_led T _ _ _ _) =>
      apply (proj1 (proj2 (proj2 IH)));
      cbn [ParserProofs.strip map];
      rewrite ?cls_tval_g, ?tval_g_name, ?tval_g_number by assumption; congruence
  | |- R2 (Parser.p_junc T _ _ _) (Parser.p_junc T _ _ _) =>
      apply (proj1 (proj2 (proj2 (proj2 IH))));
      cbn [ParserProofs.strip map];
      rewrite ?cls_tval_g, ?tval_g_name, ?tval_g_number by assumption; congruence
  | |- R2 (p_number_tail _ _) (p_number_tail _ _) =>
      rewrite ?tval_g_number by assumption; apply p_number_tail_g
  end.

Ltac para IH :=
  repeat (
    cbn [map]; rewrite ?is_ty_g, ?tty_g; cbv beta iota;
    first
      [ leaf IH
      | lazymatch goal with
        | |- _ (match ?x with _ => _ end) _ => scrut IH x
        end ]).

Lemma para_all : forall n, para_at n.
Proof.
  induction n as [|n IH].
  - unfold para_at. repeat apply conj; intros; exact I.
  - unfold para_at. repeat apply conj.
    + intros m ts. rewrite !p_expr_eq. para IH.
    + intros ts. rewrite !p_nud_eq. para IH.
    + intros m l l' ts Hl. rewrite !p_led_eq. para IH.
    + intros j j' ts Hj. rewrite !p_junc_eq. para IH.
    + intros ts. rewrite !p_defs_eq. para IH.
    + intros ts. rewrite !p_list_eq. para IH.
Qed.

Lemma is_decl_g : forall t, is_decl (g t) = is_decl t.
Proof. reflexivity. Qed.

Ltac para_units IH IHn :=
  repeat (
    cbn [map]; rewrite ?is_ty_g, ?tty_g, ?is_decl_g; cbv beta iota;
    first
      [ leaf IH
      | lazymatch goal with
        | |- _ (match Parser.p_units T ?n ?r with _ => _ end) _ =>
            let H := fresh "H" in pose proof (IHn r) as H; rel_call H
        | |- _ (match ?x with _ => _ end) _ => scrut IH x
        end ]).

Lemma units_para : forall n ts, RL (p_units T n ts) (p_units T n (map g ts)).
Proof.
  induction n as [|n IHn]; intros ts; [exact I|].
  pose proof (para_all n) as IH.
  rewrite !p_units_eq.
  destruct ts as [|t r]; [exact I|]. cbn [map]. cbv beta iota.
  match goal with
  | |- RL (match ?X with _ => _ end) (match ?Y with _ => _ end) =>
      assert (HU : R2 X Y) by (rewrite ?is_decl_g; para IH);
      destruct X as [[u r1]|], Y as [[u' r1']|]; unfold R2 in HU; try contradiction;
      [destruct HU as [Hu Hr]; subst r1' | exact I]
  end.
  destruct r1 as [|a r1]; cbn [map]; cbv beta iota.
  - split; [cbn [map]; congruence | reflexivity].
  - pose proof (IHn (a :: r1)) as H. rel_call H; [|exact I].
    split; [cbn [map]; congruence | reflexivity].
Qed.

Lemma module_start_g : forall ts, is_module_start (map g ts) = is_module_start ts.
Proof.
  intros [|a [|b r]]; try reflexivity.
Qed.

(* the parser commutes with replacing operator spellings by their class *)
Theorem parse_para : forall ts,
  option_map strip (parse T ts) = option_map strip (parse T (map g ts)).
Proof.
  intros ts. unfold parse. rewrite module_start_g.
  unfold parse_fuel. rewrite map_length.
  destruct (is_module_start ts).
  - pose proof (units_para (4 * Datatypes.length ts + 8) ts) as H.
    destruct (p_units T (4 * Datatypes.length ts + 8) ts) as [[us r]|],
             (p_units T (4 * Datatypes.length ts + 8) (map g ts)) as [[us' r']|];
      unfold RL in H; try contradiction; [|reflexivity].
    destruct H as [Hu Hr]. subst r'. destruct r; cbn [map]; [|reflexivity].
    cbn [option_map ParserProofs.strip]. rewrite Hu. reflexivity.
  - pose proof (proj1 (para_all (4 * Datatypes.length ts + 8)) 0%N ts) as H.
    destruct (Parser.p_expr T (4 * Datatypes.length ts + 8) 0 ts) as [[t r]|],
             (Parser.p_expr T (4 * Datatypes.length ts + 8) 0 (map g ts)) as [[t' r']|];
      unfold R2 in H; try contradiction; [|reflexivity].
    destruct H as [Hu Hr]. subst r'. destruct r; cbn [map]; [|reflexivity].
    cbn [option_map]. rewrite Hu. reflexivity.
Qed.

(* tokens that agree in type, in the value of identifiers and numbers, and
   in the class of any other value *)
Definition tok_sim (a b : token) : Prop :=
  tty a = tty b /\
  (if is_termty (tty a) then tval a = tval b else cls (tval a) = cls (tval b)).

Lemma tok_sim_g : forall a b, tok_sim a b -> g a = g b.
Proof.
  intros [ta va] [tb vb] [Ht Hv]. simpl in *. subst tb. unfold g. simpl.
  destruct (is_termty ta); rewrite Hv; reflexivity.
Qed.

(* spellings, all token sequences: alternative spellings of operators give
   the same tree up to the class of every operator name *)
Theorem spellings_full : forall ts1 ts2,
  Forall2 tok_sim ts1 ts2 ->
  option_map strip (parse T ts1) = option_map strip (parse T ts2).
Proof.
  intros ts1 ts2 H. rewrite (parse_para ts1), (parse_para ts2).
  replace (map g ts2) with (map g ts1); [reflexivity|].
  induction H; simpl; [reflexivity|]. rewrite (tok_sim_g _ _ H), IHForall2. reflexivity.
Qed.

End Para.
