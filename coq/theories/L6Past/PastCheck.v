(* L6Past / PastCheck: executable comparison of the model's translation with
   the translation returned by the real past.translate (parsed by the real
   parser and written as a tform literal), evaluated by vm_compute in the
   correspondence cases.  Definitions only. *)
From Coq Require Import String List Bool NArith.
Import ListNotations.
From Omega Require Import L6Past.PastSyntax L6Past.PastModel.
Open Scope string_scope.

(* what the implementation returned *)
Record impl : Type := mkImpl {
  i_names : list string;
  i_formula : tform;
  i_init : tform;
  i_trans : tform;
  i_win : list tform }.

(* valuations of the user variables vs as bit lists *)
Fixpoint lookup (vs : list string) (bits : list bool) (v : string) : bool :=
  match vs, bits with
  | x :: vs', b :: bits' => if String.eqb x v then b else lookup vs' bits' v
  | _, _ => false
  end.

Fixpoint all_vals (n : nat) : list (list bool) :=
  match n with
  | O => [[]]
  | S m => flat_map (fun l => [false :: l; true :: l]) (all_vals m)
  end.

(* all sequences of length n over the valuations vals *)
Fixpoint all_seqs {A : Type} (vals : list A) (n : nat) : list (list A) :=
  match n with
  | O => [[]]
  | S m => flat_map (fun s => map (fun a => a :: s) vals) (all_seqs vals m)
  end.

Definition sigma_of (vs : list string) (trace : list (list bool)) : nat -> env :=
  fun i => lookup vs (nth i trace []).

Definition subset (a b : list string) : bool :=
  forallb (fun x => mem x b) a.
Definition same_names (a b : list string) : bool :=
  subset a b && subset b a && Nat.eqb (length a) (length b).

(* On one sequence of length n: the model's solution (canon) satisfies the
   implementation's initial condition and transition relation, and the
   implementation's translated formula, the model's translated formula and
   the direct semantics agree at every position. *)
Definition check_trace (f : form) (M : translation) (I : impl)
    (vs : list string) (n : nat) (trace : list (list bool)) : bool :=
  let sigma := sigma_of vs trace in
  let rho := comb (x_names M) sigma (canon (x_testers M) sigma) in
  match n with
  | O => true
  | S m =>
      eval (rho O) (i_init I)
      && eval (rho O) (x_init M)
      && forallb (fun i => evalA (rho i) (rho (S i)) (i_trans I)
                           && evalA (rho i) (rho (S i)) (x_trans M)) (seq 0 m)
      && forallb (fun i =>
                    let s := sem f sigma i in
                    eqb (eval (rho i) (i_formula I)) s
                    && eqb (eval (rho i) (x_formula M)) s) (seq 0 n)
  end.

Definition check_all (fx until : bool) (f : form) (I : impl)
    (vs : list string) (n : nat) : bool :=
  let M := translate fx until f in
  forallb (check_trace f M I vs n) (all_seqs (all_vals (length vs)) n).

Definition check_names (fx until : bool) (f : form) (I : impl) : bool :=
  same_names (i_names I) (x_names (translate fx until f)).

(* direct comparison of solution values shipped from Python for one trace:
   sol is, per position, the values of the implementation's auxiliary
   variables in the order of i_names *)
Definition check_solution (fx until : bool) (f : form) (I : impl)
    (vs : list string) (trace : list (list bool)) (sol : list (list bool))
    (truth : list bool) : bool :=
  let M := translate fx until f in
  let sigma := sigma_of vs trace in
  let alpha := canon (x_testers M) sigma in
  forallb (fun i =>
             Nat.eqb (length (i_names I)) (length (nth i sol []))
             && forallb (fun kv => eqb (alpha i (fst kv)) (snd kv))
                     (combine (i_names I) (nth i sol []))
             && eqb (nth i truth false) (sem f sigma i))
          (seq 0 (length trace)).

(* structural comparison (reported in the evidence, never a failure) *)
Definition same_trees (fx until : bool) (f : form) (I : impl) : bool :=
  let M := translate fx until f in
  tform_eqb (i_formula I) (x_formula M).
