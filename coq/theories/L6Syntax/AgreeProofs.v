(* L6 Syntax — two operator tables that agree (AgreeSpec.tables_agree) on a
   set of token types determine the same trees over those operators. *)
From Coq Require Import List String NArith Bool Lia.
From Omega Require Import L6Syntax.Tokens L6Syntax.Parser L6Syntax.PrecSpec
  L6Syntax.AgreeSpec L6Syntax.ParserProofs.
Import ListNotations.
Local Open Scope string_scope.

Section AgreeP.
Variable T1 T2 : ptable.
Variable S RN : list string.
Hypothesis HA : tables_agree T1 T2 S RN = true.

Local Notation targets := (targets T1 T2 S).
Local Notation sources := (sources T1 T2 S RN).
Local Notation ops_in := (ops_in S RN).

Definition msim (m1 m2 : N) : Prop :=
  forall l, In l targets -> can_shift m1 (fst l) = can_shift m2 (snd l).

Lemma HA_shape : forall ty, In ty S -> shape_agree T1 T2 ty = true.
Proof.
  intros ty H. pose proof HA as A. unfold tables_agree in A.
  apply andb_prop in A. destruct A as [A _]. apply andb_prop in A. destruct A as [A _].
  rewrite forallb_forall in A. auto.
Qed.

Lemma HA_src : forall m, In m sources -> msim (fst m) (snd m).
Proof.
  intros m H. pose proof HA as A. unfold tables_agree in A.
  apply andb_prop in A. destruct A as [A _]. apply andb_prop in A. destruct A as [_ A].
  rewrite forallb_forall in A. specialize (A m H). unfold bind_agree in A.
  rewrite forallb_forall in A. intros l Hl. apply eqb_prop. auto.
Qed.

Lemma mem_str_In : forall k l, In k l -> mem_str k l = true.
Proof.
  induction l as [|a r IH]; simpl; intros H; [contradiction|].
  destruct H as [e|H]; [subst; rewrite String.eqb_refl; reflexivity|].
  rewrite (IH H). apply orb_true_r.
Qed.

Lemma HA_trunc : forall ty, In ty S -> String.eqb ty "TRUNCATE" = false.
Proof.
  intros ty H. pose proof HA as A. unfold tables_agree in A.
  apply andb_prop in A. destruct A as [_ A]. apply negb_true_iff in A.
  destruct (String.eqb_spec ty "TRUNCATE") as [e|]; [|reflexivity]. subst.
  rewrite (mem_str_In _ _ H) in A. discriminate.
Qed.

Lemma msim_use : forall m1 m2 l1 l2, msim m1 m2 -> In (l1, l2) targets ->
  can_shift m1 l1 = can_shift m2 l2.
Proof. intros m1 m2 l1 l2 M H. exact (M (l1, l2) H). Qed.

Lemma msim0 : msim 0 0.
Proof. intros l _. rewrite !can_shift0. reflexivity. Qed.

Lemma in_flat : forall {A B} (f : A -> list B) l x y, In x l -> In y (f x) -> In y (flat_map f l).
Proof. intros. apply in_flat_map. eauto. Qed.

(* infix *)
Lemma bin_agree : forall ty c a l1, In ty S -> pt_bin T1 ty = Some (c, a, l1) ->
  exists l2, pt_bin T2 ty = Some (c, a, l2) /\ In (l1, l2) targets
    /\ In (bind_of (a, l1), bind_of (a, l2)) sources.
Proof.
  intros ty c a l1 Hin H. pose proof (HA_shape ty Hin) as Sh. unfold shape_agree in Sh.
  apply andb_prop in Sh. destruct Sh as [Sh _]. apply andb_prop in Sh. destruct Sh as [Sh _].
  rewrite H in Sh. destruct (pt_bin T2 ty) as [[[c2 a2] l2]|] eqn:E2; simpl in Sh; [|discriminate].
  apply andb_prop in Sh. destruct Sh as [Hc Ha].
  assert (c = c2) by (destruct c, c2; simpl in Hc; congruence).
  assert (a = a2) by (destruct a, a2; simpl in Ha; congruence). subst.
  exists l2. split; [reflexivity|]. split.
  - unfold AgreeSpec.targets. eapply in_flat; [exact Hin|]. rewrite H, E2. simpl. auto.
  - unfold AgreeSpec.sources. apply in_or_app. left.
    eapply in_flat; [exact Hin|]. rewrite H, E2. simpl. auto.
Qed.

Lemma bin_none_agree : forall ty, In ty S -> pt_bin T1 ty = None -> pt_bin T2 ty = None.
Proof.
  intros ty Hin H. pose proof (HA_shape ty Hin) as Sh. unfold shape_agree in Sh.
  apply andb_prop in Sh. destruct Sh as [Sh _]. apply andb_prop in Sh. destruct Sh as [Sh _].
  rewrite H in Sh. destruct (pt_bin T2 ty); [discriminate | reflexivity].
Qed.

(* prefix *)
Lemma pre_agree : forall ty a l1, In ty S -> pt_pre T1 ty = Some (a, l1) ->
  exists l2, pt_pre T2 ty = Some (a, l2)
    /\ In (bind_of (a, l1), bind_of (a, l2)) sources.
Proof.
  intros ty a l1 Hin H. pose proof (HA_shape ty Hin) as Sh. unfold shape_agree in Sh.
  apply andb_prop in Sh. destruct Sh as [Sh _]. apply andb_prop in Sh. destruct Sh as [_ Sh].
  rewrite H in Sh. destruct (pt_pre T2 ty) as [[a2 l2]|] eqn:E2; simpl in Sh; [|discriminate].
  assert (a = a2) by (destruct a, a2; simpl in Sh; congruence). subst.
  exists l2. split; [reflexivity|].
  unfold AgreeSpec.sources. apply in_or_app. left.
  eapply in_flat; [exact Hin|]. rewrite H, E2. apply in_or_app. right. simpl. auto.
Qed.

(* postfix *)
Lemma post_agree : forall ty a l1 name, In ty S -> pt_post T1 ty = Some (a, l1, name) ->
  exists l2, pt_post T2 ty = Some (a, l2, name) /\ In (l1, l2) targets.
Proof.
  intros ty a l1 name Hin H. pose proof (HA_shape ty Hin) as Sh. unfold shape_agree in Sh.
  apply andb_prop in Sh. destruct Sh as [_ Sh].
  rewrite H in Sh. destruct (pt_post T2 ty) as [[[a2 l2] n2]|] eqn:E2; simpl in Sh; [|discriminate].
  apply andb_prop in Sh. destruct Sh as [Ha Hn]. apply String.eqb_eq in Hn.
  assert (a = a2) by (destruct a, a2; simpl in Ha; congruence). subst.
  exists l2. split; [reflexivity|].
  unfold AgreeSpec.targets. eapply in_flat; [exact Hin|]. rewrite H, E2.
  apply in_or_app. right. simpl. auto.
Qed.

Lemma post_none_agree : forall ty, In ty S -> pt_post T1 ty = None -> pt_post T2 ty = None.
Proof.
  intros ty Hin H. pose proof (HA_shape ty Hin) as Sh. unfold shape_agree in Sh.
  apply andb_prop in Sh. destruct Sh as [_ Sh].
  rewrite H in Sh. destruct (pt_post T2 ty); [discriminate | reflexivity].
Qed.

Lemma rule_agree : forall r, In r RN ->
  msim (bind_of (pt_rule T1 r)) (bind_of (pt_rule T2 r)).
Proof.
  intros r H. apply (HA_src (bind_of (pt_rule T1 r), bind_of (pt_rule T2 r))).
  unfold AgreeSpec.sources. apply in_or_app. right.
  apply in_map_iff. exists r. auto.
Qed.

(* the operator loop stops in front of the same tokens *)
Lemma stops_agree : forall m1 m2 t, msim m1 m2 -> In (tty t) S ->
  tok_stops T1 m1 t = tok_stops T2 m2 t.
Proof.
  intros m1 m2 t M Hin. unfold tok_stops.
  destruct (pt_bin T1 (tty t)) as [[[c a] l1]|] eqn:B.
  - destruct (bin_agree _ _ _ _ Hin B) as [l2 [E2 [Ht _]]]. rewrite E2.
    rewrite (msim_use _ _ _ _ M Ht). reflexivity.
  - rewrite (bin_none_agree _ Hin B).
    destruct (pt_post T1 (tty t)) as [[[a l1] name]|] eqn:P.
    + destruct (post_agree _ _ _ _ Hin P) as [l2 [E2 Ht]]. rewrite E2.
      rewrite (msim_use _ _ _ _ M Ht). reflexivity.
    + rewrite (post_none_agree _ Hin P). rewrite (HA_trunc _ Hin). reflexivity.
Qed.

Definition o_in (o : option token) : Prop :=
  match o with Some t => In (tty t) S | None => True end.

Lemma stops_o_agree : forall m1 m2 o, msim m1 m2 -> o_in o ->
  (stops T1 m1 o <-> stops T2 m2 o).
Proof.
  intros m1 m2 [t|] M Ho; simpl; [|tauto]. rewrite (stops_agree _ _ _ M Ho). tauto.
Qed.

Lemma fits_agree : forall s m1 m2, msim m1 m2 -> ops_in s -> wf T1 s ->
  (fits T1 m1 s <-> fits T2 m2 s).
Proof.
  induction s; intros m1 m2 M Ho W; simpl in *; try tauto.
  - destruct Ho as [Hin Hx]. destruct W as [Hb [Hp Wx]].
    unfold post_lv.
    destruct (pt_post T1 (tty t)) as [[[a l1] name]|] eqn:P; [|congruence].
    destruct (post_agree _ _ _ _ Hin P) as [l2 [E2 Ht]]. rewrite E2.
    rewrite (msim_use _ _ _ _ M Ht). simpl. rewrite (IHs m1 m2 M Hx Wx). tauto.
  - destruct Ho as [Hin [Hl Hr]]. destruct W as [Hb [Wl Wr]].
    unfold bin_lv.
    destruct (pt_bin T1 (tty t)) as [[[c a] l1]|] eqn:B; [|congruence].
    destruct (bin_agree _ _ _ _ Hin B) as [l2 [E2 [Ht _]]]. rewrite E2.
    rewrite (msim_use _ _ _ _ M Ht). simpl. rewrite (IHs1 m1 m2 M Hl Wl). tauto.
Qed.

Lemma rok_agree : forall s o, o_in o -> ops_in s -> wf T1 s ->
  (rok T1 o s <-> rok T2 o s).
Proof.
  induction s; intros o Oo Ho W; simpl in *; try tauto.
  - destruct Ho as [Hin Hx]. destruct W as [Hp Wx].
    unfold pre_pbp.
    destruct (pt_pre T1 (tty t)) as [[a l1]|] eqn:P; [|congruence].
    destruct (pre_agree _ _ _ Hin P) as [l2 [E2 Hs]]. rewrite E2.
    rewrite (stops_o_agree _ _ o (HA_src _ Hs) Oo). rewrite (IHs o Oo Hx Wx). tauto.
  - destruct Ho as [Hin [Hl Hr]]. destruct W as [Hb [Wl Wr]].
    unfold bin_rbp.
    destruct (pt_bin T1 (tty t)) as [[[c a] l1]|] eqn:B; [|congruence].
    destruct (bin_agree _ _ _ _ Hin B) as [l2 [E2 [_ Hs]]]. rewrite E2.
    rewrite (stops_o_agree _ _ o (HA_src _ Hs) Oo). rewrite (IHs2 o Oo Hr Wr). tauto.
  - destruct Ho as [Hr [Ha [Hb Hc]]]. destruct W as [Wa [Wb Wc]].
    rewrite (stops_o_agree _ _ o (rule_agree _ Hr) Oo). rewrite (IHs3 o Oo Hc Wc). tauto.
  - destruct Ho as [Hr [Hv Hb]]. destruct W as [_ [_ [_ Wb]]].
    rewrite (stops_o_agree _ _ o (rule_agree _ Hr) Oo). rewrite (IHs o Oo Hb Wb). tauto.
Qed.

Lemma respects_agree : forall s, ops_in s -> wf T1 s ->
  (respects T1 s <-> respects T2 s).
Proof.
  induction s; intros Ho W; simpl in *; try tauto.
  - destruct Ho as [Hin Hx]. destruct W as [Hp Wx].
    unfold pre_pbp.
    destruct (pt_pre T1 (tty t)) as [[a l1]|] eqn:P; [|congruence].
    destruct (pre_agree _ _ _ Hin P) as [l2 [E2 Hs]]. rewrite E2.
    rewrite (IHs Hx Wx). rewrite (fits_agree s _ _ (HA_src _ Hs) Hx Wx). tauto.
  - destruct Ho as [Hin Hx]. destruct W as [Hb [Hp Wx]].
    rewrite (IHs Hx Wx). rewrite (rok_agree s (Some t) Hin Hx Wx). tauto.
  - destruct Ho as [Hin [Hl Hr]]. destruct W as [Hb [Wl Wr]].
    unfold bin_rbp.
    destruct (pt_bin T1 (tty t)) as [[[c a] l1]|] eqn:B; [|congruence].
    destruct (bin_agree _ _ _ _ Hin B) as [l2 [E2 [_ Hs]]]. rewrite E2.
    rewrite (IHs1 Hl Wl), (IHs2 Hr Wr). rewrite (rok_agree s1 (Some t) Hin Hl Wl).
    rewrite (fits_agree s2 _ _ (HA_src _ Hs) Hr Wr). tauto.
  - destruct Ho as [Hr [Ha [Hb Hc]]]. destruct W as [Wa [Wb Wc]].
    rewrite (IHs1 Ha Wa), (IHs2 Hb Wb), (IHs3 Hc Wc).
    rewrite (fits_agree s3 _ _ (rule_agree _ Hr) Hc Wc). tauto.
  - destruct Ho as [Hr [Hv Hb]]. destruct W as [_ [_ [_ Wb]]].
    rewrite (IHs Hb Wb). rewrite (fits_agree s _ _ (rule_agree _ Hr) Hb Wb). tauto.
Qed.

Lemma erase_agree : forall s, ops_in s -> wf T1 s -> erase T1 s = erase T2 s.
Proof.
  induction s; intros Ho W; simpl in *; try reflexivity.
  - destruct Ho as [Hin Hx]. destruct W as [Hp Wx]. rewrite (IHs Hx Wx). reflexivity.
  - destruct Ho as [Hin Hx]. destruct W as [Hb [Hp Wx]].
    destruct (pt_post T1 (tty t)) as [[[a l1] name]|] eqn:P; [|congruence].
    destruct (post_agree _ _ _ _ Hin P) as [l2 [E2 _]]. rewrite E2, (IHs Hx Wx). reflexivity.
  - destruct Ho as [Hin [Hl Hr]]. destruct W as [Hb [Wl Wr]].
    destruct (pt_bin T1 (tty t)) as [[[c a] l1]|] eqn:B; [|congruence].
    destruct (bin_agree _ _ _ _ Hin B) as [l2 [E2 _]].
    rewrite E2, (IHs1 Hl Wl), (IHs2 Hr Wr). reflexivity.
  - auto.
  - destruct Ho as [Ha [Hb Hc]]. destruct W as [_ [Wa [Wb Wc]]].
    rewrite (IHs1 Ha Wa), (IHs2 Hb Wb), (IHs3 Hc Wc). reflexivity.
  - destruct Ho as [_ [Ha [Hb Hc]]]. destruct W as [Wa [Wb Wc]].
    rewrite (IHs1 Ha Wa), (IHs2 Hb Wb), (IHs3 Hc Wc). reflexivity.
  - destruct Ho as [_ [Hv Hb]]. destruct W as [_ [_ [Wv Wb]]].
    rewrite (IHs Hb Wb). f_equal. f_equal. f_equal.
    clear - Hv Wv HA. induction vars as [|v vs IH]; simpl; [reflexivity|].
    inversion Hv; subst. inversion Wv; subst. rewrite IH by assumption. f_equal.
    unfold var_tree. destruct v as [x [t|]]; simpl in *; [|reflexivity].
    destruct H3 as [_ Hp].
    destruct (pt_post T1 (tty t)) as [[[a l1] name]|] eqn:P; [|congruence].
    destruct (post_agree _ _ _ _ H1 P) as [l2 [E2 _]]. rewrite E2. reflexivity.
Qed.

(* the trees the parser (table T1) returns are those determined by T2 *)
Theorem agree_determines_tree : table_ok T1 = true ->
  forall s, ops_in s -> wf T1 s -> respects T2 s ->
  parse T1 (yield s) = Some (erase T2 s).
Proof.
  intros Hok s Ho W R.
  rewrite <- (erase_agree s Ho W).
  apply prec_determines_tree; [assumption | assumption |].
  apply (respects_agree s Ho W). assumption.
Qed.

End AgreeP.
