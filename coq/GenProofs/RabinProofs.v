(* Proofs about solve_rabin_game / _cycle_inside / _attractor_inside as
   GENERATED from omega/games/gr1.py: the last iterate zk[-1] is the
   mu-calculus fixpoint rabin_spec of L4/GR1Spec.v, for every arena, all
   four modes. *)
From Coq Require Import List Bool Arith Lia.
Import ListNotations.
From Omega Require Import L4.Arena L4.ArenaFacts L4.Kleene L4.AlgOrder L4.GameSpec L4.Mu L4.GR1Spec.
From OmegaGen Require Import FixpointGen Gr1Gen.
From OmegaGP Require Import ReadsGr1.
From OmegaGP Require Import FixpointProofs StreettProofs.

Section Rabin.
Variables nc nx ny : nat.
Variables E S : bdd.
Variables holds goals : list bdd.
Variables moore plus_one : bool.

Local Notation le := (le nc nx ny).
Local Notation eqv := (eqv nc nx ny).
Local Notation mono := (mono nc nx ny).
Local Notation NV := (NV nc nx ny).
Local Notation band := (Arena.band nc nx ny).
Local Notation bor := (Arena.bor nc nx ny).
Local Notation loop := (loop nc nx ny).
Local Notation is_lfp := (is_lfp nc nx ny).
Local Notation is_gfp := (is_gfp nc nx ny).
Local Notation op_eqv := (op_eqv nc nx ny).
Local Notation step := (FixpointGen.step nc nx ny moore plus_one).
Local Notation cpre := (GR1Spec.cpre nx ny moore plus_one E S).
Local Notation rX := (rX nc nx ny moore plus_one E S).
Local Notation rX_op := (rX_op nc nx ny moore plus_one E S).
Local Notation rY := (rY nc nx ny moore plus_one E S goals).
Local Notation rY_op := (rY_op nc nx ny moore plus_one E S goals).
Local Notation rZ_op := (rZ_op nc nx ny moore plus_one E S holds goals).
Local Notation ai := (Gr1Gen.attractor_inside nc nx ny E S moore plus_one).
Local Notation ci := (Gr1Gen.cycle_inside nc nx ny E S goals moore plus_one).
Local Notation solve := (Gr1Gen.solve_rabin_game nc nx ny E S holds goals moore plus_one).

Variable fuel : nat.
Hypothesis Hfuel : NV <= fuel.

Lemma step_cpre' T v : step fuel E S T v = cpre T v.
Proof. apply step_spec. Qed.

(* level X: _attractor_inside *)
Definition ai_op (inside goal x : bdd) : bdd :=
  bor (band (bor (step fuel E S x) goal) inside) x.

Lemma fst2 {A B} (D : (A * B) * unit) :
  (let '((x, xr), tt) := D in (x, xr)) = fst D.
Proof. destruct D as [[x xr] []]. reflexivity. Qed.

Lemma ai_x inside goal : fst (ai fuel inside goal) = loop fuel (ai_op inside goal) bfalse.
Proof.
  unfold Gr1Gen.attractor_inside. cbv zeta. rewrite fst2.
  rewrite <- do_while_loop.
  apply (do_while_proj nc nx ny (fun c : bdd * list bdd => fst c)).
  - intros [x xr]. reflexivity.
  - intros [x xr]. reflexivity.
Qed.

Lemma ai_op_eqv inside goal :
  op_eqv (ai_op inside goal) (fun x => bor x (rX_op goal inside x)).
Proof.
  intros q v _. unfold ai_op, GR1Spec.rX_op.
  rewrite !bor_spec, !band_spec, !bor_spec, step_cpre'. apply orb_comm.
Qed.

Theorem ai_is_rX inside goal : eqv (fst (ai fuel inside goal)) (rX goal inside).
Proof.
  rewrite ai_x.
  apply (is_lfp_unique nc nx ny (rX_op goal inside)); [|apply rX_is_lfp].
  apply lfp_accumulate; [apply rX_op_mono|].
  apply (is_lfp_ext nc nx ny (ai_op inside goal)); [apply ai_op_eqv|].
  apply loop_is_lfp; [|exact Hfuel].
  apply (mono_ext nc nx ny _ _ (ai_op_eqv inside goal)). apply acc_mono, rX_op_mono.
Qed.

Lemma rX_eqv_i R i i' : eqv i i' -> eqv (rX R i) (rX R i').
Proof.
  intros H. apply le_antisym; apply rX_mono_i; [apply eqv_le|apply eqv_le']; exact H.
Qed.

(* level Y: _cycle_inside *)
Definition ci_op (g y : bdd) : bdd :=
  fold_left (fun acc goal => band acc (fst (ai fuel (band (step fuel E S y) g) goal)))
    goals y.

Lemma ci_y z hold :
  fst (ci fuel z hold) = loop fuel (ci_op (bor (step fuel E S z) hold)) btrue.
Proof.
  unfold Gr1Gen.cycle_inside. cbv zeta.
  match goal with |- fst (let '(y, xjr) := ?D in (y, xjr)) = _ =>
    assert (Hd : (let '(y, xjr) := D in (y, xjr)) = D) by (destruct D; reflexivity);
    rewrite Hd; clear Hd end.
  rewrite do_while_fst. apply loop_ext. intros y. cbn [fst].
  match goal with |- context [fold_left ?f goals ?a] =>
    set (F := f); set (a0 := a) end.
  assert (Hs : snd (fold_left F goals a0) = ci_op (bor (step fuel E S z) hold) y).
  { unfold ci_op.
    rewrite (fold_left_proj snd F
      (fun acc goal => band acc
         (fst (ai fuel (band (step fuel E S y) (bor (step fuel E S z) hold)) goal)))).
    - reflexivity.
    - intros [xjr y'] goal. unfold F.
      destruct (ai fuel (band (step fuel E S y) (bor (step fuel E S z) hold)) goal)
        as [x xr]. reflexivity. }
  destruct (fold_left F goals a0) as [xjr y']. cbn [fst snd] in *. exact Hs.
Qed.

Definition Kc' (g y : bdd) : bdd :=
  big_and (map (fun R => fst (ai fuel (band (step fuel E S y) g) R)) goals).

Lemma ci_op_spec g y v : ci_op g y v = y v && Kc' g y v.
Proof.
  unfold ci_op, Kc'.
  apply (fold_band_spec nc nx ny (fun R => fst (ai fuel (band (step fuel E S y) g) R))).
Qed.

Lemma Kc'_rY_op g : op_eqv (Kc' g) (rY_op g).
Proof.
  intros q. unfold Kc', GR1Spec.rY_op. apply big_and_eqv. intros R.
  apply eqv_trans with (rX R (band (step fuel E S q) g)); [apply ai_is_rX|].
  apply rX_eqv_i. intros v _. rewrite !band_spec, step_cpre'. reflexivity.
Qed.

Lemma ci_op_eqv g : op_eqv (ci_op g) (fun y => band y (rY_op g y)).
Proof.
  intros q v Hv. rewrite ci_op_spec, band_spec. f_equal. apply Kc'_rY_op, Hv.
Qed.

Lemma loop_ci_is_rY g : eqv (loop fuel (ci_op g) btrue) (rY g).
Proof.
  apply (is_gfp_unique nc nx ny (rY_op g)); [|apply rY_is_gfp].
  apply gfp_accumulate; [apply rY_op_mono|].
  apply (is_gfp_ext nc nx ny (ci_op g)); [apply ci_op_eqv|].
  apply loop_is_gfp; [|exact Hfuel].
  apply (mono_ext nc nx ny _ _ (ci_op_eqv g)). apply dec_mono, rY_op_mono.
Qed.

Lemma rY_eqv g g' : eqv g g' -> eqv (rY g) (rY g').
Proof.
  intros H. apply le_antisym; apply rY_mono; [apply eqv_le|apply eqv_le']; exact H.
Qed.

Theorem ci_is_rY z hold : eqv (fst (ci fuel z hold)) (rY (bor (cpre z) hold)).
Proof.
  rewrite ci_y. apply eqv_trans with (rY (bor (step fuel E S z) hold));
    [apply loop_ci_is_rY|].
  apply rY_eqv. intros v _. rewrite !bor_spec, step_cpre'. reflexivity.
Qed.

(* level Z: solve_rabin_game *)
Definition rz_op (z : bdd) : bdd :=
  fold_left (fun acc hold => bor acc (fst (ci fuel z hold))) holds z.

Definition st4 := (bdd * list bdd * list (list bdd) * list (list (list (list bdd))))%type.

Lemma do_while_post {C X} (P : C -> Prop) (body : C -> C * X) key f c :
  (forall c, P (fst (body c))) -> P (fst (do_while nc nx ny f body key c)).
Proof.
  intros H. revert c. induction f as [|k IH]; intros c; cbn [do_while].
  - destruct (Arena.beq _ _ _ _ _); apply H.
  - destruct (Arena.beq _ _ _ _ _); [apply H|apply IH].
Qed.

Lemma solve_zk_last :
  exists D : st4,
    fst (fst (solve fuel)) = snd (fst (fst D)) /\
    last (snd (fst (fst D))) bfalse = fst (fst (fst D)) /\
    fst (fst (fst D)) = loop fuel rz_op bfalse.
Proof.
  unfold Gr1Gen.solve_rabin_game. cbv zeta.
  match goal with |- context [do_while ?a ?b ?c ?f ?body ?key ?c0] =>
    set (D := do_while a b c f body key c0); set (B := body) in D;
    set (K := key) in D; set (c00 := c0) in D end.
  exists (fst D). split; [|split].
  - destruct D as [[[[z zk] yki] xkijr] []]. reflexivity.
  - unfold D. apply (do_while_post
      (fun c : st4 => last (snd (fst (fst c))) bfalse = fst (fst (fst c)))).
    intros [[[z zk] yki] xkijr]. unfold B. cbn [fst snd].
    destruct (fold_left _ holds _) as [[z' a] b]. cbn [fst snd].
    apply last_last.
  - unfold D. rewrite <- do_while_loop.
    apply (do_while_proj nc nx ny (fun c : st4 => fst (fst (fst c)))).
    + intros [[[z zk] yki] xkijr]. reflexivity.
    + intros [[[z zk] yki] xkijr]. unfold B. cbn [fst snd].
      match goal with |- context [fold_left ?f holds ?a] =>
        set (F := f); set (a0 := a) end.
      assert (Hs : fst (fst (fold_left F holds a0)) = rz_op z).
      { unfold rz_op.
        rewrite (fold_left_proj (fun c : bdd * list (list (list bdd)) * list bdd => fst (fst c)) F
          (fun acc hold => bor acc (fst (ci fuel z hold)))).
        - reflexivity.
        - intros [[z' a] b] hold. unfold F.
          destruct (ci fuel z hold) as [y xjr]. reflexivity. }
      destruct (fold_left F holds a0) as [[z' a] b]. cbn [fst snd] in *. exact Hs.
Qed.

Definition Gr (z : bdd) : bdd := big_or (map (fun P => fst (ci fuel z P)) holds).

Lemma rz_op_spec z v : rz_op z v = z v || Gr z v.
Proof.
  unfold rz_op, Gr. apply (fold_bor_spec nc nx ny (fun P => fst (ci fuel z P))).
Qed.

Lemma Gr_rZ_op : op_eqv Gr rZ_op.
Proof.
  intros q. unfold Gr, GR1Spec.rZ_op. apply big_or_eqv. intros P. apply ci_is_rY.
Qed.

Lemma rz_op_eqv : op_eqv rz_op (fun z => bor z (rZ_op z)).
Proof.
  intros q v Hv. rewrite rz_op_spec, bor_spec. f_equal. apply Gr_rZ_op, Hv.
Qed.

(* the last iterate returned by the generated solver is the fixpoint *)
Theorem rabin_fixpoint :
  eqv (last (fst (fst (solve fuel))) bfalse)
      (rabin_spec nc nx ny moore plus_one E S holds goals).
Proof.
  destruct solve_zk_last as [D [H1 [H2 H3]]]. rewrite H1, H2, H3.
  apply (is_lfp_unique nc nx ny rZ_op); [|apply rabin_spec_is_lfp].
  apply lfp_accumulate; [apply rZ_op_mono|].
  apply (is_lfp_ext nc nx ny rz_op); [apply rz_op_eqv|].
  apply loop_is_lfp; [|exact Hfuel].
  apply (mono_ext nc nx ny _ _ rz_op_eqv). apply acc_mono, rZ_op_mono.
Qed.

End Rabin.
