(* L3 / NamingFacts: the declaration guard keeps the printing of bits injective;
   the unguarded code does not (regression example of finding F15). *)
From Coq Require Import ZArith List Bool String Ascii Lia.
From Omega Require Import L0Bits.Bits L3Context.Ctx L3Context.CtxFacts L3Context.Prime
  L3Context.Naming.
Import ListNotations.

Lemma nodup_str_spec l : nodup_str l = true <-> NoDup l.
Proof.
  induction l as [|x r IH]; cbn [nodup_str].
  - split; [constructor|auto].
  - rewrite andb_true_iff, negb_true_iff, IH. split.
    + intros [H1 H2]. constructor; auto.
      rewrite <- (mem_spec String.eqb string_eqb_spec'). congruence.
    + intro H. inversion H; subst. split; auto.
      apply not_true_is_false. rewrite (mem_spec String.eqb string_eqb_spec'). auto.
Qed.

(* injective printing: distinct declared bits have distinct names *)
Theorem naming_injective_spec t : naming_injective t = true ->
  forall b1 b2, In b1 (all_bits t) -> In b2 (all_bits t) ->
    bit_str t b1 = bit_str t b2 -> NoDup (all_bits t) -> b1 = b2.
Proof.
  unfold naming_injective, bit_names. intros H b1 b2 H1 H2 E ND.
  apply nodup_str_spec in H.
  revert H H1 H2 ND. generalize (all_bits t) as l.
  induction l as [|a l IH]; intros H H1 H2 ND; [destruct H1|].
  cbn [map] in H. inversion H as [|? ? Ha Hl]; subst. inversion ND; subst.
  destruct H1 as [<-|H1], H2 as [<-|H2]; auto.
  - exfalso. apply Ha. rewrite E. apply in_map. auto.
  - exfalso. apply Ha. rewrite <- E. apply in_map. auto.
Qed.

(* Regression (finding F15, unrepaired code): the Boolean b_0 and the integer b
   declared in separate calls were both accepted although bit 0 of b prints as
   "b_0"; with the guard of fixes/F15.patch the second declaration is rejected
   in either order. *)
Example F15_collision_old_code :
  let t := [("b_0"%string, DBool); ("b"%string, DInt (mkHint 2 false (0%Z, 3%Z)))] in
  naming_injective t = false /\
  bit_str t ("b"%string, 0%nat) = bit_str t ("b_0"%string, 0%nat).
Proof. vm_compute. auto. Qed.

Example F15_guard_rejects :
  add_vars_guard [("b_0"%string, DBool)]
                 [("b"%string, DInt (mkHint 2 false (0%Z, 3%Z)))] = false /\
  add_vars_guard [("b"%string, DInt (mkHint 2 false (0%Z, 3%Z)))]
                 [("b_0"%string, DBool)] = false /\
  add_vars_guard [("a"%string, DBool)]
                 [("b"%string, DInt (mkHint 2 false (0%Z, 3%Z)))] = true.
Proof. vm_compute. auto. Qed.

(* names of primed integers carry the prime at the end of the bit name *)
Example int_bitname_examples :
  int_bitname "x"%string 10 = "x_10"%string /\
  int_bitname "x'"%string 3 = "x_3'"%string.
Proof. vm_compute. auto. Qed.
