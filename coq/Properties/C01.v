(* C01 — the generalized Streett(1) winning region.  Statements only.
   Gr1Gen.* is generated from /repo/omega/games/gr1.py on every run.

   What is proved for ALL arenas (any numbers of constant / environment /
   component valuations, i.e. every valuation inside the bit ranges, hinted or
   not), all action pairs (also ones reading the other player's next values),
   all non-empty or empty lists of persistence (holds) and recurrence (goals)
   predicates, all four moore x plus_one modes:

     the region returned by the solver is exactly (as a set of valuations)
        nu Z. /\_j mu Y. \/_k nu X. (P_k /\ cpre X) \/ cpre Y \/ (R_j /\ cpre Z)
     where cpre is the set-level controllable predecessor of C11, and the
     three nested loops stop by convergence (fuel >= |valuations| suffices).

   GAME SEMANTICS (theories/L4/Plays.v .. Determinacy.v): for non-empty lists
   of persistence and recurrence predicates and every in-range state s,

     region(s) = true   <->  the component has a strategy (a function of the
                             history; Moore: not reading the next environment
                             value) such that EVERY infinite play from s that is
                             consistent with it keeps the component's action for
                             as long as the mode obliges it to (strict: while the
                             environment kept its action at all earlier steps;
                             non-strict: also at the current step) and, if the
                             environment keeps its action forever, has some
                             persistence predicate holding from some point on or
                             every recurrence predicate holding infinitely often
                                                   (C01_region_is_winning_region)
     region(s) = false   ->  the environment has a strategy (seeing the
                             component's next value iff the component is Moore)
                             against which NO play from s satisfies that
                             objective            (C01_outside_environment_wins)

   No winning valuation is missing and no losing one is included.  The winning
   strategy is built from the ranks of the fixpoint (StreettStrategy.v), the
   environment's from the Rabin(1) strategy of the dual game (RabinStrategy.v,
   Duality.v).  These two theorems depend on the standard-library axiom
   Classical_Prop.classic (infinite plays; see Print Assumptions below); the
   fixpoint theorems are axiom-free. *)
From Coq Require Import List Bool Arith Lia.
From Omega Require Import L4.Arena L4.Kleene L4.GameSpec L4.Mu L4.GR1Spec L4.Plays L4.Determinacy.
From OmegaGen Require Import FixpointGen Gr1Gen.
From OmegaGP Require Import FixpointProofs StreettProofs GameSemantics.

Section C01.
Variables nc nx ny : nat.
Variables E S : bdd.
Variables holds goals : list bdd.
Variables moore plus_one : bool.
Local Notation eqv := (eqv nc nx ny).
Local Notation NV := (NV nc nx ny).
Local Notation spec := (streett_spec nc nx ny moore plus_one E S holds goals).

Theorem C01_streett_fixpoint_exact : forall fuel, NV <= fuel ->
  eqv (fst (fst (Gr1Gen.solve_streett_game nc nx ny E S holds goals moore plus_one fuel)))
      spec.
Proof. exact (streett_fixpoint nc nx ny E S holds goals moore plus_one). Qed.

(* the specification means what it says: each level is the greatest / least
   fixed point of its (monotone) operator *)
Theorem C01_spec_outer_is_greatest_fixpoint :
  is_gfp nc nx ny (sZ_op nc nx ny moore plus_one E S holds goals) spec.
Proof. exact (streett_spec_is_gfp nc nx ny moore plus_one E S holds goals). Qed.

Theorem C01_spec_middle_is_least_fixpoint : forall g,
  is_lfp nc nx ny (sY_op nc nx ny moore plus_one E S holds g)
         (sY nc nx ny moore plus_one E S holds g).
Proof. exact (sY_is_lfp nc nx ny moore plus_one E S holds). Qed.

Theorem C01_spec_inner_is_greatest_fixpoint : forall P u,
  is_gfp nc nx ny (sX_op nc nx ny moore plus_one E S P u)
         (sX nc nx ny moore plus_one E S P u).
Proof. exact (sX_is_gfp nc nx ny moore plus_one E S). Qed.

(* ---- game semantics ---- *)
Theorem C01_region_is_winning_region : forall c fuel s,
  c < nc -> 0 < length goals -> 0 < length holds -> NV <= fuel ->
  fst s < nx -> snd s < ny ->
  (fst (fst (Gr1Gen.solve_streett_game nc nx ny E S holds goals moore plus_one fuel))
     (stv c s) = true
   <-> comp_wins nx ny moore (win_streett c E S holds goals plus_one) s).
Proof.
  intros c fuel s Hc HR HP Hf.
  exact (streett_solved_exact nc nx ny E S holds goals moore plus_one c Hc HR HP fuel Hf s).
Qed.

Theorem C01_outside_environment_wins : forall c fuel s,
  c < nc -> 0 < length goals -> 0 < length holds -> NV <= fuel ->
  fst s < nx -> snd s < ny ->
  fst (fst (Gr1Gen.solve_streett_game nc nx ny E S holds goals moore plus_one fuel))
    (stv c s) = false ->
  env_prevents nx ny moore (win_streett c E S holds goals plus_one) s.
Proof.
  intros c fuel s Hc HR HP Hf.
  exact (streett_solved_complete nc nx ny E S holds goals moore plus_one c Hc HR HP fuel Hf s).
Qed.

(* the same for the specification itself *)
Theorem C01_spec_is_winning_region : forall c s,
  c < nc -> 0 < length goals -> 0 < length holds -> fst s < nx -> snd s < ny ->
  (spec (stv c s) = true <-> comp_wins nx ny moore (win_streett c E S holds goals plus_one) s).
Proof.
  intros c s Hc HR HP.
  exact (streett_region_exact nc nx ny moore plus_one E S holds goals c Hc HR HP s).
Qed.

(* "the environment prevents W" is not a vacuous notion: no state is won by
   both players (the two strategies are played against each other) *)
Theorem C01_not_both_win : forall W s,
  fst s < nx -> snd s < ny ->
  comp_wins nx ny moore W s -> env_prevents nx ny moore W s -> False.
Proof. intros W s. exact (not_both nx ny moore W s). Qed.

End C01.

Import ListNotations.
Local Open Scope bool_scope.
(* non-vacuity: a 2x2 game with both winning and losing states *)
Example C01_region_example :
  let E : bdd := fun v => true in
  let S : bdd := fun v => Nat.eqb (vyp v) (vy v) in        (* y never changes *)
  let P : bdd := fun v => false in
  let R : bdd := fun v => Nat.eqb (vy v) 1 in              (* []<> (y = 1) *)
  map (fun s => fst (fst (Gr1Gen.solve_streett_game 1 2 2 E S [P] [R] false true 20))
                  (stv 0 s)) [(0, 0); (0, 1); (1, 0); (1, 1)]
  = [false; true; false; true] /\ Kleene.NV 1 2 2 <= 20.
Proof. vm_compute. split; [reflexivity|repeat constructor]. Qed.

Print Assumptions C01_region_is_winning_region.
Print Assumptions C01_outside_environment_wins.
Print Assumptions C01_spec_is_winning_region.
Print Assumptions C01_streett_fixpoint_exact.
Print Assumptions C01_spec_outer_is_greatest_fixpoint.
Print Assumptions C01_spec_middle_is_least_fixpoint.
Print Assumptions C01_spec_inner_is_greatest_fixpoint.
Print Assumptions C01_not_both_win.
