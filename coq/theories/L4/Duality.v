(* L4 / Duality: the Streett(1) region of one player is the complement of the
   Rabin(1) region of the opponent for the complemented liveness condition,
   roles swapped, Moore <-> Mealy, strict <-> non-strict implication.

   The opponent's arena is the same arena read through [swapV] (environment
   and component coordinates exchanged); [Phi q] = complement of q read
   through swapV is an order-reversing bijection between the two arenas that
   commutes with the controllable predecessors, hence maps greatest to least
   fixpoints level by level. *)
From Coq Require Import List Bool Arith Lia.
Import ListNotations.
From Omega Require Import L4.Arena L4.ArenaFacts L4.Kleene L4.AlgOrder L4.GameSpec L4.Mu L4.GR1Spec.

Definition swapV (v : V) : V := mkV (vc v) (vy v) (vx v) (vyp v) (vxp v).
Definition dual (u : bdd) : bdd := fun v => u (swapV v).
Definition Phi (u : bdd) : bdd := fun v => negb (u (swapV v)).

Lemma swapV_invol v : swapV (swapV v) = v.
Proof. destruct v; reflexivity. Qed.

Lemma Phi_Phi u v : Phi (Phi u) v = u v.
Proof. unfold Phi. rewrite swapV_invol, negb_involutive. reflexivity. Qed.

Lemma negb_forallb {A} (f : A -> bool) l :
  negb (forallb f l) = existsb (fun a => negb (f a)) l.
Proof. induction l as [|a l IH]; cbn; [reflexivity|]. rewrite negb_andb, IH. reflexivity. Qed.
Lemma negb_existsb {A} (f : A -> bool) l :
  negb (existsb f l) = forallb (fun a => negb (f a)) l.
Proof. induction l as [|a l IH]; cbn; [reflexivity|]. rewrite negb_orb, IH. reflexivity. Qed.

Section Duality.
Variables nc nx ny : nat.
Variables moore plus_one : bool.
Variables E S : bdd.

(* arena A = (nc, nx, ny), arena B = (nc, ny, nx) *)
Local Notation leA := (le nc nx ny).
Local Notation leB := (le nc ny nx).
Local Notation eqvA := (eqv nc nx ny).
Local Notation eqvB := (eqv nc ny nx).
Local Notation cpreA := (GR1Spec.cpre nx ny moore plus_one E S).
Local Notation cpreB := (GR1Spec.cpre ny nx (negb moore) (negb plus_one) (dual S) (dual E)).

Lemma inr_swap v : inr nc ny nx v <-> inr nc nx ny (swapV v).
Proof.
  unfold inr, in_range, swapV. cbn [vc vx vy vxp vyp].
  repeat rewrite andb_true_iff. tauto.
Qed.

Lemma Phi_antitone a b : leA a b -> leB (Phi b) (Phi a).
Proof.
  intros H v Hv. unfold Phi. apply inr_swap in Hv.
  destruct (a (swapV v)) eqn:Ea; [|reflexivity].
  rewrite (H _ Hv Ea). discriminate.
Qed.
Lemma Phi_eqv a b : eqvA a b -> eqvB (Phi a) (Phi b).
Proof. intros H v Hv. unfold Phi. apply inr_swap in Hv. rewrite (H _ Hv). reflexivity. Qed.

(* the same map in the other direction *)
Lemma inr_swap' v : inr nc nx ny v <-> inr nc ny nx (swapV v).
Proof.
  unfold inr, in_range, swapV. cbn [vc vx vy vxp vyp].
  repeat rewrite andb_true_iff. tauto.
Qed.
Lemma Phi_antitone' a b : leB a b -> leA (Phi b) (Phi a).
Proof.
  intros H v Hv. unfold Phi. apply inr_swap' in Hv.
  destruct (a (swapV v)) eqn:Ea; [|reflexivity].
  rewrite (H _ Hv Ea). discriminate.
Qed.

(* controllable predecessors commute with Phi *)
Lemma cpre_Phi T v : cpreB (Phi T) v = Phi (cpreA T) v.
Proof.
  unfold GR1Spec.cpre, cpre_spec, phi, Phi, dual, swapV.
  destruct v as [c x y xp yp]. cbn [vc vx vy vxp vyp].
  destruct moore, plus_one; cbn [negb].
  all: rewrite ?negb_forallb, ?negb_existsb.
  all: repeat (first [apply forallb_ext'; intro | apply existsb_ext'; intro]).
  all: rewrite ?negb_forallb, ?negb_existsb.
  all: repeat (first [apply forallb_ext'; intro | apply existsb_ext'; intro]).
  all: timeout 20 (repeat match goal with |- context [?f (mkV ?a ?b ?c ?d ?e)] =>
         is_var f; destruct (f (mkV a b c d e)) end; reflexivity).
Qed.

(* transport of fixpoints along Phi *)
Lemma Phi_gfp_lfp f g r :
  mono nc nx ny f -> mono nc ny nx g ->
  (forall q, eqvB (g (Phi q)) (Phi (f q))) ->
  is_gfp nc nx ny f r -> is_lfp nc ny nx g (Phi r).
Proof.
  intros Mf Mg H [Er Lr]. split.
  - apply eqv_trans with (Phi (f r)); [apply H|apply Phi_eqv, Er].
  - intros p Hp. (* Phi r <= p  <=  Phi p <= r *)
    assert (Hpr : leA (Phi p) r).
    { apply Lr. (* Phi p <= f (Phi p) *)
      assert (H1 : eqvB (g (Phi (Phi p))) (Phi (f (Phi p)))) by apply H.
      assert (H2 : eqvB (g (Phi (Phi p))) (g p)).
      { apply mono_eqv; [exact Mg|]. intros v _. apply Phi_Phi. }
      (* Phi (f (Phi p)) == g p <= p  ==>  Phi p <= Phi (Phi (f (Phi p))) == f (Phi p) *)
      assert (H3 : leB (Phi (f (Phi p))) p).
      { apply le_trans with (g p); [|exact Hp].
        apply eqv_le. apply eqv_trans with (g (Phi (Phi p))); [apply eqv_sym, H1|exact H2]. }
      apply Phi_antitone' in H3.
      intros v Hv Hpv. specialize (H3 v Hv Hpv). rewrite Phi_Phi in H3. exact H3. }
    apply Phi_antitone in Hpr. intros v Hv Hrv. specialize (Hpr v Hv Hrv).
    rewrite Phi_Phi in Hpr. exact Hpr.
Qed.

Lemma Phi_lfp_gfp f g r :
  mono nc nx ny f -> mono nc ny nx g ->
  (forall q, eqvB (g (Phi q)) (Phi (f q))) ->
  is_lfp nc nx ny f r -> is_gfp nc ny nx g (Phi r).
Proof.
  intros Mf Mg H [Er Lr]. split.
  - apply eqv_trans with (Phi (f r)); [apply H|apply Phi_eqv, Er].
  - intros p Hp.
    assert (Hpr : leA r (Phi p)).
    { apply Lr.
      assert (H1 : eqvB (g (Phi (Phi p))) (Phi (f (Phi p)))) by apply H.
      assert (H2 : eqvB (g (Phi (Phi p))) (g p)).
      { apply mono_eqv; [exact Mg|]. intros v _. apply Phi_Phi. }
      assert (H3 : leB p (Phi (f (Phi p)))).
      { apply le_trans with (g p); [exact Hp|].
        apply eqv_le. apply eqv_trans with (g (Phi (Phi p))); [apply eqv_sym, H2|exact H1]. }
      apply Phi_antitone' in H3.
      intros v Hv Hpv. apply H3; [exact Hv|]. rewrite Phi_Phi. exact Hpv. }
    apply Phi_antitone in Hpr. intros v Hv Hrv. apply Hpr; [exact Hv|].
    rewrite Phi_Phi. exact Hrv.
Qed.

Lemma Phi_bor a b v : Phi (bor nc nx ny a b) v = band nc ny nx (Phi a) (Phi b) v.
Proof. unfold Phi. rewrite bor_spec, band_spec, negb_orb. reflexivity. Qed.
Lemma Phi_band a b v : Phi (band nc nx ny a b) v = bor nc ny nx (Phi a) (Phi b) v.
Proof. unfold Phi. rewrite bor_spec, band_spec, negb_andb. reflexivity. Qed.
Lemma Phi_big_or l v : Phi (big_or l) v = big_and (map Phi l) v.
Proof.
  unfold Phi, big_or, big_and. rewrite negb_existsb. induction l as [|a l IH]; cbn; [reflexivity|].
  rewrite IH. reflexivity.
Qed.
Lemma Phi_big_and l v : Phi (big_and l) v = big_or (map Phi l) v.
Proof.
  unfold Phi, big_or, big_and. rewrite negb_forallb. induction l as [|a l IH]; cbn; [reflexivity|].
  rewrite IH. reflexivity.
Qed.

Variables holds goals : list bdd.
Local Notation sX := (sX nc nx ny moore plus_one E S).
Local Notation sXop := (sX_op nc nx ny moore plus_one E S).
Local Notation sY := (sY nc nx ny moore plus_one E S holds).
Local Notation sYop := (sY_op nc nx ny moore plus_one E S holds).
Local Notation sZop := (sZ_op nc nx ny moore plus_one E S holds goals).
(* the opponent's Rabin(1) game: persistence := complemented recurrence,
   recurrence := complemented persistence *)
Local Notation holdsB := (map Phi goals).
Local Notation goalsB := (map Phi holds).
Local Notation rX := (rX nc ny nx (negb moore) (negb plus_one) (dual S) (dual E)).
Local Notation rXop := (rX_op nc ny nx (negb moore) (negb plus_one) (dual S) (dual E)).
Local Notation rY := (rY nc ny nx (negb moore) (negb plus_one) (dual S) (dual E) goalsB).
Local Notation rYop := (rY_op nc ny nx (negb moore) (negb plus_one) (dual S) (dual E) goalsB).
Local Notation rZop := (rZ_op nc ny nx (negb moore) (negb plus_one) (dual S) (dual E) holdsB goalsB).

Lemma cpreB_mono : mono nc ny nx cpreB.
Proof. apply cpre_mono. Qed.

Lemma dual_X P u : eqvB (Phi (sX P u)) (rX (Phi P) (Phi u)).
Proof.
  apply (is_lfp_unique nc ny nx (rXop (Phi P) (Phi u))); [|apply rX_is_lfp].
  apply (Phi_gfp_lfp (sXop P u)); [apply sX_op_mono|apply rX_op_mono| |apply sX_is_gfp].
  intros q v Hv. unfold GR1Spec.rX_op, GR1Spec.sX_op.
  rewrite Phi_bor, !band_spec, Phi_band, !bor_spec, cpre_Phi.
  rewrite (orb_comm (Phi P v)). reflexivity.
Qed.

Lemma rX_eqvB R i i' : eqvB i i' -> eqvB (rX R i) (rX R i').
Proof.
  intros H. apply le_antisym; apply rX_mono_i; [apply eqv_le|apply eqv_le']; exact H.
Qed.
Lemma rX_eqvB_R R R' i : eqvB R R' -> eqvB (rX R i) (rX R' i).
Proof.
  intros H. apply (is_lfp_unique nc ny nx (rXop R' i)); [|apply rX_is_lfp].
  apply (is_lfp_ext nc ny nx (rXop R i)); [|apply rX_is_lfp].
  intros q v Hv. unfold GR1Spec.rX_op. rewrite !band_spec, !bor_spec, (H v Hv). reflexivity.
Qed.

Lemma big_and_map_eqvB {A} (T T' : A -> bdd) (l : list A) :
  (forall s, eqvB (T s) (T' s)) -> eqvB (big_and (map T l)) (big_and (map T' l)).
Proof.
  intros H v Hv. unfold big_and. induction l as [|a l IH]; cbn; [reflexivity|].
  rewrite (H a v Hv), IH. reflexivity.
Qed.
Lemma big_or_map_eqvB {A} (T T' : A -> bdd) (l : list A) :
  (forall s, eqvB (T s) (T' s)) -> eqvB (big_or (map T l)) (big_or (map T' l)).
Proof.
  intros H v Hv. unfold big_or. induction l as [|a l IH]; cbn; [reflexivity|].
  rewrite (H a v Hv), IH. reflexivity.
Qed.

Lemma dual_Y g : eqvB (Phi (sY g)) (rY (Phi g)).
Proof.
  apply (is_gfp_unique nc ny nx (rYop (Phi g))); [|apply rY_is_gfp].
  apply (Phi_lfp_gfp (sYop g)); [apply sY_op_mono|apply rY_op_mono| |apply sY_is_lfp].
  intros q. unfold GR1Spec.rY_op, GR1Spec.sY_op.
  apply eqv_trans with
    (big_and (map (fun P => Phi (sX P (bor nc nx ny (cpreA q) g))) holds)).
  - rewrite map_map. apply big_and_map_eqvB. intros P.
    apply eqv_trans with (rX (Phi P) (Phi (bor nc nx ny (cpreA q) g))).
    + apply rX_eqvB. intros v _. rewrite Phi_bor, !band_spec, cpre_Phi. reflexivity.
    + apply eqv_sym, dual_X.
  - intros v _. rewrite Phi_big_or, map_map. reflexivity.
Qed.

Lemma rY_eqvB g g' : eqvB g g' -> eqvB (rY g) (rY g').
Proof.
  intros H. apply le_antisym; apply rY_mono; [apply eqv_le|apply eqv_le']; exact H.
Qed.

Lemma dual_Z_op q : eqvB (rZop (Phi q)) (Phi (sZop q)).
Proof.
  unfold GR1Spec.rZ_op, GR1Spec.sZ_op.
  apply eqv_trans with
    (big_or (map (fun R => Phi (sY (band nc nx ny R (cpreA q)))) goals)).
  - rewrite map_map. apply big_or_map_eqvB. intros R.
    apply eqv_trans with (rY (Phi (band nc nx ny R (cpreA q)))).
    + apply rY_eqvB. intros v _. rewrite Phi_band, !bor_spec, cpre_Phi. apply orb_comm.
    + apply eqv_sym, dual_Y.
  - intros v _. rewrite Phi_big_and, map_map. reflexivity.
Qed.

(* C04 duality: complement of the Streett(1) region, read in the opponent's
   coordinates, is the opponent's Rabin(1) region *)
Theorem streett_rabin_dual :
  eqvB (Phi (streett_spec nc nx ny moore plus_one E S holds goals))
       (rabin_spec nc ny nx (negb moore) (negb plus_one) (dual S) (dual E) holdsB goalsB).
Proof.
  apply (is_lfp_unique nc ny nx rZop); [|apply rabin_spec_is_lfp].
  apply (Phi_gfp_lfp sZop); [apply sZ_op_mono|apply rZ_op_mono|apply dual_Z_op|].
  apply streett_spec_is_gfp.
Qed.

(* pointwise reading: every valuation is in exactly one of the two regions *)
Corollary streett_rabin_partition v :
  inr nc nx ny v ->
  streett_spec nc nx ny moore plus_one E S holds goals v =
  negb (rabin_spec nc ny nx (negb moore) (negb plus_one) (dual S) (dual E) holdsB goalsB (swapV v)).
Proof.
  intros Hv. pose proof (streett_rabin_dual (swapV v)) as H.
  rewrite <- H.
  - unfold Phi. rewrite swapV_invol, negb_involutive. reflexivity.
  - apply inr_swap. rewrite swapV_invol. exact Hv.
Qed.

End Duality.
