"""C03 — realizability verdict and synthesized initial condition."""
from vlib import core, games, gen_games, gr1games
from vlib.core import Broken, Mismatch, Failing
from vlib.gr1games import QINITS, QNAME

ID = 'C03'
LEVEL = 'proof'
THEORIES = ['theories/L4/InitSpec.vo', 'theories/L4/Tables.vo']

HEADER = '''From Coq Require Import List Bool Arith.
Import ListNotations.
From Omega Require Import L4.Arena L4.Tables.
From OmegaGen Require Import FixpointGen Gr1Gen.
Definition opt_tbl (nc nx ny : nat) (o : option bdd) : option (list bool) :=
  match o with Some u => Some (tt1 nc nx ny u) | None => None end.
Definition opt_eq1 (a b : option (list bool)) : bool :=
  match a, b with Some x, Some y => eq1 x y | None, None => true | _, _ => false end.
Definition opt_eqb (a b : option bool) : bool :=
  match a, b with Some x, Some y => Bool.eqb x y | None, None => true | _, _ => false end.
'''


def prove(ctx):
    with ctx.coq_lock():
        gen_games.ensure_transducers(ctx)
        ctx.prove_with_deps('Properties/C03.v')
    ctx.trusted.append(
        'translator tie T: omega/games/gr1.py is_realizable, _make_init '
        '(assert -> None; print(msg) dropped)')


def rand_inits(rng, ar):
    """EnvInit over constants+env variables only; SysInit over states."""
    dens_e = rng.choice([0.3, 0.6, 0.8])
    if rng.random() < 0.3:
        EI = [True] * ar.ns
    else:
        col = {}
        EI = []
        for (c, x, y) in ar.states():
            if (c, x) not in col:
                col[(c, x)] = rng.random() < dens_e
            EI.append(col[(c, x)])
    if rng.random() < 0.3:
        SI = [True] * ar.ns
    else:
        # sparse SysInit matters: the two causality forms differ where
        # EnvInit and SysInit both fail
        SI = games.rand_table1(rng, ar, rng.choice([0.15, 0.4, 0.7, 0.9]))
    return EI, SI


def run_impl(g, wins):
    """Real is_realizable/_make_init for every qinit x plus_one x win."""
    import omega.games.gr1 as gr1
    ar = g['ar']
    out = {}
    for wi, wtab in enumerate(wins):
        for q in QINITS:
            for plus_one in (False, True):
                aut = gr1games.load(g)
                # the verdict must not depend on Moore/Mealy: alternate it
                aut.qinit, aut.plus_one = q, plus_one
                aut.moore = bool((wi + len(q) + plus_one + g['ar'].ns) % 2) \
                    if q != QINITS[2] else (not plus_one)
                win = ar.bdd1(wtab)
                internal = ar.bdd1(g['II'])
                try:
                    r = bool(gr1.is_realizable(win, aut))
                except AssertionError:
                    r = None
                try:
                    gr1._make_init(internal, win, aut)
                    init = ar.table1(aut.init['impl'])
                except AssertionError:
                    init = None
                out[(wi, q, plus_one)] = (r, init)
    return out


def spec(g, wtab, q, plus_one):
    """Direct evaluation of the documented quantified formulas."""
    ar = g['ar']
    EI, SI = g['EI'], g['SI']
    idx = ar.sidx

    def form(s):
        if plus_one:
            return SI[s] and (wtab[s] or not EI[s])
        return (SI[s] and wtab[s]) or not EI[s]
    C, X, Y = range(ar.nc), range(ar.nx), range(ar.ny)
    if q == r'\A \A':
        if not all(SI):
            return None, None
        r = all(wtab[s] or not EI[s] for s in range(ar.ns))
        init = [True] * ar.ns
    elif q == r'\E \E':
        if not all(EI):
            r = None
        else:
            r = all(any(wtab[idx(c, x, y)] and SI[idx(c, x, y)]
                        for x in X for y in Y) for c in C)
        init = [wtab[s] and SI[s] for s in range(ar.ns)]
    elif q == r'\A \E':
        r = all(any(form(idx(c, x, y)) for y in Y) for c in C for x in X)
        init = [form(s) for s in range(ar.ns)]
    else:
        r = all(any(all(form(idx(c, x, y)) for x in X) for y in Y) for c in C)
        init = [False] * ar.ns
        for c in C:
            for y in Y:
                ok = all(form(idx(c, x, y)) for x in X)
                for x in X:
                    init[idx(c, x, y)] = ok
    if not any(init):
        init = None
    else:
        init = [a and b for a, b in zip(init, g['II'])]
    return r, init


def oracle_check(g, wins, impl):
    for (wi, q, plus_one), (r, init) in impl.items():
        er, einit = spec(g, wins[wi], q, plus_one)
        if q == r'\A \A' and er is None:
            einit = init  # verdict refused; _make_init is not constrained
        if r != er:
            return Failing(
                f'is_realizable({q}, plus_one={plus_one}) = {r}, the '
                f'quantified formula evaluates to {er}',
                dict(gr1games.case_of(g), II=g['II'], win=wins[wi], qinit=q,
                     plus_one=plus_one), expected=er, got=r)
        if init != einit:
            return Failing(
                f'_make_init({q}, plus_one={plus_one}) differs from the '
                'documented initial predicate',
                dict(gr1games.case_of(g), II=g['II'], win=wins[wi], qinit=q,
                     plus_one=plus_one), expected=einit, got=init)
    return None


def construct_check(g):
    """Verdict true and non-empty region => construction succeeds."""
    import omega.games.gr1 as gr1
    bad = []
    n = 0
    for q in QINITS:
        for plus_one in (False, True):
            for moore in (False, True):
                for kind in ('streett', 'rabin'):
                    aut = gr1games.load(g)
                    aut.qinit, aut.plus_one, aut.moore = q, plus_one, moore
                    if kind == 'streett':
                        z, yij, xijk = gr1.solve_streett_game(aut)
                        win = z
                    else:
                        zk, yki, xkijr = gr1.solve_rabin_game(aut)
                        win = zk[-1]
                    try:
                        r = gr1.is_realizable(win, aut)
                    except AssertionError:
                        continue
                    if not r or win == aut.false:
                        # refusal must then be an AssertionError
                        try:
                            if kind == 'streett':
                                gr1.make_streett_transducer(z, yij, xijk, aut)
                            else:
                                gr1.make_rabin_transducer(zk, yki, xkijr, aut)
                            if not r:
                                bad.append((kind, q, plus_one, moore,
                                            'constructed although unrealizable'))
                        except AssertionError:
                            pass
                        continue
                    n += 1
                    try:
                        if kind == 'streett':
                            gr1.make_streett_transducer(z, yij, xijk, aut)
                        else:
                            gr1.make_rabin_transducer(zk, yki, xkijr, aut)
                    except AssertionError as e:
                        bad.append((kind, q, plus_one, moore,
                                    'construction failed: ' + repr(e)))
    return n, bad


def coq_group(i, g, wins, impl):
    ar = g['ar']
    n = f'{ar.nc} {ar.nx} {ar.ny}'
    p = f'g{i}_'
    defs = [f'Definition {p}EI := of_table1 {n} {games.lit1(g["EI"])}.',
            f'Definition {p}SI := of_table1 {n} {games.lit1(g["SI"])}.',
            f'Definition {p}II := of_table1 {n} {games.lit1(g["II"])}.']
    for wi, w in enumerate(wins):
        defs.append(f'Definition {p}W{wi} := of_table1 {n} {games.lit1(w)}.')
    b = lambda x: 'true' if x else 'false'
    terms, keys = [], []
    for (wi, q, plus_one), (r, init) in impl.items():
        args = f'{n} {p}EI {p}SI {b(plus_one)} {QNAME[q]} 0'
        er = 'None' if r is None else f'(Some {b(r)})'
        ei = 'None' if init is None else f'(Some {games.lit1(init)})'
        terms.append(
            f'opt_eqb (Gr1Gen.is_realizable {args} {p}W{wi}) {er} && '
            f'opt_eq1 (opt_tbl {n} (Gr1Gen.make_init {args} {p}II {p}W{wi})) {ei}')
        keys.append((wi, q, plus_one))
    return ('\n'.join(defs), terms), keys


def make_instance(rng, backend, max_states):
    g = gr1games.make_game(rng, backend, max_states)
    g['EI'], g['SI'] = rand_inits(rng, g['ar'])
    ar = g['ar']
    g['II'] = ([True] * ar.ns if rng.random() < 0.5
               else games.rand_table1(rng, ar, 0.7))
    ex = gr1games.Explicit(g)
    wins = [ex.table(ex.streett(False, True)), ex.table(ex.rabin(False, False)),
            games.rand_table1(rng, ar, 0.6)]
    return g, wins


def correspond(ctx):
    n_games = 120 if ctx.thorough else 14
    max_states = 32 if ctx.thorough else 16
    items = []
    verdicts = {}
    mism = []
    n_constructed = 0
    for i in range(n_games):
        g, wins = make_instance(ctx.rng, 'cudd' if i % 2 else 'autoref',
                                max_states)
        try:
            with games.quiet():
                impl = run_impl(g, wins)
                nc_, bad = construct_check(g)
        except Exception as e:
            return [Mismatch('implementation raised', gr1games.case_of(g),
                             impl=repr(e), property_fails=True)]
        n_constructed += nc_
        if bad:
            mism.append(Mismatch('construction: ' + str(bad[0]),
                                 gr1games.case_of(g), impl=bad,
                                 property_fails=True))
        items.append((g, wins, impl))
        for k, (r, init) in impl.items():
            verdicts[str(r)] = verdicts.get(str(r), 0) + 1
    groups, allkeys = [], []
    for i, (g, wins, impl) in enumerate(items):
        grp, keys = coq_group(i, g, wins, impl)
        groups.append(grp)
        allkeys += [(i, k) for k in keys]
    res = ctx.eval_groups('corr', HEADER, groups, shard=48)
    for (i, k), ok in zip(allkeys, res):
        if not ok:
            g, wins, impl = items[i]
            mism.append(Mismatch(
                f'is_realizable/_make_init {k[1]} plus_one={k[2]} differ '
                'from the translated model',
                dict(gr1games.case_of(g), II=g['II'], win=wins[k[0]],
                     qinit=k[1], plus_one=k[2]), impl=impl[k]))
    for g, wins, impl in items[:10]:
        f = oracle_check(g, wins, impl)
        if f:
            mism.append(Mismatch('formula oracle disagrees: ' + f.what, f.case,
                                 impl=f.got, model=f.expected,
                                 property_fails=True))
    ctx.cov['evaluations'] += len(res)
    ctx.cov['distinct_nontrivial'] += sum(
        1 for (g, wins, impl) in items for k, (r, init) in impl.items()
        if r is not None and init is not None)
    ctx.cov['rule'] = (
        'random games as in C01 with random initial predicates (EnvInit over '
        'constants and environment variables only, SysInit over states, 30% '
        'TRUE each), winning regions = true Streett region, true Rabin region '
        'and a random set; real is_realizable and _make_init for 4 qinit x 2 '
        'plus_one compared (verdict, refusal, truth table of init[impl]) with '
        'the translated Gallina in Coq; real transducer construction checked '
        'to succeed whenever the verdict is true and the region non-empty '
        '(Streett and Rabin, Moore and Mealy). non-trivial = verdict defined '
        'and synthesized init non-empty')
    g0, w0, i0 = items[0]
    ctx.cov['samples'] = [dict(gr1games.case_of(g0), II=g0['II'], win=w0[0],
                               results={f'{k[1]} plus_one={k[2]}': v[0]
                                        for k, v in i0.items() if k[0] == 0})]
    ctx.extra['correspondence'] = dict(
        games=n_games, comparisons=len(res), verdict_histogram=verdicts,
        constructions_checked=n_constructed, mismatches=len(mism))
    return mism


def search(ctx, broken, mismatches):
    budget = 200 if ctx.thorough else 60
    for i in range(budget):
        g, wins = make_instance(ctx.rng, 'cudd' if i % 2 else 'autoref', 16)
        try:
            with games.quiet():
                f = oracle_check(g, wins, run_impl(g, wins))
                n, bad = (0, []) if f else construct_check(g)
            if not f:
                if bad:
                    f = Failing('construction: ' + str(bad[0]),
                                gr1games.case_of(g), got=bad)
        except Exception as e:
            f = Failing('implementation raised ' + repr(e),
                        gr1games.case_of(g))
        if f:
            return [f]
    return []


def replay(path):
    import json
    d = json.load(open(path))
    case = d.get('input')
    if not case:
        print('no concrete input in replay file:', d.get('broken'))
        return 1
    g = gr1games.rebuild({k: v for k, v in case.items()
                          if k not in ('win', 'qinit', 'plus_one')})
    wins = [case['win']] if 'win' in case else [[True] * g['ar'].ns]
    f = oracle_check(g, wins, run_impl(g, wins))
    print('still fails: ' + f.what if f else 'passes')
    return 1 if f else 0
