(* L7 / Render: the TEXT that omega/symbolic/codegen.dumps_bdd_as_code lays
   out for a program of Dag.v, as a list of tokens, for an arbitrary syntax
   table (the entries of codegen.languages[lang]); a strict evaluator of
   that token language, parametric in the same table (the counterpart of
   tools/vlib/codegen_emit.run_c_code, for any target); and the generic
   lexer that cuts the real output into tokens for the correspondence.

   Layout modelled (codegen._dumps_node, _latch_ref, _latch_name,
   _comment_level, _collect_layers, _append_sep, '\n'.join):

     COMMENT level: <l>
     latch_<k> = (
         (<bit> AND <hi>) OR
         ((NOT <bit>) AND <lo>))SEP
     out_bits["<name>"] = <ref>SEP

   with <ref> = <latch> | (NOT <latch>), <latch> = TRUE | latch_<k>, and
   <k> printed by str(int(node)).replace('-', 'n').
   A token is a string; "\n" is the line-break token.  No proofs here. *)
From Coq Require Import List Bool Arith ZArith NArith String Ascii.
From Coq Require Import DecimalString.
Import ListNotations.
From Omega Require Import L7Codegen.Pred L7Codegen.Dag.
Local Open Scope string_scope.

(* ---- the syntax table ---- *)
Record syntax := mk_syntax {
  s_false : string; s_true : string; s_not : string; s_and : string;
  s_or : string; s_comment : string; s_sep : string }.

Fixpoint assoc_s (k : string) (t : list (string * string)) : option string :=
  match t with
  | [] => None
  | (k', v) :: r => if String.eqb k k' then Some v else assoc_s k r
  end.

(* languages[lang] as a record; None when a key is missing *)
Definition syntax_of (t : list (string * string)) : option syntax :=
  match assoc_s "FALSE" t, assoc_s "TRUE" t, assoc_s "NOT" t, assoc_s "AND" t,
        assoc_s "OR" t, assoc_s "COMMENT" t, assoc_s "SEP" t with
  | Some f, Some tr, Some n, Some a, Some o, Some c, Some s =>
      Some (mk_syntax f tr n a o c s)
  | _, _, _, _, _, _, _ => None
  end.

Definition NL : string := String (ascii_of_nat 10) "".
Definition LP : string := "(".
Definition RP : string := ")".
Definition EQ : string := "=".

(* ---- names ---- *)
Definition dec_nat (n : nat) : string := NilEmpty.string_of_uint (Nat.to_uint n).
Definition dec_N (n : N) : string := NilEmpty.string_of_uint (N.to_uint n).
(* str(k).replace('-', 'n') *)
Definition zname (k : Z) : string :=
  (if Z.ltb k 0 then "n" else "") ++ dec_N (Z.abs_N k).
Definition latch_word (k : Z) : string := "latch_" ++ zname k.
(* out_bits["<name>"] *)
Definition out_word (name : string) : string := "out_bits[""" ++ name ++ """]".

(* ---- Boolean expressions as they are laid out ---- *)
Inductive bexp :=
| BTrue                      (* TRUE *)
| BId (w : string)           (* an identifier *)
| BNot (e : bexp)            (* (NOT e) *)
| BAnd (a b : bexp)          (* (a AND b) *)
| BOr (a b : bexp)           (* (a OR b) *)
| BNl (e : bexp).            (* a line break, then e (inside parentheses) *)

Section Render.
Variable sy : syntax.
Variable names : list string.       (* the expression that stands for input bit i *)
Variable outname : nat -> string.   (* the name of output i *)

Definition bitname (i : nat) : string := nth i names "".

Fixpoint rend (e : bexp) : list string :=
  match e with
  | BTrue => [s_true sy]
  | BId w => [w]
  | BNot e => LP :: s_not sy :: rend e ++ [RP]
  | BAnd a b => LP :: rend a ++ s_and sy :: rend b ++ [RP]
  | BOr a b => LP :: rend a ++ s_or sy :: rend b ++ [RP]
  | BNl e => NL :: rend e
  end.

(* _latch_name, _latch_ref *)
Definition latch_exp (l : latch) : bexp :=
  match l with
  | LTrue => BTrue
  | LName k => BId (latch_word k)
  end.
Definition ref_exp (r : lref) : bexp :=
  if r_neg r then BNot (latch_exp (r_latch r)) else latch_exp (r_latch r).

(* _dumps_node: (\n (bit AND hi) OR \n ((NOT bit) AND lo)) *)
Definition node_exp (bit : nat) (hi lo : lref) : bexp :=
  BOr (BNl (BAnd (BId (bitname bit)) (ref_exp hi)))
      (BNl (BAnd (BNot (BId (bitname bit))) (ref_exp lo))).

Definition sep_toks : list string :=
  if String.eqb (s_sep sy) "" then [] else [s_sep sy].

(* one statement, without the line break that ends it *)
Definition render_stmt (c : stmt) : list string :=
  match c with
  | SComment l => [s_comment sy; "level"; ":"; dec_nat l]
  | SLatch k bit hi lo => latch_word k :: EQ :: rend (node_exp bit hi lo) ++ sep_toks
  | SOut name r => out_word (outname name) :: EQ :: rend (ref_exp r) ++ sep_toks
  end.

(* '\n'.join(lines) *)
Fixpoint render (p : list stmt) : list string :=
  match p with
  | [] => []
  | [c] => render_stmt c
  | c :: r => render_stmt c ++ NL :: render r
  end.

(* ---- the strict evaluator of the token language ---- *)
Fixpoint lookup_s (env : list (string * bool)) (w : string) : option bool :=
  match env with
  | [] => None
  | (k, b) :: r => if String.eqb k w then Some b else lookup_s r w
  end.

(* the value of an input expression *)
Fixpoint input_val (nm : list string) (i : nat) (a : asg) (w : string) : option bool :=
  match nm with
  | [] => None
  | x :: r => if String.eqb x w then Some (get a i) else input_val r (S i) a w
  end.

Section Eval.
Variable a : asg.

(* an identifier is a latch assigned earlier or an input; anything else is
   an error *)
Definition ident_val (env : list (string * bool)) (w : string) : option bool :=
  match lookup_s env w with
  | Some b => Some b
  | None => input_val names 0 a w
  end.

(* line breaks are blanks inside parentheses only *)
Fixpoint skip_nl (ts : list string) : list string :=
  match ts with
  | t :: r => if String.eqb t NL then skip_nl r else ts
  | [] => []
  end.
Definition sk (d : nat) (ts : list string) : list string :=
  match d with O => ts | S _ => skip_nl ts end.

(*  or ::= and (OR and)* ;  and ::= un (AND un)* ;
    un ::= NOT un | ( or ) | TRUE | FALSE | identifier
   Both operands of AND / OR are evaluated (strict); d is the depth of
   parentheses. *)
Fixpoint p_or (f : nat) (d : nat) (env : list (string * bool)) (ts : list string)
  {struct f} : option (bool * list string) :=
  match f with
  | O => None
  | S f =>
      match p_and f d env ts with
      | Some (v, r) => p_or_loop f d env v r
      | None => None
      end
  end
with p_or_loop (f : nat) (d : nat) (env : list (string * bool)) (v : bool)
  (ts : list string) {struct f} : option (bool * list string) :=
  match f with
  | O => None
  | S f =>
      match sk d ts with
      | w :: r =>
          if String.eqb w (s_or sy) then
            match p_and f d env r with
            | Some (v2, r2) => p_or_loop f d env (v || v2) r2
            | None => None
            end
          else Some (v, ts)
      | [] => Some (v, ts)
      end
  end
with p_and (f : nat) (d : nat) (env : list (string * bool)) (ts : list string)
  {struct f} : option (bool * list string) :=
  match f with
  | O => None
  | S f =>
      match p_un f d env ts with
      | Some (v, r) => p_and_loop f d env v r
      | None => None
      end
  end
with p_and_loop (f : nat) (d : nat) (env : list (string * bool)) (v : bool)
  (ts : list string) {struct f} : option (bool * list string) :=
  match f with
  | O => None
  | S f =>
      match sk d ts with
      | w :: r =>
          if String.eqb w (s_and sy) then
            match p_un f d env r with
            | Some (v2, r2) => p_and_loop f d env (v && v2) r2
            | None => None
            end
          else Some (v, ts)
      | [] => Some (v, ts)
      end
  end
with p_un (f : nat) (d : nat) (env : list (string * bool)) (ts : list string)
  {struct f} : option (bool * list string) :=
  match f with
  | O => None
  | S f =>
      match sk d ts with
      | [] => None
      | w :: r =>
          if String.eqb w (s_not sy) then
            match p_un f d env r with
            | Some (v, r1) => Some (negb v, r1)
            | None => None
            end
          else if String.eqb w LP then
            match p_or f (S d) env r with
            | Some (v, r1) =>
                match sk (S d) r1 with
                | c :: r2 => if String.eqb c RP then Some (v, r2) else None
                | [] => None
                end
            | None => None
            end
          else if String.eqb w (s_true sy) then Some (true, r)
          else if String.eqb w (s_false sy) then Some (false, r)
          else
            match ident_val env w with
            | Some b => Some (b, r)
            | None => None
            end
      end
  end.

Record tstate := mk_tstate {
  t_env : list (string * bool);        (* latches assigned so far *)
  t_outs : list (string * bool) }.     (* out_bits[...] assigned so far, in order *)

(* the rest of the text after the end of the current line *)
Fixpoint after_nl (ts : list string) : list string :=
  match ts with
  | [] => []
  | t :: r => if String.eqb t NL then r else after_nl r
  end.

(* the statement separator is mandatory when the table has one *)
Definition strip_sep (ts : list string) : option (list string) :=
  if String.eqb (s_sep sy) "" then Some ts
  else match ts with
       | t :: r => if String.eqb t (s_sep sy) then Some r else None
       | [] => None
       end.

(* lvalue = value: an output, or a latch that is neither assigned already
   nor an input *)
Definition assign (st : tstate) (w : string) (v : bool) : option tstate :=
  if String.prefix "out_bits[" w then
    Some (mk_tstate (t_env st) (t_outs st ++ [(w, v)]))
  else if String.prefix "latch_" w then
    match lookup_s (t_env st) w, input_val names 0 a w with
    | None, None => Some (mk_tstate ((w, v) :: t_env st) (t_outs st))
    | _, _ => None
    end
  else None.

Definition expr_fuel (ts : list string) : nat := 4 * List.length ts + 4.

(* lines: a comment line (first token COMMENT), or `lvalue = expr SEP`
   followed by a line break or the end of the text *)
Fixpoint exec_text (f : nat) (st : tstate) (ts : list string) {struct f}
  : option tstate :=
  match f with
  | O => None
  | S f =>
      match ts with
      | [] => Some st
      | w :: r =>
          if String.eqb w (s_comment sy) then exec_text f st (after_nl r)
          else
            match r with
            | e :: r1 =>
                if String.eqb e EQ then
                  match p_or (expr_fuel r1) 0 (t_env st) r1 with
                  | Some (v, r2) =>
                      match strip_sep r2 with
                      | Some r3 =>
                          match assign st w v with
                          | Some st' =>
                              match r3 with
                              | [] => Some st'
                              | n :: r4 =>
                                  if String.eqb n NL then exec_text f st' r4 else None
                              end
                          | None => None
                          end
                      | None => None
                      end
                  | None => None
                  end
                else None
            | [] => None
            end
      end
  end.

(* run the text: the out_bits assigned, in order *)
Definition run_text (ts : list string) : option (list (string * bool)) :=
  match exec_text (S (List.length ts)) (mk_tstate [] []) ts with
  | Some st => Some (t_outs st)
  | None => None
  end.

End Eval.

(* ---- side conditions, as Booleans ---- *)
Definition reserved : list string :=
  [NL; LP; RP; EQ; s_true sy; s_false sy; s_not sy; s_and sy; s_or sy; s_comment sy]
  ++ sep_toks.

End Render.

Fixpoint mem_s (w : string) (l : list string) : bool :=
  match l with
  | [] => false
  | x :: r => String.eqb w x || mem_s w r
  end.
Fixpoint nodup_s (l : list string) : bool :=
  match l with
  | [] => true
  | x :: r => negb (mem_s x r) && nodup_s r
  end.

(* no lvalue shape: neither latch_... nor out_bits[... *)
Definition plain_word (w : string) : bool :=
  negb (String.prefix "latch_" w) && negb (String.prefix "out_bits[" w).

(* the operator / constant / punctuation tokens of the table are pairwise
   distinct and none of them looks like a latch or an output *)
Definition syntax_ok (sy : syntax) : bool :=
  nodup_s (reserved sy) && forallb plain_word (reserved sy).

(* the input expressions are pairwise distinct identifiers: no token of the
   table, no latch, no output *)
Definition names_ok (sy : syntax) (names : list string) : bool :=
  nodup_s names
  && forallb (fun w => negb (mem_s w (reserved sy)) && plain_word w) names.

(* every statement tests one of the n input bits *)
Definition prog_bits_ok (n : nat) (p : list stmt) : bool :=
  forallb (fun c => match c with SLatch _ bit _ _ => Nat.ltb bit n | _ => true end) p.
Definition dag_bits_ok (n : nat) (d : dag) : bool :=
  forallb (fun e => i_term (snd e) || Nat.ltb (i_var (snd e)) n) d.

(* ---- the lexer used for the correspondence with the real output ----
   blanks separate; a line break is the token NL; each parenthesis is a
   token; maximal runs of word characters (letters, digits, underscore, square
   brackets, double and single quote, dot)
   and maximal runs of other characters are tokens *)
Inductive cclass := CBlank | CNewline | CParen | CWord | CSym.

Definition classify (c : ascii) : cclass :=
  let n := nat_of_ascii c in
  if Nat.eqb n 10 then CNewline
  else if Nat.eqb n 32 || Nat.eqb n 9 || Nat.eqb n 13 then CBlank
  else if Nat.eqb n 40 || Nat.eqb n 41 then CParen
  else if (Nat.leb 48 n && Nat.leb n 57) || (Nat.leb 65 n && Nat.leb n 90)
          || (Nat.leb 97 n && Nat.leb n 122) || Nat.eqb n 95 || Nat.eqb n 91
          || Nat.eqb n 93 || Nat.eqb n 34 || Nat.eqb n 39 || Nat.eqb n 46
  then CWord else CSym.

Definition flush (cur : string) (acc : list string) : list string :=
  if String.eqb cur "" then acc else cur :: acc.

(* acc: tokens so far, reversed; cur: the run being read; w: its class *)
Fixpoint lex_go (s : string) (cur : string) (w : bool) (acc : list string)
  : list string :=
  match s with
  | EmptyString => rev (flush cur acc)
  | String c r =>
      match classify c with
      | CBlank => lex_go r "" true (flush cur acc)
      | CNewline => lex_go r "" true (NL :: flush cur acc)
      | CParen => lex_go r "" true (String c "" :: flush cur acc)
      | CWord =>
          if w then lex_go r (cur ++ String c "") true acc
          else lex_go r (String c "") true (flush cur acc)
      | CSym =>
          if w then lex_go r (String c "") false (flush cur acc)
          else lex_go r (cur ++ String c "") false acc
      end
  end.
Definition lex (s : string) : list string := lex_go s "" true [].

Fixpoint list_eqb_s (x y : list string) : bool :=
  match x, y with
  | [], [] => true
  | a :: x', b :: y' => String.eqb a b && list_eqb_s x' y'
  | _, _ => false
  end.

(* the names the correspondence harness uses: bits b0.. and outputs out0.. *)
Definition bnames (n : nat) : list string := map (fun i => "b" ++ dec_nat i) (seq 0 n).
Definition oname (i : nat) : string := "out" ++ dec_nat i.

Fixpoint lang_syntax (lang : string) (langs : list (string * list (string * string)))
  : option syntax :=
  match langs with
  | [] => None
  | (k, t) :: r => if String.eqb k lang then syntax_of t else lang_syntax lang r
  end.

(* tie H: the real output of dumps_bdd_as_code(roots, bdd, lang), cut into
   tokens, is exactly the rendering of the model's program *)
Definition check_text (langs : list (string * list (string * string)))
    (lang : string) (n nlev : nat) (d : dag) (roots : list (nat * Z))
    (text : string) : bool :=
  match lang_syntax lang langs with
  | Some sy =>
      syntax_ok sy && names_ok sy (bnames n) && dag_bits_ok n d
      && list_eqb_s (lex text)
           (render sy (bnames n) oname (dumps_bdd_as_code nlev d roots))
  | None => false
  end.
