(* CLOSURE for the Rabin transducer model composed with the GENERATED solver:
   whenever the environment keeps its action, every step the synthesized
   action allows leads to a valuation of the winning region (last iterate of
   solve_rabin_game); hence every state reached from a winning one is winning.
   First for arbitrary iterate lists with the structure [rounds_ok]
   (RabinIter1), then for the lists the generated solver returns.
   For the rho_1 steps that leave an environment dead end (level 0, towards
   the EMPTY basin; the repair of finding F3) there is nothing to show: in
   none of them does the environment keep its action
   (RabinClosure1.ca_false_breaks_env; they are absent from the
   classification rabin_step_kinds on which this proof rests). *)
From Coq Require Import List Bool Arith Lia.
Import ListNotations.
From Omega Require Import L4.Arena L4.ArenaFacts L4.Kleene L4.AlgOrder L4.GameSpec.
From OmegaGen Require Import FixpointGen Gr1Gen.
From OmegaGP Require Import TransducerModel StreettNB2 StreettClosure1 RabinClosure1 RabinIter1.

Section RoundsIn.
Variables nc nx ny : nat.
Variables E S : bdd.
Variables holds goals : list bdd.
Variables moore plus_one : bool.
Local Notation le := (le nc nx ny).
Local Notation rounds_ok := (rounds_ok nc nx ny E S holds goals moore plus_one).
Local Notation round_ok := (round_ok nc nx ny E S holds goals moore plus_one).
Local Notation hold_ok := (hold_ok nc nx ny E S goals moore plus_one).

Lemma round_y zp z yi xijr y :
  round_ok zp z yi xijr -> In y yi ->
  exists i xjr P, nth_error yi i = Some y /\ nth_error xijr i = Some xjr /\
                  nth_error holds i = Some P /\ hold_ok zp z P y xjr.
Proof.
  intros [_ [_ [Ly [Lx Hall]]]] Hy. apply In_nth_error in Hy. destruct Hy as [i Hi].
  assert (Hlt : i < length yi) by (apply nth_error_Some; congruence).
  destruct (nth_error xijr i) as [xjr|] eqn:Ex; [|apply nth_error_None in Ex; lia].
  destruct (nth_error holds i) as [P|] eqn:EP; [|apply nth_error_None in EP; lia].
  exists i, xjr, P. split; [exact Hi|]. split; [exact Ex|]. split; [exact EP|].
  apply (Hall i y xjr P Hi Ex EP).
Qed.

Lemma round_x zp z yi xijr xjr :
  round_ok zp z yi xijr -> In xjr xijr ->
  exists i y P, nth_error yi i = Some y /\ nth_error xijr i = Some xjr /\
                nth_error holds i = Some P /\ hold_ok zp z P y xjr.
Proof.
  intros [_ [_ [Ly [Lx Hall]]]] Hx. apply In_nth_error in Hx. destruct Hx as [i Hi].
  assert (Hlt : i < length xijr) by (apply nth_error_Some; congruence).
  destruct (nth_error yi i) as [y|] eqn:Ey; [|apply nth_error_None in Ey; lia].
  destruct (nth_error holds i) as [P|] eqn:EP; [|apply nth_error_None in EP; lia].
  exists i, y, P. split; [exact Ey|]. split; [exact Hi|]. split; [exact EP|].
  apply (Hall i y xjr P Ey Hi EP).
Qed.

(* every recorded iterate lies below some z of the chain *)
Lemma rounds_all_in zp zk yki xkijr :
  rounds_ok zp zk yki xkijr ->
  (forall yi y, In yi yki -> In y yi -> exists z, In z zk /\ le y z) /\
  (forall xijr xjr xr x, In xijr xkijr -> In xjr xijr -> In xr xjr -> In x xr ->
     exists z, In z zk /\ le x z).
Proof.
  intros Ho. induction Ho as [zp|zp z zs yi yis xijr xs Hr Ho [IH1 IH2]].
  - split; [intros yi y []|intros xijr xjr xr x []].
  - split.
    + intros yi' y [<-|Hyi] Hy.
      * destruct (round_y _ _ _ _ y Hr Hy) as [i [xjr [P [_ [_ [_ [Hle _]]]]]]].
        exists z. split; [left; reflexivity|exact Hle].
      * destruct (IH1 yi' y Hyi Hy) as [z' [Hz' Hle]]. exists z'. split; [right|]; assumption.
    + intros xijr' xjr xr x [<-|Hxi] Hxjr Hxr Hx.
      * destruct (round_x _ _ _ _ xjr Hr Hxjr) as [i [y [P [_ [_ [_ [Hle [_ [_ [_ Hall]]]]]]]]]].
        destruct (Hall xr Hxr) as [_ Hxs]. destruct (Hxs x Hx) as [Hxy _].
        exists z. split; [left; reflexivity|]. apply le_trans with y; assumption.
      * destruct (IH2 xijr' xjr xr x Hxi Hxjr Hxr Hx) as [z' [Hz' Hle]].
        exists z'. split; [right|]; assumption.
Qed.

Lemma rounds_below_last zp zk yki xkijr :
  rounds_ok zp zk yki xkijr -> forall z, In z zk -> le z (last zk zp).
Proof.
  intros Ho z Hz. pose proof (rounds_incr nc nx ny E S holds goals moore plus_one _ _ _ _ Ho) as Hi.
  destruct Hi as [_ Hi]. apply (incr_le_last nc nx ny zk Hi z Hz).
Qed.
End RoundsIn.

Section Closure2.
Variables nc nx ny : nat.
Variables E S : bdd.
Variables holds goals : list bdd.
Variables moore plus_one : bool.
Variables H G : nat.

Local Notation M := (H * G).
Local Notation L := (lift nc nx ny M).
Local Notation inrE := (Kleene.inr nc nx (ny * M)).
Local Notation rounds_ok := (rounds_ok nc nx ny E S holds goals moore plus_one).

Lemma bv_inr' v : inrE v -> Kleene.inr nc nx ny (bv M (nextpt v)).
Proof.
  unfold Kleene.inr, in_range, bv, nextpt. cbn [vc vx vy vxp vyp].
  repeat rewrite andb_true_iff. repeat rewrite Nat.ltb_lt. intros [[[[Hc Hx] Hy] Hxp] Hyp].
  assert (0 < M) by (destruct M; lia).
  assert (vyp v / M < ny) by (apply Nat.div_lt_upper_bound; lia). lia.
Qed.

Section AnyIterates.
Variables (zk : list bdd) (yki : list (list bdd)) (xkijr : list (list (list (list bdd)))).
Hypothesis Hro : rounds_ok bfalse zk yki xkijr.
Local Notation A := (rabin_action nc nx ny H G (L E) (L S) (map L holds) (map L goals)
                       moore plus_one (map L zk) (map (map L) yki)
                       (map (map (map (map L))) xkijr)).

Theorem rabin_closed_ro v :
  inrE v -> A v = true -> L E v = true ->
  last zk bfalse (bv M (nextpt v)) = true.
Proof.
  intros Hv HA HE.
  pose proof (rabin_action_hits nc nx ny H G (L E) (L S) (map L holds) (map L goals)
                moore plus_one _ _ _ v Hv HA HE) as HQ.
  destruct (rounds_all_in nc nx ny E S holds goals moore plus_one _ _ _ _ Hro) as [HY HX].
  pose proof (rounds_below_last nc nx ny E S holds goals moore plus_one _ _ _ _ Hro) as HZ.
  pose proof (bv_inr' v Hv) as Hin.
  destruct HQ as [[zL [Hz Hw]]|[[yiL [yL [Hyi [Hy Hw]]]]|[xijrL [xjrL [xrL [xL [H1 [H2 [H3 [H4 Hw]]]]]]]]]].
  - apply in_map_iff in Hz. destruct Hz as [z [<- Hz]]. apply (HZ z Hz _ Hin Hw).
  - apply in_map_iff in Hyi. destruct Hyi as [yi [<- Hyi]].
    apply in_map_iff in Hy. destruct Hy as [y [<- Hy]].
    destruct (HY yi y Hyi Hy) as [z [Hz Hle]]. apply (HZ z Hz _ Hin). apply (Hle _ Hin Hw).
  - apply in_map_iff in H1. destruct H1 as [xijr [<- H1]].
    apply in_map_iff in H2. destruct H2 as [xjr [<- H2]].
    apply in_map_iff in H3. destruct H3 as [xr [<- H3]].
    apply in_map_iff in H4. destruct H4 as [x [<- H4]].
    destruct (HX xijr xjr xr x H1 H2 H3 H4) as [z [Hz Hle]].
    apply (HZ z Hz _ Hin). apply (Hle _ Hin Hw).
Qed.
End AnyIterates.

(* ---- the generated solver ------------------------------------------------- *)
Variable fuel : nat.
Hypothesis Hfuel : NV nc nx ny <= fuel.
Hypothesis Sh : Forall spred holds.
Hypothesis Sg : Forall spred goals.

Local Notation solve := (Gr1Gen.solve_rabin_game nc nx ny E S holds goals moore plus_one).
Local Notation zkf := (fst (fst (solve fuel))).
Local Notation ykif := (snd (fst (solve fuel))).
Local Notation xkijrf := (snd (solve fuel)).
Local Notation win := (last zkf bfalse).
Local Notation A := (rabin_action nc nx ny H G (L E) (L S) (map L holds) (map L goals)
                       moore plus_one (map L zkf) (map (map L) ykif)
                       (map (map (map (map L))) xkijrf)).

(* the winning region is closed under the steps of the synthesized action in
   which the environment keeps its action *)
Theorem rabin_impl_closed v :
  inrE v -> A v = true -> L E v = true -> win (bv M (nextpt v)) = true.
Proof.
  apply rabin_closed_ro.
  apply (solve_rounds_ok nc nx ny E S holds goals moore plus_one fuel Hfuel Sh Sg).
Qed.

(* closed-loop safety by induction over the behaviour *)
Definition rst_of (c x ye : nat) : V := mkV c x (ye / M) x (ye / M).

Inductive rreach (c : nat) : nat -> nat -> nat -> nat -> Prop :=
| rreach_refl x ye : rreach c x ye x ye
| rreach_step x ye x1 ye1 x2 ye2 :
    rreach c x ye x1 ye1 ->
    x2 < nx -> ye2 < ny * M ->
    A (mkV c x1 ye1 x2 ye2) = true ->
    L E (mkV c x1 ye1 x2 ye2) = true ->
    rreach c x ye x2 ye2.

Theorem rabin_impl_reachable_winning c x ye x' ye' :
  c < nc -> x < nx -> ye < ny * M ->
  rreach c x ye x' ye' ->
  win (rst_of c x ye) = true ->
  x' < nx /\ ye' < ny * M /\ win (rst_of c x' ye') = true.
Proof.
  intros Hc Hx Hye Hr Hz. induction Hr as [x ye|x ye x1 ye1 x2 ye2 Hr IH Hx2 Hye2 HA HE].
  - auto.
  - destruct (IH Hx Hye Hz) as [Hx1 [Hye1 Hz1]]. split; [exact Hx2|]. split; [exact Hye2|].
    assert (Hv : inrE (mkV c x1 ye1 x2 ye2)).
    { unfold Kleene.inr, in_range. cbn [vc vx vy vxp vyp].
      repeat rewrite andb_true_iff. repeat rewrite Nat.ltb_lt. lia. }
    apply (rabin_impl_closed _ Hv HA HE).
Qed.

End Closure2.
